(* The hand-written model of the priority-queue object (QueueModel.v) against the
   model of the "next" algorithm (Next.v), and the C01 / C02 / C08 theorems for it.

   Next.v keeps the queue as a list and puts the children in front of what pop left;
   the object pushes them one by one through heapq.  The two agree up to the order
   of the list that represents the heap, which no queue meeting the contract can
   see: the invariant of NextProofs (Inv) is stable under permutation of the pending
   list, so every theorem proved from it holds for the object, for EVERY push / pop
   meeting push_ok / pop_ok_okb. *)
From Coq Require Import String.
From Coq Require Import List Arith Bool NArith Lia Sorting.Permutation Sorting.Sorted.
From Pcfg Require Import ProbAlg Next NextSpec NextProofs RestoreProofs RestoreFacts KernelRt QueueRt QueueModel.
Import ListNotations.

Section QueueProofs.
Context {A : palg}.
Notation P := (ProbAlg.P A).
Notation item := (Next.item A).
Notation heap := (heap A).
Notation pcfg_queue := (pcfg_queue A).
Notation ruleset := (Next.ruleset A).

(* ------------------------------------------------------------------ *)
(* the order of QueueItems and the heap contract                       *)
(* ------------------------------------------------------------------ *)

(* heapq with the model's __lt__ is exactly the queue contract of NextProofs *)
Lemma heap_ok_q_lt (pop : heap -> option (item * heap)) : heap_ok q_lt pop <-> pop_ok_okb pop.
Proof. split; intros H; exact H. Qed.

(* the contract only looks at __lt__ on ok probabilities *)
Lemma heap_ok_ext (lt lt' : item -> item -> bool) (pop : heap -> option (item * heap)) :
  (forall a b, okb (iprob a) = true -> okb (iprob b) = true -> lt a b = lt' a b) ->
  heap_ok lt pop -> heap_ok lt' pop.
Proof.
  intros Hlt [H1 H2]. split; [exact H1|].
  intros h x r Hok E. destruct (H2 h x r Hok E) as [Hp Hf]. split; [exact Hp|].
  assert (Hall : forall y, In y (x :: r) -> okb (iprob y) = true).
  { intros y Hy. rewrite Forall_forall in Hok. apply Hok.
    eapply Permutation_in; [apply Permutation_sym; exact Hp|exact Hy]. }
  rewrite Forall_forall in *. intros y Hy.
  rewrite <- Hlt; [now apply Hf| |]; apply Hall; [now right|now left].
Qed.

(* the six comparisons are one consistent (reversed) order on ok probabilities *)
Lemma q_order_consistent (a b : item) :
  okb (iprob a) = true -> okb (iprob b) = true ->
  q_le a b = negb (q_lt b a) /\ q_ge a b = negb (q_gt b a) /\ q_gt a b = q_lt b a /\ q_ge a b = q_le b a /\
  q_ne a b = negb (q_eq a b) /\ q_eq a b = (q_le a b && q_ge a b)%bool /\
  q_le a b = (q_lt a b || q_eq a b)%bool.
Proof.
  intros Ha Hb. unfold q_le, q_lt, q_ge, q_gt, q_ne, q_eq, plt, peq.
  destruct (ple_total A _ _ Ha Hb) as [H|H]; rewrite H;
    destruct (ple (iprob a) (iprob b)) eqn:E1; destruct (ple (iprob b) (iprob a)) eqn:E2;
    try discriminate; repeat split; reflexivity.
Qed.

(* ------------------------------------------------------------------ *)
(* pushes: the heap as a list, up to permutation                       *)
(* ------------------------------------------------------------------ *)
Section Push.
Variable push : heap -> item -> heap.
Hypothesis Hpush : push_ok push.

Lemma q_push_all_perm (l : list item) : forall h, Permutation (q_push_all push h l) (l ++ h).
Proof.
  unfold q_push_all. induction l as [|a l IH]; intros h; simpl; [apply Permutation_refl|].
  eapply perm_trans; [apply IH|].
  eapply perm_trans; [apply Permutation_app_head; apply Hpush|].
  apply Permutation_sym. apply Permutation_middle.
Qed.

Lemma q_push_walk_perm (w : item -> list item) (l : list item) : forall h,
  Permutation (fold_left (fun h it => q_push_all push h (w it)) l h) (flat_map w l ++ h).
Proof.
  induction l as [|a l IH]; intros h; simpl; [apply Permutation_refl|].
  eapply perm_trans; [apply IH|].
  eapply perm_trans; [apply Permutation_app_head; apply q_push_all_perm|].
  rewrite <- app_assoc.
  eapply perm_trans; [apply Permutation_app_swap_app|]. apply Permutation_refl.
Qed.

End Push.

(* ------------------------------------------------------------------ *)
(* the invariant of NextProofs does not see the order of the pending list *)
(* ------------------------------------------------------------------ *)
Lemma Inv_perm (rs : ruleset) (inS : item -> bool) (E Q Q' : list item) :
  Permutation Q Q' ->
  Inv rs inS {| emitted := E; pending := Q |} -> Inv rs inS {| emitted := E; pending := Q' |}.
Proof.
  intros Hp [Hnd Hsub Hfront Hadopt Hsorted Hle]. cbn [emitted pending] in *.
  assert (Hin : forall x, In x (E ++ Q') <-> In x (E ++ Q)).
  { intros x. rewrite !in_app_iff. split; (intros [H|H]; [now left|right]).
    - eapply Permutation_in; [apply Permutation_sym; exact Hp|exact H].
    - eapply Permutation_in; [exact Hp|exact H]. }
  constructor; cbn [emitted pending].
  - eapply Permutation_NoDup; [apply Permutation_app_head; exact Hp|exact Hnd].
  - intros x Hx. apply Hsub. now apply Hin.
  - intros c Hc. apply Hin. now apply Hfront.
  - intros c Hc Hex. rewrite Hin. now apply Hadopt.
  - exact Hsorted.
  - intros e q He Hq. apply Hle; [exact He|].
    eapply Permutation_in; [apply Permutation_sym; exact Hp|exact Hq].
Qed.

(* ------------------------------------------------------------------ *)
(* runs of the object                                                  *)
(* ------------------------------------------------------------------ *)
Lemma q_run_S_end (nx : pcfg_queue -> option item * pcfg_queue) n s :
  q_run nx (S n) s = q_step nx (q_run nx n s).
Proof.
  revert s. induction n as [|n IH]; intros s; [reflexivity|].
  change (q_run nx (S (S n)) s) with (q_run nx (S n) (q_step nx s)). rewrite IH. reflexivity.
Qed.

(* two `next` functions that agree on the states a run goes through give the same run *)
Lemma q_run_ext (J : list item * pcfg_queue -> Prop) (nx1 nx2 : pcfg_queue -> option item * pcfg_queue) :
  (forall s, J s -> nx1 (snd s) = nx2 (snd s)) ->
  (forall s, J s -> J (q_step nx2 s)) ->
  forall n s, J s -> q_run nx1 n s = q_run nx2 n s.
Proof.
  intros H1 H2. induction n as [|n IH]; intros s Hs; [reflexivity|].
  simpl. assert (E : q_step nx1 s = q_step nx2 s) by (unfold q_step; now rewrite H1).
  rewrite E. apply IH. now apply H2.
Qed.

Section Runs.
Variable push : heap -> item -> heap.
Variable pop : heap -> option (item * heap).
Hypothesis Hpush : push_ok push.
Hypothesis Hpop : pop_ok_okb pop.
Variable rs : ruleset.
Hypothesis Hwf : wf rs.

Local Notation nx := (q_next push pop (find_children rs)).

(* one call of next against one step of Next.v: the same item is emitted, the
   heaps hold the same elements *)
Lemma q_step_view (s : list item * pcfg_queue) :
  emitted (q_view (q_step nx s)) = emitted (step pop rs (q_view s)) /\
  Permutation (pending (q_view (q_step nx s))) (pending (step pop rs (q_view s))).
Proof.
  unfold q_step, q_next, step, step_gen, q_view. cbn [emitted pending].
  destruct (pop (p_queue (snd s))) as [[x r]|]; cbn [fst snd emitted pending p_queue].
  - split; [reflexivity|]. apply (q_push_all_perm push Hpush).
  - split; [reflexivity|apply Permutation_refl].
Qed.

(* the other attributes: next records the popped probability and touches nothing else *)
Lemma q_step_attrs (s : list item * pcfg_queue) :
  min_probability (snd (q_step nx s)) = min_probability (snd s) /\
  max_queue_size (snd (q_step nx s)) = max_queue_size (snd s) /\
  match pop (p_queue (snd s)) with
  | Some (x, _) => fst (q_step nx s) = x :: fst s /\ max_probability (snd (q_step nx s)) = iprob x
  | None => q_step nx s = s
  end.
Proof.
  unfold q_step, q_next. destruct (pop (p_queue (snd s))) as [[x r]|]; cbn [fst snd]; repeat split.
  now destruct s.
Qed.

Section Closure.
Variable inS : item -> bool.
Hypothesis H1 : down_closed rs inS.
Hypothesis H2 : adopter_closed rs inS.

Lemma Inv_q_step s : Inv rs inS (q_view s) -> Inv rs inS (q_view (q_step nx s)).
Proof.
  intros HI. pose proof (Inv_step rs Hwf pop Hpop inS H1 _ HI) as HI'.
  destruct (q_step_view s) as [He Hp].
  destruct (step pop rs (q_view s)) as [E' Q']. cbn [emitted pending] in *.
  unfold q_view in *. cbn [emitted pending] in *. rewrite He.
  eapply Inv_perm; [apply Permutation_sym; exact Hp|exact HI'].
Qed.

Lemma Inv_q_run n s : Inv rs inS (q_view s) -> Inv rs inS (q_view (q_run nx n s)).
Proof.
  induction n as [|n IH]; intros H; [exact H|]. rewrite q_run_S_end. apply Inv_q_step. now apply IH.
Qed.

Lemma q_run_length n s0 :
  Inv rs inS (q_view s0) -> fst s0 = [] -> n <= length (closure_set rs inS) ->
  length (fst (q_run nx n s0)) = n.
Proof.
  intros HI0 He0. induction n as [|n IH]; intros Hn.
  - simpl. now rewrite He0.
  - rewrite q_run_S_end. specialize (IH ltac:(lia)).
    pose proof (Inv_q_run n s0 HI0) as HI.
    assert (Hne : pending (q_view (q_run nx n s0)) <> []).
    { apply (Inv_productive rs Hwf inS H2); [exact HI|]. unfold q_view. cbn [emitted]. lia. }
    unfold q_view in Hne. cbn [pending] in Hne.
    destruct (q_step_attrs (q_run nx n s0)) as [_ [_ S3]].
    destruct (pop (p_queue (snd (q_run nx n s0)))) as [[x r]|] eqn:Ep.
    + destruct S3 as [Sa _]. rewrite Sa. simpl. lia.
    + destruct Hpop as [Hp1 _]. apply Hp1 in Ep. contradiction.
Qed.

Theorem q_closure (q0 : pcfg_queue) :
  Permutation (p_queue q0) (closure_frontier rs inS) ->
  let s := fun n => q_view (q_run nx n ([], q0)) in
  (forall n, nonincreasing (rev (emitted (s n)))) /\
  (forall n e q, In e (emitted (s n)) -> In q (pending (s n)) -> ple (iprob q) (iprob e) = true) /\
  (forall n, NoDup (emitted (s n) ++ pending (s n))) /\
  (forall n x, In x (emitted (s n) ++ pending (s n)) -> In x (closure_set rs inS)) /\
  (forall n, n <= length (closure_set rs inS) -> length (emitted (s n)) = n) /\
  Permutation (emitted (s (length (closure_set rs inS)))) (closure_set rs inS) /\
  pending (s (length (closure_set rs inS))) = [].
Proof.
  intros Hq0 s.
  assert (HI0 : Inv rs inS (q_view ([], q0))) by (apply Inv_init; exact Hq0).
  assert (HI : forall n, Inv rs inS (s n)) by (intros n; apply Inv_q_run; exact HI0).
  assert (Hlen : forall n, n <= length (closure_set rs inS) -> length (emitted (s n)) = n).
  { intros n Hn. apply (q_run_length n ([], q0) HI0 eq_refl Hn). }
  split; [|split; [|split; [|split; [|split]]]].
  - intros n. apply (inv_sorted _ _ _ (HI n)).
  - intros n. apply (inv_le _ _ _ (HI n)).
  - intros n. apply (inv_nodup _ _ _ (HI n)).
  - intros n. apply (inv_sub _ _ _ (HI n)).
  - exact Hlen.
  - pose proof (HI (length (closure_set rs inS))) as HIN.
    pose proof (Hlen _ (le_n _)) as HlN.
    set (sN := s (length (closure_set rs inS))) in *. clearbody sN.
    pose proof (Inv_length rs inS sN HIN) as Hall. rewrite app_length in Hall.
    assert (Hq : pending sN = []) by (destruct (pending sN); [reflexivity|simpl in Hall; lia]).
    split; [|exact Hq].
    apply NoDup_Permutation_bis.
    + apply (NoDup_app_l _ _ (inv_nodup _ _ _ HIN)).
    + lia.
    + intros x Hx. apply (inv_sub _ _ _ HIN). apply in_app_iff. now left.
Qed.

End Closure.

(* the recorded probability: after a run that emitted something, max_probability
   is the probability of the last item next returned; min_probability and
   max_queue_size never change *)
Lemma q_run_attrs n (s0 : list item * pcfg_queue) :
  min_probability (snd (q_run nx n s0)) = min_probability (snd s0) /\
  max_queue_size (snd (q_run nx n s0)) = max_queue_size (snd s0) /\
  (fst s0 = [] ->
   match fst (q_run nx n s0) with
   | x :: _ => max_probability (snd (q_run nx n s0)) = iprob x
   | [] => max_probability (snd (q_run nx n s0)) = max_probability (snd s0)
   end).
Proof.
  induction n as [|n IH].
  - simpl. repeat split. intros ->. reflexivity.
  - rewrite q_run_S_end. destruct IH as [I1 [I2 I3]].
    destruct (q_step_attrs (q_run nx n s0)) as [S1 [S2 S3]].
    split; [congruence|]. split; [congruence|]. intros He. specialize (I3 He).
    destruct (pop (p_queue (snd (q_run nx n s0)))) as [[x r]|].
    + destruct S3 as [Sa Sb]. rewrite Sa. exact Sb.
    + rewrite S3. exact I3.
Qed.

(* ---- a new session (C01, C02) ---- *)
Theorem q_whole_run (top bot : P) (size : N) :
  let s := fun n => q_view (q_run nx n ([], q_start push top bot size rs)) in
  (forall n, nonincreasing (rev (emitted (s n)))) /\
  (forall n e q, In e (emitted (s n)) -> In q (pending (s n)) -> ple (iprob q) (iprob e) = true) /\
  (forall n, NoDup (emitted (s n) ++ pending (s n))) /\
  (forall n x, In x (emitted (s n) ++ pending (s n)) -> In x (all_preterminals rs)) /\
  (forall n, n <= total rs -> length (emitted (s n)) = n) /\
  Permutation (emitted (s (total rs))) (all_preterminals rs) /\
  pending (s (total rs)) = [].
Proof.
  pose proof (q_closure (fun _ => true) (all_down_closed rs) (all_adopter_closed rs)
                (q_start push top bot size rs)) as H.
  rewrite closure_set_all in H. apply H.
  unfold q_start, q_new. cbn [p_queue].
  eapply perm_trans; [apply (q_push_all_perm push Hpush)|]. rewrite app_nil_r. apply (roots_perm rs Hwf).
Qed.

(* ---- a restored session (C08) ---- *)
Lemma q_resume_heap (size : N) (m mn : P) :
  Permutation (p_queue (q_resume push size rs m mn)) (restored_gen false rs m).
Proof.
  unfold q_resume, q_restored. cbn [p_queue].
  eapply perm_trans; [apply (q_push_walk_perm push Hpush)|]. rewrite app_nil_r. apply Permutation_refl.
Qed.

Theorem q_resumed_run (size : N) (m mn : P) :
  okb m = true ->
  let SS := filter (below m) (all_preterminals rs) in
  let s := fun n => q_view (q_run nx n ([], q_resume push size rs m mn)) in
  (forall n, nonincreasing (rev (emitted (s n)))) /\
  (forall n e q, In e (emitted (s n)) -> In q (pending (s n)) -> ple (iprob q) (iprob e) = true) /\
  (forall n, NoDup (emitted (s n) ++ pending (s n))) /\
  (forall n x, In x (emitted (s n) ++ pending (s n)) -> In x SS) /\
  (forall n, n <= length SS -> length (emitted (s n)) = n) /\
  Permutation (emitted (s (length SS))) SS /\
  pending (s (length SS)) = [].
Proof.
  intros Hm.
  apply (q_closure (below m) (below_down_closed rs Hwf m Hm) (below_adopter_closed rs Hwf m Hm)
           (q_resume push size rs m mn)).
  eapply perm_trans; [apply q_resume_heap|]. exact (restore_frontier rs Hwf m Hm).
Qed.

End Runs.

(* ---- the property's sentence (C08), for two objects: U = what a new session's
   object returns until exhaustion (oldest first), cut before x; B = what an
   object restored with the probability recorded when x was popped returns.
   The two sessions may use different heaps. ---- *)
Theorem q_suffix_and_repeats (rs : ruleset) (push push' : heap -> item -> heap)
        (pop pop' : heap -> option (item * heap)) (top bot mn : P) (size size' : N) U1 x U2 :
  wf rs -> push_ok push -> push_ok push' -> pop_ok_okb pop -> pop_ok_okb pop' ->
  rev (fst (q_run (q_next push pop (find_children rs)) (total rs) ([], q_start push top bot size rs))) = U1 ++ x :: U2 ->
  let m := iprob x in
  let B := fst (q_run (q_next push' pop' (find_children rs)) (length (filter (below m) (all_preterminals rs)))
                      ([], q_resume push' size' rs m mn)) in
  (forall y, In y (x :: U2) -> In y B) /\
  (forall y, In y B -> ple (iprob y) m = true) /\
  NoDup B /\
  (forall y, In y B -> In y U1 -> peq (iprob y) m = true) /\
  nonincreasing (rev B).
Proof.
  intros Hwf Hpush Hpush' Hpop Hpop' HU m B.
  destruct (q_whole_run push pop Hpush Hpop rs Hwf top bot size) as (Hs & _ & _ & _ & _ & Hperm & _).
  pose proof (Hs (total rs)) as Hsorted. unfold q_view in Hsorted, Hperm. cbn [emitted] in Hsorted, Hperm.
  rewrite HU in Hsorted. destruct (sorted_split _ _ _ _ Hsorted) as [Hbefore Hafter].
  assert (Hall : forall y, In y (U1 ++ x :: U2) -> In y (all_preterminals rs)).
  { intros y Hy. rewrite <- HU in Hy. apply in_rev in Hy. eapply Permutation_in; eauto. }
  assert (Hx : In x (all_preterminals rs)) by (apply Hall, in_app_iff; right; left; reflexivity).
  assert (Hm : okb m = true) by (apply (good_iprob_ok rs Hwf), In_all_preterminals, Hx).
  destruct (q_resumed_run push' pop' Hpush' Hpop' rs Hwf size' m mn Hm) as (R1 & _ & R2 & R3 & R4 & R5 & R6).
  unfold q_view in R1, R2, R5, R6. cbn [emitted pending] in R1, R2, R5, R6. fold B in R5.
  assert (HB : forall y, In y B <-> In y (filter (below m) (all_preterminals rs))).
  { intros y. split; intros Hy; [eapply Permutation_in; eauto | eapply Permutation_in; [apply Permutation_sym|]; eauto]. }
  repeat split.
  - intros y Hy. apply HB. apply filter_In. split.
    + apply Hall. apply in_app_iff. right. exact Hy.
    + unfold below. destruct Hy as [<-|Hy]; [apply (ple_refl A), Hm|].
      rewrite Forall_forall in Hafter. apply Hafter, Hy.
  - intros y Hy. apply HB in Hy. apply filter_In in Hy. apply Hy.
  - pose proof (R2 (length (filter (below m) (all_preterminals rs)))) as Hnd.
    fold B in Hnd. rewrite R6, app_nil_r in Hnd. exact Hnd.
  - intros y Hy Hy1. unfold peq. apply HB in Hy. apply filter_In in Hy. destruct Hy as [_ Hle].
    unfold below in Hle. rewrite Hle. simpl.
    rewrite Forall_forall in Hbefore. apply Hbefore, Hy1.
  - apply R1.
Qed.

(* ---- update_save_config / getfloat: what is written is what is read back ---- *)
Lemma q_saved_reads (d : P) (q : pcfg_queue) (cfg : config A) :
  cfg_getfloat d (q_saved q cfg) "guessing_info" "max_probability" = max_probability q /\
  cfg_getfloat d (q_saved q cfg) "guessing_info" "min_probability" = min_probability q.
Proof. split; reflexivity. Qed.

End QueueProofs.
