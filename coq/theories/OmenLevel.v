(* OmenLevel.v -- models for C11: the three places that assign an OMEN level
   to a string.  Definitions only.

   1. the TRAINER's in-memory tables after smoothing (levels as given; ln/floor
      of smoothing.py are not modelled) and find_omen_level
      (/repo/lib_trainer/omen/evaluate_password.py:13-66);
   2. the writers of IP.level / EP.level / CP.level / LN.level
      (/repo/lib_trainer/omen/omen_file_output.py:36-101) as functions to line
      lists.  A line of IP/EP/CP is the pair (level, string) that is written as
      str(level) TAB string LF; a line of LN.level is a level;
   3. the SCORER's readers and OmenScorer.parse
      (/repo/lib_scorer/omen_scorer.py:62-104, 106-240);
   4. the GUESSER's reader view (/repo/lib_guesser/omen/input_file_io.py),
      mapping the files into the record of OmenSpec.v. *)
From Coq Require Import List Arith Bool NArith ZArith.
From Pcfg Require Import OmenSpec.
Import ListNotations.

(* ------------------------------------------------------------------ *)
(* 1. Trainer tables (AlphabetLookup after apply_smoothing)             *)

(* grammar[key] = { ip_level, ep_level, next_letter : { c : (level, count) } };
   Python dicts keep insertion order, the lists below are in that order. *)
Record tentry := mk_tentry {
  te_key  : ostr;
  te_ip   : nat;
  te_ep   : nat;
  te_next : list (N * nat)
}.

Record ttab := mk_ttab {
  tt_ngram   : nat;
  tt_min_len : nat;          (* AlphabetLookup.min_length = max(1, ngram)     *)
  tt_max_len : nat;          (* AlphabetLookup.max_length                      *)
  tt_grammar : list tentry;
  tt_ln      : list nat      (* ln_lookup[i][0], i = length-1                  *)
}.

Fixpoint find_entry (k : ostr) (g : list tentry) : option tentry :=
  match g with
  | [] => None
  | e :: r => if ostr_eqb (te_key e) k then Some e else find_entry k r
  end.

Fixpoint find_letter (c : N) (nl : list (N * nat)) : option nat :=
  match nl with
  | [] => None
  | (d, l) :: r => if N.eqb d c then Some l else find_letter c r
  end.

(* grammar[chunk[:-1]]['next_letter'][chunk[-1]][0]; None = KeyError *)
Definition t_cp (T : ttab) (chunk : ostr) : option nat :=
  match find_entry (removelast chunk) (tt_grammar T) with
  | None => None
  | Some e => find_letter (last chunk 0%N) (te_next e)
  end.

(* the while loop of find_omen_level: one n-gram window per position, written
   as a recursion on the string (window = first n1+1 characters of the suffix) *)
Fixpoint t_trans (T : ttab) (n1 : nat) (s : ostr) : option nat :=
  match s with
  | [] => Some 0
  | _ :: r =>
      if Nat.leb (length s) n1 then Some 0
      else oadd (t_cp T (firstn (S n1) s)) (t_trans T n1 r)
  end.

Definition t_ip (T : ttab) (p : ostr) : option nat :=
  option_map te_ip (find_entry p (tt_grammar T)).

(* find_omen_level; None is the -1 of the code *)
Definition trainer_level (T : ttab) (s : ostr) : option nat :=
  let n := length s in
  if Nat.ltb n (tt_min_len T) || Nat.ltb (tt_max_len T) n then None
  else
    let n1 := tt_ngram T - 1 in
    oadd (nth_error (tt_ln T) (n - 1))
         (oadd (t_ip T (firstn n1 s)) (t_trans T n1 s)).

(* ------------------------------------------------------------------ *)
(* 2. Writers                                                           *)

Record ofiles := mk_ofiles {
  f_ngram : nat;                  (* config.txt: ngram *)
  f_ip : list (nat * ostr);
  f_ep : list (nat * ostr);
  f_cp : list (nat * ostr);
  f_ln : list nat
}.

Definition write_ip (T : ttab) : list (nat * ostr) :=
  map (fun e => (te_ip e, te_key e)) (tt_grammar T).
Definition write_ep (T : ttab) : list (nat * ostr) :=
  map (fun e => (te_ep e, te_key e)) (tt_grammar T).
Definition entry_cp_lines (e : tentry) : list (nat * ostr) :=
  map (fun cl => (snd cl, te_key e ++ [fst cl])) (te_next e).
Definition write_cp (T : ttab) : list (nat * ostr) :=
  flat_map entry_cp_lines (tt_grammar T).
Definition write_ln (T : ttab) : list nat := tt_ln T.

Definition write (T : ttab) : ofiles :=
  mk_ofiles (tt_ngram T) (write_ip T) (write_ep T) (write_cp T) (write_ln T).

(* ------------------------------------------------------------------ *)
(* 3. Scorer                                                            *)

(* self.ip / self.cp are dicts filled line by line: a later line with the same
   key overwrites an earlier one, hence the reversed line lists searched from
   the front.  self.ngram is the length of the string of the FIRST CP line
   (-1, here None, when CP.level is empty).  self.ln starts as ['10'] so that
   index = length. *)
Record scorer := mk_scorer {
  sc_ngram : option nat;
  sc_ip : list (nat * ostr);
  sc_cp : list (nat * ostr);
  sc_ln : list nat
}.

Definition load_s (F : ofiles) : scorer :=
  mk_scorer (match f_cp F with [] => None | e :: _ => Some (length (snd e)) end)
            (rev (f_ip F)) (rev (f_cp F)) (10 :: f_ln F).

Fixpoint s_trans (Sc : scorer) (n1 : nat) (s : ostr) : option nat :=
  match s with
  | [] => Some 0
  | _ :: r =>
      if Nat.leb (length s) n1 then Some 0
      else oadd (first_level (firstn (S n1) s) (sc_cp Sc)) (s_trans Sc n1 r)
  end.

(* OmenScorer.parse.  With an empty CP.level the code has ngram = -1: the
   length test passes, the while loop runs at least once (end_pos = -1 <=
   len) and the first self.cp[...] lookup raises KeyError whatever the string
   (if self.ip[...] did not already): the result is -1 for every string. *)
Definition scorer_level (Sc : scorer) (s : ostr) : option nat :=
  match sc_ngram Sc with
  | None => None
  | Some ng =>
      let n := length s in
      if Nat.ltb n ng || Nat.ltb (length (sc_ln Sc) - 1) n then None
      else
        oadd (nth_error (sc_ln Sc) n)
             (oadd (first_level (firstn (ng - 1) s) (sc_ip Sc)) (s_trans Sc (ng - 1) s))
  end.

(* ------------------------------------------------------------------ *)
(* 4. Guesser reader view                                               *)

Definition guesser_max_level : nat := 10.   (* input_file_io._load_config *)

Definition levels_ok (m : nat) (ls : list (nat * ostr)) : bool :=
  forallb (fun e => Nat.leb (fst e) m) ls.

(* load_rules: every level above max_level makes the loader raise (None) *)
Definition load_g (F : ofiles) : option omen :=
  if levels_ok guesser_max_level (f_ip F) && levels_ok guesser_max_level (f_ep F) &&
     levels_ok guesser_max_level (f_cp F) && forallb (fun l => Nat.leb l guesser_max_level) (f_ln F)
  then Some (mk_omen (f_ngram F) guesser_max_level (f_ip F) (f_cp F) (f_ln F))
  else None.

(* ------------------------------------------------------------------ *)
(* 5. Line framing and codec: when do the readers get the line lists at all   *)

(* A line is written as  str(level) TAB string LF.  A reader that splits the
   text at a character of [breaks] inside the string gets a fragment without
   a TAB (the alphabet never contains TAB), i.e. a line that does not have two
   fields: both loaders raise.  A TAB inside the string gives three fields:
   both raise.  So a reader obtains exactly the written line list iff no
   string contains TAB or one of ITS line-break characters; otherwise it fails.
     scorer : open(path, 'r')            -> universal newlines: LF, CR ([scorer_breaks]; the
                                            guesser's set if it ever uses codecs.open)
     guesser: codecs.open(...) iteration -> str.splitlines (gen/Consts_gen.v:
                                            guesser_linebreaks, probed from the interpreter) *)
Definition TABc : N := 9%N.
Definition scorer_breaks : list N := [10%N; 13%N].

Definition has_any (bad : list N) (s : ostr) : bool :=
  existsb (fun c => existsb (N.eqb c) bad) s.
Definition lines_clean (bad : list N) (ls : list (nat * ostr)) : bool :=
  forallb (fun e => negb (has_any bad (snd e))) ls.

(* the scorer decodes IP.level / CP.level with SOME codec; [decoded_ok] says
   whether that gives back the text the trainer wrote (true when it opens the
   files with the ruleset's encoding) *)
Definition read_s (decoded_ok : bool) (breaks : list N) (F : ofiles) : option scorer :=
  if decoded_ok && lines_clean (TABc :: breaks) (f_ip F) && lines_clean (TABc :: breaks) (f_cp F)
  then Some (load_s F) else None.

Definition read_g (breaks : list N) (F : ofiles) : option omen :=
  if lines_clean (TABc :: breaks) (f_ip F) && lines_clean (TABc :: breaks) (f_ep F) &&
     lines_clean (TABc :: breaks) (f_cp F)
  then load_g F else None.

(* no character of the trainer's tables is in [bad] *)
Definition chars_avoidb (bad : list N) (T : ttab) : bool :=
  forallb (fun e => negb (has_any bad (te_key e)) && negb (has_any bad (map fst (te_next e)))) (tt_grammar T).
Definition chars_avoid (bad : list N) (T : ttab) : Prop :=
  forall e, In e (tt_grammar T) ->
    (forall c, In c (te_key e) -> ~ In c bad) /\ (forall c l, In (c, l) (te_next e) -> ~ In c bad).

(* the record load_g produces for the directory written from T (when every
   level is within range, see OmenLevelProofs.ol_load_g_write) *)
Definition gview (T : ttab) : omen :=
  mk_omen (tt_ngram T) guesser_max_level (write_ip T) (write_cp T) (tt_ln T).

(* ------------------------------------------------------------------ *)
(* Well-formed trainer tables: what AlphabetLookup + apply_smoothing build   *)

Fixpoint nodupN (l : list N) : bool :=
  match l with
  | [] => true
  | x :: r => negb (existsb (N.eqb x) r) && nodupN r
  end.

Definition wf_ttabb (T : ttab) : bool :=
  Nat.leb 2 (tt_ngram T) &&
  Nat.eqb (tt_min_len T) (tt_ngram T) &&
  Nat.eqb (length (tt_ln T)) (tt_max_len T) &&
  nodupb (map te_key (tt_grammar T)) &&
  forallb (fun e => Nat.eqb (length (te_key e)) (tt_ngram T - 1) && nodupN (map fst (te_next e)))
          (tt_grammar T).

Definition wf_ttab (T : ttab) : Prop :=
  2 <= tt_ngram T /\
  tt_min_len T = tt_ngram T /\
  length (tt_ln T) = tt_max_len T /\
  NoDup (map te_key (tt_grammar T)) /\
  (forall e, In e (tt_grammar T) ->
     length (te_key e) = tt_ngram T - 1 /\ NoDup (map fst (te_next e))).

(* every level is within the range the guesser's loader accepts
   (smoothing clamps to 0..10) *)
Definition levels_le (m : nat) (T : ttab) : Prop :=
  (forall e, In e (tt_grammar T) ->
     te_ip e <= m /\ te_ep e <= m /\ forall c l, In (c, l) (te_next e) -> l <= m) /\
  (forall l, In l (tt_ln T) -> l <= m).

Definition levels_leb (m : nat) (T : ttab) : bool :=
  forallb (fun e => Nat.leb (te_ip e) m && Nat.leb (te_ep e) m &&
                    forallb (fun cl => Nat.leb (snd cl) m) (te_next e)) (tt_grammar T) &&
  forallb (fun l => Nat.leb l m) (tt_ln T).

(* ------------------------------------------------------------------ *)
(* C11_counts: omen_pws_per_level is the tally of the level over the list   *)

Definition olevel_eqb (a b : option nat) : bool :=
  match a, b with
  | None, None => true
  | Some x, Some y => Nat.eqb x y
  | _, _ => false
  end.

(* run_trainer pass 3: omen_levels_count[find_omen_level(pw)] += 1 *)
Fixpoint tally_add (k : option nat) (c : list (option nat * nat)) : list (option nat * nat) :=
  match c with
  | [] => [(k, 1)]
  | (k', n) :: r => if olevel_eqb k' k then (k', S n) :: r else (k', n) :: tally_add k r
  end.

Definition levels_count (T : ttab) (pws : list ostr) : list (option nat * nat) :=
  fold_left (fun c pw => tally_add (trainer_level T pw) c) pws [].

Definition count_at (c : list (option nat * nat)) (k : option nat) : nat :=
  match find (fun e => olevel_eqb (fst e) k) c with Some e => snd e | None => 0 end.
