(* C07 over the generated writers: the file lists config.ini records (the translated
   create_config_file) are exactly the files the translated save_pcfg_data leaves in the
   directories config.ini names, whatever the disk held before. *)
From Coq Require Import String Ascii.
From Coq Require Import List NArith Bool Lia.
From Pcfg Require Import TextFile Counters CountersProofs IoFacts PipelineStr WriterRt WriterSpec WriterRtProofs
     WriterGenProofs WriterGenProofsConfig SmallGenProofsProbs.
From PcfgGen Require Import Writer_gen WriterConfig_gen Small_probs_gen.
Import ListNotations.
Open Scope N_scope.
Local Notation s_ := str_of_string.

Lemma filename_list_lkeys_nodup (O : numops) (d : list (N * list (str * N))) :
  NoDup (map fst d) -> NoDup (filename_list (@lkeys O d)).
Proof.
  intro H. unfold filename_list, lkeys. rewrite map_map. cbn [fst].
  rewrite <- (map_map (fun lc : N * list (str * N) => dec_of_N (fst lc)) file_name).
  apply NoDup_map_inj; [apply file_name_inj|].
  rewrite <- (map_map fst dec_of_N). apply NoDup_map_inj; [apply dec_of_N_inj|exact H].
Qed.

Lemma config_lists_nodup (O : numops) (P : pcounters) : pcounters_wf P ->
  forall sec names, In (sec, names) (config_lists O P) -> NoDup names.
Proof.
  intros (Ha & Hd & Ho & Hk & Hm) sec names Hin. unfold config_lists in Hin. cbn [In] in Hin.
  repeat (destruct Hin as [E|Hin]; [inversion E; subst; clear E|]);
    try (apply filename_list_lkeys_nodup; assumption);
    try (constructor; [intros []|constructor]).
  contradiction.
Qed.

Lemma model_dirs_nodup (O : numops) (P : pcounters) sens (cov : num O) n : NoDup (map fst (save_pcfg_data O P sens cov n)).
Proof.
  unfold save_pcfg_data. cbn [map fst].
  repeat (constructor; [vm_compute; intuition discriminate|]). constructor.
Qed.

Section Inst.
Context {O : numops} (repr : num O -> str) (encb : str -> N -> bool)
        (nmul : num O -> num O -> num O) (ud : str * num O).

Theorem source_config_lists_exact :
  forall (base : path) (P : pcounters) (sens : bool) (cov : num O) (n : N) (enc : str) (fs : fsys),
  fs_wf fs -> pcounters_wf P -> ruleset_encodable repr encb enc (save_pcfg_data O P sens cov n) = true ->
  let pp := parser_of O P (with_markov cov n (of_counts (sc_base (pc_structs P)))) in
  exists cfg fs',
    py_create_config_file O tt tt pp = Ok cfg /\
    py_save_pcfg_data repr encb (py_calculate_probabilities nmul ud) base pp enc sens fs = (Ok true, fs') /\
    fs_wf fs' /\
    (forall sec names, In (sec, names) (cfg_names cfg) -> sec <> s_ "START" ->
       exists dir, In (sec, dir) (cfg_dirs cfg) /\ map fst (fs_list (path_join base dir) fs') = map py_str names) /\
    (In (s_ "START", [KStr (s_ "grammar.txt")]) (cfg_names cfg) /\ In (s_ "START", s_ "Grammar") (cfg_dirs cfg) /\
     In (s_ "grammar.txt") (map fst (fs_list (path_join base (s_ "Grammar")) fs'))).
Proof.
  intros base P sens cov n enc fs Hwf HP He. cbv zeta.
  set (pp := parser_of O P (with_markov cov n (of_counts (sc_base (pc_structs P))))).
  destruct (config_create_eq O pp) as [cfg [Hc [Hnames Hdirs]]].
  exists cfg, (install_all repr base (save_pcfg_data O P sens cov n) fs).
  split; [exact Hc|]. split; [apply source_save_pcfg_data_eq; assumption|].
  split; [apply install_all_wf; exact Hwf|]. split.
  - intros sec names Hin Hsec. apply Hnames in Hin.
    assert (Hin' : In (sec, map py_str names) (config_lists O P)).
    { rewrite <- (expected_names_model O P (with_markov cov n (of_counts (sc_base (pc_structs P))))). fold pp.
      destruct Hin as [E|Hin]; [inversion E; subst; contradiction|].
      apply (in_map (fun sn : str * list pykey => (fst sn, map py_str (snd sn)))) in Hin. exact Hin. }
    destruct (config_lists_exact O P sens cov n sec _ Hin') as [dir [files [Hd [Hf Hn]]]].
    exists dir. split.
    + apply Hdirs. right. exact Hd.
    + rewrite (fs_list_install_all repr base _ fs dir files (model_dirs_nodup O P sens cov n) Hf).
      * unfold folder_texts. rewrite map_map. cbn [fst]. exact Hn.
      * rewrite Hn. apply (config_lists_nodup O P HP sec). exact Hin'.
  - split; [apply Hnames; left; reflexivity|]. split; [apply Hdirs; left; reflexivity|].
    rewrite (fs_list_install_all repr base _ fs (s_ "Grammar")
               (save_indexed [] [(s_ "grammar", with_markov cov n (of_counts (sc_base (pc_structs P))));
                                 (s_ "raw_grammar", of_counts (sc_raw (pc_structs P)))])
               (model_dirs_nodup O P sens cov n)).
    + left. reflexivity.
    + unfold save_pcfg_data. cbn [In]. do 9 right. left. reflexivity.
    + cbn. constructor; [vm_compute; intuition discriminate|constructor; [intros []|constructor]].
Qed.

End Inst.
