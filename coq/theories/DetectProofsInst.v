(* The C05 theorems for the instance the correspondence runs: constants of
   gen/Consts_gen.v, Unicode facts of gen/Unicode_gen.v (SegCorr.parse_c).
   The side conditions on the regenerated data are proved here by
   computation over the regenerated lists. *)
From Coq Require Import List ZArith NArith Bool Lia PArith FMapPositive Sorting.Permutation.
From Pcfg Require Import Str Multiword Detect Segment SegCorr DetectProofsStr DetectProofsDrive DetectProofsSimple
     DetectProofsMw DetectProofsSeg DetectProofsWeb DetectProofsKbd DetectProofsCount DetectProofsAdj DetectProofsPipe.
From PcfgGen Require Import Consts_gen Unicode_gen.
Import ListNotations.
Open Scope Z_scope.

Definition c_goodc := goodc c_isalpha c_isdigit c_lower.
Definition c_good := good c_isalpha c_isdigit c_lower.
Definition c_pm := pm c_lower.
Definition c_sound := sound c_isalpha c_isdigit c_kbs c_min_run year_prefixes context_strings.

(* U+0130 *)
Definition dotted_I : N := 304%N.

(* per table entry: lower() is not "", and when it is one character that
   character has the class of the original *)
Definition check_entry (ki : positive * cinfo) : bool :=
  match ci_lower (snd ki) with
  | [] => false
  | [x] => Bool.eqb (c_isalpha x) (ci_alpha (snd ki)) && Bool.eqb (c_isdigit x) (ci_digit (snd ki))
  | _ => true
  end.

Lemma unicode_entries_good : forallb check_entry (PositiveMap.elements unicode_table) = true.
Proof. vm_compute. reflexivity. Qed.

(* for every character (pool table, default class outside it): the facts the
   proofs need about str.lower() *)
Lemma goodc_all : forall c, c_goodc c.
Proof.
  intros c. unfold c_goodc, goodc, lower1, c_lower, c_isalpha, c_isdigit, uni_lower, uni_alpha, uni_digit.
  destruct (PositiveMap.find (ukey c) unicode_table) as [i|] eqn:E.
  - pose proof E as E'. apply PositiveMap.elements_correct in E'.
    pose proof (proj1 (forallb_forall _ _) unicode_entries_good _ E') as Hk. unfold check_entry in Hk. cbn [fst snd] in Hk.
    destruct (ci_lower i) as [|x [|? ?]]; [discriminate| |].
    + apply andb_true_iff in Hk. destruct Hk as (Ha & Hd). apply eqb_prop in Ha. apply eqb_prop in Hd.
      split; [discriminate|]. unfold c_isalpha, c_isdigit, uni_alpha, uni_digit in Ha, Hd. now split.
    + split; [discriminate|]. rewrite E. now split.
  - split; [discriminate|]. rewrite E. now split.
Qed.

Lemma good_all pw : c_good pw.
Proof. apply Forall_forall. intros c _. apply goodc_all. Qed.

Lemma lower_expanding_is_0130 : lower_expanding = [dotted_I].
Proof. reflexivity. Qed.

Lemma lower_class_mismatch_none : lower_class_mismatch = [].
Proof. reflexivity. Qed.

Lemma side_min_len : 1 <= c_min_len.
Proof. vm_compute. discriminate. Qed.

Lemma side_year_prefixes : Forall (fun q => len q = 2) year_prefixes.
Proof. repeat constructor. Qed.

(* the statement fixes the prefixes: "years are four digits starting 19 or 20" *)
Lemma side_year_prefixes_19_20 : year_prefixes = [[49; 57]; [50; 48]]%N.
Proof. reflexivity. Qed.

Lemma side_tlds_nonempty : Forall (fun t => 1 <= len t) tld_list.
Proof.
  apply Forall_forall. intros x Hx. apply Z.leb_le.
  revert x Hx. apply (proj1 (forallb_forall (fun t => 1 <=? len t) tld_list)). vm_compute. reflexivity.
Qed.

(* the source searches the length-preserving lower-casing (it did not before
   the repair: see refuted_*_0130) *)
Lemma side_lower_aligned : seg_lower_aligned = true.
Proof. reflexivity. Qed.

Lemma side_min_run : 4 <= c_min_run.
Proof. vm_compute. discriminate. Qed.

Definition c_counters_ok := counters_ok c_isupper c_lower.

(* C05 for the pipeline *)
Theorem parse_c_full :
  forall m pw, pw <> [] ->
  exists r, parse_c m pw = POk r /\ tiles c_pm pw (p_sections r) /\ Forall c_sound (p_sections r) /\
            Forall (fun y => snd y <> None) (p_sections r) /\ c_counters_ok r /\ no_adj (isC 6) (p_sections r).
Proof.
  intros m pw Hne. unfold parse_c, parse_gen. rewrite side_lower_aligned.
  apply (parse_full c_isalpha c_isdigit c_isupper c_lower c_kbs kb_false_positive_words c_min_run tld_list
           year_prefixes context_strings c_threshold c_min_len c_max_len side_min_len side_year_prefixes
           side_tlds_nonempty side_min_run).
  - apply good_all.
  - assumption.
Qed.

Theorem parse_c_ok :
  forall m pw, pw <> [] ->
  exists r, parse_c m pw = POk r /\ tiles c_pm pw (p_sections r) /\ Forall c_sound (p_sections r) /\
            Forall (fun y => snd y <> None) (p_sections r).
Proof. intros m pw H. destruct (parse_c_full m pw H) as (r & H1 & H2 & H3 & H4 & _). eauto. Qed.

(* no two digit sections are adjacent: a digit section is a maximal digit run *)
Theorem parse_c_digit_maximal : forall m pw r, pw <> [] -> parse_c m pw = POk r ->
  forall a x y b, p_sections r = a ++ x :: y :: b -> isC 6 x = true -> isC 6 y = false.
Proof.
  intros m pw r Hne Er a x y b Es Hx. destruct (parse_c_full m pw Hne) as (r' & Er' & _ & _ & _ & _ & Hn).
  rewrite Er in Er'. injection Er' as <-. rewrite Es in Hn. clear -Hn Hx.
  induction a as [|z a IH]; simpl in Hn; [|apply IH; tauto]. destruct Hn as (H & _). exact (H Hx).
Qed.

Theorem parse_c_counters : forall m pw, pw <> [] -> exists r, parse_c m pw = POk r /\ c_counters_ok r.
Proof. intros m pw H. destruct (parse_c_full m pw H) as (r & H1 & _ & _ & _ & H5 & _). eauto. Qed.

(* a whole training pass: one parser object, the passwords in order *)
Theorem parse_c_counters_fold : forall m pws, Forall (fun pw => pw <> []) pws ->
  exists rs, map (parse_c m) pws = map POk rs /\ Forall c_counters_ok rs.
Proof.
  intros m pws H. induction H as [|pw pws Hpw _ (rs & E & Hrs)]; [now exists []|].
  destruct (parse_c_counters m pw Hpw) as (r & Er & Hr). exists (r :: rs). simpl. rewrite Er, E. split; [reflexivity|now constructor].
Qed.

Lemma Permutation_flat_map {X Y} (f g : X -> list Y) l :
  Forall (fun x => Permutation (f x) (g x)) l -> Permutation (flat_map f l) (flat_map g l).
Proof. induction 1; simpl; [constructor|]. now apply Permutation_app. Qed.

(* ---- witnesses: what the code did on U+0130 before the repair (the detectors
   searched section[0].lower() and sliced section[0]) *)
Notation parse_old := (parse_gen false).

Definition w_web : str := [304; 46; 114; 117; 50; 304]%N.          (* 'İ.ru2İ' *)
Definition w_web_secs : list section :=
  [([105; 775; 46; 114; 117]%N, Some LW); ([304]%N, Some (LA 1))].

Lemma refuted_website_0130 :
  parse_old [] w_web = POk {| p_sections := w_web_secs; p_walks := []; p_emails := []; p_providers := [];
                            p_urls := [[105; 775; 46; 114; 117]%N]; p_hosts := [[105; 775; 46; 114; 117]%N]; p_prefixes := [None];
                            p_years := []; p_context := []; p_alpha := [[105]%N]; p_masks := [[85]%N];
                            p_digits := []; p_other := []; p_prince := [LW; LA 1]; p_supported := false;
                            p_base := [LW; LA 1] |} /\
  ~ tiles c_pm w_web w_web_secs /\ In 50%N w_web /\ ~ In 50%N (concat (map fst w_web_secs)).
Proof.
  split; [vm_compute; reflexivity|]. split; [|split].
  - intros (pieces & Hc & Hf). unfold w_web_secs in Hf.
    inversion Hf as [|p1 x ps xs H1 Hf']; subst. inversion Hf' as [|p2 y ps' ys H2 Hf'']; subst. inversion Hf''; subst.
    unfold c_pm, pm in H1, H2. simpl in H1, H2. subst p2. cbn [concat] in Hc. rewrite app_nil_r in Hc.
    assert (p1 = [304; 46; 114; 117; 50]%N).
    { change w_web with ([304; 46; 114; 117; 50]%N ++ [304%N]) in Hc. now apply app_inv_tail in Hc. }
    subst p1. vm_compute in H1. discriminate.
  - vm_compute. tauto.
  - vm_compute. intuition discriminate.
Qed.

Definition w_empty : str := [304; 46; 99; 111; 109]%N.              (* 'İ.com' *)
Lemma refuted_empty_segment_0130 :
  exists r, parse_old [] w_empty = POk r /\
            p_sections r = [([105; 775; 46; 99; 111; 109]%N, Some LW); ([], Some (LO 0))].
Proof. eexists. split; vm_compute; reflexivity. Qed.

Definition w_email : str := [304; 64; 97; 46; 99; 111; 109; 49]%N.  (* 'İ@a.com1' *)
Lemma refuted_email_0130 :
  exists r, parse_old [] w_email = POk r /\
            p_sections r = [(w_email, Some LE); ([], Some (LO 0))] /\
            p_emails r = [[105; 775; 64; 97; 46; 99; 111; 109]%N].
Proof. eexists. split; [|split]; vm_compute; reflexivity. Qed.

Definition w_alpha : str := [97; 304; 98]%N.                        (* 'aİb' *)
Lemma refuted_alpha_0130 :
  exists r, parse_old [] w_alpha = POk r /\
            p_sections r = [([97; 304]%N, Some (LA 2)); ([98]%N, Some (LA 1))] /\
            p_alpha r = [[97; 105]%N; [98]%N] /\
            mwcount_c [] [97; 105]%N = 0 /\ mwcount_c [] [98]%N = 0.
Proof. eexists. repeat split; vm_compute; reflexivity. Qed.

(* a non-trivial instance on which every hypothesis of the theorems holds *)
Definition w_demo : str := [49; 113; 97; 122; 50; 48; 49; 57; 35; 49; 112; 97; 115; 115; 33]%N.   (* '1qaz2019#1pass!' *)
Lemma demo_parse :
  exists r, parse_c [] w_demo = POk r /\
            p_sections r = [([49; 113; 97; 122]%N, Some (LK 4)); ([50; 48; 49; 57]%N, Some LY); ([35; 49]%N, Some LX);
                            ([112; 97; 115; 115]%N, Some (LA 4)); ([33]%N, Some (LO 1))] /\
            w_demo <> [].
Proof. eexists. repeat split; try (vm_compute; reflexivity). discriminate. Qed.

Theorem parse_c_never_raises : forall m pw, pw <> [] -> parse_c m pw <> PErr.
Proof. intros m pw H E. destruct (parse_c_ok m pw H) as (r & Hr & _). congruence. Qed.

Theorem kw_c_ok : forall pw, pw <> [] ->
  exists sl f, detect_keyboard_walk c_isalpha c_isdigit c_lower c_kbs kb_false_positive_words c_min_run (length pw) pw
               = Some (sl, f) /\ tiles c_pm pw sl /\ Forall c_sound sl.
Proof.
  intros pw H. destruct (kw_ok c_isalpha c_isdigit c_lower c_kbs kb_false_positive_words c_min_run year_prefixes
                        context_strings side_min_run (length pw) pw (Nat.le_refl _) H) as (sl & f & H1 & H2 & H3 & _). eauto.
Qed.

(* ---- maximality of digit runs and the justification of word splits, at
   the level of one detector call on one unlabelled section *)

Theorem digit_run_maximal : forall s p f, detect_digits c_isdigit s = DYes p f ->
  exists l1 l2 l3, s = l1 ++ l2 ++ l3 /\ forallb (fun c => negb (c_isdigit c)) l1 = true /\
    forallb c_isdigit l2 = true /\ l2 <> [] /\ stops c_isdigit l3 /\
    p = osec l1 ++ [(l2, Some (LD (len l2)))] ++ osec l3 /\ f = l2.
Proof. exact (detect_digits_spec c_isdigit). Qed.

Theorem digit_none_left : forall s, detect_digits c_isdigit s = DNo -> forallb (fun c => negb (c_isdigit c)) s = true.
Proof. exact (detect_digits_none c_isdigit). Qed.

Theorem alpha_run_split : forall m s p f,
  detect_alpha c_isalpha c_isupper c_lower true (mwparse_c m) s = DYes p f ->
  exists l1 l2 l3 pieces b, s = l1 ++ l2 ++ l3 /\ l2 <> [] /\
    forallb (fun c => negb (c_isalpha c)) (map (lower1 c_lower) l1) = true /\
    forallb c_isalpha (map (lower1 c_lower) l2) = true /\
    stops c_isalpha (map (lower1 c_lower) l3) /\
    mwparse_c m (map (lower1 c_lower) l2) = Some (b, map (map (lower1 c_lower)) pieces) /\
    concat pieces = l2 /\ pieces <> [] /\
    p = osec l1 ++ map (fun pc => (pc, Some (LA (len pc)))) pieces ++ osec l3 /\
    f = (map (map (lower1 c_lower)) pieces, map (case_mask c_isupper) pieces).
Proof.
  intros m s p f. apply detect_alpha_spec.
  - intros x b ws. apply (mw_parse_concat c_lower c_threshold c_min_len c_max_len side_min_len).
  - apply (good_lowne c_isalpha c_isdigit). apply good_all.
Qed.

(* a character is never both a letter and a digit (pool table, default class) *)
Definition check_class (ki : positive * cinfo) : bool := negb (ci_alpha (snd ki) && ci_digit (snd ki)).
Lemma unicode_classes_disjoint : forallb check_class (PositiveMap.elements unicode_table) = true.
Proof. vm_compute. reflexivity. Qed.
Theorem alpha_not_digit : forall c, c_isalpha c = true -> c_isdigit c = false.
Proof.
  intros c. unfold c_isalpha, c_isdigit, uni_alpha, uni_digit.
  destruct (PositiveMap.find (ukey c) unicode_table) as [i|] eqn:E; [|discriminate].
  apply PositiveMap.elements_correct in E.
  pose proof (proj1 (forallb_forall _ _) unicode_classes_disjoint _ E) as Hk. unfold check_class in Hk. cbn [snd] in Hk.
  intros Ha. rewrite Ha in Hk. simpl in Hk. now apply negb_true_iff in Hk.
Qed.
