(* PipelineInst.v - the hypotheses of the pipeline theorems (PipelineProofs.env_ok)
   for the environment of the current run: constants regenerated from the
   source (gen/Consts_gen.v) and the Unicode facts of the running interpreter
   (gen/Unicode_gen.v).  Every side condition is re-checked by computation over
   the regenerated data on every run. *)
From Coq Require Import String List NArith ZArith Bool Lia.
From Pcfg Require Import Str Multiword Detect Segment SegCorr TextFile Reader DetectProofsSeg DetectProofsInst
     IoCorr IoFacts Pipeline PipelineCorr PipelineStr PipelineProofs.
From PcfgGen Require Import Consts_gen Unicode_gen.
Import ListNotations.

Lemma c_digits_not_alpha : forall d, is_digit d = true -> c_isalpha d = false.
Proof.
  intros d H. unfold is_digit in H. apply andb_true_iff in H. destruct H as (H1 & H2). apply N.leb_le in H1, H2.
  assert (E : In d [48; 49; 50; 51; 52; 53; 54; 55; 56; 57]%N).
  { assert (d = 48 \/ d = 49 \/ d = 50 \/ d = 51 \/ d = 52 \/ d = 53 \/ d = 54 \/ d = 55 \/ d = 56 \/ d = 57)%N by lia.
    simpl. intuition. }
  clear H1 H2. revert d E. apply Forall_forall. repeat constructor.
Qed.

(* the structure letters K E W Y X A D O M are letters for str.isalpha; the
   guesser reads the save-file before... (Consts_gen.skip_brute_rewinds_without_M);
   check_valid rejects the empty password *)
Theorem c_env_ok : env_ok c_env.
Proof.
  constructor.
  - exact side_lower_aligned.
  - exact goodc_all.
  - exact side_min_len.
  - exact side_year_prefixes.
  - exact side_tlds_nonempty.
  - exact side_min_run.
  - reflexivity.
  - reflexivity.
  - vm_compute. reflexivity.
  - exact c_digits_not_alpha.
Qed.

Print Assumptions c_env_ok.
