(* PipelineInst.v - the hypotheses of the pipeline theorems (PipelineProofs.env_ok)
   for the environment of the current run: constants regenerated from the
   source (gen/Consts_gen.v) and the Unicode facts of the running interpreter
   (gen/Unicode_gen.v).  Every side condition is re-checked by computation over
   the regenerated data on every run. *)
From Coq Require Import String List NArith ZArith Bool Lia.
From Pcfg Require Import Str Multiword Detect Segment SegCorr TextFile Reader DetectProofsSeg DetectProofsInst
     IoCorr IoFacts Pipeline PipelineCorr PipelineStr PipelineProofs.
From PcfgGen Require Import Consts_gen Unicode_gen.
Import ListNotations.

Lemma c_digits_not_alpha : forall d, is_digit d = true -> c_isalpha d = false.
Proof.
  intros d H. unfold is_digit in H. apply andb_true_iff in H. destruct H as (H1 & H2). apply N.leb_le in H1, H2.
  assert (E : In d [48; 49; 50; 51; 52; 53; 54; 55; 56; 57]%N).
  { assert (d = 48 \/ d = 49 \/ d = 50 \/ d = 51 \/ d = 52 \/ d = 53 \/ d = 54 \/ d = 55 \/ d = 56 \/ d = 57)%N by lia.
    simpl. intuition. }
  clear H1 H2. revert d E. apply Forall_forall. repeat constructor.
Qed.

(* the structure letters K E W Y X A D O M are letters for str.isalpha; the
   guesser reads the save-file before... (Consts_gen.skip_brute_rewinds_without_M);
   check_valid rejects the empty password *)
Theorem c_env_ok : env_ok c_env.
Proof.
  constructor.
  - exact side_lower_aligned.
  - exact goodc_all.
  - exact side_min_len.
  - exact side_year_prefixes.
  - exact side_tlds_nonempty.
  - exact side_min_run.
  - reflexivity.
  - reflexivity.
  - vm_compute. reflexivity.
  - exact c_digits_not_alpha.
Qed.

Print Assumptions c_env_ok.

(* ---- the binary64 instance: what remains assumed of the file I/O oracles *)
From Pcfg Require Import PipelineDisk PipelineF64.

Lemma c_rejected_linebreaks : forallb (fun c => memN c check_valid_rejected) (TAB :: py_linebreaks) = true.
Proof. vm_compute. reflexivity. Qed.
Lemma c_linebreaks_not_alpha : forallb (fun c => negb (c_isalpha c)) (TAB :: py_linebreaks) = true.
Proof. vm_compute. reflexivity. Qed.

Lemma lb_or_tab_in c : LB c || N.eqb TAB c = true -> In c (TAB :: py_linebreaks).
Proof.
  intros H. apply orb_true_iff in H. destruct H as [H|H].
  - right. unfold LB, memN in H. apply existsb_exists in H. destruct H as (x & Hx & E). apply N.eqb_eq in E. now subst.
  - left. apply N.eqb_eq in H. exact H.
Qed.

(* given the oracle assumptions on repr / float() / the codec (io_ok) and that
   the ruleset encoding can encode the lower case of what it can encode *)
Theorem c_io_env_ok io : io_ok io -> (forall c, f_encb io c = true -> f_encb io (lower1 c_lower c) = true) ->
  io_env_ok c_env io.
Proof.
  intros Hio Hl. constructor.
  - exact Hio.
  - intros c Hc. exact (proj1 (forallb_forall _ _) c_rejected_linebreaks c (lb_or_tab_in c Hc)).
  - intros c Hc. pose proof (proj1 (forallb_forall _ _) c_linebreaks_not_alpha c (lb_or_tab_in c Hc)) as H.
    apply negb_true_iff in H. exact H.
  - exact Hl.
Qed.
