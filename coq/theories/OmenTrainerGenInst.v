(* The theorems of C11 / C18 over the TRANSLATED trainer: pass 2 + smoothing as the
   composition of the generated functions ([py_train]) equals the model [train]; the tables
   it builds from any password list satisfy the hypotheses of the C11 / C18 theorems
   (wf_ttab, levels_le 10, chars_avoid), so the scorer and the guesser read what the
   translated writer puts on disk and agree with the trainer on every string (the writer's side:
   OmenTrainerGenInstOut.v). *)
From Coq Require Import List Arith Bool NArith ZArith Floats Uint63 Lia.
From Pcfg Require Import KernelRt OmenSpec OmenLevel OmenKeyspace OmenLevelProofs OmenKeyspaceProofs
     OmenTrainer OmenTrainerRt OmenTrainerRtProofs OmenTrainerProofs OmenTrainerGenProofs OmenTrainerGenProofsOut
     OmenTrainerGenInstOut.
From PcfgGen Require Import OmenTrainer_gen OmenTrainerOut_gen.
Import ListNotations.

Section Trainer.
Variable lg : float -> float.
Variable fl : float -> Z.

(* run_trainer.py, pass 2 and smoothing: AlphabetLookup(alphabet, ngram, max_length = ..),
   parse(pw) for every password, apply_smoothing() - with the translated functions *)
Definition py_train (alphabet : ostr) (ngram max_length : Z) (pws : list ostr) : tres alookup :=
  A0 <~ py_alookup_init lg fl alphabet ngram 1 max_length ;;
  A1 <~ tfoldM (py_alookup_parse lg fl) pws A0 ;;
  py_alookup_apply_smoothing lg fl A1.

Theorem gen_train_eq : forall alphabet ngram max_length pws, (1 <= ngram)%Z ->
  py_train alphabet ngram max_length pws = train lg fl alphabet ngram max_length pws.
Proof.
  intros alphabet ngram maxl pws Hng. unfold py_train, train.
  rewrite gen_alookup_init_eq. cbn [tbind]. rewrite gen_alookup_parse_all_eq.
  destruct (parse_all (alookup_init alphabet ngram 1 maxl) pws) as [A1|] eqn:Ep; [|reflexivity]. cbn [tbind].
  apply gen_alookup_apply_smoothing_eq.
  assert (Hng1 : (1 <= al_ngram (alookup_init alphabet ngram 1 maxl))%Z) by (simpl; lia).
  destruct (parse_all_inv pws _ A1 Hng1 (pinv_init _ _ _ _) Ep) as [HP _].
  apply pinv_grammar_nodup. exact HP.
Qed.

(* the tables the translated trainer builds are the tables of the C11 / C18 theorems *)
Theorem gen_trained_table : forall alphabet ngram max_length pws A,
  (2 <= ngram)%Z -> (0 <= max_length)%Z -> py_train alphabet ngram max_length pws = TOk A ->
  exists T, ttab_of A = Some T /\ wf_ttab T /\ levels_le guesser_max_level T /\
    tt_ngram T = Z.to_nat ngram /\ tt_max_len T = Z.to_nat max_length /\
    forall bad, (forall c, In c alphabet -> ~ In c bad) -> chars_avoid bad T.
Proof.
  intros alphabet ngram maxl pws A Hng Hml H. rewrite gen_train_eq in H by lia.
  eapply trained_table; eassumption.
Qed.

(* C11_scorer_reads_and_agrees for the translated trainer *)
Theorem gen_trained_scorer_agrees : forall alphabet ngram max_length pws A sbreaks,
  (2 <= ngram)%Z -> (0 <= max_length)%Z -> py_train alphabet ngram max_length pws = TOk A ->
  (forall c, In c alphabet -> ~ In c (TABc :: sbreaks)) ->
  exists T Sc, ttab_of A = Some T /\ read_s true sbreaks (write T) = Some Sc /\
               forall s, scorer_level Sc s = trainer_level T s.
Proof.
  intros alphabet ngram maxl pws A sbreaks Hng Hml H Hal.
  destruct (gen_trained_table _ _ _ _ _ Hng Hml H) as (T & HT & Hwf & _ & _ & _ & Hch).
  destruct (ol_scorer_reads_and_agrees sbreaks T Hwf (Hch _ Hal)) as (Sc & HS & Hag).
  exists T, Sc. auto.
Qed.

(* C11_guesser_reads_and_agrees for the translated trainer: no hypothesis on the levels is
   left - the clamp of _calc_level gives levels_le 10 whatever log and floor are *)
Theorem gen_trained_guesser_agrees : forall alphabet ngram max_length pws A breaks,
  (2 <= ngram)%Z -> (0 <= max_length)%Z -> py_train alphabet ngram max_length pws = TOk A ->
  (forall c, In c alphabet -> ~ In c (TABc :: breaks)) ->
  exists T G, ttab_of A = Some T /\ read_g breaks (write T) = Some G /\ wf_tables G /\
              forall s L, In s (level_strings G (Z.of_nat L)) <-> trainer_level T s = Some L.
Proof.
  intros alphabet ngram maxl pws A breaks Hng Hml H Hal.
  destruct (gen_trained_table _ _ _ _ _ Hng Hml H) as (T & HT & Hwf & Hle & _ & _ & Hch).
  destruct (ol_guesser_reads_and_agrees breaks T Hwf Hle (Hch _ Hal)) as (G & HG & HwG & Hiff).
  exists T, G. auto.
Qed.

End Trainer.

(* the hypotheses are satisfiable: a run of the translated trainer on three passwords (one with a
   character outside the alphabet), with stand-ins for log / floor, and of the translated writer *)
Definition demo_pws : list ostr := [[97; 98]; [98; 97; 98]; [97; 99]; [97]]%N.
Definition demo_train : tres alookup := py_train (fun x => x) (fun _ => 2%Z) [97; 98]%N 2 4 demo_pws.

Example gen_train_example :
  exists A T, demo_train = TOk A /\ ttab_of A = Some T /\ wf_ttabb T = true /\ levels_leb guesser_max_level T = true /\
    map te_key (tt_grammar T) = [[97]; [98]]%N /\ trainer_level T [97; 98]%N = Some 6 /\
    trainer_level T [97; 99]%N = None /\ tt_ln T = [2; 2; 2; 2] /\
    exists fs', py_save_omen_rules_to_disk (fun _ => [63]%N) (fun d f _ fs => Some (fs_put fs (path_join d f) []))
                  A [(1, 1); (6, 2)]%Z [(6, 1); (-1, 1); (7, 1)]%Z 3 [100]%N (mk_pinfo [] 2 [97; 98]%N) [] = TOk (true, fs') /\
                fs_get fs' (path_join (path_join [100]%N n_Omen) n_IP) = Some [50; 9; 97; 10; 50; 9; 98; 10]%N /\
                fs_get fs' (path_join (path_join [100]%N n_Omen) n_pws_per_level) =
                  Some [54; 9; 49; 10; 45; 49; 9; 49; 10; 55; 9; 49; 10]%N.
Proof.
  vm_compute. do 2 eexists. repeat split. eexists. repeat split.
Qed.
