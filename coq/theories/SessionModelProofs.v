(* The model of CrackingSession.run over the abstract world (SessionModel.m_run, which
   SessionGenProofs.v proves equal to the translated Python for every world) yields the
   hand-written models the theorems of C12 / C09 / C15 are about:

     w_run_is_run_session   in the world of Session.v (SessionModel.sworld: time, the
                            keyboard thread under a schedule, the queue as a list of
                            pre-terminals) a new session without a limit is
                            Session.run_session true sch pts, for every schedule and every
                            list of pre-terminals                                   (C12)
     m_run_is_limited       in every world in which nobody asks to quit and create_guesses
                            meets its contract, a new session with --limit l writes
                            Session.limited                                          (C09)
     w_prologue_is_sess_restore, w_save_is_sess_quit, w_step_saves_is_loop_saves
                            the save-configuration bookkeeping of Omen.sess_restore /
                            sess_quit / loop_saves                                   (C15)

   These proofs do not depend on the generated text. *)
From Coq Require Import List Arith ZArith NArith Bool Lia.
From Pcfg Require Import KernelRt ExpandRt Session SessionProofs SessionRt SessionRtProofs SessionModel.
Import ListNotations.

(* ------------------------------------------------------------------ *)
(* C12: the world of Session.v                                          *)
(* ------------------------------------------------------------------ *)

Lemma emit_markov_lim_none : forall sch gs t h j,
  emit_markov_lim sch t h gs j None = emit_markov sch t h gs j.
Proof.
  induction gs as [|g r IH]; intros t h j; [reflexivity|].
  cbn [emit_markov_lim emit_markov option_map]. rewrite IH. reflexivity.
Qed.

Lemma lim_of_unlimited : forall l, l = None \/ l = Some 0%Z -> lim_of l = None.
Proof. intros l [-> | ->]; reflexivity. Qed.

Lemma limit_take_unlimited {X : Type} : forall l (gs : list X), l = None \/ l = Some 0%Z -> limit_take l gs = gs.
Proof. intros l gs [-> | ->]; reflexivity. Qed.

Lemma if_truthy_unlimited {R : Type} : forall l (a : Z -> R) (b : R), l = None \/ l = Some 0%Z -> if_truthy l a b = b.
Proof. intros l a b [-> | ->]; reflexivity. Qed.

Section World.
Context (sch : schedule) (fresh restored : list pterm) (level_rest : nat -> nat -> list nat).

Notation wstep := (m_step (G := nat) w_queue_next w_update_save_config w_item_pt (w_create_guesses sch)
                          (w_read_should_exit sch) w_get_omen_exit w_get_omen_guess_num w_cfg_set_omen_number
                          w_write_save_file).
Notation wloop := (m_loop (G := nat) w_queue_next w_update_save_config w_item_pt (w_create_guesses sch)
                          (w_read_should_exit sch) w_get_omen_exit w_get_omen_guess_num w_cfg_set_omen_number
                          w_write_save_file).
Notation wsave := (m_save w_update_save_config w_get_omen_exit w_get_omen_guess_num w_cfg_set_omen_number
                          w_write_save_file).

(* what Session.v observes, with the guesses written before the loop in front *)
Definition observed (acc o : list nat) (w : sworld) : outcome :=
  {| out := acc ++ o;
     saved_at := match sw_saves w with _ :: (pos, _) :: _ => pos | _ => None end;
     omen_saved := sw_om w;
     finished := match sw_saves w with _ :: _ :: _ => false | _ => true end |}.

Lemma wsave_spec : forall w,
  wsave w = (SOk true,
             upd_saves (upd_cfg w (sw_popped w) (if sw_omen_exit w then Some (sw_omen_num w) else sw_cfg_omen w))
                       (sw_saves w ++ [(sw_popped w, if sw_omen_exit w then Some (sw_omen_num w) else sw_cfg_omen w)])).
Proof.
  intros w. unfold m_save, w_write_save_file, w_update_save_config, w_get_omen_exit, w_cfg_set_omen_number,
    w_get_omen_guess_num. destruct w as [t h st pe po cp co sv om ex nu]. cbn.
  destruct ex; cbn; rewrite ?Nat2Z.id; reflexivity.
Qed.

Lemma w_queue_next_nil : forall w, sw_pending w = [] -> w_queue_next w = (None, w).
Proof. intros w H. unfold w_queue_next. now rewrite H. Qed.

Lemma w_queue_next_cons : forall w p rest, sw_pending w = p :: rest ->
  w_queue_next w = (Some p, upd_queue w rest (Some (pid p))).
Proof. intros w p rest H. unfold w_queue_next. now rewrite H. Qed.

Lemma w_read_spec : forall w, sw_started w = true ->
  w_read_should_exit sch w =
  (should_exit (h_steps (sw_h w) (sch (sw_t w))), upd_time w (S (sw_t w)) (h_steps (sw_h w) (sch (sw_t w)))).
Proof. intros w H. unfold w_read_should_exit, w_eff. now rewrite H. Qed.

Lemma w_create_spec : forall l, l = None \/ l = Some 0%Z -> forall w p b, sw_started w = true ->
  w_create_guesses sch p b l w =
  if markov p then
    let '(o, t', i, h2) := emit_markov sch (sw_t w) (sw_h w) (guesses p) 0 in
    (SOk (len o), o,
     upd_omen (upd_time w t' h2) (match i with Some j => Some (pid p, j) | None => sw_om w end)
              (match i with Some _ => true | None => sw_omen_exit w end) (length o))
  else
    let '(t', h2) := emit_plain sch (sw_t w) (sw_h w) (guesses p) in
    (SOk (len (guesses p)), guesses p, upd_time w t' h2).
Proof.
  intros l Hl w p b H. unfold w_create_guesses, w_eff. rewrite H.
  now rewrite (lim_of_unlimited l Hl), (limit_take_unlimited l _ Hl), emit_markov_lim_none.
Qed.

Lemma wloop_is_loop : forall l, l = None \/ l = Some 0%Z ->
  forall pts fuel w acc,
  sw_pending w = pts -> sw_started w = true -> length pts < fuel -> length (sw_saves w) = 1 ->
  let '(r, o, w') := wloop fuel l w in
  r = SOk tt /\ observed acc o w' = loop true sch (sw_t w) (sw_h w) pts acc (sw_om w).
Proof.
  intros l Hl. induction pts as [|p rest IH]; intros fuel w acc Hp Hs Hf Hsv;
    (destruct fuel as [|fuel]; [cbn in Hf; lia|]); cbn [m_loop]; unfold m_step.
  - rewrite (w_queue_next_nil w Hp). split; [reflexivity|]. unfold observed. rewrite app_nil_r.
    destruct (sw_saves w) as [|s1 [|s2 sv]]; cbn in Hsv; try lia. reflexivity.
  - rewrite (w_queue_next_cons w p rest Hp), w_read_spec by exact Hs.
    cbn [upd_queue sw_t sw_h loop]. unfold quit_seen.
    destruct (should_exit (h_steps (sw_h w) (sch (sw_t w)))) eqn:Eq.
    + rewrite wsave_spec. split; [reflexivity|].
      unfold observed. cbn. rewrite app_nil_r.
      destruct (sw_saves w) as [|s1 [|s2 sv]]; cbn in Hsv; try lia. reflexivity.
    + rewrite (w_create_spec l Hl) by exact Hs. change (w_item_pt p) with p. cbn [upd_time sw_t sw_h].
      destruct (markov p).
      * destruct (emit_markov sch (S (sw_t w)) (h_steps (sw_h w) (sch (sw_t w))) (guesses p) 0) as [[[o t'] i] h2].
        rewrite (if_truthy_unlimited l _ _ Hl).
        match goal with |- context [wloop fuel l ?w1] =>
          specialize (IH fuel w1 (acc ++ o) eq_refl Hs ltac:(cbn in Hf; lia) Hsv); destruct (wloop fuel l w1) as [[r o'] w''] end.
        destruct IH as [-> IH]. split; [reflexivity|].
        unfold observed in *. rewrite app_assoc. exact IH.
      * destruct (emit_plain sch (S (sw_t w)) (h_steps (sw_h w) (sch (sw_t w))) (guesses p)) as [t' h2].
        rewrite (if_truthy_unlimited l _ _ Hl).
        match goal with |- context [wloop fuel l ?w1] =>
          specialize (IH fuel w1 (acc ++ guesses p) eq_refl Hs ltac:(cbn in Hf; lia) Hsv); destruct (wloop fuel l w1) as [[r o'] w''] end.
        destruct IH as [-> IH]. split; [reflexivity|].
        unfold observed in *. rewrite app_assoc. exact IH.
Qed.

(* C12: a new session without a limit, for every schedule and every queue content *)
Theorem w_run_is_run_session : forall l, l = None \/ l = Some 0%Z ->
  forall fuel cfg, length fresh < fuel ->
  fst (fst (w_run sch fresh restored level_rest fuel false l (w_init cfg None))) = SOk tt /\
  w_outcome (w_run sch fresh restored level_rest fuel false l (w_init cfg None)) = run_session true sch fresh.
Proof.
  intros l Hl fuel cfg Hf. unfold w_run, m_run, m_prologue. rewrite wsave_spec.
  cbn [w_init w_new_queue upd_queue upd_cfg upd_saves sw_popped sw_omen_exit sw_cfg_omen sw_saves sw_omen_num app
       w_start_keypress_thread upd_started sw_t sw_h sw_pending sw_cfg_pos sw_om sw_started].
  match goal with |- context [wloop fuel l ?w1] =>
    pose proof (wloop_is_loop l Hl fresh fuel w1 [] eq_refl eq_refl Hf eq_refl) as H; destruct (wloop fuel l w1) as [[r o] w'] end.
  destruct H as [-> H]. split; [reflexivity|]. cbn [w_outcome app sw_t sw_h sw_om] in *. exact H.
Qed.
End World.

(* ------------------------------------------------------------------ *)
(* C09: --limit in a world in which nobody asks to quit                  *)
(* ------------------------------------------------------------------ *)
Section Quiet.
Context {W Item Pt : Type}.
Context (new_queue restore_queue : W -> W).
Context (queue_next : W -> option Item * W).
Context (queue_update_save_config : W -> W).
Context (item_pt : Item -> Pt).
Context (create_guesses : Pt -> bool -> option Z -> W -> sres Z * list nat * W).
Context (restore_omen : Z -> W -> sres Z * list nat * W).
Context (read_should_exit : W -> bool * W).
Context (get_omen_exit : W -> bool).
Context (get_omen_guess_num : W -> Z).
Context (cfg_has_omen_number : W -> bool).
Context (cfg_omen_number : W -> Z).
Context (cfg_remove_omen_number : W -> W).
Context (cfg_set_omen_number : Z -> W -> W).
Context (write_save_file : W -> sres unit * W).
Context (start_keypress_thread : W -> W).
(* what the world means: the pre-terminals the queue will still return, and the complete
   expansion of a pre-terminal *)
Context (pending : W -> list Item) (expansion : Pt -> list nat).

(* the queue hands out [pending] one by one; the quit flag is never set; create_guesses
   writes the first `limit` guesses of the expansion (all for None / 0) and returns their
   number; saving the session (which may fail with an OSError, reported and ignored) and
   starting the keyboard thread do not touch the queue *)
Definition quiet_world : Prop :=
  (forall w, fst (queue_next w) = hd_error (pending w) /\ pending (snd (queue_next w)) = tl (pending w)) /\
  (forall w, fst (read_should_exit w) = false /\ pending (snd (read_should_exit w)) = pending w) /\
  (forall pt l w,
     fst (create_guesses pt false l w) = (SOk (len (limit_take l (expansion pt))), limit_take l (expansion pt)) /\
     pending (snd (create_guesses pt false l w)) = pending w) /\
  (forall w, pending (queue_update_save_config w) = pending w) /\
  (forall z w, pending (cfg_set_omen_number z w) = pending w) /\
  (forall w, (fst (write_save_file w) = SOk tt \/ fst (write_save_file w) = SExc OSError) /\
             pending (snd (write_save_file w)) = pending w) /\
  (forall w, pending (start_keypress_thread w) = pending w).

Context (Hq : quiet_world).

Notation qsave := (m_save queue_update_save_config get_omen_exit get_omen_guess_num cfg_set_omen_number write_save_file).
Notation qstep := (m_step queue_next queue_update_save_config item_pt create_guesses read_should_exit get_omen_exit
                          get_omen_guess_num cfg_set_omen_number write_save_file).
Notation qloop := (m_loop queue_next queue_update_save_config item_pt create_guesses read_should_exit get_omen_exit
                          get_omen_guess_num cfg_set_omen_number write_save_file).
Notation qrun := (m_run new_queue restore_queue queue_next queue_update_save_config item_pt create_guesses
                        restore_omen read_should_exit get_omen_exit get_omen_guess_num cfg_has_omen_number
                        cfg_omen_number cfg_remove_omen_number cfg_set_omen_number write_save_file
                        start_keypress_thread).

Definition zlimit (l : option nat) : option Z := option_map Z.of_nat l.
Definition qgroups (w : W) : list (list nat) := map (fun it => expansion (item_pt it)) (pending w).

Lemma qsave_ok : forall w, exists b w', qsave w = (SOk b, w') /\ pending w' = pending w.
Proof.
  destruct Hq as [_ [_ [_ [Hu [Hset [Hwr _]]]]]]. intros w. unfold m_save.
  set (w1 := queue_update_save_config w).
  set (w2 := if get_omen_exit w1 then cfg_set_omen_number (get_omen_guess_num w1) w1 else w1).
  assert (H2 : pending w2 = pending w).
  { subst w2. destruct (get_omen_exit w1); [rewrite Hset|]; apply Hu. }
  destruct (Hwr w2) as [Hr Hp]. destruct (write_save_file w2) as [r w3]. cbn [fst snd] in Hr, Hp.
  destruct Hr as [-> | ->]; eexists; eexists; (split; [reflexivity|congruence]).
Qed.

Lemma limited_unfold_pos : forall gs rest k,
  limited (gs :: rest) (Some (S k)) =
  firstn (S k) gs ++ (if Nat.leb (S k) (length (firstn (S k) gs)) then []
                      else limited rest (Some (S k - length (firstn (S k) gs)))).
Proof.
  intros gs rest k. cbn [limited]. destruct (Nat.leb (S k) (length (firstn (S k) gs))); [now rewrite app_nil_r|reflexivity].
Qed.

Lemma qloop_is_limited : forall pts fuel w l, pending w = pts -> length pts < fuel ->
  exists w', qloop fuel (zlimit l) w = (SOk tt, limited (map (fun it => expansion (item_pt it)) pts) l, w').
Proof.
  pose proof Hq as [Hn [Hr [Hc _]]].
  induction pts as [|it rest IH]; intros fuel w l Hp Hf;
    (destruct fuel as [|fuel]; [cbn in Hf; lia|]); cbn [m_loop]; unfold m_step;
    destruct (Hn w) as [Hn1 Hn2]; destruct (queue_next w) as [o w1]; cbn [fst snd] in Hn1, Hn2;
    rewrite Hp in Hn1, Hn2; cbn in Hn1, Hn2; subst o.
  - exists w1. reflexivity.
  - destruct (Hr w1) as [Hr1 Hr2]. destruct (read_should_exit w1) as [q w2]. cbn [fst snd] in Hr1, Hr2. subst q.
    destruct (Hc (item_pt it) (zlimit l) w2) as [Hc1 Hc2].
    destruct (create_guesses (item_pt it) false (zlimit l) w2) as [[r out] w3]. cbn [fst snd] in Hc1, Hc2.
    injection Hc1 as -> ->.
    assert (Hp3 : pending w3 = rest) by congruence.
    cbn [map]. destruct l as [[|k]|]; cbn [zlimit option_map].
    + (* limit 0: no limit *)
      change (Z.of_nat 0) with 0%Z. rewrite limit_take_zero. cbn [if_truthy Z.eqb].
      destruct (IH fuel w3 (Some 0) Hp3 ltac:(cbn in Hf; lia)) as [w' H]. cbn [zlimit option_map] in H.
      change (Z.of_nat 0) with 0%Z in H. rewrite H. exists w'. reflexivity.
    + (* limit S k *)
      rewrite limit_take_pos by lia. rewrite limited_unfold_pos.
      set (o := firstn (S k) (expansion (item_pt it))).
      unfold if_truthy. destruct (Z.eqb_spec (Z.of_nat (S k)) 0) as [E|_]; [lia|].
      destruct (Nat.leb (S k) (length o)) eqn:El; zb El; split_test; unfold len in *; try lia.
      * exists w3. now rewrite app_nil_r.
      * destruct (IH fuel w3 (Some (S k - length o)) Hp3 ltac:(cbn in Hf; lia)) as [w' H].
        cbn [zlimit option_map] in H. rewrite Nat2Z.inj_sub in H by lia. rewrite H. exists w'. reflexivity.
    + (* no limit *)
      rewrite limit_take_none. cbn [if_truthy].
      destruct (IH fuel w3 None Hp3 ltac:(cbn in Hf; lia)) as [w' H]. cbn [zlimit option_map] in H.
      rewrite H. exists w'. reflexivity.
Qed.

(* C09: a new session with --limit l (None, 0 = no limit, or n >= 1) writes Session.limited *)
Theorem m_run_is_limited : forall (l : option nat) fuel w, length (pending (new_queue w)) < fuel ->
  exists w', qrun fuel false (zlimit l) w = (SOk tt, limited (qgroups (new_queue w)) l, w').
Proof.
  intros l fuel w Hf. unfold m_run, m_prologue.
  destruct (qsave_ok (new_queue w)) as [b [w1 [-> Hp1]]].
  pose proof Hq as [_ [_ [_ [_ [_ [_ Hst]]]]]].
  destruct (qloop_is_limited (pending (new_queue w)) fuel (start_keypress_thread w1) l) as [w' H];
    [rewrite Hst; exact Hp1 | exact Hf |].
  rewrite H. exists w'. reflexivity.
Qed.
End Quiet.

(* ------------------------------------------------------------------ *)
(* C15: the save-configuration bookkeeping, in the world of Session.v    *)
(* ------------------------------------------------------------------ *)
From Pcfg Require Import Omen.

Section Config.
Context (sch : schedule) (fresh restored : list pterm) (level_rest : nat -> nat -> list nat).
(* how the content of the .omn file (level, guess number) is read as a generator state *)
Context (st : nat * nat -> saved).

Definition sv_of (w : sworld) : sess_save := mk_save (sw_cfg_omen w) (option_map st (sw_om w)).

Notation wsave := (m_save w_update_save_config w_get_omen_exit w_get_omen_guess_num w_cfg_set_omen_number
                          w_write_save_file).
Notation wstep := (m_step (G := nat) w_queue_next w_update_save_config w_item_pt (w_create_guesses sch)
                          (w_read_should_exit sch) w_get_omen_exit w_get_omen_guess_num w_cfg_set_omen_number
                          w_write_save_file).
Notation wprologue := (m_prologue (G := nat) (w_new_queue fresh) (w_restore_queue restored) w_update_save_config
                                  (w_restore_omen sch level_rest) w_get_omen_exit w_get_omen_guess_num
                                  w_cfg_has_omen_number w_cfg_omen_number w_cfg_remove_omen_number
                                  w_cfg_set_omen_number w_write_save_file w_start_keypress_thread).

(* _save_session is Omen.sess_quit: the guess number goes into the configuration exactly
   when a Markov level was interrupted (omen_exit), in which case omen_generate_guesses has
   written the generator state [state] to the .omn file *)
Theorem w_save_is_sess_quit : forall w state,
  (sw_omen_exit w = true -> option_map st (sw_om w) = Some state) ->
  fst (wsave w) = SOk true /\
  sv_of (snd (wsave w)) = sess_quit (sv_of w) (sw_omen_exit w) (sw_omen_num w) state.
Proof.
  intros w state H. rewrite wsave_spec. split; [reflexivity|].
  unfold sv_of, sess_quit. cbn [snd upd_saves upd_cfg sw_cfg_omen sw_om].
  destruct (sw_omen_exit w); [rewrite (H eq_refl)|]; reflexivity.
Qed.

(* run(load_session = True) up to the main loop is Omen.sess_restore (with the R7 repair:
   cleared = true): restore_omen runs exactly when the configuration holds a guess number,
   with that number, on the level named in the .omn file; afterwards the number is removed
   unless the user quit inside the restored level again (omen_exit) *)
Theorem w_prologue_is_sess_restore : forall w,
  (forall n, sw_cfg_omen w = Some n -> sw_om w <> None) ->
  let '(r, o, w') := wprologue true w in
  r = SOk tt /\ sw_pending w' = restored /\
  sw_cfg_omen w' = sv_number (snd (sess_restore true (sv_of w) (sw_omen_exit w'))) /\
  match fst (sess_restore true (sv_of w) (sw_omen_exit w')), sw_cfg_omen w, sw_om w with
  | Some s, Some n, Some (p, j) =>
      s = st (p, j) /\
      o = fst (fst (fst (emit_markov sch (sw_t w) (sw_h w) (level_rest p n) n)))
  | None, None, _ => o = []
  | _, _, _ => False
  end.
Proof.
  intros w Hom. unfold m_prologue, w_cfg_has_omen_number, w_cfg_omen_number, w_restore_omen, sess_restore, sv_of.
  cbn [w_start_keypress_thread w_restore_queue upd_started upd_queue sw_cfg_omen sw_om sv_number sv_omn w_eff sw_started
       sw_t sw_h].
  destruct (sw_cfg_omen w) as [n|] eqn:En.
  - destruct (sw_om w) as [[p j]|] eqn:Eo; [|exfalso; exact (Hom n eq_refl eq_refl)].
    rewrite Nat2Z.id.
    destruct (emit_markov sch (sw_t w) (sw_h w) (level_rest p n) n) as [[[o t'] i] h2].
    unfold w_get_omen_exit, w_cfg_remove_omen_number. cbn [upd_omen upd_time sw_omen_exit option_map fst snd].
    destruct i as [ji|]; cbn [upd_cfg sw_cfg_omen sw_omen_exit andb negb sv_number sw_pending]; rewrite ?En; auto.
  - cbn [fst snd sv_number sw_pending]. auto.
Qed.

(* one iteration of the main loop writes the save file exactly when Omen.loop_saves says so:
   the pop returned a pre-terminal AND the quit flag is set at that step; a quit seen when
   the queue is empty (inside the last pre-terminal of the run) is never saved (R18) *)
Theorem w_step_saves_is_loop_saves : forall l w,
  let next_pop_exists := match sw_pending w with [] => false | _ :: _ => true end in
  let quit := fst (w_read_should_exit sch (snd (w_queue_next w))) in
  length (sw_saves (snd (wstep l w))) =
  length (sw_saves w) + (if loop_saves next_pop_exists quit then 1 else 0).
Proof.
  intros l w. unfold m_step, w_queue_next, loop_saves. cbv zeta.
  destruct (sw_pending w) as [|p rest]; [cbn; lia|].
  cbn [fst snd andb]. destruct (w_read_should_exit sch (upd_queue w rest (Some (pid p)))) as [q w2] eqn:Er.
  assert (Hs2 : sw_saves w2 = sw_saves w).
  { unfold w_read_should_exit in Er. injection Er as _ <-. reflexivity. }
  cbn [fst]. destruct q.
  - rewrite wsave_spec. cbn [snd upd_saves sw_saves]. rewrite app_length, Hs2. cbn. lia.
  - unfold w_create_guesses, w_item_pt.
    destruct (markov p).
    + destruct (emit_markov_lim (w_eff sch w2) (sw_t w2) (sw_h w2) (guesses p) 0 (lim_of l)) as [[[o t'] i] h2].
      cbn [snd upd_omen upd_time sw_saves]. rewrite Hs2. lia.
    + destruct (emit_plain (w_eff sch w2) (sw_t w2) (sw_h w2) (limit_take l (guesses p))) as [t' h2].
      cbn [snd upd_time sw_saves]. rewrite Hs2. lia.
Qed.
End Config.
