(* Lemmas about the model of the guesser's command line / save-file glue (CliModel.v). *)
From Coq Require Import List NArith ZArith Bool String Lia.
From Pcfg Require Import Str CliModel.
Import ListNotations.
Open Scope N_scope.

(* ---------------------------------------------------------------- strings, dicts *)

Lemma seqb_eq : forall a b : str, str_eqb a b = true <-> a = b.
Proof.
  induction a as [|x a IH]; destruct b as [|y b]; simpl; split; intros H; try discriminate; auto.
  - apply andb_true_iff in H. destruct H as [H1 H2]. apply N.eqb_eq in H1. apply IH in H2. congruence.
  - inversion H; subst. rewrite N.eqb_refl. simpl. apply IH. reflexivity.
Qed.
Lemma seqb_refl : forall a : str, str_eqb a a = true.
Proof. intros a. apply seqb_eq. reflexivity. Qed.
Lemma seqb_neq : forall a b : str, str_eqb a b = false <-> a <> b.
Proof.
  intros a b. split.
  - intros H E. apply seqb_eq in E. congruence.
  - intros H. destruct (str_eqb a b) eqn:E; auto. apply seqb_eq in E. contradiction.
Qed.

Lemma str_app_is : forall a b : str, str_app a b = a ++ b.
Proof. induction a as [|x a IH]; simpl; intros b; [reflexivity|rewrite IH; reflexivity]. Qed.

Lemma key_eqb_is : forall a b : str, key_eqb a b = str_eqb a b.
Proof. induction a as [|x a IH]; destruct b as [|y b]; simpl; auto. Qed.

Lemma d_get_set_same : forall k v d, d_get k (d_set k v d) = Some v.
Proof.
  induction d as [|[k' v'] r IH]; simpl.
  - rewrite key_eqb_is, seqb_refl. reflexivity.
  - destruct (key_eqb k k') eqn:E; simpl; rewrite E; auto.
Qed.
Lemma d_get_set_other : forall k k' v d, str_eqb k k' = false -> d_get k (d_set k' v d) = d_get k d.
Proof.
  induction d as [|[k2 v2] r IH]; simpl; intros H.
  - rewrite key_eqb_is, H. reflexivity.
  - destruct (key_eqb k' k2) eqn:E; simpl.
    + rewrite key_eqb_is in E. apply seqb_eq in E. subst k2. rewrite key_eqb_is, H. reflexivity.
    + destruct (key_eqb k k2); auto.
Qed.

(* ---------------------------------------------------------------- argparse: the options seen are options of the parser *)

Definition occ_in (p : parser) (oc : rawocc) : Prop := In (fst oc) p.

Lemma assoc_flag_in : forall f l o, assoc_flag f l = Some o -> In (f, o) l.
Proof.
  induction l as [|[f' o'] r IH]; simpl; intros o H; [discriminate|].
  destruct (str_eqb f f') eqn:E.
  - inversion H; subst. apply seqb_eq in E. subst. left. reflexivity.
  - right. apply IH. exact H.
Qed.

Lemma all_flags_in : forall p f o, In (f, o) (all_flags p) -> In o p.
Proof.
  intros p f o H. unfold all_flags in H. apply in_flat_map in H. destruct H as [o' [Ho' H]].
  apply in_map_iff in H. destruct H as [f' [E _]]. inversion E; subst. exact Ho'.
Qed.

Lemma find_flag_in : forall p f o, find_flag p f = Some o -> In o p.
Proof. intros p f o H. apply assoc_flag_in in H. eapply all_flags_in; eauto. Qed.

Lemma classify_in : forall p t o f e, classify p t = TOpt o f e -> In o p.
Proof.
  intros p t o f e. unfold classify. destruct t as [|c rest]; [discriminate|].
  destruct (negb (c =? 45)); [discriminate|].
  destruct (find_flag p (c :: rest)) as [o1|] eqn:F1.
  { intros H. inversion H; subst. eapply find_flag_in; eauto. }
  destruct rest as [|c2 rest']; [discriminate|].
  destruct (split_eq (c :: c2 :: rest')) as [[pre ex]|] eqn:S.
  - destruct (find_flag p pre) as [o2|] eqn:F2.
    { intros H. inversion H; subst. eapply find_flag_in; eauto. }
    match goal with |- match ?l with _ => _ end = _ -> _ => remember l as cands eqn:Hc end.
    destruct cands as [|r1 [|r2 rr]]; try discriminate.
    { destruct (neg_number_like _); [discriminate|]. destruct (mem_c _ _); discriminate. }
    intros H. subst r1.
    assert (Hin : In (TOpt o f e) [TOpt o f e]) by (left; reflexivity). rewrite Hc in Hin.
    destruct (c2 =? 45).
    + apply in_map_iff in Hin. destruct Hin as [[f' o'] [E Hin]]. simpl in E. inversion E; subst.
      apply filter_In in Hin. destruct Hin as [Hin _]. eapply all_flags_in; eauto.
    + apply in_flat_map in Hin. destruct Hin as [[f' o'] [Hin E]]. cbn [fst snd] in E.
      repeat match type of E with In _ (if ?a then _ else _) => destruct a end;
        try (simpl in E; contradiction);
        destruct E as [E|[]]; inversion E; subst; eapply all_flags_in; eauto.
  - match goal with |- match ?l with _ => _ end = _ -> _ => remember l as cands eqn:Hc end.
    destruct cands as [|r1 [|r2 rr]]; try discriminate.
    { destruct (neg_number_like _); [discriminate|]. destruct (mem_c _ _); discriminate. }
    intros H. subst r1.
    assert (Hin : In (TOpt o f e) [TOpt o f e]) by (left; reflexivity). rewrite Hc in Hin.
    destruct (c2 =? 45).
    + apply in_map_iff in Hin. destruct Hin as [[f' o'] [E Hin]]. simpl in E. inversion E; subst.
      apply filter_In in Hin. destruct Hin as [Hin _]. eapply all_flags_in; eauto.
    + apply in_flat_map in Hin. destruct Hin as [[f' o'] [Hin E]]. cbn [fst snd] in E.
      repeat match type of E with In _ (if ?a then _ else _) => destruct a end;
        try (simpl in E; contradiction);
        destruct E as [E|[]]; inversion E; subst; eapply all_flags_in; eauto.
Qed.

Lemma cluster_in : forall p e l pend, cluster p e = Some (l, pend) ->
  Forall (occ_in p) l /\ (forall o, pend = Some o -> In o p).
Proof.
  induction e as [|c e' IH]; simpl; intros l pend H; [discriminate|].
  destruct (find_flag p [45; c]) as [o'|] eqn:F; [|discriminate]. apply find_flag_in in F.
  destruct e' as [|c' e''].
  - destruct (takes_arg o'); inversion H; subst; split.
    + constructor.
    + intros o E. inversion E; subst. exact F.
    + constructor; [exact F|constructor].
    + intros o E. discriminate.
  - destruct (takes_arg o').
    + inversion H; subst. split; [constructor; auto|]. intros o E. discriminate.
    + destruct (cluster p (c' :: e'')) as [[l' pend']|] eqn:C; [|discriminate].
      inversion H; subst. destruct (IH _ _ eq_refl) as [H1 H2]. split; [constructor; auto|auto].
Qed.

Lemma start_opt_in : forall p o f ex l pend, In o p -> start_opt p o f ex = Some (l, pend) ->
  Forall (occ_in p) l /\ (forall o', pend = Some o' -> In o' p).
Proof.
  intros p o f ex l pend Ho. unfold start_opt. destruct ex as [e|].
  - destruct (takes_arg o).
    + intros H. inversion H; subst. split; [constructor; auto|]. intros o' E. discriminate.
    + destruct (negb (is_long f) && nonempty e); [|discriminate].
      destruct (cluster p e) as [[l' pend']|] eqn:C; [|discriminate].
      intros H. inversion H; subst. destruct (cluster_in _ _ _ _ C) as [H1 H2]. split; [constructor; auto|auto].
  - destruct (takes_arg o); intros H; inversion H; subst; split.
    + constructor.
    + intros o' E. inversion E; subst. exact Ho.
    + constructor; [exact Ho|constructor].
    + intros o' E. discriminate.
Qed.

Lemma ap_scan_in : forall p n cls occs, (List.length cls <= n)%nat ->
  (forall t o f e, In (t, TOpt o f e) cls -> In o p) ->
  ap_scan p cls = Some occs -> Forall (occ_in p) occs.
Proof.
  induction n as [|n IH]; intros cls occs Hn Hcls H.
  - destruct cls; [|simpl in Hn; lia]. simpl in H. inversion H. constructor.
  - destruct cls as [|[t c] r]; [simpl in H; inversion H; constructor|].
    simpl in H. destruct c as [|o f ex| |]; try discriminate.
    assert (Ho : In o p) by (eapply Hcls; left; reflexivity).
    destruct (start_opt p o f ex) as [[l pend]|] eqn:S; [|discriminate].
    destruct (start_opt_in _ _ _ _ _ _ Ho S) as [H1 H2].
    destruct pend as [o'|].
    + destruct r as [|[v c'] r']; [discriminate|]. destruct c'; try discriminate.
      destruct (ap_scan p r') as [occs'|] eqn:R; [|discriminate]. simpl in H. inversion H; subst.
      apply Forall_app. split.
      * apply Forall_app. split; auto. constructor; [|constructor]. apply H2. reflexivity.
      * apply (IH r'); auto. { simpl in Hn. lia. }
        intros t0 o0 f0 e0 Hi. eapply Hcls. right. right. exact Hi.
    + destruct (ap_scan p r) as [occs'|] eqn:R; [|discriminate]. simpl in H. inversion H; subst.
      apply Forall_app. split; auto. apply (IH r); auto. { simpl in Hn. lia. }
      intros t0 o0 f0 e0 Hi. eapply Hcls. right. exact Hi.
Qed.

Lemma ap_occs_in : forall p argv occs, ap_occs p argv = Some occs -> Forall (occ_in p) occs.
Proof.
  intros p argv occs. unfold ap_occs. destruct (existsb _ argv); [discriminate|].
  intros H. eapply ap_scan_in; [reflexivity| |exact H].
  intros t o f e Hi. apply in_map_iff in Hi. destruct Hi as [t' [E _]]. inversion E; subst.
  eapply classify_in; eauto.
Qed.

(* ---------------------------------------------------------------- the guesser's namespace is typed *)

Lemma options_of_ns_of : forall o, options_of_ns (ns_of_options o) = Some o.
Proof. intros [r s l [z|] sb sc d m]; reflexivity. Qed.

Definition default_options : options :=
  {| o_rule := lit "Default"; o_session := lit "default_run"; o_load := false; o_limit := None;
     o_skip_brute := false; o_skip_case := false; o_debug := false; o_mode := mode_tpo |}.

Lemma guesser_defaults : ap_defaults guesser_parser = ns_of_options default_options.
Proof. reflexivity. Qed.

Lemma guesser_step : forall int_of oc dv o1, occ_in guesser_parser oc -> ap_value int_of oc = Some dv ->
  exists o2, d_set (fst dv) (snd dv) (ns_of_options o1) = ns_of_options o2.
Proof.
  intros int_of [o s] dv [r ss l lim sb sc d m] Hin H. unfold occ_in in Hin. simpl in Hin.
  destruct Hin as [<-|[<-|[<-|[<-|[<-|[<-|[<-|[<-|[<-|[]]]]]]]]]]; unfold ap_value in H; simpl in H.
  - destruct s; discriminate.
  - destruct s as [v|]; [|discriminate]. inversion H; subst.
    exists {| o_rule := v; o_session := ss; o_load := l; o_limit := lim; o_skip_brute := sb; o_skip_case := sc; o_debug := d; o_mode := m |}.
    reflexivity.
  - destruct s as [v|]; [|discriminate]. inversion H; subst.
    exists {| o_rule := r; o_session := v; o_load := l; o_limit := lim; o_skip_brute := sb; o_skip_case := sc; o_debug := d; o_mode := m |}.
    reflexivity.
  - inversion H; subst.
    exists {| o_rule := r; o_session := ss; o_load := true; o_limit := lim; o_skip_brute := sb; o_skip_case := sc; o_debug := d; o_mode := m |}.
    reflexivity.
  - destruct s as [v|]; [|discriminate]. destruct (int_of v) as [z|]; [|discriminate]. simpl in H. inversion H; subst.
    exists {| o_rule := r; o_session := ss; o_load := l; o_limit := Some z; o_skip_brute := sb; o_skip_case := sc; o_debug := d; o_mode := m |}.
    reflexivity.
  - inversion H; subst.
    exists {| o_rule := r; o_session := ss; o_load := l; o_limit := lim; o_skip_brute := true; o_skip_case := sc; o_debug := d; o_mode := m |}.
    reflexivity.
  - inversion H; subst.
    exists {| o_rule := r; o_session := ss; o_load := l; o_limit := lim; o_skip_brute := sb; o_skip_case := true; o_debug := d; o_mode := m |}.
    reflexivity.
  - inversion H; subst.
    exists {| o_rule := r; o_session := ss; o_load := l; o_limit := lim; o_skip_brute := sb; o_skip_case := sc; o_debug := true; o_mode := m |}.
    reflexivity.
  - destruct s as [v|]; [|discriminate].
    match type of H with (if ?c then _ else _) = _ => destruct c end; [|discriminate]. inversion H; subst.
    exists {| o_rule := r; o_session := ss; o_load := l; o_limit := lim; o_skip_brute := sb; o_skip_case := sc; o_debug := d; o_mode := v |}.
    reflexivity.
Qed.

Lemma guesser_fold : forall int_of occs vals o1, Forall (occ_in guesser_parser) occs ->
  map_opt (ap_value int_of) occs = Some vals ->
  exists o2, fold_left (fun ns dv => d_set (fst dv) (snd dv) ns) vals (ns_of_options o1) = ns_of_options o2.
Proof.
  induction occs as [|oc r IH]; simpl; intros vals o1 Hin H.
  - inversion H; subst. exists o1. reflexivity.
  - destruct (ap_value int_of oc) as [dv|] eqn:V; [|discriminate].
    destruct (map_opt (ap_value int_of) r) as [vals'|] eqn:R; [|discriminate]. inversion H; subst.
    inversion Hin; subst. destruct (guesser_step int_of oc dv o1 H2 V) as [o2 E]. cbn [fold_left]. rewrite E.
    apply IH; auto.
Qed.

(* what parse_args returns for the guesser's parser is the namespace of a typed options record *)
Theorem guesser_ns_typed : forall int_of argv ns, ap_parse int_of guesser_parser argv = Some ns ->
  exists o, ns = ns_of_options o /\ options_of_ns ns = Some o.
Proof.
  intros int_of argv ns. unfold ap_parse. destruct (ap_occs guesser_parser argv) as [occs|] eqn:O; [|discriminate].
  destruct (map_opt (ap_value int_of) occs) as [vals|] eqn:V; [|discriminate]. intros H. inversion H; subst.
  rewrite guesser_defaults. destruct (guesser_fold int_of occs vals default_options (ap_occs_in _ _ _ O) V) as [o E].
  exists o. rewrite E. split; [reflexivity|apply options_of_ns_of].
Qed.

Corollary m_options_ns : forall int_of argv,
  ap_parse int_of guesser_parser argv = option_map ns_of_options (m_options int_of argv).
Proof.
  intros int_of argv. unfold m_options. destruct (ap_parse int_of guesser_parser argv) as [ns|] eqn:P; [|reflexivity].
  destruct (guesser_ns_typed _ _ _ P) as [o [E1 E2]]. rewrite E2. simpl. congruence.
Qed.

(* ---------------------------------------------------------------- toggles: store_const *)

Definition occ_dest_is (d : str) (oc : rawocc) : bool := str_eqb (ao_dest (fst oc)) d.

(* every option of the parser that stores into [d] is a store_const of True *)
Definition toggle_dest (p : parser) (d : str) : Prop :=
  forall o, In o p -> str_eqb (ao_dest o) d = true -> ao_action o = AStoreConst /\ ao_const o = VBool true.

Lemma ap_value_dest : forall int_of oc dv, ap_value int_of oc = Some dv -> fst dv = ao_dest (fst oc).
Proof.
  intros int_of [o s] [d v]. unfold ap_value. simpl.
  destruct (ao_action o); [|intros H; inversion H; reflexivity|discriminate].
  destruct s as [x|]; [|discriminate].
  destruct (if ao_int o then _ else _) as [v'|]; [|discriminate].
  destruct (ao_choices o) as [[| | | |ch|]|]; try discriminate.
  - destruct (py_in_list v' ch); [|discriminate]. intros H; inversion H; reflexivity.
  - intros H; inversion H; reflexivity.
Qed.

Lemma toggle_fold : forall int_of p d, toggle_dest p d ->
  forall occs vals ns0, Forall (occ_in p) occs -> map_opt (ap_value int_of) occs = Some vals ->
  d_get d (fold_left (fun ns dv => d_set (fst dv) (snd dv) ns) vals ns0) =
  if existsb (occ_dest_is d) occs then Some (VBool true) else d_get d ns0.
Proof.
  intros int_of p d Ht. induction occs as [|oc r IH]; simpl; intros vals ns0 Hin H.
  - inversion H; subst. reflexivity.
  - destruct (ap_value int_of oc) as [dv|] eqn:V; [|discriminate].
    destruct (map_opt (ap_value int_of) r) as [vals'|] eqn:R; [|discriminate]. inversion H; subst.
    inversion Hin; subst. cbn [fold_left]. rewrite (IH vals' _ H3 eq_refl).
    pose proof (ap_value_dest _ _ _ V) as Hd.
    destruct (existsb (occ_dest_is d) r) eqn:Ex; [rewrite orb_true_r; reflexivity|]. rewrite orb_false_r.
    unfold occ_dest_is. destruct (str_eqb (ao_dest (fst oc)) d) eqn:Ed.
    + destruct (Ht _ H2 Ed) as [Ha Hc]. apply seqb_eq in Ed.
      destruct oc as [o s]. destruct dv as [d' v]. unfold ap_value in V. simpl in *. rewrite Ha in V.
      inversion V; subst. rewrite Hc. apply d_get_set_same.
    + rewrite d_get_set_other; [reflexivity|]. rewrite Hd. apply seqb_neq. apply seqb_neq in Ed. congruence.
Qed.

Lemma guesser_toggle_load : toggle_dest guesser_parser (lit "load").
Proof. intros o [<-|[<-|[<-|[<-|[<-|[<-|[<-|[<-|[<-|[]]]]]]]]]] H; try discriminate H; split; reflexivity. Qed.
Lemma guesser_toggle_skip_brute : toggle_dest guesser_parser (lit "skip_brute").
Proof. intros o [<-|[<-|[<-|[<-|[<-|[<-|[<-|[<-|[<-|[]]]]]]]]]] H; try discriminate H; split; reflexivity. Qed.
Lemma guesser_toggle_skip_case : toggle_dest guesser_parser (lit "skip_case").
Proof. intros o [<-|[<-|[<-|[<-|[<-|[<-|[<-|[<-|[<-|[]]]]]]]]]] H; try discriminate H; split; reflexivity. Qed.
Lemma guesser_toggle_debug : toggle_dest guesser_parser (lit "debug").
Proof. intros o [<-|[<-|[<-|[<-|[<-|[<-|[<-|[<-|[<-|[]]]]]]]]]] H; try discriminate H; split; reflexivity. Qed.

(* store_const: a toggle is True exactly when its option occurs on the command line, however often *)
Theorem guesser_toggles : forall int_of argv occs o,
  ap_occs guesser_parser argv = Some occs -> m_options int_of argv = Some o ->
  o_load o = existsb (occ_dest_is (lit "load")) occs /\
  o_skip_brute o = existsb (occ_dest_is (lit "skip_brute")) occs /\
  o_skip_case o = existsb (occ_dest_is (lit "skip_case")) occs /\
  o_debug o = existsb (occ_dest_is (lit "debug")) occs.
Proof.
  intros int_of argv occs o Hocc Ho. pose proof (m_options_ns int_of argv) as Hns. rewrite Ho in Hns. simpl in Hns.
  unfold ap_parse in Hns. rewrite Hocc in Hns.
  destruct (map_opt (ap_value int_of) occs) as [vals|] eqn:V; [|discriminate]. inversion Hns as [Hf]. clear Hns.
  pose proof (ap_occs_in _ _ _ Hocc) as Hin.
  pose proof (toggle_fold int_of _ _ guesser_toggle_load occs vals (ap_defaults guesser_parser) Hin V) as H1.
  pose proof (toggle_fold int_of _ _ guesser_toggle_skip_brute occs vals (ap_defaults guesser_parser) Hin V) as H2.
  pose proof (toggle_fold int_of _ _ guesser_toggle_skip_case occs vals (ap_defaults guesser_parser) Hin V) as H3.
  pose proof (toggle_fold int_of _ _ guesser_toggle_debug occs vals (ap_defaults guesser_parser) Hin V) as H4.
  rewrite Hf in H1, H2, H3, H4. destruct o as [r s l lim sb sc d m].
  change (d_get (lit "load") (ns_of_options _)) with (Some (VBool l)) in H1.
  change (d_get (lit "skip_brute") (ns_of_options _)) with (Some (VBool sb)) in H2.
  change (d_get (lit "skip_case") (ns_of_options _)) with (Some (VBool sc)) in H3.
  change (d_get (lit "debug") (ns_of_options _)) with (Some (VBool d)) in H4.
  change (d_get (lit "load") (ap_defaults guesser_parser)) with (Some (VBool false)) in H1.
  change (d_get (lit "skip_brute") (ap_defaults guesser_parser)) with (Some (VBool false)) in H2.
  change (d_get (lit "skip_case") (ap_defaults guesser_parser)) with (Some (VBool false)) in H3.
  change (d_get (lit "debug") (ap_defaults guesser_parser)) with (Some (VBool false)) in H4.
  cbn [o_load o_skip_brute o_skip_case o_debug].
  repeat split.
  - destruct (existsb (occ_dest_is (lit "load")) occs); congruence.
  - destruct (existsb (occ_dest_is (lit "skip_brute")) occs); congruence.
  - destruct (existsb (occ_dest_is (lit "skip_case")) occs); congruence.
  - destruct (existsb (occ_dest_is (lit "debug")) occs); congruence.
Qed.

(* one token that is a toggle: it is seen, and the rest of the command line is read as before *)
Lemma ap_scan_toggle : forall p t o f cls, takes_arg o = false ->
  ap_scan p ((t, TOpt o f None) :: cls) = option_map (cons (o, None)) (ap_scan p cls).
Proof. intros p t o f cls H. simpl. unfold start_opt. rewrite H. destruct (ap_scan p cls); reflexivity. Qed.

Theorem ap_occs_toggle : forall p t o f argv, classify p t = TOpt o f None -> takes_arg o = false ->
  str_eqb [45; 45] t = false ->
  ap_occs p (t :: argv) = option_map (cons (o, None)) (ap_occs p argv).
Proof.
  intros p t o f argv Hc Ht Hd. unfold ap_occs. cbn [existsb map]. rewrite Hd. cbn [orb].
  destruct (existsb (str_eqb [45; 45]) argv); [reflexivity|]. rewrite Hc. apply ap_scan_toggle. exact Ht.
Qed.

(* reading a command line is compositional: two lines that are read completely, one after the other *)
Lemma ap_scan_app : forall p n c1 c2 o1 o2, (List.length c1 <= n)%nat ->
  ap_scan p c1 = Some o1 -> ap_scan p c2 = Some o2 -> ap_scan p (c1 ++ c2)%list = Some (o1 ++ o2)%list.
Proof.
  induction n as [|n IH]; intros c1 c2 o1 o2 Hn H1 H2.
  - destruct c1; [|simpl in Hn; inversion Hn]. simpl in H1. inversion H1; subst. exact H2.
  - destruct c1 as [|[t c] r]; [simpl in H1; inversion H1; subst; exact H2|].
    simpl in H1. simpl. destruct c as [|o f ex| |]; try discriminate.
    destruct (start_opt p o f ex) as [[l pend]|]; [|discriminate].
    destruct pend as [o'|].
    + destruct r as [|[v c'] r']; [discriminate|]. destruct c'; try discriminate. simpl.
      destruct (ap_scan p r') as [occs'|] eqn:R; [|discriminate]. simpl in H1. inversion H1; subst.
      rewrite (IH r' c2 occs' o2); auto; [simpl; rewrite app_assoc; reflexivity|simpl in Hn; lia].
    + destruct (ap_scan p r) as [occs'|] eqn:R; [|discriminate]. simpl in H1. inversion H1; subst.
      rewrite (IH r c2 occs' o2); auto; [simpl; rewrite app_assoc; reflexivity|simpl in Hn; lia].
Qed.

Lemma ap_occs_app : forall p a b oa ob, ap_occs p a = Some oa -> ap_occs p b = Some ob ->
  ap_occs p (a ++ b)%list = Some (oa ++ ob)%list.
Proof.
  intros p a b oa ob. unfold ap_occs. rewrite existsb_app, map_app.
  destruct (existsb (str_eqb [45; 45]) a); [discriminate|]. destruct (existsb (str_eqb [45; 45]) b); [discriminate|].
  simpl. intros H1 H2. eapply ap_scan_app; eauto.
Qed.

(* a toggle typed twice is read as two occurrences of the same option, typed once as one: every
   toggle of the command line has the same value both times *)
Theorem toggle_twice_is_once : forall p t o f a b c oa ob oc,
  classify p t = TOpt o f None -> takes_arg o = false -> str_eqb [45; 45] t = false ->
  ap_occs p a = Some oa -> ap_occs p b = Some ob -> ap_occs p c = Some oc ->
  exists twice once,
    ap_occs p (a ++ t :: b ++ t :: c)%list = Some twice /\ ap_occs p (a ++ t :: b ++ c)%list = Some once /\
    forall d, existsb (occ_dest_is d) twice = existsb (occ_dest_is d) once.
Proof.
  intros p t o f a b c oa ob oc Hc Ht Hd Ha Hb Hcc.
  assert (T1 : forall l ol, ap_occs p l = Some ol -> ap_occs p (t :: l) = Some ((o, None) :: ol)).
  { intros l ol Hl. rewrite (ap_occs_toggle p t o f l Hc Ht Hd), Hl. reflexivity. }
  exists (oa ++ (o, None) :: ob ++ (o, None) :: oc)%list, (oa ++ (o, None) :: ob ++ oc)%list. split; [|split].
  - apply ap_occs_app; auto. apply T1. apply ap_occs_app; auto.
  - apply ap_occs_app; auto. apply T1. apply ap_occs_app; auto.
  - intros d. rewrite !existsb_app. simpl. rewrite !existsb_app. simpl.
    destruct (existsb (occ_dest_is d) oa), (occ_dest_is d (o, None)), (existsb (occ_dest_is d) ob), (existsb (occ_dest_is d) oc); reflexivity.
Qed.

Example toggle_example :
  m_options int_ascii (map lit ["--skip_brute"; "-r"; "X"; "--skip_brute"; "--all_lower"]%string) =
  m_options int_ascii (map lit ["-r"; "X"; "--all_lower"; "--skip_brute"]%string) /\
  option_map o_skip_brute (m_options int_ascii (map lit ["--skip_brute"; "--skip_brute"]%string)) = Some true /\
  option_map o_skip_brute (m_options int_ascii (map lit ["--all_lower"]%string)) = Some false /\
  m_options int_ascii (map lit ["--skip_brute=1"]%string) = None /\
  classify guesser_parser (lit "--skip_brute") = TOpt o_skip_brute_opt (lit "--skip_brute") None.
Proof. vm_compute. repeat split. Qed.

(* the limit test of parse_command_line: refused exactly for a negative limit *)
Theorem m_parse_refuses : forall int_of argv b o, m_parse int_of argv = Some (b, o) ->
  (b = false <-> exists z, o_limit o = Some z /\ (z < 0)%Z).
Proof.
  intros int_of argv b o. unfold m_parse. destruct (m_options int_of argv) as [o'|]; [|discriminate].
  intros H. inversion H; subst. unfold limit_refused. destruct (o_limit o) as [z|]; simpl.
  - split.
    + intros Hb. exists z. split; auto. apply negb_false_iff in Hb. apply andb_true_iff in Hb. destruct Hb as [H1 H2].
      apply negb_true_iff in H1. apply Z.eqb_neq in H1. apply Z.leb_le in H2. lia.
    + intros [z' [E Hz]]. inversion E; subst. apply negb_false_iff. apply andb_true_iff. split.
      * apply negb_true_iff. apply Z.eqb_neq. lia.
      * apply Z.leb_le. lia.
  - split; [discriminate|]. intros [z [E _]]. discriminate.
Qed.

(* ---------------------------------------------------------------- configparser *)

Lemma kv_get_set_same : forall k v kv, kv_get k (kv_set k v kv) = Some v.
Proof.
  induction kv as [|[k' v'] r IH]; simpl.
  - rewrite key_eqb_is, seqb_refl. reflexivity.
  - destruct (key_eqb k k') eqn:E; simpl; rewrite E; auto.
Qed.
Lemma kv_get_set_other : forall k k' v kv, str_eqb k k' = false -> kv_get k (kv_set k' v kv) = kv_get k kv.
Proof.
  induction kv as [|[k2 v2] r IH]; simpl; intros H.
  - rewrite key_eqb_is, H. reflexivity.
  - destruct (key_eqb k' k2) eqn:E; simpl.
    + rewrite key_eqb_is in E. apply seqb_eq in E. subst k2. rewrite key_eqb_is, H. reflexivity.
    + destruct (key_eqb k k2); auto.
Qed.

(* cfg.set(s', k', v) leaves every other option as it was *)
Lemma cfg_lookup_set_other : forall s k s' k' v c, str_eqb s s' && str_eqb k k' = false ->
  cfg_lookup s k (cfg_set_in s' k' v c) = cfg_lookup s k c.
Proof.
  intros s k s' k' v c H. unfold cfg_lookup. induction c as [|[s2 kv] r IH]; simpl; [reflexivity|].
  destruct (key_eqb s' s2) eqn:E1; simpl.
  - destruct (key_eqb s s2) eqn:E2; [|reflexivity].
    rewrite key_eqb_is in E1, E2. apply seqb_eq in E1. apply seqb_eq in E2. subst.
    rewrite seqb_refl in H. simpl in H. apply kv_get_set_other. exact H.
  - destruct (key_eqb s s2); [reflexivity|exact IH].
Qed.
Lemma cfg_lookup_set_same : forall s k v c, cfg_has_section s c = true ->
  cfg_lookup s k (cfg_set_in s k v c) = Some v.
Proof.
  intros s k v c. unfold cfg_lookup, cfg_has_section. induction c as [|[s2 kv] r IH]; simpl; [discriminate|].
  destruct (key_eqb s s2) eqn:E; simpl; rewrite E; [intros _; apply kv_get_set_same|exact IH].
Qed.

Lemma boolean_of_str_of_bool : forall b, boolean_of (str_of_bool b) = Some b.
Proof. intros [|]; reflexivity. Qed.

(* round trip: a save file that still says what create_save_config wrote (and has the uuid and
   last_updated the session adds) is loaded with exactly the rule name and flags that were saved *)
Theorem save_load_round_trip : forall now rule sb sc c,
  cfg_lookup k_rule_info (lit "rule_name") c = cfg_lookup k_rule_info (lit "rule_name") (m_create_save_config now rule sb sc) ->
  cfg_lookup k_rule_info (lit "skip_brute") c = cfg_lookup k_rule_info (lit "skip_brute") (m_create_save_config now rule sb sc) ->
  cfg_lookup k_rule_info (lit "skip_case") c = cfg_lookup k_rule_info (lit "skip_case") (m_create_save_config now rule sb sc) ->
  cfg_has_option k_rule_info (lit "uuid") c = true ->
  cfg_has_option k_session_info (lit "last_updated") c = true ->
  m_load_save (FCfg c) = LOk c rule sb sc.
Proof.
  intros now rule sb sc c H1 H2 H3 H4 H5. unfold m_load_save, cfg_has_option in *.
  rewrite H1, H2, H3.
  change (cfg_lookup k_rule_info (lit "rule_name") (m_create_save_config now rule sb sc)) with (Some rule).
  change (cfg_lookup k_rule_info (lit "skip_brute") (m_create_save_config now rule sb sc)) with (Some (str_of_bool sb)).
  change (cfg_lookup k_rule_info (lit "skip_case") (m_create_save_config now rule sb sc)) with (Some (str_of_bool sc)).
  destruct (cfg_lookup k_rule_info (lit "uuid") c); [|discriminate].
  destruct (cfg_lookup k_session_info (lit "last_updated") c); [|discriminate].
  simpl. rewrite !boolean_of_str_of_bool. reflexivity.
Qed.

(* the file a session leaves: create_save_config, then main's uuid, the session's last_updated and
   whatever the session stores under guessing_info *)
Fixpoint set_guessing (l : list (str * str)) (c : config) : config :=
  match l with
  | [] => c
  | (k, v) :: r => set_guessing r (cfg_set_in k_guessing_info k v c)
  end.

Lemma set_guessing_lookup : forall l s k c, str_eqb s k_guessing_info = false ->
  cfg_lookup s k (set_guessing l c) = cfg_lookup s k c.
Proof.
  induction l as [|[k' v] r IH]; simpl; intros s k c H; [reflexivity|].
  rewrite IH by exact H. apply cfg_lookup_set_other. rewrite H. reflexivity.
Qed.

Corollary session_file_round_trip : forall now rule sb sc uuid stamp guessing,
  m_load_save (FCfg (set_guessing guessing
     (cfg_set_in k_session_info (lit "last_updated") stamp
        (cfg_set_in k_rule_info (lit "uuid") uuid (m_create_save_config now rule sb sc))))) =
  LOk (set_guessing guessing
     (cfg_set_in k_session_info (lit "last_updated") stamp
        (cfg_set_in k_rule_info (lit "uuid") uuid (m_create_save_config now rule sb sc)))) rule sb sc.
Proof.
  intros now rule sb sc uuid stamp guessing. apply (save_load_round_trip now); unfold cfg_has_option;
    rewrite set_guessing_lookup by reflexivity; reflexivity.
Qed.

(* ---------------------------------------------------------------- main *)

Definition no_grammar (l : list event) : Prop :=
  Forall (fun e => match e with EGrammar _ => False | _ => True end) l.

Ltac crunch H :=
  repeat match type of H with
         | context [match ?x with _ => _ end] =>
           lazymatch x with
           | context [match _ with _ => _ end] => fail
           | _ => destruct x eqn:?
           end
         end.

(* (1) --load: the grammar is built with exactly the saved rule name, skip_brute and skip_case,
   whatever was typed *)
Theorem main_load_uses_saved : forall E ver o c rule sb sc e log,
  m_parse (e_int_of E) (e_argv E) = Some (true, o) -> resumes o = true ->
  m_load_save (e_fs E (save_name E o)) = LOk c rule sb sc ->
  m_main E ver = (e, log) ->
  exists g rest, log = EGrammar g :: rest /\ no_grammar rest /\
    gc_rule_name g = VStr rule /\ gc_skip_brute g = VBool sb /\ gc_skip_case g = VBool sc /\
    gc_base_directory g = VStr (e_pjoin E [e_script_dir E; lit "Rules"; rule]) /\
    gc_save_file g = VStr (save_name E o).
Proof.
  intros E ver o c rule sb sc e log Hp Hr Hl H. unfold m_main in H. rewrite Hp, Hr, Hl in H.
  cbv beta iota zeta in H. crunch H; inversion H; subst; eexists; eexists; (split; [reflexivity|]);
    (split; [repeat constructor|]); repeat split.
Qed.

(* ... and a save file that cannot be used stops main before any grammar is built *)
Theorem main_load_failure : forall E ver o,
  m_parse (e_int_of E) (e_argv E) = Some (true, o) -> resumes o = true ->
  match m_load_save (e_fs E (save_name E o)) with
  | LFail => m_main E ver = (MDone, [])
  | LCrash e => m_main E ver = (MRaise e, [])
  | LOk _ _ _ _ => True
  end.
Proof.
  intros E ver o Hp Hr. unfold m_main. rewrite Hp, Hr. cbv beta iota zeta.
  destruct (m_load_save (e_fs E (save_name E o))); auto.
Qed.

(* (3) no restored session: the typed flags are used *)
Theorem main_uses_typed : forall E ver o e log,
  m_parse (e_int_of E) (e_argv E) = Some (true, o) -> resumes o = false ->
  m_main E ver = (e, log) ->
  exists g rest, log = EGrammar g :: rest /\ no_grammar rest /\
    gc_rule_name g = VStr (o_rule o) /\ gc_skip_brute g = VBool (o_skip_brute o) /\
    gc_skip_case g = VBool (o_skip_case o) /\ gc_debug g = VBool (o_debug o) /\
    gc_save_file g = VStr (save_name E o).
Proof.
  intros E ver o e log Hp Hr H. unfold m_main in H. rewrite Hp, Hr in H.
  cbv beta iota zeta in H. crunch H; inversion H; subst; eexists; eexists; (split; [reflexivity|]);
    (split; [repeat constructor|]); repeat split.
Qed.

(* (4) the limit (and the load flag) a session is run with are the typed ones, restored or not;
   the session is given the save file name <script dir>/<session>.sav *)
Theorem main_session_arguments : forall E ver o e log,
  m_parse (e_int_of E) (e_argv E) = Some (true, o) -> m_main E ver = (e, log) ->
  Forall (fun ev => match ev with
                    | ECrackRun s ld lim =>
                      ld = VBool (o_load o) /\ lim = v_limit (o_limit o) /\
                      cs_save_filename s = VStr (save_name E o) /\ In (EGrammar (g_call (cs_pcfg s))) log
                    | EHoneyRun s lim =>
                      lim = v_limit (o_limit o) /\ hs_mode s = VStr (o_mode o) /\ In (EGrammar (g_call (hs_pcfg s))) log
                    | _ => True
                    end) log.
Proof.
  intros E ver o e log Hp H. unfold m_main in H. rewrite Hp in H. cbv beta iota zeta in H.
  crunch H; inversion H; subst; repeat constructor; simpl; auto.
Qed.

(* a command line that is refused runs nothing *)
Theorem main_refused : forall E ver,
  match m_parse (e_int_of E) (e_argv E) with
  | None => m_main E ver = (MRaise SystemExit, [])
  | Some (false, _) => m_main E ver = (MDone, [])
  | Some (true, _) => True
  end.
Proof. intros E ver. unfold m_main. destruct (m_parse (e_int_of E) (e_argv E)) as [[[|] o]|]; auto. Qed.

(* main itself writes nothing to standard output *)
Theorem main_no_stdout : forall E ver, ~ In EStdout (snd (m_main E ver)).
Proof.
  intros E ver. destruct (m_main E ver) as [e log] eqn:H. simpl. unfold m_main in H.
  crunch H; inversion H; subst; simpl; intuition discriminate.
Qed.

(* the uuid test: a restored session whose saved uuid differs from the ruleset's is refused
   (no session is run); with the same uuid the session gets the loaded config, unchanged *)
Theorem main_uuid : forall E ver o c rule sb sc e log u,
  m_parse (e_int_of E) (e_argv E) = Some (true, o) -> resumes o = true ->
  m_load_save (e_fs E (save_name E o)) = LOk c rule sb sc ->
  cfg_lookup k_rule_info (lit "uuid") c = Some u ->
  m_main E ver = (e, log) ->
  exists g, log = EGrammar g :: match e_grammar E g with
                               | None => []
                               | Some u' =>
                                 if py_eqb (VStr u) u' then
                                   [ECrackRun {| cs_pcfg := {| g_call := g; g_uuid := u' |}; cs_save_config := VCfg c;
                                                 cs_save_filename := VStr (save_name E o) |} (VBool true) (v_limit (o_limit o))]
                                 else []
                               end.
Proof.
  intros E ver o c rule sb sc e log u Hp Hr Hl Hu H. unfold m_main in H. rewrite Hp, Hr, Hl in H.
  cbv beta iota zeta in H. unfold resumes in Hr. apply andb_true_iff in Hr. destruct Hr as [Hm Hld].
  rewrite Hm, Hu, Hld in H. eexists.
  destruct (e_grammar E _) as [u'|] eqn:G; [destruct (py_eqb (VStr u) u') eqn:Q|]; simpl in H;
    inversion H; subst; rewrite G; try rewrite Q; reflexivity.
Qed.

(* load_save accepts a file exactly when it has the five options and both flags are boolean words *)
Theorem load_save_checks : forall c rule sb sc, m_load_save (FCfg c) = LOk c rule sb sc ->
  cfg_lookup k_rule_info (lit "rule_name") c = Some rule /\
  (exists s, cfg_lookup k_rule_info (lit "skip_brute") c = Some s /\ boolean_of s = Some sb) /\
  (exists s, cfg_lookup k_rule_info (lit "skip_case") c = Some s /\ boolean_of s = Some sc) /\
  cfg_has_option k_rule_info (lit "uuid") c = true /\ cfg_has_option k_session_info (lit "last_updated") c = true.
Proof.
  intros c rule sb sc H. unfold m_load_save, cfg_has_option in *.
  crunch H; try discriminate. inversion H; subst. repeat split; eauto.
Qed.
