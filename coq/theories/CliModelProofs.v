(* Lemmas about the model of the guesser's command line / save-file glue (CliModel.v). *)
From Coq Require Import List NArith ZArith Bool String Lia.
From Pcfg Require Import Str CliModel.
Import ListNotations.
Open Scope N_scope.

(* ---------------------------------------------------------------- strings, dicts *)

Lemma seqb_eq : forall a b : str, str_eqb a b = true <-> a = b.
Proof.
  induction a as [|x a IH]; destruct b as [|y b]; simpl; split; intros H; try discriminate; auto.
  - apply andb_true_iff in H. destruct H as [H1 H2]. apply N.eqb_eq in H1. apply IH in H2. congruence.
  - inversion H; subst. rewrite N.eqb_refl. simpl. apply IH. reflexivity.
Qed.
Lemma seqb_refl : forall a : str, str_eqb a a = true.
Proof. intros a. apply seqb_eq. reflexivity. Qed.
Lemma seqb_neq : forall a b : str, str_eqb a b = false <-> a <> b.
Proof.
  intros a b. split.
  - intros H E. apply seqb_eq in E. congruence.
  - intros H. destruct (str_eqb a b) eqn:E; auto. apply seqb_eq in E. contradiction.
Qed.

Lemma str_app_is : forall a b : str, str_app a b = a ++ b.
Proof. induction a as [|x a IH]; simpl; intros b; [reflexivity|rewrite IH; reflexivity]. Qed.

Lemma key_eqb_is : forall a b : str, key_eqb a b = str_eqb a b.
Proof. induction a as [|x a IH]; destruct b as [|y b]; simpl; auto. Qed.

Lemma d_get_set_same : forall k v d, d_get k (d_set k v d) = Some v.
Proof.
  induction d as [|[k' v'] r IH]; simpl.
  - rewrite key_eqb_is, seqb_refl. reflexivity.
  - destruct (key_eqb k k') eqn:E; simpl; rewrite E; auto.
Qed.
Lemma d_get_set_other : forall k k' v d, str_eqb k k' = false -> d_get k (d_set k' v d) = d_get k d.
Proof.
  induction d as [|[k2 v2] r IH]; simpl; intros H.
  - rewrite key_eqb_is, H. reflexivity.
  - destruct (key_eqb k' k2) eqn:E; simpl.
    + rewrite key_eqb_is in E. apply seqb_eq in E. subst k2. rewrite key_eqb_is, H. reflexivity.
    + destruct (key_eqb k k2); auto.
Qed.

(* ---------------------------------------------------------------- argparse: the options seen are options of the parser *)

Definition occ_in (p : parser) (oc : rawocc) : Prop := In (fst oc) p.

Lemma assoc_flag_in : forall f l o, assoc_flag f l = Some o -> In (f, o) l.
Proof.
  induction l as [|[f' o'] r IH]; simpl; intros o H; [discriminate|].
  destruct (str_eqb f f') eqn:E.
  - inversion H; subst. apply seqb_eq in E. subst. left. reflexivity.
  - right. apply IH. exact H.
Qed.

Lemma all_flags_in : forall p f o, In (f, o) (all_flags p) -> In o p.
Proof.
  intros p f o H. unfold all_flags in H. apply in_flat_map in H. destruct H as [o' [Ho' H]].
  apply in_map_iff in H. destruct H as [f' [E _]]. inversion E; subst. exact Ho'.
Qed.

Lemma find_flag_in : forall p f o, find_flag p f = Some o -> In o p.
Proof. intros p f o H. apply assoc_flag_in in H. eapply all_flags_in; eauto. Qed.

Lemma classify_in : forall p t o f e, classify p t = TOpt o f e -> In o p.
Proof.
  intros p t o f e. unfold classify. destruct t as [|c rest]; [discriminate|].
  destruct (negb (c =? 45)); [discriminate|].
  destruct (find_flag p (c :: rest)) as [o1|] eqn:F1.
  { intros H. inversion H; subst. eapply find_flag_in; eauto. }
  destruct rest as [|c2 rest']; [discriminate|].
  destruct (split_eq (c :: c2 :: rest')) as [[pre ex]|] eqn:S.
  - destruct (find_flag p pre) as [o2|] eqn:F2.
    { intros H. inversion H; subst. eapply find_flag_in; eauto. }
    match goal with |- match ?l with _ => _ end = _ -> _ => remember l as cands eqn:Hc end.
    destruct cands as [|r1 [|r2 rr]]; try discriminate.
    { destruct (neg_number_like _); [discriminate|]. destruct (mem_c _ _); discriminate. }
    intros H. subst r1.
    assert (Hin : In (TOpt o f e) [TOpt o f e]) by (left; reflexivity). rewrite Hc in Hin.
    destruct (c2 =? 45).
    + apply in_map_iff in Hin. destruct Hin as [[f' o'] [E Hin]]. simpl in E. inversion E; subst.
      apply filter_In in Hin. destruct Hin as [Hin _]. eapply all_flags_in; eauto.
    + apply in_flat_map in Hin. destruct Hin as [[f' o'] [Hin E]]. cbn [fst snd] in E.
      repeat match type of E with In _ (if ?a then _ else _) => destruct a end;
        try (simpl in E; contradiction);
        destruct E as [E|[]]; inversion E; subst; eapply all_flags_in; eauto.
  - match goal with |- match ?l with _ => _ end = _ -> _ => remember l as cands eqn:Hc end.
    destruct cands as [|r1 [|r2 rr]]; try discriminate.
    { destruct (neg_number_like _); [discriminate|]. destruct (mem_c _ _); discriminate. }
    intros H. subst r1.
    assert (Hin : In (TOpt o f e) [TOpt o f e]) by (left; reflexivity). rewrite Hc in Hin.
    destruct (c2 =? 45).
    + apply in_map_iff in Hin. destruct Hin as [[f' o'] [E Hin]]. simpl in E. inversion E; subst.
      apply filter_In in Hin. destruct Hin as [Hin _]. eapply all_flags_in; eauto.
    + apply in_flat_map in Hin. destruct Hin as [[f' o'] [Hin E]]. cbn [fst snd] in E.
      repeat match type of E with In _ (if ?a then _ else _) => destruct a end;
        try (simpl in E; contradiction);
        destruct E as [E|[]]; inversion E; subst; eapply all_flags_in; eauto.
Qed.

Lemma cluster_in : forall p e l pend, cluster p e = Some (l, pend) ->
  Forall (occ_in p) l /\ (forall o, pend = Some o -> In o p).
Proof.
  induction e as [|c e' IH]; simpl; intros l pend H; [discriminate|].
  destruct (find_flag p [45; c]) as [o'|] eqn:F; [|discriminate]. apply find_flag_in in F.
  destruct e' as [|c' e''].
  - destruct (takes_arg o'); inversion H; subst; split.
    + constructor.
    + intros o E. inversion E; subst. exact F.
    + constructor; [exact F|constructor].
    + intros o E. discriminate.
  - destruct (takes_arg o').
    + inversion H; subst. split; [constructor; auto|]. intros o E. discriminate.
    + destruct (cluster p (c' :: e'')) as [[l' pend']|] eqn:C; [|discriminate].
      inversion H; subst. destruct (IH _ _ eq_refl) as [H1 H2]. split; [constructor; auto|auto].
Qed.

Lemma start_opt_in : forall p o f ex l pend, In o p -> start_opt p o f ex = Some (l, pend) ->
  Forall (occ_in p) l /\ (forall o', pend = Some o' -> In o' p).
Proof.
  intros p o f ex l pend Ho. unfold start_opt. destruct ex as [e|].
  - destruct (takes_arg o).
    + intros H. inversion H; subst. split; [constructor; auto|]. intros o' E. discriminate.
    + destruct (negb (is_long f) && nonempty e); [|discriminate].
      destruct (cluster p e) as [[l' pend']|] eqn:C; [|discriminate].
      intros H. inversion H; subst. destruct (cluster_in _ _ _ _ C) as [H1 H2]. split; [constructor; auto|auto].
  - destruct (takes_arg o); intros H; inversion H; subst; split.
    + constructor.
    + intros o' E. inversion E; subst. exact Ho.
    + constructor; [exact Ho|constructor].
    + intros o' E. discriminate.
Qed.

Lemma ap_scan_in : forall p n cls occs, (List.length cls <= n)%nat ->
  (forall t o f e, In (t, TOpt o f e) cls -> In o p) ->
  ap_scan p cls = Some occs -> Forall (occ_in p) occs.
Proof.
  induction n as [|n IH]; intros cls occs Hn Hcls H.
  - destruct cls; [|simpl in Hn; lia]. simpl in H. inversion H. constructor.
  - destruct cls as [|[t c] r]; [simpl in H; inversion H; constructor|].
    simpl in H. destruct c as [|o f ex| |]; try discriminate.
    assert (Ho : In o p) by (eapply Hcls; left; reflexivity).
    destruct (start_opt p o f ex) as [[l pend]|] eqn:S; [|discriminate].
    destruct (start_opt_in _ _ _ _ _ _ Ho S) as [H1 H2].
    destruct pend as [o'|].
    + destruct r as [|[v c'] r']; [discriminate|]. destruct c'; try discriminate.
      destruct (ap_scan p r') as [occs'|] eqn:R; [|discriminate]. simpl in H. inversion H; subst.
      apply Forall_app. split.
      * apply Forall_app. split; auto. constructor; [|constructor]. apply H2. reflexivity.
      * apply (IH r'); auto. { simpl in Hn. lia. }
        intros t0 o0 f0 e0 Hi. eapply Hcls. right. right. exact Hi.
    + destruct (ap_scan p r) as [occs'|] eqn:R; [|discriminate]. simpl in H. inversion H; subst.
      apply Forall_app. split; auto. apply (IH r); auto. { simpl in Hn. lia. }
      intros t0 o0 f0 e0 Hi. eapply Hcls. right. exact Hi.
Qed.

Lemma ap_occs_in : forall p argv occs, ap_occs p argv = Some occs -> Forall (occ_in p) occs.
Proof.
  intros p argv occs. unfold ap_occs. destruct (existsb _ argv); [discriminate|].
  intros H. eapply ap_scan_in; [reflexivity| |exact H].
  intros t o f e Hi. apply in_map_iff in Hi. destruct Hi as [t' [E _]]. inversion E; subst.
  eapply classify_in; eauto.
Qed.

(* ---------------------------------------------------------------- the guesser's namespace is typed *)

Lemma options_of_ns_of : forall o, options_of_ns (ns_of_options o) = Some o.
Proof. intros [r s l [z|] sb sc d m]; reflexivity. Qed.

Definition default_options : options :=
  {| o_rule := lit "Default"; o_session := lit "default_run"; o_load := false; o_limit := None;
     o_skip_brute := false; o_skip_case := false; o_debug := false; o_mode := mode_tpo |}.

Lemma guesser_defaults : ap_defaults guesser_parser = ns_of_options default_options.
Proof. reflexivity. Qed.

Lemma guesser_step : forall int_of oc dv o1, occ_in guesser_parser oc -> ap_value int_of oc = Some dv ->
  exists o2, d_set (fst dv) (snd dv) (ns_of_options o1) = ns_of_options o2.
Proof.
  intros int_of [o s] dv [r ss l lim sb sc d m] Hin H. unfold occ_in in Hin. simpl in Hin.
  destruct Hin as [<-|[<-|[<-|[<-|[<-|[<-|[<-|[<-|[<-|[]]]]]]]]]]; unfold ap_value in H; simpl in H.
  - destruct s; discriminate.
  - destruct s as [v|]; [|discriminate]. inversion H; subst.
    exists {| o_rule := v; o_session := ss; o_load := l; o_limit := lim; o_skip_brute := sb; o_skip_case := sc; o_debug := d; o_mode := m |}.
    reflexivity.
  - destruct s as [v|]; [|discriminate]. inversion H; subst.
    exists {| o_rule := r; o_session := v; o_load := l; o_limit := lim; o_skip_brute := sb; o_skip_case := sc; o_debug := d; o_mode := m |}.
    reflexivity.
  - inversion H; subst.
    exists {| o_rule := r; o_session := ss; o_load := true; o_limit := lim; o_skip_brute := sb; o_skip_case := sc; o_debug := d; o_mode := m |}.
    reflexivity.
  - destruct s as [v|]; [|discriminate]. destruct (int_of v) as [z|]; [|discriminate]. simpl in H. inversion H; subst.
    exists {| o_rule := r; o_session := ss; o_load := l; o_limit := Some z; o_skip_brute := sb; o_skip_case := sc; o_debug := d; o_mode := m |}.
    reflexivity.
  - inversion H; subst.
    exists {| o_rule := r; o_session := ss; o_load := l; o_limit := lim; o_skip_brute := true; o_skip_case := sc; o_debug := d; o_mode := m |}.
    reflexivity.
  - inversion H; subst.
    exists {| o_rule := r; o_session := ss; o_load := l; o_limit := lim; o_skip_brute := sb; o_skip_case := true; o_debug := d; o_mode := m |}.
    reflexivity.
  - inversion H; subst.
    exists {| o_rule := r; o_session := ss; o_load := l; o_limit := lim; o_skip_brute := sb; o_skip_case := sc; o_debug := true; o_mode := m |}.
    reflexivity.
  - destruct s as [v|]; [|discriminate].
    match type of H with (if ?c then _ else _) = _ => destruct c end; [|discriminate]. inversion H; subst.
    exists {| o_rule := r; o_session := ss; o_load := l; o_limit := lim; o_skip_brute := sb; o_skip_case := sc; o_debug := d; o_mode := v |}.
    reflexivity.
Qed.

Lemma guesser_fold : forall int_of occs vals o1, Forall (occ_in guesser_parser) occs ->
  map_opt (ap_value int_of) occs = Some vals ->
  exists o2, fold_left (fun ns dv => d_set (fst dv) (snd dv) ns) vals (ns_of_options o1) = ns_of_options o2.
Proof.
  induction occs as [|oc r IH]; simpl; intros vals o1 Hin H.
  - inversion H; subst. exists o1. reflexivity.
  - destruct (ap_value int_of oc) as [dv|] eqn:V; [|discriminate].
    destruct (map_opt (ap_value int_of) r) as [vals'|] eqn:R; [|discriminate]. inversion H; subst.
    inversion Hin; subst. destruct (guesser_step int_of oc dv o1 H2 V) as [o2 E]. cbn [fold_left]. rewrite E.
    apply IH; auto.
Qed.

(* what parse_args returns for the guesser's parser is the namespace of a typed options record *)
Theorem guesser_ns_typed : forall int_of argv ns, ap_parse int_of guesser_parser argv = Some ns ->
  exists o, ns = ns_of_options o /\ options_of_ns ns = Some o.
Proof.
  intros int_of argv ns. unfold ap_parse. destruct (ap_occs guesser_parser argv) as [occs|] eqn:O; [|discriminate].
  destruct (map_opt (ap_value int_of) occs) as [vals|] eqn:V; [|discriminate]. intros H. inversion H; subst.
  rewrite guesser_defaults. destruct (guesser_fold int_of occs vals default_options (ap_occs_in _ _ _ O) V) as [o E].
  exists o. rewrite E. split; [reflexivity|apply options_of_ns_of].
Qed.

Corollary m_options_ns : forall int_of argv,
  ap_parse int_of guesser_parser argv = option_map ns_of_options (m_options int_of argv).
Proof.
  intros int_of argv. unfold m_options. destruct (ap_parse int_of guesser_parser argv) as [ns|] eqn:P; [|reflexivity].
  destruct (guesser_ns_typed _ _ _ P) as [o [E1 E2]]. rewrite E2. simpl. congruence.
Qed.
