(* Loader2Model.v - hand-written models of the remaining readers of a ruleset, over the
   oracles of Loader2Rt.world, and how their results are laid out as Python values.
   Definitions only; Loader2GenProofs.v proves the functions of gen/Loader2_gen.v (the
   translation of the current Python text) equal to them.

     1. the OMEN files as the guesser reads them (lib_guesser/omen/input_file_io.py
        load_rules): config.txt, alphabet.txt, IP / EP / CP.level, LN.level -> the tables
        of TextFile.v (ip_buckets, ep_dict, cp_dict, ln_guesser, load_alphabet);
     2. the OMEN files as the scorer reads them (lib_scorer/omen_scorer.py
        OmenScorer.__init__ / _load_omen): IP / CP / LN.level -> dicts, ngram, max_len;
     3. the terminal files of a ruleset as the guesser reads them (lib_guesser/grammar_io.py
        _load_from_multiple_files, _load_terminals, _load_config, load_grammar);
     4. the same for the scorer (lib_scorer/grammar_io.py _load_from_multiple_files,
        load_grammar). *)
From Coq Require Import List Arith ZArith NArith Bool.
From Pcfg Require Import TextFile LoaderRt Loader2Rt.
Import ListNotations.

(* ---------------------------------------------------------------- names *)

Definition k_alphabet_encoding : pstr := [97; 108; 112; 104; 97; 98; 101; 116; 95; 101; 110; 99; 111; 100; 105; 110; 103]%N.
Definition k_ngram : pstr := [110; 103; 114; 97; 109]%N.
Definition k_max_level : pstr := [109; 97; 120; 95; 108; 101; 118; 101; 108]%N.
Definition k_alphabet : pstr := [97; 108; 112; 104; 97; 98; 101; 116]%N.
Definition k_ip : pstr := [105; 112]%N.
Definition k_ep : pstr := [101; 112]%N.
Definition k_cp : pstr := [99; 112]%N.
Definition k_ln : pstr := [108; 110]%N.
Definition k_strict : pstr := [115; 116; 114; 105; 99; 116]%N.
Definition k_training_settings : pstr := [116; 114; 97; 105; 110; 105; 110; 103; 95; 115; 101; 116; 116; 105; 110; 103; 115]%N.
Definition k_encoding : pstr := [101; 110; 99; 111; 100; 105; 110; 103]%N.
Definition n_config_txt : pstr := [99; 111; 110; 102; 105; 103; 46; 116; 120; 116]%N.
Definition n_alphabet_txt : pstr := [97; 108; 112; 104; 97; 98; 101; 116; 46; 116; 120; 116]%N.
Definition n_ip_level : pstr := [73; 80; 46; 108; 101; 118; 101; 108]%N.
Definition n_ep_level : pstr := [69; 80; 46; 108; 101; 118; 101; 108]%N.
Definition n_cp_level : pstr := [67; 80; 46; 108; 101; 118; 101; 108]%N.
Definition n_ln_level : pstr := [76; 78; 46; 108; 101; 118; 101; 108]%N.
Definition n_omen : pstr := [79; 109; 101; 110]%N.
Definition k_max_omen_level : pstr := [109; 97; 120; 95; 111; 109; 101; 110; 95; 108; 101; 118; 101; 108]%N.
Definition k_max_len : pstr := [109; 97; 120; 95; 108; 101; 110]%N.
Definition k_ten : pstr := [49; 48]%N.

(* ---------------------------------------------------------------- one line of a level file *)

Section Lines.
Context (iws : N -> bool) (dz : list N).

(* one line of IP / EP / CP.level: rstrip('\n\r'), split on TAB, exactly two fields
   (else `raise Exception`), int() (ValueError), range check (`raise Exception`);
   [maxlvl] = None: no upper bound (the scorer) *)
Definition level_line (maxlvl : option Z) (ln : pstr) : (Z * pstr) + xexn :=
  match split_on 9%N (rstrip is_crlf ln) with
  | [f; k] =>
      match parse_int iws dz f with
      | None => inr (XBase EValue)
      | Some lvl =>
          if (lvl <? 0)%Z then inr XPlain
          else match maxlvl with
               | Some m => if (m <? lvl)%Z then inr XPlain else inl (lvl, k)
               | None => inl (lvl, k)
               end
      end
  | _ => inr XPlain
  end.

(* the lines of a level file, up to the first one that raises *)
Fixpoint level_lines (maxlvl : option Z) (lines : list pstr) : list (Z * pstr) + xexn :=
  match lines with
  | [] => inl []
  | ln :: r => match level_line maxlvl ln with
               | inl it => match level_lines maxlvl r with
                           | inl its => inl (it :: its)
                           | inr e => inr e
                           end
               | inr e => inr e
               end
  end.

(* one line of LN.level: rstrip('\n\r'), int(), range check *)
Definition ln_line (maxlvl : option Z) (ln : pstr) : Z + xexn :=
  match parse_int iws dz (rstrip is_crlf ln) with
  | None => inr (XBase EValue)
  | Some lvl =>
      if (lvl <? 0)%Z then inr XPlain
      else match maxlvl with
           | Some m => if (m <? lvl)%Z then inr XPlain else inl lvl
           | None => inl lvl
           end
  end.

Fixpoint ln_lines (maxlvl : option Z) (lines : list pstr) : list Z + xexn :=
  match lines with
  | [] => inl []
  | ln :: r => match ln_line maxlvl ln with
               | inl l => match ln_lines maxlvl r with
                          | inl ls => inl (l :: ls)
                          | inr e => inr e
                          end
               | inr e => inr e
               end
  end.

(* CP.level: grammar['cp'][ngram[0:-1]][level].append(ngram[-1]) line by line; an empty
   n-gram raises IndexError (line[1][-1]) *)
Definition cp_step (d : list (pstr * list (Z * pstr))) (it : Z * pstr) : list (pstr * list (Z * pstr)) + xexn :=
  match rev (snd it) with
  | c :: pre_rev => inl (cp_add (rev pre_rev) (fst it) c d)
  | [] => inr (XBase EIndex)
  end.

Fixpoint cp_lines (maxlvl : option Z) (lines : list pstr) (d : list (pstr * list (Z * pstr)))
  : list (pstr * list (Z * pstr)) + xexn :=
  match lines with
  | [] => inl d
  | ln :: r => match level_line maxlvl ln with
               | inl it => match cp_step d it with
                           | inl d' => cp_lines maxlvl r d'
                           | inr e => inr e
                           end
               | inr e => inr e
               end
  end.

End Lines.

(* ---------------------------------------------------------------- 1. the guesser's OMEN tables *)

Record omen_tables := {
  ot_encoding : pstr;                          (* grammar['alphabet_encoding'] *)
  ot_ngram : Z;                                (* grammar['ngram'] *)
  ot_alphabet : list pstr;                     (* grammar['alphabet'] *)
  ot_ip : list (list pstr);                    (* grammar['ip'][level], level = 0..10 *)
  ot_ep : list (pstr * Z);                     (* grammar['ep'], dict order *)
  ot_cp : list (pstr * list (Z * pstr));       (* grammar['cp'][prefix][level] = the next characters *)
  ot_ln : list (list Z);                       (* grammar['ln'][level], level = 0..10 *)
}.

Section Values.
Context {T C S : Type}.
Notation val := (pyval T C S).

Definition enc_strs (l : list pstr) : val := VList (map VStr l).
Definition enc_chars (s : pstr) : val := VList (map (fun c => VStr [c]) s).
Definition enc_ints (l : list Z) : val := VList (map VInt l).

(* a dict {0: f 0, 1: f 1, ...} over the levels [ks] *)
Definition level_dict (f : nat -> val) (ks : list nat) : list (val * val) :=
  map (fun l => (VInt (Z.of_nat l), f l)) ks.

(* the levels of a bucket list are its positions *)
Definition enc_buckets {X : Type} (e : X -> val) (B : list X) : val :=
  VDict (map (fun lb => (VInt (Z.of_nat (fst lb)), e (snd lb))) (combine (seq 0 (length B)) B)).

Definition enc_ep (d : list (pstr * Z)) : val :=
  VDict (map (fun kv => (VStr (fst kv), VInt (snd kv))) d).

Definition enc_zdict (m : list (Z * pstr)) : val :=
  VDict (map (fun lc => (VInt (fst lc), enc_chars (snd lc))) m).
Definition enc_cp (d : list (pstr * list (Z * pstr))) : val :=
  VDict (map (fun pm => (VStr (fst pm), enc_zdict (snd pm))) d).

(* the dict load_rules fills, starting from {} *)
Definition enc_omen_tables (t : omen_tables) : val :=
  VDict [ (VStr k_alphabet_encoding, VStr (ot_encoding t));
          (VStr k_ngram, VInt (ot_ngram t));
          (VStr k_max_level, VInt 10);
          (VStr k_alphabet, enc_strs (ot_alphabet t));
          (VStr k_ip, enc_buckets enc_strs (ot_ip t));
          (VStr k_ep, enc_ep (ot_ep t));
          (VStr k_cp, enc_cp (ot_cp t));
          (VStr k_ln, enc_buckets enc_ints (ot_ln t)) ].

End Values.

Section OmenGuesser.
Context (fo : fops) {C S : Type} (W : world fo C S).
Context (iws : N -> bool) (dz : list N).

Definition sum_bind {A B E : Type} (r : A + E) (k : A -> B + E) : B + E :=
  match r with inl a => k a | inr e => inr e end.
Definition of_xres {A : Type} (r : xres A) : A + xexn :=
  match r with XDone a => inl a | XFail e => inr e end.

(* load_rules: the tables, or the exception its `except Exception` clause catches *)
Definition omen_guesser_load (dir : pstr) : omen_tables + xexn :=
  let pj := w_path_join W in
  sum_bind (of_xres (cp_read (w_cfg W) (pj [dir; n_config_txt]))) (fun c =>
  sum_bind (of_xres (cp_get (w_cfg W) c k_training_settings k_encoding)) (fun enc =>
  sum_bind (of_xres (cp_get (w_cfg W) c k_training_settings k_ngram)) (fun ntext =>
  sum_bind (match parse_int iws dz ntext with Some n => inl n | None => inr (XBase EValue) end) (fun n =>
  sum_bind (of_xres (w_codecs_open W (pj [dir; n_alphabet_txt]) (Some enc) (Some k_strict))) (fun al =>
  sum_bind (of_xres (w_codecs_open W (pj [dir; n_ip_level]) (Some enc) (Some k_strict))) (fun ipl =>
  sum_bind (level_lines iws dz (Some 10%Z) ipl) (fun ip =>
  sum_bind (of_xres (w_codecs_open W (pj [dir; n_ep_level]) (Some enc) (Some k_strict))) (fun epl =>
  sum_bind (level_lines iws dz (Some 10%Z) epl) (fun ep =>
  sum_bind (of_xres (w_codecs_open W (pj [dir; n_cp_level]) (Some enc) (Some k_strict))) (fun cpl =>
  sum_bind (cp_lines iws dz (Some 10%Z) cpl []) (fun cpd =>
  sum_bind (of_xres (w_open W (pj [dir; n_ln_level]) None None)) (fun lnl =>
  sum_bind (ln_lines iws dz (Some 10%Z) lnl) (fun lv =>
  inl {| ot_encoding := enc; ot_ngram := n; ot_alphabet := map (rstrip is_crlf) al;
         ot_ip := ip_buckets ip; ot_ep := ep_dict ep; ot_cp := cpd; ot_ln := ln_guesser n lv |}))))))))))))).

End OmenGuesser.

(* ---------------------------------------------------------------- 2. the scorer's OMEN tables *)

Record scorer_tables := {
  st_ip : list (pstr * Z);          (* self.ip, dict order *)
  st_cp : list (pstr * Z);          (* self.cp *)
  st_ln : list Z;                   (* self.ln without the leading '10' *)
  st_ngram : Z;                     (* self.ngram: the length of the n-gram of the first CP line, -1 without one *)
}.

Section ScorerValues.
Context {T C S : Type}.
Notation val := (pyval T C S).

(* the attributes of the object OmenScorer.__init__ leaves, starting from a fresh instance *)
Definition enc_scorer (encoding max_omen_level : val) (t : scorer_tables) : val :=
  VObj [ (k_encoding, encoding);
         (k_max_omen_level, max_omen_level);
         (k_ip, enc_ep (st_ip t));
         (k_cp, enc_ep (st_cp t));
         (k_ln, VList (VStr k_ten :: map VInt (st_ln t)));
         (k_ngram, VInt (st_ngram t));
         (k_max_len, VInt (Z.of_nat (length (st_ln t)))) ].

End ScorerValues.

Section OmenScorer.
Context (fo : fops) {C S : Type} (W : world fo C S).
Context (iws : N -> bool) (dz : list N).

(* OmenScorer(base_directory, encoding, max_omen_level): the tables, or the exception raised *)
Definition omen_scorer_load (base enc : pstr) : scorer_tables + xexn :=
  let pj := w_path_join W in
  sum_bind (of_xres (w_open W (pj [base; n_omen; n_ip_level]) (Some enc) None)) (fun ipl =>
  sum_bind (level_lines iws dz None ipl) (fun ip =>
  sum_bind (of_xres (w_open W (pj [base; n_omen; n_cp_level]) (Some enc) None)) (fun cpl =>
  sum_bind (level_lines iws dz None cpl) (fun cp =>
  sum_bind (of_xres (w_open W (pj [base; n_omen; n_ln_level]) None None)) (fun lnl =>
  sum_bind (ln_lines iws dz None lnl) (fun lv =>
  inl {| st_ip := ep_dict ip; st_cp := ep_dict cp; st_ln := lv;
         st_ngram := match cp with it :: _ => Z.of_nat (length (snd it)) | [] => (-1)%Z end |})))))).

End OmenScorer.
