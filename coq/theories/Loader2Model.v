(* Loader2Model.v - hand-written models of the remaining readers of a ruleset, over the
   oracles of Loader2Rt.world, and how their results are laid out as Python values.
   Definitions only; Loader2GenProofs.v proves the functions of gen/Loader2_gen.v (the
   translation of the current Python text) equal to them.

     1. the OMEN files as the guesser reads them (lib_guesser/omen/input_file_io.py
        load_rules): config.txt, alphabet.txt, IP / EP / CP.level, LN.level -> the tables
        of TextFile.v (ip_buckets, ep_dict, cp_dict, ln_guesser, load_alphabet);
     2. the OMEN files as the scorer reads them (lib_scorer/omen_scorer.py
        OmenScorer.__init__ / _load_omen): IP / CP / LN.level -> dicts, ngram, max_len;
     3. the terminal files of a ruleset as the guesser reads them (lib_guesser/grammar_io.py
        _load_from_multiple_files, _load_terminals, _load_config, load_grammar);
     4. the same for the scorer (lib_scorer/grammar_io.py _load_from_multiple_files,
        load_grammar). *)
From Coq Require Import List Arith ZArith NArith Bool.
From Pcfg Require Import TextFile LoaderRt Loader2Rt.
Import ListNotations.

(* ---------------------------------------------------------------- names *)

Definition k_alphabet_encoding : pstr := [97; 108; 112; 104; 97; 98; 101; 116; 95; 101; 110; 99; 111; 100; 105; 110; 103]%N.
Definition k_ngram : pstr := [110; 103; 114; 97; 109]%N.
Definition k_max_level : pstr := [109; 97; 120; 95; 108; 101; 118; 101; 108]%N.
Definition k_alphabet : pstr := [97; 108; 112; 104; 97; 98; 101; 116]%N.
Definition k_ip : pstr := [105; 112]%N.
Definition k_ep : pstr := [101; 112]%N.
Definition k_cp : pstr := [99; 112]%N.
Definition k_ln : pstr := [108; 110]%N.
Definition k_strict : pstr := [115; 116; 114; 105; 99; 116]%N.
Definition k_training_settings : pstr := [116; 114; 97; 105; 110; 105; 110; 103; 95; 115; 101; 116; 116; 105; 110; 103; 115]%N.
Definition k_encoding : pstr := [101; 110; 99; 111; 100; 105; 110; 103]%N.
Definition n_config_txt : pstr := [99; 111; 110; 102; 105; 103; 46; 116; 120; 116]%N.
Definition n_alphabet_txt : pstr := [97; 108; 112; 104; 97; 98; 101; 116; 46; 116; 120; 116]%N.
Definition n_ip_level : pstr := [73; 80; 46; 108; 101; 118; 101; 108]%N.
Definition n_ep_level : pstr := [69; 80; 46; 108; 101; 118; 101; 108]%N.
Definition n_cp_level : pstr := [67; 80; 46; 108; 101; 118; 101; 108]%N.
Definition n_ln_level : pstr := [76; 78; 46; 108; 101; 118; 101; 108]%N.
Definition n_omen : pstr := [79; 109; 101; 110]%N.
Definition k_max_omen_level : pstr := [109; 97; 120; 95; 111; 109; 101; 110; 95; 108; 101; 118; 101; 108]%N.
Definition k_max_len : pstr := [109; 97; 120; 95; 108; 101; 110]%N.
Definition k_ten : pstr := [49; 48]%N.

(* ---------------------------------------------------------------- one line of a level file *)

Section Lines.
Context (iws : N -> bool) (dz : list N).

(* one line of IP / EP / CP.level: rstrip('\n\r'), split on TAB, exactly two fields
   (else `raise Exception`), int() (ValueError), range check (`raise Exception`);
   [maxlvl] = None: no upper bound (the scorer) *)
Definition level_line (maxlvl : option Z) (ln : pstr) : (Z * pstr) + xexn :=
  match split_on 9%N (rstrip is_crlf ln) with
  | [f; k] =>
      match parse_int iws dz f with
      | None => inr (XBase EValue)
      | Some lvl =>
          if (lvl <? 0)%Z then inr XPlain
          else match maxlvl with
               | Some m => if (m <? lvl)%Z then inr XPlain else inl (lvl, k)
               | None => inl (lvl, k)
               end
      end
  | _ => inr XPlain
  end.

(* the lines of a level file, up to the first one that raises *)
Fixpoint level_lines (maxlvl : option Z) (lines : list pstr) : list (Z * pstr) + xexn :=
  match lines with
  | [] => inl []
  | ln :: r => match level_line maxlvl ln with
               | inl it => match level_lines maxlvl r with
                           | inl its => inl (it :: its)
                           | inr e => inr e
                           end
               | inr e => inr e
               end
  end.

(* one line of LN.level: rstrip('\n\r'), int(), range check *)
Definition ln_line (maxlvl : option Z) (ln : pstr) : Z + xexn :=
  match parse_int iws dz (rstrip is_crlf ln) with
  | None => inr (XBase EValue)
  | Some lvl =>
      if (lvl <? 0)%Z then inr XPlain
      else match maxlvl with
           | Some m => if (m <? lvl)%Z then inr XPlain else inl lvl
           | None => inl lvl
           end
  end.

Fixpoint ln_lines (maxlvl : option Z) (lines : list pstr) : list Z + xexn :=
  match lines with
  | [] => inl []
  | ln :: r => match ln_line maxlvl ln with
               | inl l => match ln_lines maxlvl r with
                          | inl ls => inl (l :: ls)
                          | inr e => inr e
                          end
               | inr e => inr e
               end
  end.

(* CP.level: grammar['cp'][ngram[0:-1]][level].append(ngram[-1]) line by line; an empty
   n-gram raises IndexError (line[1][-1]) *)
Definition cp_step (d : list (pstr * list (Z * pstr))) (it : Z * pstr) : list (pstr * list (Z * pstr)) + xexn :=
  match rev (snd it) with
  | c :: pre_rev => inl (cp_add (rev pre_rev) (fst it) c d)
  | [] => inr (XBase EIndex)
  end.

Fixpoint cp_lines (maxlvl : option Z) (lines : list pstr) (d : list (pstr * list (Z * pstr)))
  : list (pstr * list (Z * pstr)) + xexn :=
  match lines with
  | [] => inl d
  | ln :: r => match level_line maxlvl ln with
               | inl it => match cp_step d it with
                           | inl d' => cp_lines maxlvl r d'
                           | inr e => inr e
                           end
               | inr e => inr e
               end
  end.

End Lines.

(* ---------------------------------------------------------------- 1. the guesser's OMEN tables *)

Record omen_tables := {
  ot_encoding : pstr;                          (* grammar['alphabet_encoding'] *)
  ot_ngram : Z;                                (* grammar['ngram'] *)
  ot_alphabet : list pstr;                     (* grammar['alphabet'] *)
  ot_ip : list (list pstr);                    (* grammar['ip'][level], level = 0..10 *)
  ot_ep : list (pstr * Z);                     (* grammar['ep'], dict order *)
  ot_cp : list (pstr * list (Z * pstr));       (* grammar['cp'][prefix][level] = the next characters *)
  ot_ln : list (list Z);                       (* grammar['ln'][level], level = 0..10 *)
}.

Section Values.
Context {T C S : Type}.
Notation val := (pyval T C S).

Definition enc_strs (l : list pstr) : val := VList (map VStr l).
Definition enc_chars (s : pstr) : val := VList (map (fun c => VStr [c]) s).
Definition enc_ints (l : list Z) : val := VList (map VInt l).

(* a dict {0: f 0, 1: f 1, ...} over the levels [ks] *)
Definition level_dict (f : nat -> val) (ks : list nat) : list (val * val) :=
  map (fun l => (VInt (Z.of_nat l), f l)) ks.

(* the levels of a bucket list are its positions *)
Definition enc_buckets {X : Type} (e : X -> val) (B : list X) : val :=
  VDict (map (fun lb => (VInt (Z.of_nat (fst lb)), e (snd lb))) (combine (seq 0 (length B)) B)).

Definition enc_ep (d : list (pstr * Z)) : val :=
  VDict (map (fun kv => (VStr (fst kv), VInt (snd kv))) d).

Definition enc_zdict (m : list (Z * pstr)) : val :=
  VDict (map (fun lc => (VInt (fst lc), enc_chars (snd lc))) m).
Definition enc_cp (d : list (pstr * list (Z * pstr))) : val :=
  VDict (map (fun pm => (VStr (fst pm), enc_zdict (snd pm))) d).

(* the dict load_rules fills, starting from {} *)
Definition enc_omen_tables (t : omen_tables) : val :=
  VDict [ (VStr k_alphabet_encoding, VStr (ot_encoding t));
          (VStr k_ngram, VInt (ot_ngram t));
          (VStr k_max_level, VInt 10);
          (VStr k_alphabet, enc_strs (ot_alphabet t));
          (VStr k_ip, enc_buckets enc_strs (ot_ip t));
          (VStr k_ep, enc_ep (ot_ep t));
          (VStr k_cp, enc_cp (ot_cp t));
          (VStr k_ln, enc_buckets enc_ints (ot_ln t)) ].

End Values.

Section OmenGuesser.
Context (fo : fops) {C S : Type} (W : world fo C S).
Context (iws : N -> bool) (dz : list N).

Definition sum_bind {A B E : Type} (r : A + E) (k : A -> B + E) : B + E :=
  match r with inl a => k a | inr e => inr e end.
Definition of_xres {A : Type} (r : xres A) : A + xexn :=
  match r with XDone a => inl a | XFail e => inr e end.

(* load_rules: the tables, or the exception its `except Exception` clause catches *)
Definition omen_guesser_load (dir : pstr) : omen_tables + xexn :=
  let pj := w_path_join W in
  sum_bind (of_xres (cp_read (w_cfg W) (pj [dir; n_config_txt]))) (fun c =>
  sum_bind (of_xres (cp_get (w_cfg W) c k_training_settings k_encoding)) (fun enc =>
  sum_bind (of_xres (cp_get (w_cfg W) c k_training_settings k_ngram)) (fun ntext =>
  sum_bind (match parse_int iws dz ntext with Some n => inl n | None => inr (XBase EValue) end) (fun n =>
  sum_bind (of_xres (w_codecs_open W (pj [dir; n_alphabet_txt]) (Some enc) (Some k_strict))) (fun al =>
  sum_bind (of_xres (w_codecs_open W (pj [dir; n_ip_level]) (Some enc) (Some k_strict))) (fun ipl =>
  sum_bind (level_lines iws dz (Some 10%Z) ipl) (fun ip =>
  sum_bind (of_xres (w_codecs_open W (pj [dir; n_ep_level]) (Some enc) (Some k_strict))) (fun epl =>
  sum_bind (level_lines iws dz (Some 10%Z) epl) (fun ep =>
  sum_bind (of_xres (w_codecs_open W (pj [dir; n_cp_level]) (Some enc) (Some k_strict))) (fun cpl =>
  sum_bind (cp_lines iws dz (Some 10%Z) cpl []) (fun cpd =>
  sum_bind (of_xres (w_open W (pj [dir; n_ln_level]) None None)) (fun lnl =>
  sum_bind (ln_lines iws dz (Some 10%Z) lnl) (fun lv =>
  inl {| ot_encoding := enc; ot_ngram := n; ot_alphabet := map (rstrip is_crlf) al;
         ot_ip := ip_buckets ip; ot_ep := ep_dict ep; ot_cp := cpd; ot_ln := ln_guesser n lv |}))))))))))))).

End OmenGuesser.

(* ---------------------------------------------------------------- 2. the scorer's OMEN tables *)

Record scorer_tables := {
  st_ip : list (pstr * Z);          (* self.ip, dict order *)
  st_cp : list (pstr * Z);          (* self.cp *)
  st_ln : list Z;                   (* self.ln without the leading '10' *)
  st_ngram : Z;                     (* self.ngram: the length of the n-gram of the first CP line, -1 without one *)
}.

Section ScorerValues.
Context {T C S : Type}.
Notation val := (pyval T C S).

(* the attributes of the object OmenScorer.__init__ leaves, starting from a fresh instance *)
Definition enc_scorer (encoding max_omen_level : val) (t : scorer_tables) : val :=
  VObj [ (k_encoding, encoding);
         (k_max_omen_level, max_omen_level);
         (k_ip, enc_ep (st_ip t));
         (k_cp, enc_ep (st_cp t));
         (k_ln, VList (VStr k_ten :: map VInt (st_ln t)));
         (k_ngram, VInt (st_ngram t));
         (k_max_len, VInt (Z.of_nat (length (st_ln t)))) ].

End ScorerValues.

Section OmenScorer.
Context (fo : fops) {C S : Type} (W : world fo C S).
Context (iws : N -> bool) (dz : list N).

(* OmenScorer(base_directory, encoding, max_omen_level): the tables, or the exception raised *)
Definition omen_scorer_load (base enc : pstr) : scorer_tables + xexn :=
  let pj := w_path_join W in
  sum_bind (of_xres (w_open W (pj [base; n_omen; n_ip_level]) (Some enc) None)) (fun ipl =>
  sum_bind (level_lines iws dz None ipl) (fun ip =>
  sum_bind (of_xres (w_open W (pj [base; n_omen; n_cp_level]) (Some enc) None)) (fun cpl =>
  sum_bind (level_lines iws dz None cpl) (fun cp =>
  sum_bind (of_xres (w_open W (pj [base; n_omen; n_ln_level]) None None)) (fun lnl =>
  sum_bind (ln_lines iws dz None lnl) (fun lv =>
  inl {| st_ip := ep_dict ip; st_cp := ep_dict cp; st_ln := lv;
         st_ngram := match cp with it :: _ => Z.of_nat (length (snd it)) | [] => (-1)%Z end |})))))).

End OmenScorer.

(* ---------------------------------------------------------------- 3. the guesser's terminals *)

Definition k_directory : pstr := [100; 105; 114; 101; 99; 116; 111; 114; 121]%N.
Definition k_filenames : pstr := [102; 105; 108; 101; 110; 97; 109; 101; 115]%N.
Definition k_name : pstr := [110; 97; 109; 101]%N.
Definition k_values : pstr := [118; 97; 108; 117; 101; 115]%N.
Definition k_prob : pstr := [112; 114; 111; 98]%N.
Definition k_version : pstr := [118; 101; 114; 115; 105; 111; 110]%N.
Definition k_rule_version : pstr := [114; 117; 108; 101; 95; 118; 101; 114; 115; 105; 111; 110]%N.
Definition k_rule_name : pstr := [114; 117; 108; 101; 95; 110; 97; 109; 101]%N.
Definition k_uuid : pstr := [117; 117; 105; 100]%N.
Definition k_program_details : pstr := [84; 82; 65; 73; 78; 73; 78; 71; 95; 80; 82; 79; 71; 82; 65; 77; 95; 68; 69; 84; 65; 73; 76; 83]%N.
Definition k_dataset_details : pstr := [84; 82; 65; 73; 78; 73; 78; 71; 95; 68; 65; 84; 65; 83; 69; 84; 95; 68; 69; 84; 65; 73; 76; 83]%N.
Definition n_config_ini : pstr := [99; 111; 110; 102; 105; 103; 46; 105; 110; 105]%N.
Definition k_BASE_A : pstr := [66; 65; 83; 69; 95; 65]%N.
Definition k_BASE_D : pstr := [66; 65; 83; 69; 95; 68]%N.
Definition k_BASE_O : pstr := [66; 65; 83; 69; 95; 79]%N.
Definition k_BASE_K : pstr := [66; 65; 83; 69; 95; 75]%N.
Definition k_BASE_Y : pstr := [66; 65; 83; 69; 95; 89]%N.
Definition k_BASE_X : pstr := [66; 65; 83; 69; 95; 88]%N.
Definition k_CAPITALIZATION : pstr := [67; 65; 80; 73; 84; 65; 76; 73; 90; 65; 84; 73; 79; 78]%N.
Definition k_M : pstr := [77]%N.
Definition k_E : pstr := [69]%N.
Definition k_W : pstr := [87]%N.
Definition k_L : pstr := [76]%N.
Definition n_pcfg_omen_prob : pstr := [112; 99; 102; 103; 95; 111; 109; 101; 110; 95; 112; 114; 111; 98; 46; 116; 120; 116]%N.
Definition n_Emails : pstr := [69; 109; 97; 105; 108; 115]%N.
Definition n_email_providers : pstr := [101; 109; 97; 105; 108; 95; 112; 114; 111; 118; 105; 100; 101; 114; 115; 46; 116; 120; 116]%N.
Definition n_Websites : pstr := [87; 101; 98; 115; 105; 116; 101; 115]%N.
Definition n_website_hosts : pstr := [119; 101; 98; 115; 105; 116; 101; 95; 104; 111; 115; 116; 115; 46; 116; 120; 116]%N.
Definition n_Years : pstr := [89; 101; 97; 114; 115]%N.
Definition n_Context : pstr := [67; 111; 110; 116; 101; 120; 116]%N.
Definition n_Grammar : pstr := [71; 114; 97; 109; 109; 97; 114]%N.
Definition n_grammar_txt : pstr := [103; 114; 97; 109; 109; 97; 114; 46; 116; 120; 116]%N.
Definition n_1_txt : pstr := [49; 46; 116; 120; 116]%N.
Definition k_ascii : pstr := [97; 115; 99; 105; 105]%N.

Section GuesserGrammar.
Context (fo : fops) {C S : Type} (W : world fo C S).
Notation val := (pyval (F fo) C S).

(* a section of config.ini as _load_from_multiple_files uses it: `directory`, `name`, and
   `filenames` = a JSON list of strings *)
Definition sect_wf (s : S) (dir name : pstr) (files : list pstr) : Prop :=
  cp_sect_get (w_cfg W) s k_directory = XDone (Some dir) /\
  cp_sect_get (w_cfg W) s k_name = XDone (Some name) /\
  exists text, cp_sect_get (w_cfg W) s k_filenames = XDone (Some text) /\
               cp_json (w_cfg W) text = XDone (VList (map VStr files)).

(* the part of a file name before its first '.' *)
Definition stem (file : pstr) : pstr := hd [] (split_on 46%N file).

(* one file of a section: grammar[name + stem] = what the translated _load_from_file reads from
   <base>/<directory>/<file> into an empty list; a file that does not load ends the loop with False *)
Definition multi_step (base dir name enc : pstr) (file : pstr) (g : list (val * val))
  : list (val * val) + xres (val * val) :=
  let key := VStr (name ++ stem file) in
  match w_load_from_file W [] (w_path_join W [base; dir; file]) enc with
  | Done (its, true) => inl (dput key (val_of_items its) g)
  | Done (its, false) => inr (XDone (VDict (dput key (val_of_items its) g), VBool false))
  | Fail e => inr (XFail (XBase e))
  end.

(* _load_from_multiple_files: the grammar dict afterwards and True / False *)
Fixpoint multi_files (base dir name enc : pstr) (files : list pstr) (g : list (val * val)) : xres (val * val) :=
  match files with
  | [] => XDone (VDict g, VBool true)
  | f :: r => match multi_step base dir name enc f g with
              | inl g' => multi_files base dir name enc r g'
              | inr v => v
              end
  end.

(* a section of config.ini by its name *)
Definition section_ok (c : C) (sec : pstr) (dnf : pstr * pstr * list pstr) : Prop :=
  exists s, cp_section (w_cfg W) c sec = XDone s /\ sect_wf s (fst (fst dnf)) (snd (fst dnf)) (snd dnf).

(* --skip_case: every capitalisation list is ONE group, the all-lower mask of the length the file
   name says, with probability 1.0; int() of a file name that is not a number raises ValueError *)
Definition lower_group (n : Z) : rt_item (F fo) := {| it_values := [rt_repeat k_L n]; it_prob := f_one fo |}.

Fixpoint caps_files (name : pstr) (files : list pstr) (g : list (val * val)) : xres (list (val * val)) :=
  match files with
  | [] => XDone g
  | f :: r => match w_pint W (stem f) with
              | Some n => caps_files name r (dput (VStr (name ++ stem f)) (val_of_items [lower_group n]) g)
              | None => XFail (XBase EValue)
              end
  end.

(* grammar['M']: every OMEN level of pcfg_omen_prob.txt its own group, with the probability of the
   group _load_from_file had put it in *)
Definition split_levels (its : list (rt_item (F fo))) : list (rt_item (F fo)) :=
  flat_map (fun it => map (fun v => {| it_values := [v]; it_prob := it_prob it |}) (it_values it)) its.

(* sequencing of the loads: a load that returns False ends _load_terminals with False *)
Definition then_load (r : xres (val * val)) (k : list (val * val) -> xres (val * val)) : xres (val * val) :=
  match r with
  | XDone (VDict g, VBool true) => k g
  | XDone (g, _) => XDone (g, VBool false)
  | XFail e => XFail e
  end.

(* grammar[key] = [] ; _load_from_file(grammar[key], path, encoding) *)
Definition single_file (key path enc : pstr) (post : list (rt_item (F fo)) -> list (rt_item (F fo)))
           (g : list (val * val)) : xres (val * val) :=
  match w_load_from_file W [] path enc with
  | Done (its, true) => XDone (VDict (dput (VStr key) (val_of_items (post its)) g), VBool true)
  | Done (its, false) => XDone (VDict (dput (VStr key) (val_of_items its) g), VBool false)
  | Fail e => XFail (XBase e)
  end.

Record cfg_view := {
  cv_A : pstr * pstr * list pstr; cv_CAP : pstr * pstr * list pstr; cv_D : pstr * pstr * list pstr;
  cv_O : pstr * pstr * list pstr; cv_K : pstr * pstr * list pstr; cv_Y : pstr * pstr * list pstr;
  cv_X : pstr * pstr * list pstr }.

Definition cfg_view_ok (c : C) (v : cfg_view) : Prop :=
  section_ok c k_BASE_A (cv_A v) /\ section_ok c k_CAPITALIZATION (cv_CAP v) /\ section_ok c k_BASE_D (cv_D v) /\
  section_ok c k_BASE_O (cv_O v) /\ section_ok c k_BASE_K (cv_K v) /\ section_ok c k_BASE_Y (cv_Y v) /\
  section_ok c k_BASE_X (cv_X v).

Definition multi (base enc : pstr) (dnf : pstr * pstr * list pstr) (g : list (val * val)) : xres (val * val) :=
  multi_files base (fst (fst dnf)) (snd (fst dnf)) enc (snd dnf) g.

(* _load_terminals(ruleset_info, grammar, base_directory, config, skip_case) *)
Definition terminals (v : cfg_view) (base enc : pstr) (skip : bool) (g0 : list (val * val)) : xres (val * val) :=
  let pj := w_path_join W in
  then_load (multi base enc (cv_A v) g0) (fun g =>
  then_load (if skip then match caps_files (snd (fst (cv_CAP v))) (snd (cv_CAP v)) g with
                          | XDone g' => XDone (VDict g', VBool true)
                          | XFail e => XFail e
                          end
             else multi base enc (cv_CAP v) g) (fun g =>
  then_load (multi base enc (cv_D v) g) (fun g =>
  then_load (multi base enc (cv_O v) g) (fun g =>
  then_load (multi base enc (cv_K v) g) (fun g =>
  then_load (multi base enc (cv_Y v) g) (fun g =>
  then_load (multi base enc (cv_X v) g) (fun g =>
  then_load (single_file k_M (pj [base; n_omen; n_pcfg_omen_prob]) enc split_levels g) (fun g =>
  then_load (single_file k_E (pj [base; n_Emails; n_email_providers]) enc (fun x => x) g) (fun g =>
  then_load (single_file k_W (pj [base; n_Websites; n_website_hosts]) enc (fun x => x) g) (fun g =>
  XDone (VDict g, VBool true))))))))))).


(* _load_config(ruleset_info, base_directory, config): what its two `except` clauses do with an exception *)
Definition config_fail (e : xexn) (ri : list (val * val)) (cfg : val) : xres (val * val * val) :=
  if x_isa (XC CIOError) e then XDone (VDict ri, cfg, VBool false)
  else if x_isa CConfigError e then XDone (VDict ri, cfg, VBool false)
  else XFail e.

(* (ruleset_info, config, True / False); [ver] = ruleset_info['version'] *)
Definition load_config_model (ri : list (val * val)) (base ver : pstr) : xres (val * val * val) :=
  match cp_read_file (w_cfg W) (w_path_join W [base; n_config_ini]) with
  | XFail e => config_fail e ri VCfgNew
  | XDone c =>
      match cp_get (w_cfg W) c k_program_details k_version with
      | XFail e => config_fail e ri (VCfg c)
      | XDone rv =>
          let ri1 := dput (VStr k_rule_version) (VStr rv) ri in
          (* only the major versions are compared, as strings *)
          if str_ltb (stem rv) (stem ver) then XDone (VDict ri1, VCfg c, VBool false)
          else
            match cp_get (w_cfg W) c k_dataset_details k_encoding with
            | XFail e => config_fail e ri1 (VCfg c)
            | XDone enc =>
                let ri2 := dput (VStr k_encoding) (VStr enc) ri1 in
                match cp_get (w_cfg W) c k_dataset_details k_uuid with
                | XFail e => config_fail e ri2 (VCfg c)
                | XDone u => XDone (VDict (dput (VStr k_uuid) (VStr u) ri2), VCfg c, VBool true)
                end
            end
      end
  end.

(* load_grammar(rule_name, base_directory, version, skip_brute, skip_case, base_structure_folder): the
   three loads in this order, `raise Exception` as soon as one returns False, the result is the
   tuple (grammar, base_structures, ruleset_info).  [lc], [lt] are _load_config and _load_terminals
   (the translated functions, which the theorems above show equal to load_config_model / terminals) *)
Definition load_grammar_seq
           (lc : val -> val -> val -> xres (val * val * val))
           (lt : val -> val -> val -> val -> val -> xres (val * val))
           (rn base ver sb sc folder : val) : xres val :=
  xthen (lc (VDict [(VStr k_rule_name, rn); (VStr k_version, ver)]) base VCfgNew) (fun r1 =>
  xthen (dy_truth (snd r1)) (fun b1 => if negb b1 then XFail XPlain else
  xthen (lt (fst (fst r1)) (VDict []) base (snd (fst r1)) sc) (fun r2 =>
  xthen (dy_truth (snd r2)) (fun b2 => if negb b2 then XFail XPlain else
  xthen (call_load_base_structures (w_load_base_structures W) (VList []) base sb folder) (fun r3 =>
  xthen (dy_truth (snd r3)) (fun b3 => if negb b3 then XFail XPlain else
  XDone (VTuple [fst r2; fst r3; fst (fst r1)]))))))).

End GuesserGrammar.

(* ---------------------------------------------------------------- 4. the scorer's grammar *)

Definition a_encoding : pstr := k_encoding.
Definition a_count_years : pstr := [99; 111; 117; 110; 116; 95; 121; 101; 97; 114; 115]%N.
Definition a_count_context_sensitive : pstr :=
  [99; 111; 117; 110; 116; 95; 99; 111; 110; 116; 101; 120; 116; 95; 115; 101; 110; 115; 105; 116; 105; 118; 101]%N.
Definition a_count_base_structures : pstr :=
  [99; 111; 117; 110; 116; 95; 98; 97; 115; 101; 95; 115; 116; 114; 117; 99; 116; 117; 114; 101; 115]%N.
Definition a_count_keyboard : pstr := [99; 111; 117; 110; 116; 95; 107; 101; 121; 98; 111; 97; 114; 100]%N.
Definition a_count_alpha : pstr := [99; 111; 117; 110; 116; 95; 97; 108; 112; 104; 97]%N.
Definition a_count_alpha_masks : pstr := [99; 111; 117; 110; 116; 95; 97; 108; 112; 104; 97; 95; 109; 97; 115; 107; 115]%N.
Definition a_count_digits : pstr := [99; 111; 117; 110; 116; 95; 100; 105; 103; 105; 116; 115]%N.
Definition a_count_other : pstr := [99; 111; 117; 110; 116; 95; 111; 116; 104; 101; 114]%N.

Section ScorerGrammar.
Context (fo : fops) {C S : Type} (W : world fo C S).
Notation val := (pyval (F fo) C S).

(* one file of a section: counter[int(stem)] = Counter() filled by the translated _load_from_file *)
Definition smulti_step (base dir enc : pstr) (file : pstr) (gc : list (val * val))
  : list (val * val) + xres (val * val) :=
  match w_pint W (stem file) with
  | None => inr (XFail (XBase EValue))
  | Some n =>
      match w_scorer_load_from_file W [] (w_path_join W [base; dir; file]) enc with
      | Done (d, true) => inl (dput (VInt n) (val_of_counter d) gc)
      | Done (d, false) => inr (XDone (VDict (dput (VInt n) (val_of_counter d) gc), VBool false))
      | Fail e => inr (XFail (XBase e))
      end
  end.

Fixpoint smulti_files (base dir enc : pstr) (files : list pstr) (gc : list (val * val)) : xres (val * val) :=
  match files with
  | [] => XDone (VDict gc, VBool true)
  | f :: r => match smulti_step base dir enc f gc with
              | inl gc' => smulti_files base dir enc r gc'
              | inr v => v
              end
  end.


(* load_grammar(grammar, rule_directory) of the scorer: what its two `except` clauses do *)
Definition sfail (e : xexn) (obj : val) : xres (val * val) :=
  if x_isa (XC CIOError) e then XDone (obj, VBool false)
  else if x_isa CConfigError e then XDone (obj, VBool false)
  else XFail e.

(* attribute <- Counter filled from one file (the attribute holds an empty Counter before) *)
Definition sfile_load (base folder file enc attr : pstr) (a : list (pstr * val))
           (k : list (pstr * val) -> xres (val * val)) : xres (val * val) :=
  match w_scorer_load_from_file W [] (w_path_join W [base; folder; file]) enc with
  | Fail e => sfail (XBase e) (VObj a)
  | Done (d, b) => if b then k (aput attr (val_of_counter d) a)
                   else XDone (VObj (aput attr (val_of_counter d) a), VBool false)
  end.

(* attribute <- {length: Counter} filled from the files of a section (the attribute holds {} before) *)
Definition smulti_load (base enc attr : pstr) (df : pstr * list pstr) (a : list (pstr * val))
           (k : list (pstr * val) -> xres (val * val)) : xres (val * val) :=
  match smulti_files base (fst df) enc (snd df) [] with
  | XFail e => sfail e (VObj a)
  | XDone (gc', VBool true) => k (aput attr gc' a)
  | XDone (gc', _) => XDone (VObj (aput attr gc' a), VBool false)
  end.

(* the directory and the file names of the five sections the scorer reads *)
Record sviews := { sv_K : pstr * list pstr; sv_A : pstr * list pstr; sv_CAP : pstr * list pstr;
                   sv_D : pstr * list pstr; sv_O : pstr * list pstr }.

(* load_grammar(grammar, rule_directory) for an object [a] whose count_* attributes are still empty: the
   eight loads in order - Years/1.txt, Context/1.txt with the ruleset encoding, Grammar/grammar.txt always
   as ASCII, then the sections BASE_K, BASE_A, CAPITALIZATION, BASE_D, BASE_O *)
Definition scorer_grammar_model (v : sviews) (a : list (pstr * val)) (base : pstr) : xres (val * val) :=
  match cp_read_file (w_cfg W) (w_path_join W [base; n_config_ini]) with
  | XFail e => sfail e (VObj a)
  | XDone c =>
      match cp_get (w_cfg W) c k_dataset_details k_encoding with
      | XFail e => sfail e (VObj a)
      | XDone enc =>
          sfile_load base n_Years n_1_txt enc a_count_years (aput a_encoding (VStr enc) a) (fun a =>
          sfile_load base n_Context n_1_txt enc a_count_context_sensitive a (fun a =>
          sfile_load base n_Grammar n_grammar_txt k_ascii a_count_base_structures a (fun a =>
          smulti_load base enc a_count_keyboard (sv_K v) a (fun a =>
          smulti_load base enc a_count_alpha (sv_A v) a (fun a =>
          smulti_load base enc a_count_alpha_masks (sv_CAP v) a (fun a =>
          smulti_load base enc a_count_digits (sv_D v) a (fun a =>
          smulti_load base enc a_count_other (sv_O v) a (fun a =>
          XDone (VObj a, VBool true)))))))))
      end
  end.

End ScorerGrammar.
