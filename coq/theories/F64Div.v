(* binary64 division facts used by the loader model (C14):
     x / 1.0 = x  on ok floats (Leibniz equality of primitive floats),
     the F64 instance of Loader.load_bases_skip_with_M without a division
     hypothesis, and monotonicity of division by a common positive total. *)
From Coq Require Import ZArith Reals Lra Floats Psatz Bool List.
From Flocq Require Import Core IEEE754.BinarySingleNaN IEEE754.PrimFloat.
From Pcfg Require Import ProbAlg F64 Expand ExpandCorr Loader LoaderCorr.
Import ListNotations.
Open Scope R_scope.

Lemma one_B : Prim2B 1%float = Bone.
Proof. apply B2SF_inj. rewrite B2SF_Prim2B. reflexivity. Qed.

Lemma finite_not_nan (x : B) : is_finite x = true -> is_nan x = false.
Proof. destruct x; simpl; intros H; try reflexivity; discriminate. Qed.

(* ---------------------------------------------------------------- *)
(* D1: division by 1 is the identity on every FINITE float (either sign,
   both zeros); okF is a special case.                                  *)

Lemma Bdiv_one_finite (x : B) : is_finite x = true -> Bdiv mode_NE x Bone = x.
Proof.
  intros Fx.
  pose proof (Bdiv_correct FloatOps.prec FloatOps.emax Hprec Hmax mode_NE x Bone) as Hc.
  rewrite (@Bone_correct FloatOps.prec FloatOps.emax Hprec Hmax) in Hc.
  assert (E : B2R x / 1 = B2R x) by (unfold Rdiv; rewrite Rinv_1; ring).
  rewrite E, rnd_id in Hc.
  rewrite Rlt_bool_true in Hc by apply abs_B2R_lt_emax.
  destruct (Hc R1_neq_R0) as (Hr & Hf & Hs).
  assert (Fd : is_finite (Bdiv mode_NE x Bone) = true) by (rewrite Hf; exact Fx).
  apply B2R_Bsign_inj; try assumption.
  rewrite (Hs (finite_not_nan _ Fd)).
  rewrite (@Bsign_Bone FloatOps.prec FloatOps.emax Hprec Hmax).
  apply xorb_false_r.
Qed.

Theorem div_one_finite_F (x : PrimFloat.float) :
  is_finite (Prim2B x) = true -> (x / 1)%float = x.
Proof.
  intros Fx. apply Prim2B_inj. rewrite div_equiv, one_B. apply Bdiv_one_finite, Fx.
Qed.

Theorem div_one_F : forall x : PrimFloat.float, okF x -> (x / 1)%float = x.
Proof. intros x [Fx _]. apply div_one_finite_F, Fx. Qed.

(* the two zeros, and the non-finite cases (infinities are fixed as well;
   only NaN is not, and only because Leibniz equality on NaN payloads is
   not what PrimFloat.eqb tests) *)
Example div_one_pzero : (0 / 1)%float = 0%float. Proof. reflexivity. Qed.
Example div_one_nzero : (neg_zero / 1)%float = neg_zero. Proof. reflexivity. Qed.
Example div_one_pinf : (infinity / 1)%float = infinity. Proof. reflexivity. Qed.
Example div_one_ninf : (neg_infinity / 1)%float = neg_infinity. Proof. reflexivity. Qed.

Corollary div_one_okb (x : PrimFloat.float) : okbF x = true -> (x / 1)%float = x.
Proof. intros H. apply div_one_F, okbF_okF, H. Qed.

(* ---------------------------------------------------------------- *)
(* D2: the loader theorem at binary64, no division hypothesis          *)

Theorem load_bases_F_skip_with_M rw (ls : list (str * PrimFloat.float)) pm l0 :
  Forall (fun l => okbF (snd l) = true) ls ->
  scan_M ls = Some pm ->
  PrimFloat.eqb (1 - pm) 0 = false ->
  load_bases_F rw false ls = Some l0 ->
  load_bases_F rw true ls =
    Some (map (fun b => ((fst b / (1 - pm))%float, snd b))
              (filter (fun b => negb (has_M (snd b))) l0)).
Proof.
  intros Hok HM Hz H. unfold load_bases_F in *.
  apply (load_bases_skip_with_M 1%float PrimFloat.sub PrimFloat.div
           (fun x => PrimFloat.eqb x 0) isalpha_ascii rw ls pm l0); try assumption.
  eapply Forall_impl; [|exact Hok]. intros l Hl. apply div_one_okb, Hl.
Qed.

(* ---------------------------------------------------------------- *)
(* D3: division by a common positive finite total                      *)

Lemma Bdiv_ok (a c : B) : okB a -> okB c -> 0 < B2R c ->
  Rabs (rnd (B2R a / B2R c)) < bpow radix2 FloatOps.emax ->
  B2R (Bdiv mode_NE a c) = rnd (B2R a / B2R c) /\ okB (Bdiv mode_NE a c).
Proof.
  intros [Fa Pa] [Fc Pc] Hc Hn.
  pose proof (Bdiv_correct FloatOps.prec FloatOps.emax Hprec Hmax mode_NE a c) as H.
  rewrite Rlt_bool_true in H by exact Hn.
  destruct H as (Hr & Hf & _); [lra|].
  split; [exact Hr|]. split.
  - rewrite Hf. exact Fa.
  - rewrite Hr. rewrite <- (round_0 radix2 fexp (round_mode mode_NE)). apply rnd_mono.
    apply Rmult_le_pos; [exact Pa|]. left. apply Rinv_0_lt_compat, Hc.
Qed.

Lemma div_le_R a b c : 0 <= a -> a <= b -> 0 < c -> 0 <= a / c <= b / c.
Proof.
  intros Ha Hab Hc. assert (0 < / c) by (apply Rinv_0_lt_compat, Hc).
  unfold Rdiv. split; nra.
Qed.

(* general form: the larger quotient does not overflow *)
Theorem div_mono_F (a b c : PrimFloat.float) : okF a -> okF b -> okF c ->
  0 < B2R (Prim2B c) ->
  Rabs (rnd (B2R (Prim2B b) / B2R (Prim2B c))) < bpow radix2 FloatOps.emax ->
  (a <=? b)%float = true -> (a / c <=? b / c)%float = true.
Proof.
  intros Ha Hb Hc Pc Hn L.
  assert (R1 : B2R (Prim2B a) <= B2R (Prim2B b)).
  { rewrite leb_R in L by assumption.
    destruct (Rle_bool_spec (B2R (Prim2B a)) (B2R (Prim2B b))); [assumption|discriminate]. }
  destruct (div_le_R _ _ _ (proj2 Ha) R1 Pc) as [Q0 Q1].
  assert (Hna : Rabs (rnd (B2R (Prim2B a) / B2R (Prim2B c))) < bpow radix2 FloatOps.emax).
  { eapply Rle_lt_trans; [|exact Hn].
    assert (0 <= rnd (B2R (Prim2B a) / B2R (Prim2B c))).
    { rewrite <- (round_0 radix2 fexp (round_mode mode_NE)). apply rnd_mono, Q0. }
    assert (rnd (B2R (Prim2B a) / B2R (Prim2B c)) <= rnd (B2R (Prim2B b) / B2R (Prim2B c)))
      by (apply rnd_mono, Q1).
    rewrite !Rabs_pos_eq by lra. assumption. }
  destruct (Bdiv_ok _ _ Ha Hc Pc Hna) as [Ea Oa].
  destruct (Bdiv_ok _ _ Hb Hc Pc Hn) as [Eb Ob].
  assert (Ea' : B2R (Prim2B (a / c)) = rnd (B2R (Prim2B a) / B2R (Prim2B c)))
    by (rewrite div_equiv; exact Ea).
  assert (Eb' : B2R (Prim2B (b / c)) = rnd (B2R (Prim2B b) / B2R (Prim2B c)))
    by (rewrite div_equiv; exact Eb).
  rewrite leb_R by (unfold okF; rewrite div_equiv; assumption).
  rewrite Ea', Eb'. apply Rle_bool_true. apply rnd_mono, Q1.
Qed.

(* the loader's situation: numerators bounded by the total, quotients <= 1 *)
Lemma div_unit_noovf (b c : B) : okB b -> okB c -> 0 < B2R c -> B2R b <= B2R c ->
  0 <= rnd (B2R b / B2R c) <= 1.
Proof.
  intros [_ Pb] _ Pc Hbc.
  assert (0 < / B2R c) by (apply Rinv_0_lt_compat, Pc).
  split.
  - rewrite <- (round_0 radix2 fexp (round_mode mode_NE)). apply rnd_mono. unfold Rdiv. nra.
  - apply Rle_trans with (rnd 1).
    + apply rnd_mono. unfold Rdiv. rewrite <- (Rinv_r (B2R c)) by lra. nra.
    + rewrite <- (@Bone_correct FloatOps.prec FloatOps.emax Hprec Hmax).
      rewrite rnd_id. apply Rle_refl.
Qed.

Theorem div_unit_F (b c : PrimFloat.float) : okF b -> okF c ->
  (0 <? c)%float = true -> (b <=? c)%float = true -> unitF (b / c).
Proof.
  intros Hb Hc Pc L.
  assert (P : 0 < B2R (Prim2B c)).
  { rewrite ltb_R in Pc by (apply okbF_okF; reflexivity) || assumption.
    change (B2R (Prim2B 0)) with 0 in Pc.
    destruct (Rlt_bool_spec 0 (B2R (Prim2B c))); [assumption|discriminate]. }
  assert (R : B2R (Prim2B b) <= B2R (Prim2B c)).
  { rewrite leb_R in L by assumption.
    destruct (Rle_bool_spec (B2R (Prim2B b)) (B2R (Prim2B c))); [assumption|discriminate]. }
  pose proof (div_unit_noovf _ _ Hb Hc P R) as [U0 U1].
  assert (Hn : Rabs (rnd (B2R (Prim2B b) / B2R (Prim2B c))) < bpow radix2 FloatOps.emax).
  { rewrite Rabs_pos_eq by exact U0. eapply Rle_lt_trans; [exact U1|].
    change 1 with (bpow radix2 0). apply bpow_lt. reflexivity. }
  destruct (Bdiv_ok _ _ Hb Hc P Hn) as [E O].
  unfold unitF. rewrite div_equiv. split; [exact O|].
  eapply Rle_trans; [apply Req_le; exact E | exact U1].
Qed.

Theorem div_mono_unit_F (a b c : PrimFloat.float) : okF a -> okF b -> okF c ->
  (0 <? c)%float = true -> (b <=? c)%float = true ->
  (a <=? b)%float = true -> (a / c <=? b / c)%float = true.
Proof.
  intros Ha Hb Hc Pc Lbc Lab.
  assert (P : 0 < B2R (Prim2B c)).
  { rewrite ltb_R in Pc by (apply okbF_okF; reflexivity) || assumption.
    change (B2R (Prim2B 0)) with 0 in Pc.
    destruct (Rlt_bool_spec 0 (B2R (Prim2B c))); [assumption|discriminate]. }
  assert (R : B2R (Prim2B b) <= B2R (Prim2B c)).
  { rewrite leb_R in Lbc by assumption.
    destruct (Rle_bool_spec (B2R (Prim2B b)) (B2R (Prim2B c))); [assumption|discriminate]. }
  pose proof (div_unit_noovf _ _ Hb Hc P R) as [U0 U1].
  apply div_mono_F; try assumption.
  rewrite Rabs_pos_eq by exact U0. eapply Rle_lt_trans; [exact U1|].
  change 1 with (bpow radix2 0). apply bpow_lt. reflexivity.
Qed.

Print Assumptions div_one_F.
Print Assumptions load_bases_F_skip_with_M.
Print Assumptions div_mono_F.
Print Assumptions div_mono_unit_F.
