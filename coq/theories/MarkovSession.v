(* MarkovSession.v -- ONE session model in which a Markov (OMEN) pre-terminal
   sits in the priority-queue run (property C15, "and then continues with the
   rest of the run").  Definitions only; proofs in MarkovSessionProofs.v.

   It combines, without re-modelling anything:
     Next.v     run / find_children / restore_gen   (PcfgQueue.next, restore_prob_order)
     Expand.v   expand                               (PcfgGrammar._recursive_guesses)
     OmenSpec.v level_strings, Omen.v enumerate / mc_run / mc_save / mc_load
                                                     (MarkovCracker, save_session/load_session)
     Omen.v     sess_quit / sess_restore             (guessing_info/omen_guess_number, .omn)

   Anchors in /repo (read for WHAT is saved and in WHICH ORDER it is restored):
     lib_guesser/cracking_session.py  CrackingSession.run
        new session : PcfgQueue(pcfg); loop { pt_item = pqueue.next(); None -> return (nothing saved);
                      if pcfg.should_exit: _save_session(); break;  create_guesses(pt_item['pt']) }
        load_session: PcfgQueue(pcfg, save_config)   <- queue rebuilt FIRST from max_probability
                      if has_option(omen_guess_number): restore_omen(...)   <- remainder of the level
                      then the same loop
        _save_session: pqueue.update_save_config (max_probability), and omen_guess_number if pcfg.omen_exit
     lib_guesser/priority_queue.py    PcfgQueue.next: max_probability = prob of the item JUST POPPED;
                      update_save_config writes it.  The quit check sits AFTER the pop that follows the
                      interrupted level, so the saved probability is that of the FOLLOWING pre-terminal,
                      which has not been guessed.
     lib_guesser/pcfg_grammar.py      omen_generate_guesses: print_guess; omen_guess_num += 1;
                      if should_exit: omen_exit = True; save_session(.omn); return
                      restore_omen: MarkovCracker(grammar, 1, optimizer).load_session(.omn); omen_generate_guesses
   Not modelled: --limit (restore_omen ignores it), the status report, the files themselves
   (configparser / pickle are the identity on these values: trusted, exercised by the correspondence). *)
From Coq Require Import List Arith Bool NArith ZArith.
From Pcfg Require Import ProbAlg Next NextSpec Expand OmenSpec Omen.
Import ListNotations.

(* int(values[0]) of a Markov group: decimal digits only (what the trainer
   writes); anything else has no level (Python would raise ValueError) *)
Fixpoint dec_acc (s : str) (acc : N) : option N :=
  match s with
  | [] => Some acc
  | c :: r => if (N.leb 48 c && N.leb c 57)%bool then dec_acc r (acc * 10 + (c - 48))%N else None
  end.

Definition level_of_str (s : str) : option Z :=
  match s with
  | [] => None
  | _ => option_map Z.of_N (dec_acc s 0%N)
  end.

Section MarkovSession.
Context {A : palg}.
(* str.upper() per character (Expand.v) *)
Variable upper_c : N -> str.
(* Optimizer(max_length = optmax); _find_first_object scans range(0, max_level + ffo_extra) *)
Variable optmax ffo_extra : nat.

(* the loaded grammar: the probability tables the queue works on, the values and
   category of every group (grammar[v][i]), and the OMEN tables *)
Record sgram := mk_sgram {
  sg_rs   : ruleset A;
  sg_term : var -> nat -> slot;
  sg_omen : omen
}.

(* the strings of the Markov level written in a group: level_strings G int(lv),
   computed on the indexed CP table as everywhere in the correspondence
   (OmenProofs5.level_strings_fast: equal to OmenSpec.level_strings G T) *)
Definition level_strings_idx (G : omen) (T : Z) : list str :=
  level_strings_f (ip_at G) (cp_fast G) (ln_at G) (og_max_level G) T.

Definition omen_fn (G : omen) (lv : str) : list str :=
  match level_of_str lv with
  | Some T => level_strings_idx G T
  | None => []
  end.

Definition slots_of_pt (g : sgram) (t : pt) : list slot :=
  map (fun vi => sg_term g (fst vi) (snd vi)) t.

(* create_guesses(pt): the lines printed for one pre-terminal ([] if the code raises) *)
Definition pt_out (g : sgram) (t : pt) : list str :=
  match expand upper_c (omen_fn (sg_omen g)) (slots_of_pt g t) [] None with
  | Some (o, _) => o
  | None => []
  end.

Definition stream (g : sgram) (l : list (item A)) : list str :=
  flat_map (fun it => pt_out g (ipt it)) l.

(* category == 'M': level = int(grammar[pt_type][index]['values'][0]) *)
Definition markov_level (g : sgram) (t : pt) : option Z :=
  match slots_of_pt g t with
  | s :: _ =>
      match scat s, svals s with
      | CatM, lv :: _ => level_of_str lv
      | _, _ => None
      end
  | [] => None
  end.

(* ---------------- the uninterrupted session ---------------- *)
(* pre-terminals in pop order (oldest first) after n pops *)
Definition pops (pop : queue A -> option (item A * queue A)) (g : sgram) (n : nat) : list (item A) :=
  rev (emitted (run pop (sg_rs g) n (start (sg_rs g)))).

Definition session_out pop (g : sgram) : list str :=
  stream g (pops pop g (total (sg_rs g))).

(* ---------------- the interrupted session ---------------- *)
(* what _save_session leaves on disk, as far as the resume reads it:
   guessing_info/max_probability and (omen_guess_number, .omn) *)
Record session_file := mk_sfile {
  sf_max_prob : ProbAlg.P A;
  sf_omen     : sess_save
}.

Inductive cut_outcome :=
  | NotMarkov                              (* (k, j) is not a quit inside a Markov level *)
  | NotSaved (out : list str)              (* the level was the LAST pre-terminal: pop returns None, run returns (R18) *)
  | Saved (out : list str) (f : session_file).

(* a new MarkovCracker for level T, next_guess called j times with memo table c *)
Definition level_prefix (G : omen) (j : nat) (c : cache) (T : Z) :=
  enumerate (ip_at G) (cp_fast G) (ln_at G) (og_max_level G) optmax ffo_extra j c T.

(* k pre-terminals are generated in full, the (k+1)-th popped is a Markov level;
   the quit flag is seen after its j-th guess (j >= 1: the flag is polled after
   each printed guess).  c = the Optimizer's memo table when the level starts.
   [check_after_pop] = where the session loop tests the quit flag
   (gen/Consts_gen.v: session_quit_check_after_pop, extracted from the source):
     true  (the code): `pt_item = self.pqueue.next()` first, then
           `if self.pcfg.should_exit: _save_session(); break` -- the saved
           max_probability is that of the pop that FOLLOWS the level;
     false: the test at the top of the loop -- max_probability is still the
           level's own (PcfgQueue.next set it when the level was popped). *)
Definition interrupted (check_after_pop : bool) pop (g : sgram) (k j : nat) (c : cache) : cut_outcome :=
  let rs := sg_rs g in
  let s := run pop rs k (start rs) in
  match pop (pending s) with
  | None => NotMarkov
  | Some (x, r) =>                                   (* pqueue.next(): the level's pre-terminal *)
      let q1 := find_children rs x ++ r in
      match markov_level g (ipt x) with
      | None => NotMarkov
      | Some T =>
          match level_prefix (sg_omen g) j c T with
          | None => NotMarkov                        (* the MarkovCracker constructor raises *)
          | Some (l, _, st, _) =>
              if negb (Nat.leb 1 j && Nat.eqb (length l) j) then NotMarkov   (* fewer than j strings *)
              else
                let out := stream g (rev (emitted s)) ++ l in
                let cfg := sess_quit sess_empty true j (mc_save st) in
                if check_after_pop then
                  match pop q1 with                  (* pqueue.next(): the pop that FOLLOWS *)
                  | None => NotSaved out
                  | Some (y, _) => Saved out (mk_sfile (iprob y) cfg)   (* max_probability = y's; then the quit check saves *)
                  end
                else Saved out (mk_sfile (iprob x) cfg)
          end
      end
  end.

(* ---------------- the resumed session ---------------- *)
(* restore_omen: a MarkovCracker loaded from the .omn, next_guess until None
   (at most [calls] calls; None = the constructor raised or calls/fuel ran out) *)
Definition omen_rest (G : omen) (calls : nat) (c : cache) (s : saved) : option (list str) :=
  match mc_starts (ip_at G) (ln_at G) (og_max_level G) ffo_extra with
  | None => None
  | Some starts =>
      match mc_run (ip_at G) (cp_fast G) (ln_at G) (og_max_level G) optmax calls
                   (mc_fuel (ip_at G) (ln_at G) (og_max_level G)) starts c (mc_load s) with
      | (l, Done, _, _) => Some l
      | _ => None
      end
  end.

Record resumed_run := mk_resumed {
  rr_rest  : list str;          (* printed by restore_omen *)
  rr_queue : state A            (* the restored queue after n pops *)
}.

(* run(load_session=True) on the file f: the queue is rebuilt from
   max_probability ([strict] = the comparison in is_parent_around), then the
   remainder of the level if omen_guess_number is present, then n pops.
   c = the (empty) memo table of the new process. *)
Definition resumed_session (strict cleared : bool) pop (g : sgram) (f : session_file)
           (calls : nat) (c : cache) (n : nat) : option resumed_run :=
  let rs := sg_rs g in
  let q0 := resume_start_gen strict rs (sf_max_prob f) in
  let rest := match fst (sess_restore cleared (sf_omen f) false) with
              | Some s => omen_rest (sg_omen g) calls c s
              | None => Some []
              end in
  match rest with
  | Some l => Some (mk_resumed l (run pop rs n q0))
  | None => None
  end.

Definition resumed_pops (r : resumed_run) : list (item A) := rev (emitted (rr_queue r)).
(* [omen_first] = restore_omen is called before the session loop (the code;
   gen/Consts_gen.v: session_omen_restored_before_loop) or after it *)
Definition resumed_out (omen_first : bool) (g : sgram) (r : resumed_run) : list str :=
  if omen_first then rr_rest r ++ stream g (resumed_pops r)
  else stream g (resumed_pops r) ++ rr_rest r.

(* ---------------- a queue that follows an observed order ---------------- *)
(* heapq's order inside a group of equal probability is not modelled; the
   correspondence lets the model's pop follow the order the implementation
   showed: among the elements no other element is strictly more probable than,
   take the one that matches the earliest entry of [order]; if none matches,
   fall back to pop_first_max.  It meets the queue contract for EVERY order
   (pop_follow_ok), so all theorems apply to the runs the correspondence makes. *)
Definition is_max (q : queue A) (x : item A) : bool :=
  forallb (fun y => negb (plt (iprob x) (iprob y))) q.

Fixpoint take_first (f : item A -> bool) (q : queue A) : option (item A * queue A) :=
  match q with
  | [] => None
  | x :: r =>
      if f x then Some (x, r)
      else match take_first f r with
           | Some (y, r') => Some (y, x :: r')
           | None => None
           end
  end.

Fixpoint pop_follow {K} (matches : item A -> K -> bool) (order : list K) (q : queue A)
  : option (item A * queue A) :=
  match order with
  | [] => pop_first_max q
  | o :: rest =>
      match take_first (fun x => if matches x o then is_max q x else false) q with
      | Some r => Some r
      | None => pop_follow matches rest q
      end
  end.

End MarkovSession.

Arguments sgram : clear implicits.
Arguments session_file : clear implicits.
Arguments cut_outcome : clear implicits.
Arguments resumed_run : clear implicits.
