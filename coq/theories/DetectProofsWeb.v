(* Index arithmetic of the e-mail and website detectors.  Both search the
   lower-cased section and slice the original one with the offsets found;
   that is sound exactly when lower() preserves the length of the section
   (hypothesis [good], false for U+0130: see refuted_*_0130). *)
From Coq Require Import List ZArith NArith Bool Lia.
From Pcfg Require Import Str Multiword Detect DetectProofsStr DetectProofsDrive DetectProofsSimple DetectProofsSeg.
Import ListNotations.
Open Scope Z_scope.

Section Web.
Variables isalpha isdigit : N -> bool.
Variable lower_c : N -> str.
Variable kbs : list board.
Variable min_run : Z.
Variable tlds : list str.
Variable year_prefixes : list str.
Variable context_strings : list str.

Notation L := (map (lower1 lower_c)).
Notation good := (good isalpha isdigit lower_c).
Notation sound := (sound isalpha isdigit kbs min_run year_prefixes context_strings).
Notation pm := (pm lower_c).

(* s cut at 0 <= e <= len s *)
Lemma cut2 (s : str) e : 0 <= e <= len s -> exists a b, s = a ++ b /\ len a = e /\ slice s 0 e = a /\ sfrom s e = b.
Proof.
  intros He. destruct (cut3 s 0 e ltac:(lia) ltac:(lia)) as (x & y & z & -> & Hx & Hy).
  apply len_zero in Hx. subst x. simpl. exists y, z. replace e with (len y) by lia.
  split; [reflexivity|]. split; [reflexivity|]. split; [apply slice_prefix|apply sfrom_app].
Qed.

Lemma email_go_spec : forall tl s p f, len (L s) = len s ->
  email_go s (L s) tl = DYes p f ->
  exists l2 l3, s = l2 ++ l3 /\ l2 <> [] /\ p = (l2, Some LE) :: osec l3 /\ fst f = L l2.
Proof.
  induction tl as [|tld tl IH]; intros s p f Hlen H; simpl in H; [discriminate|].
  destruct (find (L s) tld =? -1) eqn:Ef; [eapply IH; eassumption|]. apply Z.eqb_neq in Ef.
  destruct (find_bounds _ _ _ eq_refl Ef) as (H0 & Hb).
  set (e := find (L s) tld + len tld) in *.
  destruct (find (slice (L s) 0 e) [c_at] =? -1); [eapply IH; eassumption|].
  destruct (nonempty (slice (L s) 0 e)) eqn:En; [|discriminate].
  injection H as <- <-.
  assert (He : 0 <= e <= len s) by (pose proof (len_nonneg tld); unfold e; lia).
  destruct (cut2 s e He) as (a & b & Es & Ha & Esl & Esf). rewrite Esl, Esf.
  exists a, b. split; [assumption|]. split; [|split].
  - intros ->. rewrite len_nil in Ha. apply nonempty_true in En. apply En.
    apply slice_empty; lia.
  - f_equal. rewrite Hlen. destruct b as [|c b].
    + rewrite app_nil_r in Es. subst a. rewrite Ha, Z.eqb_refl. reflexivity.
    + replace (e =? len s) with false; [reflexivity|]. symmetry. apply Z.eqb_neq.
      rewrite Es, len_app, len_cons. pose proof (len_nonneg b). lia.
  - simpl. rewrite Es, map_app. rewrite <- Ha, <- (L_len lower_c a). apply slice_prefix.
Qed.

Lemma detect_email_split_ok s p f : good s -> detect_email lower_c true tlds s = DYes p f ->
  split_ok pm good sound s p.
Proof.
  intros Hg H. unfold detect_email in H.
  rewrite (working_aligned lower_c s (good_lowne isalpha isdigit lower_c s Hg)) in H.
  destruct (negb (contains (L s) [c_dot])); [discriminate|].
  destruct (negb (contains (L s) [c_at])); [discriminate|].
  apply email_go_spec in H; [|apply L_len].
  destruct H as (l2 & l3 & -> & Hne & -> & _).
  change (l2 ++ l3) with ([] ++ l2 ++ l3) in *.
  change ((l2, Some LE) :: osec l3) with (osec [] ++ [(l2, Some LE)] ++ osec l3).
  destruct (good_pieces isalpha isdigit lower_c kbs min_run year_prefixes context_strings _ _ _ Hg) as (G1 & G3).
  apply shape_split_ok; try assumption.
  - apply pm_unlab.
  - apply tiles_single. discriminate.
  - destruct l2; [congruence|simpl; lia].
  - constructor; [discriminate|constructor].
  - constructor; [|constructor]. split; [assumption|exact I].
Qed.

Lemma email_go_no_err : forall tl s ws, email_go s ws tl <> DErr.
Proof.
  induction tl as [|tld tl IH]; intros s ws; simpl; [discriminate|].
  destruct (find ws tld =? -1); [apply IH|].
  destruct (find _ [c_at] =? -1); [apply IH|].
  destruct (nonempty _); discriminate.
Qed.

Lemma detect_email_no_err s : detect_email lower_c true tlds s <> DErr.
Proof.
  unfold detect_email. destruct (negb _); [discriminate|]. destruct (negb _); [discriminate|]. apply email_go_no_err.
Qed.

Theorem email_split_ok_proved :
  email_split_ok isalpha isdigit lower_c kbs min_run tlds year_prefixes context_strings.
Proof.
  split.
  - intros s _. apply detect_email_no_err.
  - intros s p f Hg _ D. now apply detect_email_split_ok with (f := f).
Qed.

(* ---- website *)

Hypothesis tlds_nonempty : Forall (fun t => 1 <= len t) tlds.

Definition occ_ok (ws tld : str) (T : Z) : Prop := 0 <= T /\ T + len tld <= len ws.

Lemma web_scan_spec ws tld : 1 <= len tld -> forall fuel e T T',
  (e <> -1 -> occ_ok ws tld T) ->
  web_scan isalpha fuel ws tld e T = Some (Some T') -> occ_ok ws tld T'.
Proof.
  intros Htl. induction fuel as [|f IH]; intros e T T' Hinv H; simpl in H; [discriminate|].
  destruct (e =? -1) eqn:Ee; [discriminate|]. apply Z.eqb_neq in Ee. specialize (Hinv Ee). destruct Hinv as (H0 & Hb).
  destruct (negb (T =? len ws - len tld)) eqn:En.
  - destruct (getc ws (T + len tld)) as [c|]; [|discriminate].
    destruct (isalpha c || N.eqb c c_dot).
    + eapply IH; [|exact H]. intros Hne.
      destruct (find_bounds _ _ _ eq_refl Hne) as (Hf0 & Hfb).
      assert (Hsl : len (sfrom ws (T + len tld)) = len ws - (T + len tld)) by (apply sfrom_len; lia).
      unfold occ_ok. lia.
    + injection H as <-. split; assumption.
  - injection H as <-. split; assumption.
Qed.

Lemma web_scan_fuel ws tld : 1 <= len tld -> forall fuel e T,
  (e <> -1 -> occ_ok ws tld T) -> (0 < fuel)%nat -> (e <> -1 -> (Z.to_nat (len ws - T) < fuel)%nat) ->
  web_scan isalpha fuel ws tld e T <> None.
Proof.
  intros Htl. induction fuel as [|f IH]; intros e T Hinv Hpos Hf; [lia|].
  simpl. destruct (e =? -1) eqn:Ee; [discriminate|]. apply Z.eqb_neq in Ee.
  specialize (Hinv Ee). specialize (Hf Ee). destruct Hinv as (H0 & Hb).
  destruct (negb (T =? len ws - len tld)) eqn:En; [|discriminate].
  apply negb_true_iff, Z.eqb_neq in En.
  destruct (getc_some ws (T + len tld) ltac:(lia)) as (? & c & ? & _ & _ & ->).
  destruct (isalpha c || N.eqb c c_dot); [|discriminate].
  assert (Hsl : len (sfrom ws (T + len tld)) = len ws - (T + len tld)) by (apply sfrom_len; lia).
  apply IH.
  + intros Hne. destruct (find_bounds _ _ _ eq_refl Hne) as (Hf0 & Hfb). unfold occ_ok. lia.
  + lia.
  + intros Hne. destruct (find_bounds _ _ _ eq_refl Hne) as (Hf0 & Hfb). lia.
Qed.

Lemma web_prefix_range ws si : snd (web_prefix ws si) = -1 \/ 0 <= snd (web_prefix ws si).
Proof.
  unfold web_prefix.
  assert (Hr : forall a b, rfind a b = -1 \/ 0 <= rfind a b) by (intros a b; destruct (rfind_bounds a b); lia).
  set (st0 := if si =? -1 then (None, 0) else (@None str, -1)).
  assert (H0 : snd st0 = -1 \/ 0 <= snd st0) by (unfold st0; destruct (si =? -1); simpl; lia).
  set (st1 := if snd st0 =? -1 then _ else st0).
  assert (H1 : snd st1 = -1 \/ 0 <= snd st1).
  { unfold st1. destruct (snd st0 =? -1); [|assumption].
    destruct (rfind (sto ws (si + 1)) s_http_www =? -1) eqn:E; [assumption|]. simpl. destruct (Hr (sto ws (si + 1)) s_http_www); lia. }
  set (st2 := if snd st1 =? -1 then _ else st1).
  assert (H2 : snd st2 = -1 \/ 0 <= snd st2).
  { unfold st2. destruct (snd st1 =? -1); [|assumption].
    destruct (rfind (sto ws si) s_http =? -1) eqn:E; [assumption|]. simpl. destruct (Hr (sto ws si) s_http); lia. }
  destruct (snd st2 =? -1); [|assumption].
  destruct (rfind (sto ws si) s_www =? -1) eqn:E; [assumption|]. simpl. destruct (Hr (sto ws si) s_www); lia.
Qed.

Lemma web_end_of_url_spec ws tld T eou : occ_ok ws tld T ->
  web_end_of_url ws tld T = Some eou -> T + len tld <= eou <= len ws.
Proof.
  intros (H0 & Hb). unfold web_end_of_url.
  destruct (T + len tld =? len ws) eqn:E.
  - intros H. injection H as <-. lia.
  - destruct (getc ws (T + len tld)) as [c|]; [|discriminate]. destruct (N.eqb c c_slash); intros H; injection H as <-; lia.
Qed.

Lemma web_end_of_url_total ws tld T : occ_ok ws tld T -> web_end_of_url ws tld T <> None.
Proof.
  intros (H0 & Hb). unfold web_end_of_url. pose proof (len_nonneg tld).
  destruct (T + len tld =? len ws) eqn:E; [discriminate|]. apply Z.eqb_neq in E.
  destruct (getc_some ws (T + len tld) ltac:(lia)) as (? & c & ? & _ & _ & ->). destruct (N.eqb c c_slash); discriminate.
Qed.

Lemma web_accept_spec s tld T p f : occ_ok (L s) tld T ->
  web_accept s (L s) tld T = DYes p f ->
  exists l1 l2 l3, s = l1 ++ l2 ++ l3 /\ l2 <> [] /\ p = osec l1 ++ [(L l2, Some LW)] ++ osec l3 /\ fst (fst f) = L l2.
Proof.
  intros Hocc H. unfold web_accept in H.
  destruct (web_end_of_url (L s) tld T) as [eou|] eqn:Ee; [|discriminate].
  pose proof (web_end_of_url_spec _ _ _ _ Hocc Ee) as He.
  pose proof (web_prefix_range (L s) (web_start_index (L s) T)) as Hr.
  set (st3 := web_prefix (L s) (web_start_index (L s) T)) in *.
  set (sou := if snd st3 =? -1 then 0 else snd st3) in *.
  assert (Hsou : 0 <= sou) by (unfold sou; destruct (snd st3 =? -1) eqn:E; [lia|apply Z.eqb_neq in E; lia]).
  cbv zeta in H.
  destruct (nonempty (slice (L s) sou eou)) eqn:En; [|discriminate]. apply nonempty_true in En.
  injection H as <- <-.
  assert (Hlen : len (L s) = len s) by (apply L_len).
  pose proof (len_nonneg tld) as Htn. pose proof Hocc as (Hocc0 & Hoccb).
  assert (Hlt : sou < eou).
  { destruct (Z_lt_ge_dec sou eou); [assumption|]. exfalso. apply En. apply slice_empty; lia. }
  destruct (cut3 s sou eou ltac:(lia) ltac:(lia)) as (l1 & l2 & l3 & Es & Hl1 & Hl2).
  assert (Els : L s = L l1 ++ L l2 ++ L l3) by (rewrite Es at 1; now rewrite !map_app).
  pose proof (L_len lower_c l1) as Hll1. pose proof (L_len lower_c l2) as Hll2.
  assert (Emid : slice (L s) sou eou = L l2).
  { rewrite Els. replace sou with (len (L l1)) by lia. replace eou with (len (L l1) + len (L l2)) by lia.
    apply slice_app3. }
  exists l1, l2, l3. split; [assumption|]. split; [|split; [|exact Emid]].
  - intros ->. rewrite len_nil in Hl2. lia.
  - 
    assert (Epre : (if sou =? 0 then [] else [(slice s 0 sou, @None label)]) = osec l1).
    { rewrite <- Hl1. apply (pre_osec s l1 _ Es). }
    assert (Epost : (if eou =? len s then [] else [(sfrom s eou, @None label)]) = osec l3).
    { replace eou with (len l1 + len l2) by lia. rewrite Es. rewrite sfrom_app3.
      rewrite !len_app. destruct l3 as [|c l3]; simpl.
      + rewrite len_nil. replace (len l1 + len l2 =? len l1 + (len l2 + 0)) with true; [reflexivity|]. symmetry. apply Z.eqb_eq. lia.
      + rewrite len_cons. pose proof (len_nonneg l3).
        replace (len l1 + len l2 =? len l1 + (len l2 + (1 + len l3))) with false; [reflexivity|]. symmetry. apply Z.eqb_neq. lia. }
    rewrite Emid, Epre, Epost. reflexivity.
Qed.

Lemma web_go_spec : forall tl s p f, Forall (fun t => 1 <= len t) tl ->
  web_go isalpha s (L s) tl = DYes p f ->
  exists l1 l2 l3, s = l1 ++ l2 ++ l3 /\ l2 <> [] /\ p = osec l1 ++ [(L l2, Some LW)] ++ osec l3 /\ fst (fst f) = L l2.
Proof.
  induction tl as [|tld tl IH]; intros s p f Htl H; [discriminate|]. cbn [web_go] in H.
  inversion Htl as [|? ? Ht1 Htl']; subst.
  destruct (web_scan isalpha (S (S (length (L s)))) (L s) tld (find (L s) tld) (find (L s) tld))
    as [[T|]|] eqn:Es; [| |discriminate].
  - apply web_scan_spec in Es; [|assumption|].
    + eapply web_accept_spec; eassumption.
    + intros Hne. destruct (find_bounds _ _ _ eq_refl Hne). split; assumption.
  - eapply IH; eassumption.
Qed.

Lemma web_go_no_err : forall tl s ws, Forall (fun t => 1 <= len t) tl -> web_go isalpha s ws tl <> DErr.
Proof.
  induction tl as [|tld tl IH]; intros s ws Htl; [discriminate|]. cbn [web_go].
  inversion Htl as [|? ? Ht1 Htl']; subst.
  assert (Hocc : find ws tld <> -1 -> occ_ok ws tld (find ws tld))
    by (intros Hne; destruct (find_bounds _ _ _ eq_refl Hne); split; assumption).
  destruct (web_scan isalpha (S (S (length ws))) ws tld (find ws tld) (find ws tld)) as [[T|]|] eqn:Es.
  - apply web_scan_spec in Es; [|assumption|assumption].
    unfold web_accept. destruct (web_end_of_url ws tld T) eqn:Ee; [|now apply web_end_of_url_total in Ee].
    cbv zeta. destruct (nonempty _); discriminate.
  - now apply IH.
  - exfalso. revert Es. apply web_scan_fuel; [assumption|assumption|lia|].
    intros Hne. destruct (Hocc Hne). unfold len in *. lia.
Qed.

Lemma detect_website_split_ok s p f : good s -> detect_website isalpha lower_c true tlds s = DYes p f ->
  split_ok pm good sound s p.
Proof.
  intros Hg H. unfold detect_website in H.
  rewrite (working_aligned lower_c s (good_lowne isalpha isdigit lower_c s Hg)) in H.
  destruct (negb (contains (L s) [c_dot])); [discriminate|].
  apply web_go_spec in H; [|assumption].
  destruct H as (l1 & l2 & l3 & -> & Hne & -> & _).
  destruct (good_pieces isalpha isdigit lower_c kbs min_run year_prefixes context_strings _ _ _ Hg) as (G1 & G3).
  assert (Hg2 : good l2). { apply good_app in Hg. destruct Hg as (_ & Hg). apply good_app in Hg. tauto. }
  assert (Hll : len (L l2) = len l2) by (apply L_len).
  apply shape_split_ok; try assumption.
  - apply pm_unlab.
  - exists [l2]. split; [simpl; apply app_nil_r|]. constructor; [reflexivity|constructor].
  - destruct l2; [congruence|simpl; lia].
  - constructor; [discriminate|constructor].
  - constructor; [|constructor]. split; [|exact I]. simpl. intros E. apply Hne. apply len_zero. rewrite <- Hll, E. reflexivity.
Qed.

Theorem website_split_ok_proved :
  website_split_ok isalpha isdigit lower_c kbs min_run tlds year_prefixes context_strings.
Proof.
  split.
  - intros s _. unfold detect_website. destruct (negb _); [discriminate|]. now apply web_go_no_err.
  - intros s p f Hg _ D. now apply detect_website_split_ok with (f := f).
Qed.

End Web.
