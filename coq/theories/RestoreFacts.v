(* C08: the resumed run, from the restored frontier to the statement about
   suffixes and repeats.  Combines NextProofs (closure theorem) and
   RestoreProofs (the walk rebuilds exactly the frontier). *)
From Coq Require Import List Arith Bool Lia Sorting.Permutation Sorting.Sorted.
From Pcfg Require Import ProbAlg Next NextSpec NextProofs RestoreProofs.
Import ListNotations.

Section C08.
Context {A : palg}.
Variable rs : ruleset A.
Hypothesis Hwf : wf rs.

Definition resumed (pop : queue A -> option (item A * queue A)) (m : P A) (n : nat) : state A :=
  run pop rs n (resume_start_gen false rs m).

(* the resumed run emits exactly the pre-terminals at or below the saved
   probability, once each, in order, and then stops *)
Theorem resume_exact pop m :
  pop_ok_okb pop -> okb m = true ->
  let SS := filter (below m) (all_preterminals rs) in
  (forall n, nonincreasing (rev (emitted (resumed pop m n)))) /\
  (forall n, NoDup (emitted (resumed pop m n) ++ pending (resumed pop m n))) /\
  (forall n x, In x (emitted (resumed pop m n) ++ pending (resumed pop m n)) -> In x SS) /\
  (forall n, n <= length SS -> length (emitted (resumed pop m n)) = n) /\
  Permutation (emitted (resumed pop m (length SS))) SS /\
  pending (resumed pop m (length SS)) = [].
Proof.
  intros Hpop Hm SS.
  pose proof (closure_below_okb rs Hwf pop m (restored_gen false rs m) Hpop Hm
                (restore_frontier rs Hwf m Hm)) as H.
  cbv zeta in H. destruct H as (H1 & _ & H3 & H4 & H5 & H6 & H7).
  unfold resumed, resume_start_gen. repeat split; assumption.
Qed.

Lemma sorted_split (R : item A -> item A -> Prop) l1 x l2 :
  StronglySorted R (l1 ++ x :: l2) -> Forall (fun y => R y x) l1 /\ Forall (R x) l2.
Proof.
  induction l1 as [|a l1 IH]; simpl; intros H.
  - inversion H; subst. split; auto.
  - inversion H as [|? ? Hs Hf]; subst. destruct (IH Hs) as [I1 I2]. split; auto.
    constructor; auto. rewrite Forall_forall in Hf. apply Hf. apply in_app_iff. right. left. reflexivity.
Qed.

(* The property's sentence.  U = the uninterrupted emission (oldest first),
   cut before x: U = U1 ++ x :: U2, the saved probability is x's.  Then the
   resumed run (B) emits x and everything after it, nothing above the saved
   probability, each item at most once, and whatever it repeats from U1 has
   exactly the saved probability. *)
Theorem resume_suffix_and_repeats pop pop' U1 x U2 :
  pop_ok_okb pop -> pop_ok_okb pop' ->
  rev (emitted (run pop rs (total rs) (start rs))) = U1 ++ x :: U2 ->
  let m := iprob x in
  let B := emitted (resumed pop' m (length (filter (below m) (all_preterminals rs)))) in
  (forall y, In y (x :: U2) -> In y B) /\
  (forall y, In y B -> ple (iprob y) m = true) /\
  NoDup B /\
  (forall y, In y B -> In y U1 -> peq (iprob y) m = true) /\
  nonincreasing (rev B).
Proof.
  intros Hpop Hpop' HU m B.
  destruct (C02_exactly_once_okb rs Hwf pop Hpop) as [Hperm _].
  destruct (C01_sorted_okb rs Hwf pop (total rs) Hpop) as [Hsorted _].
  rewrite HU in Hsorted. destruct (sorted_split _ _ _ _ Hsorted) as [Hbefore Hafter].
  assert (Hall : forall y, In y (U1 ++ x :: U2) -> In y (all_preterminals rs)).
  { intros y Hy. rewrite <- HU in Hy. apply in_rev in Hy. eapply Permutation_in; eauto. }
  assert (Hx : In x (all_preterminals rs)) by (apply Hall, in_app_iff; right; left; reflexivity).
  assert (Hm : okb m = true) by (apply (good_iprob_ok rs Hwf), In_all_preterminals, Hx).
  destruct (resume_exact pop' m Hpop' Hm) as (R1 & R2 & R3 & R4 & R5 & R6).
  fold B in R5.
  assert (HB : forall y, In y B <-> In y (filter (below m) (all_preterminals rs))).
  { intros y. split; intros Hy; [eapply Permutation_in; eauto | eapply Permutation_in; [apply Permutation_sym|]; eauto]. }
  repeat split.
  - intros y Hy. apply HB. apply filter_In. split.
    + apply Hall. apply in_app_iff. right. exact Hy.
    + unfold below. destruct Hy as [<-|Hy]; [apply (ple_refl A), Hm|].
      rewrite Forall_forall in Hafter. apply Hafter, Hy.
  - intros y Hy. apply HB in Hy. apply filter_In in Hy. apply Hy.
  - pose proof (R2 (length (filter (below m) (all_preterminals rs)))) as Hnd.
    fold B in Hnd. rewrite R6, app_nil_r in Hnd. exact Hnd.
  - intros y Hy Hy1. unfold peq. apply HB in Hy. apply filter_In in Hy. destruct Hy as [_ Hle].
    unfold below in Hle. rewrite Hle. simpl.
    rewrite Forall_forall in Hbefore. apply Hbefore, Hy1.
  - apply R1.
Qed.

(* any history of cuts: the resumed run depends only on (ruleset, saved
   probability), so the statement above applies to every later cycle *)
Theorem resume_depends_only_on_saved pop m n :
  resumed pop m n = run pop rs n {| emitted := []; pending := restored_gen false rs m |}.
Proof. reflexivity. Qed.

End C08.
