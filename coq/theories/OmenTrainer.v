(* OmenTrainer.v -- models of the OMEN TRAINER: how the level tables that C11 / C18
   take "as given" (OmenLevel.ttab) come about.  Definitions only.

   1. the Python objects of pass 2 as values: the AlphabetLookup object
      (/repo/lib_trainer/omen/alphabet_lookup.py) with its grammar dict
      { prefix : { ip_count, ep_count, cp_count, next_letter : { c : n } } }, the three
      totals and ln_lookup - BEFORE smoothing the leaves are counts, AFTER smoothing
      they are (level, count) tuples and the entries have ip_level / ep_level: the same
      object changes its shape in place, so the leaves are a sum type [nval] and the
      two level fields are options (None = key absent);
   2. AlphabetLookup.parse: the n-gram / IP / EP / length counting of one password;
   3. smoothing.py: _calc_level (the level formula; math.log and math.floor are the
      oracles [lg], [fl]: nothing is assumed about them), smooth_grammar,
      smooth_length, apply_smoothing;
   4. the view of a smoothed object as the table record of OmenLevel.v ([ttab_of]): this
      is what find_omen_level / calc_omen_keyspace read and what `write` puts on disk;
   5. AlphabetGenerator (alphabet_generator.py): the most frequent letters;
   6. what save_omen_rules_to_disk (omen_file_output.py) writes, as TEXT: the level
      files are the line lists of OmenLevel.write rendered as str(level) TAB string LF.

   Exceptions are values ([tres]): ZeroDivisionError of `/`, KeyError of a dict
   subscript, IndexError of a list subscript, TypeError of arithmetic on a tuple /
   of a subscript on an int. *)
From Coq Require Import List Arith Bool NArith ZArith Floats Uint63.
From Pcfg Require Import OmenSpec OmenLevel OmenKeyspace TextFile.
Import ListNotations.

(* ------------------------------------------------------------------ *)
(* exceptions as values                                                 *)

Inductive texn := EKey | EIndex | EZeroDiv | EType | EIO.

Definition texn_eqb (a b : texn) : bool :=
  match a, b with
  | EKey, EKey | EIndex, EIndex | EZeroDiv, EZeroDiv | EType, EType | EIO, EIO => true
  | _, _ => false
  end.

Inductive tres (X : Type) : Type :=
| TOk (x : X)
| TRaise (e : texn).
Arguments TOk {X} x.
Arguments TRaise {X} e.

Definition tbind {X Y : Type} (r : tres X) (f : X -> tres Y) : tres Y :=
  match r with
  | TOk x => f x
  | TRaise e => TRaise e
  end.

Notation "x <~ e ;; k" := (tbind e (fun x => k)) (at level 61, e at next level, right associativity).
Notation "' p <~ e ;; k" := (tbind e (fun p => k)) (at level 61, p pattern, e at next level, right associativity).

(* a loop over a list whose body may raise: the first exception ends it *)
Fixpoint tmapM {X Y : Type} (f : X -> tres Y) (l : list X) : tres (list Y) :=
  match l with
  | [] => TOk []
  | x :: r => y <~ f x ;; ys <~ tmapM f r ;; TOk (y :: ys)
  end.

Fixpoint tfoldM {X S : Type} (f : S -> X -> tres S) (l : list X) (s : S) : tres S :=
  match l with
  | [] => TOk s
  | x :: r => s' <~ f s x ;; tfoldM f r s'
  end.

(* d[k] where the dict is a lookup: None = KeyError *)
Definition tget {X : Type} (o : option X) : tres X :=
  match o with
  | Some x => TOk x
  | None => TRaise EKey
  end.

(* ------------------------------------------------------------------ *)
(* Python dicts that are mutated: association lists in insertion order   *)
(* (the same functions as OmenRt.dfind / dset, repeated here so that the model
   does not depend on the runtime of another translator) *)

Section Dict.
Context {K V : Type} (eqb : K -> K -> bool).

Fixpoint afind (k : K) (d : list (K * V)) : option V :=
  match d with
  | [] => None
  | (k', v) :: r => if eqb k' k then Some v else afind k r
  end.

Definition amem (k : K) (d : list (K * V)) : bool :=
  match afind k d with Some _ => true | None => false end.

(* d[k] = v : in place when the key exists, else appended *)
Fixpoint aset (k : K) (v : V) (d : list (K * V)) : list (K * V) :=
  match d with
  | [] => [(k, v)]
  | (k', v') :: r => if eqb k' k then (k', v) :: r else (k', v') :: aset k v r
  end.
End Dict.

(* ------------------------------------------------------------------ *)
(* 1. the AlphabetLookup object                                         *)

(* a leaf of next_letter / an element of ln_lookup: a count (int) before smoothing,
   the tuple (level, count) after *)
Inductive nval := NCount (c : Z) | NLevel (l c : Z).

(* int(v) where Python needs an int: arithmetic on a tuple is a TypeError *)
Definition nv_int (v : nval) : tres Z :=
  match v with NCount c => TOk c | NLevel _ _ => TRaise EType end.

(* v[i] for a constant i: an int is not subscriptable (TypeError), a pair has items 0, 1 *)
Definition nv_item (v : nval) (i : Z) : tres Z :=
  match v with
  | NCount _ => TRaise EType
  | NLevel l c => if (i =? 0)%Z then TOk l else if (i =? 1)%Z then TOk c
                  else if (i =? -1)%Z then TOk c else if (i =? -2)%Z then TOk l else TRaise EIndex
  end.

Record gentry := mk_gentry {
  ge_ip_count : Z;
  ge_ep_count : Z;
  ge_cp_count : Z;
  ge_next     : list (N * nval);       (* 'next_letter', dict order *)
  ge_ip_level : option Z;              (* None: the key 'ip_level' is absent *)
  ge_ep_level : option Z
}.

Definition ge_set_ip_count (e : gentry) (v : Z) : gentry :=
  mk_gentry v (ge_ep_count e) (ge_cp_count e) (ge_next e) (ge_ip_level e) (ge_ep_level e).
Definition ge_set_ep_count (e : gentry) (v : Z) : gentry :=
  mk_gentry (ge_ip_count e) v (ge_cp_count e) (ge_next e) (ge_ip_level e) (ge_ep_level e).
Definition ge_set_cp_count (e : gentry) (v : Z) : gentry :=
  mk_gentry (ge_ip_count e) (ge_ep_count e) v (ge_next e) (ge_ip_level e) (ge_ep_level e).
Definition ge_set_next (e : gentry) (v : list (N * nval)) : gentry :=
  mk_gentry (ge_ip_count e) (ge_ep_count e) (ge_cp_count e) v (ge_ip_level e) (ge_ep_level e).
Definition ge_set_ip_level (e : gentry) (v : Z) : gentry :=
  mk_gentry (ge_ip_count e) (ge_ep_count e) (ge_cp_count e) (ge_next e) (Some v) (ge_ep_level e).
Definition ge_set_ep_level (e : gentry) (v : Z) : gentry :=
  mk_gentry (ge_ip_count e) (ge_ep_count e) (ge_cp_count e) (ge_next e) (ge_ip_level e) (Some v).

Definition ggrammar := list (ostr * gentry).      (* dict order *)

Record alookup := mk_alookup {
  al_alphabet   : ostr;
  al_ngram      : Z;
  al_max_length : Z;
  al_min_length : Z;
  al_grammar    : ggrammar;
  al_ip_counter : Z;
  al_ep_counter : Z;
  al_ln_counter : Z;
  al_ln_lookup  : list nval
}.

Definition al_set_alphabet (A : alookup) (v : ostr) : alookup :=
  mk_alookup v (al_ngram A) (al_max_length A) (al_min_length A) (al_grammar A)
             (al_ip_counter A) (al_ep_counter A) (al_ln_counter A) (al_ln_lookup A).
Definition al_set_ngram (A : alookup) (v : Z) : alookup :=
  mk_alookup (al_alphabet A) v (al_max_length A) (al_min_length A) (al_grammar A)
             (al_ip_counter A) (al_ep_counter A) (al_ln_counter A) (al_ln_lookup A).
Definition al_set_max_length (A : alookup) (v : Z) : alookup :=
  mk_alookup (al_alphabet A) (al_ngram A) v (al_min_length A) (al_grammar A)
             (al_ip_counter A) (al_ep_counter A) (al_ln_counter A) (al_ln_lookup A).
Definition al_set_min_length (A : alookup) (v : Z) : alookup :=
  mk_alookup (al_alphabet A) (al_ngram A) (al_max_length A) v (al_grammar A)
             (al_ip_counter A) (al_ep_counter A) (al_ln_counter A) (al_ln_lookup A).
Definition al_set_grammar (A : alookup) (v : ggrammar) : alookup :=
  mk_alookup (al_alphabet A) (al_ngram A) (al_max_length A) (al_min_length A) v
             (al_ip_counter A) (al_ep_counter A) (al_ln_counter A) (al_ln_lookup A).
Definition al_set_ip_counter (A : alookup) (v : Z) : alookup :=
  mk_alookup (al_alphabet A) (al_ngram A) (al_max_length A) (al_min_length A) (al_grammar A)
             v (al_ep_counter A) (al_ln_counter A) (al_ln_lookup A).
Definition al_set_ep_counter (A : alookup) (v : Z) : alookup :=
  mk_alookup (al_alphabet A) (al_ngram A) (al_max_length A) (al_min_length A) (al_grammar A)
             (al_ip_counter A) v (al_ln_counter A) (al_ln_lookup A).
Definition al_set_ln_counter (A : alookup) (v : Z) : alookup :=
  mk_alookup (al_alphabet A) (al_ngram A) (al_max_length A) (al_min_length A) (al_grammar A)
             (al_ip_counter A) (al_ep_counter A) v (al_ln_lookup A).
Definition al_set_ln_lookup (A : alookup) (v : list nval) : alookup :=
  mk_alookup (al_alphabet A) (al_ngram A) (al_max_length A) (al_min_length A) (al_grammar A)
             (al_ip_counter A) (al_ep_counter A) (al_ln_counter A) v.

(* the object __init__ starts from (every attribute is assigned by __init__ before it is read) *)
Definition al_blank : alookup := mk_alookup [] 0 0 0 [] 0 0 0 [].

(* AlphabetLookup.__init__(alphabet, ngram, min_length = 1, max_length = 21) *)
Definition alookup_init (alphabet : ostr) (ngram min_length max_length : Z) : alookup :=
  mk_alookup alphabet ngram max_length (if (min_length <? ngram)%Z then ngram else min_length) []
             0 0 0 (repeat (NCount 0) (Z.to_nat max_length)).

(* ------------------------------------------------------------------ *)
(* Python sequences (the functions of OmenRt.v, with this file's exceptions)   *)

Definition tlen {X : Type} (l : list X) : Z := Z.of_nat (length l).

Definition tslice_bound (n i : Z) : Z :=
  if (i <? 0)%Z then Z.max 0 (i + n) else Z.min i n.

(* s[a:b]; None = bound left out *)
Definition tslice {X : Type} (s : list X) (a b : option Z) : list X :=
  let n := tlen s in
  let lo := match a with None => 0%Z | Some i => tslice_bound n i end in
  let hi := match b with None => n | Some i => tslice_bound n i end in
  firstn (Z.to_nat (hi - lo)) (skipn (Z.to_nat lo) s).

(* l[i] *)
Definition tindex {X : Type} (l : list X) (i : Z) : tres X :=
  let n := tlen l in
  let j := if (i <? 0)%Z then (i + n)%Z else i in
  if (j <? 0)%Z || (n <=? j)%Z then TRaise EIndex
  else match nth_error l (Z.to_nat j) with
       | Some x => TOk x
       | None => TRaise EIndex
       end.

Fixpoint set_nth_t {X : Type} (l : list X) (i : nat) (x : X) : list X :=
  match l, i with
  | [], _ => []
  | _ :: r, O => x :: r
  | y :: r, S j => y :: set_nth_t r j x
  end.

(* l[i] = x *)
Definition tsetindex {X : Type} (l : list X) (i : Z) (x : X) : tres (list X) :=
  let n := tlen l in
  let j := if (i <? 0)%Z then (i + n)%Z else i in
  if (j <? 0)%Z || (n <=? j)%Z then TRaise EIndex
  else TOk (set_nth_t l (Z.to_nat j) x).

(* range(a, b) *)
Definition trange (a b : Z) : list Z :=
  map (fun i => (a + Z.of_nat i)%Z) (seq 0 (Z.to_nat (b - a))).

(* ------------------------------------------------------------------ *)
(* 2. AlphabetLookup.parse                                              *)

(* is_in_alphabet: every character of the n-gram is one of the alphabet's *)
Definition in_alphabet (alphabet s : ostr) : bool :=
  forallb (fun c => existsb (N.eqb c) alphabet) s.

Definition new_entry : gentry := mk_gentry 0 0 0 [] None None.

(* the CP part of one position: the letter c follows the prefix of entry e.  A letter
   seen before is counted whatever it is; a new one only if the alphabet has it *)
Definition bump_next (alphabet : ostr) (c : N) (e : gentry) : tres gentry :=
  match afind N.eqb c (ge_next e) with
  | Some v =>
      n <~ nv_int v ;;
      TOk (ge_set_cp_count (ge_set_next e (aset N.eqb c (NCount (n + 1)) (ge_next e))) (ge_cp_count e + 1))
  | None =>
      if in_alphabet alphabet [c]
      then TOk (ge_set_cp_count (ge_set_next e (aset N.eqb c (NCount 1) (ge_next e))) (ge_cp_count e + 1))
      else TOk e
  end.

(* one position i of the loop `for i in range(0, pw_len - ngram + 2)`: the prefix
   pw[i : i+ngram-1] gets an entry if the alphabet spells it (else the position is
   skipped); position 0 counts the IP; the last position (i = pw_len - (ngram-1))
   counts the EP, every other one the transition to pw[i+ngram-1] *)
Definition parse_pos (pw : ostr) (A : alookup) (i : Z) : tres alookup :=
  let ng := al_ngram A in
  let k := tslice pw (Some i) (Some (i + ng - 1)%Z) in
  let g := al_grammar A in
  match afind ostr_eqb k g, in_alphabet (al_alphabet A) k with
  | None, false => TOk A
  | o, _ =>
      let e0 := match o with Some e => e | None => new_entry end in
      let first := (i =? 0)%Z in
      let last := (i =? tlen pw - (ng - 1))%Z in
      let e1 := if first then ge_set_ip_count e0 (ge_ip_count e0 + 1) else e0 in
      e2 <~ (if last then TOk (ge_set_ep_count e1 (ge_ep_count e1 + 1))
             else c <~ tindex pw (i + ng - 1) ;; bump_next (al_alphabet A) c e1) ;;
      let A1 := al_set_grammar A (aset ostr_eqb k e2 g) in
      let A2 := if first then al_set_ip_counter A1 (al_ip_counter A1 + 1) else A1 in
      TOk (if last then al_set_ep_counter A2 (al_ep_counter A2 + 1) else A2)
  end.

(* AlphabetLookup.parse(password): rejected lengths change nothing; else the length is
   tallied and every position is visited *)
Definition parse (A : alookup) (pw : ostr) : tres alookup :=
  let n := tlen pw in
  if (n <? al_min_length A)%Z || (al_max_length A <? n)%Z then TOk A
  else
    v <~ tindex (al_ln_lookup A) (n - 1) ;;
    c <~ nv_int v ;;
    ln <~ tsetindex (al_ln_lookup A) (n - 1) (NCount (c + 1)) ;;
    let A1 := al_set_ln_counter (al_set_ln_lookup A ln) (al_ln_counter A + 1) in
    tfoldM (parse_pos pw) (trange 0 (n - al_ngram A + 2)) A1.

(* pass 2 of run_trainer.py: every password of the list, in order *)
Definition parse_all (A : alookup) (pws : list ostr) : tres alookup := tfoldM parse pws A.

(* ------------------------------------------------------------------ *)
(* 3. smoothing                                                          *)

(* int -> float as Python converts an int operand of `/` and `*` (exact below 2^53;
   the model is only claimed for counts below 2^53) *)
Definition zfloat (z : Z) : float :=
  if (z <? 0)%Z then PrimFloat.opp (PrimFloat.of_uint63 (Uint63.of_Z (- z)))
  else PrimFloat.of_uint63 (Uint63.of_Z z).

(* a / b on ints *)
Definition int_truediv (a b : Z) : tres float :=
  if (b =? 0)%Z then TRaise EZeroDiv else TOk (PrimFloat.div (zfloat a) (zfloat b)).

(* the literal 0.00000000001 of _calc_level (float.hex of the Python literal) *)
Definition level_epsilon : float := 0x1.5fd7fe1796495p-37%float.

Definition default_max_level : Z := 10.
Definition ip_adjust : Z := 250.
Definition ep_adjust : Z := 250.
Definition cp_adjust : Z := 2.
Definition ln_adjust : Z := 1.

Section Smoothing.
(* math.log and math.floor: oracles, nothing is assumed about them (for arguments
   where Python's raise - log of a non-positive number, floor of inf / nan - the
   model has whatever value the oracle has; probi >= 1e-11 for counts >= 0) *)
Variable lg : float -> float.
Variable fl : float -> Z.

Definition clamp_level (max_level level : Z) : Z :=
  if (max_level <? level)%Z then max_level else if (level <? 0)%Z then 0%Z else level.

(* _calc_level(base_count, total_count, level_adjust_factor, max_level):
   floor(-1 * log(base/total * factor + 1e-11)) clamped to 0..max_level *)
Definition calc_level (base total factor max_level : Z) : tres Z :=
  q <~ int_truediv base total ;;
  let probi := PrimFloat.add (PrimFloat.mul q (zfloat factor)) level_epsilon in
  TOk (clamp_level max_level (fl (PrimFloat.mul (zfloat (-1)) (lg probi)))).

(* one leaf of next_letter: count n of cp_count becomes (level, n) *)
Definition smooth_leaf (cp_count : Z) (v : nval) : tres nval :=
  n <~ nv_int v ;;
  l <~ calc_level n cp_count cp_adjust default_max_level ;;
  TOk (NLevel l n).

Definition smooth_entry (ip_total ep_total : Z) (e : gentry) : tres gentry :=
  il <~ calc_level (ge_ip_count e) ip_total ip_adjust default_max_level ;;
  el <~ calc_level (ge_ep_count e) ep_total ep_adjust default_max_level ;;
  nx <~ tmapM (fun cv => v <~ smooth_leaf (ge_cp_count e) (snd cv) ;; TOk (fst cv, v)) (ge_next e) ;;
  TOk (mk_gentry (ge_ip_count e) (ge_ep_count e) (ge_cp_count e) nx (Some il) (Some el)).

(* smooth_grammar(grammar, ip_total, ep_total) *)
Definition smooth_grammar (g : ggrammar) (ip_total ep_total : Z) : tres ggrammar :=
  tmapM (fun ke => e <~ smooth_entry ip_total ep_total (snd ke) ;; TOk (fst ke, e)) g.

(* one element of ln_lookup: ZeroDivisionError (no password at all) gives (max_level, 0) *)
Definition smooth_ln_item (ln_counter max_level : Z) (v : nval) : tres nval :=
  n <~ nv_int v ;;
  if (ln_counter =? 0)%Z then TOk (NLevel max_level 0)
  else l <~ calc_level n ln_counter ln_adjust default_max_level ;; TOk (NLevel l n).

(* smooth_length(ln_lookup, ln_counter, max_level = 10) *)
Definition smooth_length (ln : list nval) (ln_counter max_level : Z) : tres (list nval) :=
  tmapM (smooth_ln_item ln_counter max_level) ln.

(* AlphabetLookup.apply_smoothing *)
Definition apply_smoothing (A : alookup) : tres alookup :=
  ln <~ smooth_length (al_ln_lookup A) (al_ln_counter A) default_max_level ;;
  g <~ smooth_grammar (al_grammar A) (al_ip_counter A) (al_ep_counter A) ;;
  TOk (al_set_grammar (al_set_ln_lookup A ln) g).

(* pass 2 + smoothing, as run_trainer.py drives them *)
Definition train (alphabet : ostr) (ngram max_length : Z) (pws : list ostr) : tres alookup :=
  A <~ parse_all (alookup_init alphabet ngram 1 max_length) pws ;;
  apply_smoothing A.

End Smoothing.

(* ------------------------------------------------------------------ *)
(* 4. a smoothed object as the table record of OmenLevel.v              *)

Fixpoint omapM {X Y : Type} (f : X -> option Y) (l : list X) : option (list Y) :=
  match l with
  | [] => Some []
  | x :: r => match f x, omapM f r with
              | Some y, Some ys => Some (y :: ys)
              | _, _ => None
              end
  end.

(* a level as the natural number the tables of OmenLevel.v hold *)
Definition level_nat (z : Z) : option nat := if (z <? 0)%Z then None else Some (Z.to_nat z).

Definition leaf_level (v : nval) : option nat :=
  match v with NLevel l _ => level_nat l | NCount _ => None end.

Definition tentry_of (ke : ostr * gentry) : option tentry :=
  match ge_ip_level (snd ke), ge_ep_level (snd ke) with
  | Some il, Some el =>
      match level_nat il, level_nat el,
            omapM (fun cv => option_map (fun l => (fst cv, l)) (leaf_level (snd cv))) (ge_next (snd ke)) with
      | Some i, Some p, Some nx => Some (mk_tentry (fst ke) i p nx)
      | _, _, _ => None
      end
  | _, _ => None
  end.

(* None: the object is not (completely) smoothed *)
Definition ttab_of (A : alookup) : option ttab :=
  match omapM tentry_of (al_grammar A), omapM leaf_level (al_ln_lookup A) with
  | Some g, Some ln =>
      Some (mk_ttab (Z.to_nat (al_ngram A)) (Z.to_nat (al_min_length A)) (Z.to_nat (al_max_length A)) g ln)
  | _, _ => None
  end.

(* the object before smoothing: every leaf is a count, no level field is present *)
Definition is_count (v : nval) : bool := match v with NCount _ => true | NLevel _ _ => false end.
Definition count_entryb (e : gentry) : bool :=
  forallb (fun cv => is_count (snd cv)) (ge_next e) &&
  match ge_ip_level e, ge_ep_level e with None, None => true | _, _ => false end.
Definition count_phaseb (A : alookup) : bool :=
  forallb (fun ke => count_entryb (snd ke)) (al_grammar A) && forallb is_count (al_ln_lookup A).

(* ------------------------------------------------------------------ *)
(* 5. AlphabetGenerator                                                  *)

Record agen := mk_agen {
  ag_alphabet_size : Z;
  ag_ngram : Z;
  ag_dictionary : list (N * Z)        (* letter -> times seen, dict order *)
}.
Definition ag_set_alphabet_size (G : agen) (v : Z) : agen := mk_agen v (ag_ngram G) (ag_dictionary G).
Definition ag_set_ngram (G : agen) (v : Z) : agen := mk_agen (ag_alphabet_size G) v (ag_dictionary G).
Definition ag_set_dictionary (G : agen) (v : list (N * Z)) : agen := mk_agen (ag_alphabet_size G) (ag_ngram G) v.
Definition ag_blank : agen := mk_agen 0 0 [].

(* sorted(items, key = value, reverse = True): Python's sort is stable and reverse=True
   keeps the original order of equal keys: insertion from the right, an element passes
   the ones that are strictly bigger *)
Section MostCommon.
Context {K V : Type} (ltb : V -> V -> bool).
Fixpoint ins_desc_by (x : K * V) (l : list (K * V)) : list (K * V) :=
  match l with
  | [] => [x]
  | y :: r => if ltb (snd x) (snd y) then y :: ins_desc_by x r else x :: l
  end.
Definition most_common_by (c : list (K * V)) : list (K * V) := fold_right ins_desc_by [] c.
End MostCommon.

Definition TAB_c : N := 9%N.

(* process_password: passwords shorter than the n-gram size are ignored; every
   character except TAB is tallied *)
Definition tally_letter (d : list (N * Z)) (c : N) : list (N * Z) :=
  if N.eqb c TAB_c then d
  else match afind N.eqb c d with
       | Some n => aset N.eqb c (n + 1)%Z d
       | None => aset N.eqb c 1%Z d
       end.

Definition process_password (G : agen) (pw : ostr) : agen :=
  if (tlen pw <? ag_ngram G)%Z then G
  else ag_set_dictionary G (fold_left tally_letter pw (ag_dictionary G)).

(* get_alphabet: the alphabet_size most frequent letters, most frequent first, ties in
   the order of first appearance *)
Definition get_alphabet (G : agen) : ostr :=
  firstn (Z.to_nat (ag_alphabet_size G)) (map fst (most_common_by Z.ltb (ag_dictionary G))).

(* pass 1 of run_trainer.py *)
Definition learn_alphabet (alphabet_size ngram : Z) (pws : list ostr) : ostr :=
  get_alphabet (fold_left process_password pws (mk_agen alphabet_size ngram [])).

(* ------------------------------------------------------------------ *)
(* 6. what save_omen_rules_to_disk writes                                *)

Record pinfo := mk_pinfo {
  pi_encoding : ostr;
  pi_ngram : Z;
  pi_alphabet : ostr
}.

(* the directory tree as a map path -> text (code points; codecs are not modelled) *)
Definition fsys := list (ostr * ostr).
Definition path_join (d f : ostr) : ostr := d ++ 47%N :: f.
Definition fs_put (fs : fsys) (p : ostr) (text : ostr) : fsys := aset ostr_eqb p text fs.
Definition fs_get (fs : fsys) (p : ostr) : option ostr := afind ostr_eqb p fs.

Definition LF_c : N := 10%N.

(* str(level) TAB string LF *)
Definition level_line (e : nat * ostr) : ostr := dec_of_Z (Z.of_nat (fst e)) ++ TAB_c :: snd e ++ [LF_c].
Definition level_text (ls : list (nat * ostr)) : ostr := flat_map level_line ls.
(* str(level) LF *)
Definition ln_text (ls : list nat) : ostr := flat_map (fun l => dec_of_Z (Z.of_nat l) ++ [LF_c]) ls.
(* one letter per line *)
Definition alphabet_text (a : ostr) : ostr := flat_map (fun c => [c; LF_c]) a.
(* str(int) TAB str(int) LF *)
Definition zz_line (e : Z * Z) : ostr := dec_of_Z (fst e) ++ TAB_c :: dec_of_Z (snd e) ++ [LF_c].
Definition zz_text (ls : list (Z * Z)) : ostr := flat_map zz_line ls.
(* str(int) TAB str(float) LF *)
Definition zf_line (repr : float -> ostr) (e : Z * float) : ostr := dec_of_Z (fst e) ++ TAB_c :: repr (snd e) ++ [LF_c].
Definition zf_text (repr : float -> ostr) (ls : list (Z * float)) : ostr := flat_map (zf_line repr) ls.

(* the probability Counter: for (level, keyspace) in omen_keyspace.items(), skipping
   keyspace 0: (omen_levels_count[level] / num_valid_passwords) / keyspace *)
Definition zcount (c : list (Z * Z)) (k : Z) : Z :=
  match afind Z.eqb k c with Some v => v | None => 0%Z end.

Definition prob_counter (keyspace levels_count : list (Z * Z)) (nvalid : Z) : tres (list (Z * float)) :=
  tfoldM (fun acc e =>
            if (snd e =? 0)%Z then TOk acc
            else q <~ int_truediv (zcount levels_count (fst e)) nvalid ;;
                 TOk (aset Z.eqb (fst e) (PrimFloat.div q (zfloat (snd e))) acc))
         keyspace [].

Definition name_of (s : list N) : ostr := s.
Definition n_Omen : ostr := [79; 109; 101; 110]%N.
Definition n_IP : ostr := [73; 80; 46; 108; 101; 118; 101; 108]%N.
Definition n_EP : ostr := [69; 80; 46; 108; 101; 118; 101; 108]%N.
Definition n_CP : ostr := [67; 80; 46; 108; 101; 118; 101; 108]%N.
Definition n_LN : ostr := [76; 78; 46; 108; 101; 118; 101; 108]%N.
Definition n_config : ostr := [99; 111; 110; 102; 105; 103; 46; 116; 120; 116]%N.
Definition n_alphabet : ostr := [97; 108; 112; 104; 97; 98; 101; 116; 46; 116; 120; 116]%N.
Definition n_keyspace : ostr := [111; 109; 101; 110; 95; 107; 101; 121; 115; 112; 97; 99; 101; 46; 116; 120; 116]%N.
Definition n_pws_per_level : ostr :=
  [111; 109; 101; 110; 95; 112; 119; 115; 95; 112; 101; 114; 95; 108; 101; 118; 101; 108; 46; 116; 120; 116]%N.
Definition n_prob : ostr := [112; 99; 102; 103; 95; 111; 109; 101; 110; 95; 112; 114; 111; 98; 46; 116; 120; 116]%N.

(* the files save_omen_rules_to_disk leaves in <base>/Omen when it returns True, in the
   order it writes them, for a smoothed trainer object with table view T.  config.txt is
   written by configparser, which is not modelled: [cfg] is what it puts there *)
Definition written_files (repr : float -> ostr) (T : ttab) (alphabet : ostr)
           (keyspace levels_count : list (Z * Z)) (prob : list (Z * float)) : list (ostr * ostr) :=
  [ (n_IP, level_text (write_ip T));
    (n_EP, level_text (write_ep T));
    (n_CP, level_text (write_cp T));
    (n_LN, ln_text (OmenLevel.write_ln T));
    (n_alphabet, alphabet_text alphabet);
    (n_keyspace, zz_text (rev (most_common_by Z.ltb keyspace)));
    (n_pws_per_level, zz_text (most_common_by Z.ltb levels_count));
    (n_prob, zf_text repr (most_common_by PrimFloat.ltb prob)) ].

Definition put_files (dir : ostr) (files : list (ostr * ostr)) (fs : fsys) : fsys :=
  fold_left (fun fs nf => fs_put fs (path_join dir (fst nf)) (snd nf)) files fs.

(* save_omen_rules_to_disk for a smoothed object with table view T: the four level files,
   config.txt (oracle [sc]: None = _save_config returned False), alphabet.txt, the two
   statistics files, then the probabilities (ZeroDivisionError when num_valid_passwords
   is 0 and some level has a keyspace) and pcfg_omen_prob.txt *)
Definition save_rules (repr : float -> ostr) (sc : ostr -> ostr -> pinfo -> fsys -> option fsys)
           (T : ttab) (keyspace levels_count : list (Z * Z)) (nvalid : Z) (base : ostr) (pi : pinfo)
           (fs : fsys) : tres (bool * fsys) :=
  let dir := path_join base n_Omen in
  let fs1 := put_files dir [ (n_IP, level_text (write_ip T)); (n_EP, level_text (write_ep T));
                             (n_CP, level_text (write_cp T)); (n_LN, ln_text (OmenLevel.write_ln T)) ] fs in
  match sc dir n_config pi fs1 with
  | None => TOk (false, fs1)
  | Some fs2 =>
      let fs3 := put_files dir [ (n_alphabet, alphabet_text (pi_alphabet pi));
                                 (n_keyspace, zz_text (rev (most_common_by Z.ltb keyspace)));
                                 (n_pws_per_level, zz_text (most_common_by Z.ltb levels_count)) ] fs2 in
      prob <~ prob_counter keyspace levels_count nvalid ;;
      TOk (true, put_files dir [ (n_prob, zf_text repr (most_common_by PrimFloat.ltb prob)) ] fs3)
  end.
