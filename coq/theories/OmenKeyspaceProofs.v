(* OmenKeyspaceProofs.v -- lemmas for C18.

   Main results
     rec_ks_ok               _rec_calc_keyspace returns ks_pure and keeps the cache invariant
     ks_pure_completions     ks_pure = number of completions (OmenSpec) of the written directory
     ol_rec_keyspace_counts  the two together, for every cache reachable from the empty one
     ks_calc_listed          calc_omen_keyspace: a listed level below the cut-off holds the full sum
     ks_full_level_strings   the full sum (with `>= 0` and `<`) = length (level_strings ...)
     ol_keyspace, ol_prob    C18
     ol_refuted_*            the comparisons of the code as found, witnesses *)
From Coq Require Import List Arith Bool NArith ZArith Lia Floats.
From Pcfg Require Import OmenSpec OmenLevel OmenKeyspace OmenLevelProofs.
Import ListNotations.

(* ---------- finite sums over lists ---------- *)
Definition sumN {X} (f : X -> N) (l : list X) : N := fold_right (fun x a => N.add (f x) a) 0%N l.

Lemma sumN_nil : forall {X} (f : X -> N), sumN f [] = 0%N.
Proof. reflexivity. Qed.
Lemma sumN_cons : forall {X} (f : X -> N) x l, sumN f (x :: l) = (f x + sumN f l)%N.
Proof. reflexivity. Qed.

Lemma sumN_app : forall {X} (f : X -> N) a b, sumN f (a ++ b) = (sumN f a + sumN f b)%N.
Proof. intros X f a b. induction a as [|x a IH]; simpl; [reflexivity | rewrite IH; lia]. Qed.

Lemma sumN_ext_in : forall {X} (f g : X -> N) l, (forall x, In x l -> f x = g x) -> sumN f l = sumN g l.
Proof.
  intros X f g l H. induction l as [|x l IH]; simpl; [reflexivity|].
  rewrite (H x (or_introl eq_refl)), IH; [reflexivity|]. intros y Hy. apply H. right; exact Hy.
Qed.

Lemma sumN_add : forall {X} (f g : X -> N) l, sumN (fun x => (f x + g x)%N) l = (sumN f l + sumN g l)%N.
Proof. intros X f g l. induction l as [|x l IH]; simpl; [reflexivity | rewrite IH; lia]. Qed.

Lemma sumN_zero : forall {X} (l : list X), sumN (fun _ => 0%N) l = 0%N.
Proof. intros X l. induction l as [|x l IH]; simpl; [reflexivity | exact IH]. Qed.

Lemma sumN_map : forall {X Y} (g : X -> Y) (f : Y -> N) l, sumN f (map g l) = sumN (fun x => f (g x)) l.
Proof. intros X Y g f l. induction l as [|x l IH]; simpl; [reflexivity | rewrite IH; reflexivity]. Qed.

Lemma sumN_flat_map : forall {X Y} (g : X -> list Y) (f : Y -> N) l,
  sumN f (flat_map g l) = sumN (fun x => sumN f (g x)) l.
Proof. intros X Y g f l. induction l as [|x l IH]; simpl; [reflexivity | rewrite sumN_app, IH; reflexivity]. Qed.

Lemma sumN_filter : forall {X} (p : X -> bool) (f : X -> N) l,
  sumN f (filter p l) = sumN (fun x => if p x then f x else 0%N) l.
Proof. intros X p f l. induction l as [|x l IH]; simpl; [reflexivity|]. destruct (p x); simpl; rewrite IH; reflexivity. Qed.

Lemma sumN_comm : forall {X Y} (f : X -> Y -> N) (a : list X) (b : list Y),
  sumN (fun x => sumN (fun y => f x y) b) a = sumN (fun y => sumN (fun x => f x y) a) b.
Proof.
  intros X Y f a b. induction a as [|x a IH]; simpl.
  - rewrite sumN_zero. reflexivity.
  - rewrite IH, <- sumN_add. reflexivity.
Qed.

Lemma length_sumN : forall {X} (l : list X), N.of_nat (length l) = sumN (fun _ => 1%N) l.
Proof. intros X l. induction l as [|x l IH]; [reflexivity|]. simpl length. rewrite Nat2N.inj_succ, IH. unfold sumN. cbn [fold_right]. lia. Qed.

Lemma length_flat_map_sumN : forall {X Y} (g : X -> list Y) l,
  N.of_nat (length (flat_map g l)) = sumN (fun x => N.of_nat (length (g x))) l.
Proof.
  intros X Y g l. induction l as [|x l IH]; [reflexivity|]. simpl. rewrite app_length, Nat2N.inj_add, IH. reflexivity.
Qed.

(* picking one level out of a duplicate-free list of levels *)
Lemma sumN_pick : forall (levels : list nat) (a : nat) (v : N), NoDup levels ->
  sumN (fun L => if Nat.eqb a L then v else 0%N) levels = if existsb (Nat.eqb a) levels then v else 0%N.
Proof.
  intros levels a v ND. induction levels as [|L r IH]; simpl; [reflexivity|].
  inversion ND as [|? ? Hn ND']; subst. rewrite (IH ND'). destruct (Nat.eqb a L) eqn:E; simpl; [|reflexivity].
  apply Nat.eqb_eq in E. subst. replace (existsb (Nat.eqb L) r) with false; [lia|].
  symmetry. apply not_true_is_false. intro H. apply existsb_exists in H. destruct H as [x [H1 H2]].
  apply Nat.eqb_eq in H2. subst. contradiction.
Qed.

(* regrouping a sum by level *)
Lemma sumN_group : forall {X} (lev : X -> nat) (h : X -> N) (levels : list nat) (l : list X), NoDup levels ->
  sumN (fun L => sumN h (filter (fun x => Nat.eqb (lev x) L) l)) levels =
  sumN (fun x => if existsb (Nat.eqb (lev x)) levels then h x else 0%N) l.
Proof.
  intros X lev h levels l ND. induction l as [|x l IH]; simpl.
  - apply sumN_zero.
  - rewrite <- IH, <- (sumN_pick levels (lev x) (h x) ND), <- sumN_add.
    apply sumN_ext_in. intros L _. destruct (Nat.eqb (lev x) L); simpl; lia.
Qed.

Lemma existsb_down_from : forall a M, existsb (Nat.eqb a) (down_from M) = Nat.leb a M.
Proof.
  intros a M. destruct (Nat.leb a M) eqn:E.
  - apply existsb_exists. exists a. split; [apply ol_in_down_from; apply Nat.leb_le; exact E | apply Nat.eqb_refl].
  - apply not_true_is_false. intro H. apply existsb_exists in H. destruct H as [x [H1 H2]]. apply Nat.eqb_eq in H2. subst.
    apply ol_in_down_from in H1. apply Nat.leb_gt in E. lia.
Qed.

Lemma existsb_seq0 : forall a M, existsb (Nat.eqb a) (seq 0 (S M)) = Nat.leb a M.
Proof.
  intros a M. destruct (Nat.leb a M) eqn:E.
  - apply existsb_exists. exists a. split; [apply in_seq; apply Nat.leb_le in E; lia | apply Nat.eqb_refl].
  - apply not_true_is_false. intro H. apply existsb_exists in H. destruct H as [x [H1 H2]]. apply Nat.eqb_eq in H2. subst.
    apply in_seq in H1. apply Nat.leb_gt in E. lia.
Qed.

(* ---------- the count without cache ---------- *)
Fixpoint ks_pure (T : ttab) (k lvl : nat) (ip : ostr) : N :=
  match k with
  | 0 => if Nat.eqb lvl 0 then 1%N else 0%N
  | S k' =>
      sumN (fun cl : N * nat =>
              if Nat.leb (snd cl) lvl then ks_pure T k' (lvl - snd cl) (shift ip (fst cl)) else 0%N)
           (letters T ip)
  end.

Lemma ks_pure_1 : forall T lvl ip,
  ks_pure T 1 lvl ip = N.of_nat (length (filter (fun cl : N * nat => Nat.eqb (snd cl) lvl) (letters T ip))).
Proof.
  intros T lvl ip. simpl. rewrite length_sumN, sumN_filter. apply sumN_ext_in. intros [c l] _. simpl.
  destruct (Nat.leb l lvl) eqn:E1; destruct (Nat.eqb l lvl) eqn:E2; try reflexivity.
  - apply Nat.eqb_eq in E2. subst. rewrite Nat.sub_diag. reflexivity.
  - apply Nat.leb_le in E1. apply Nat.eqb_neq in E2. replace (Nat.eqb (lvl - l) 0) with false; [reflexivity|].
    symmetry. apply Nat.eqb_neq. lia.
  - apply Nat.eqb_eq in E2. apply Nat.leb_gt in E1. lia.
Qed.

(* ---------- cache invariant ---------- *)
Definition cache_ok (T : ttab) (c : cache) : Prop :=
  forall ip k lvl v, cache_find c (ip, k, lvl) = Some v -> v = ks_pure T k lvl ip.

Lemma cache_ok_nil : forall T, cache_ok T [].
Proof. intros T ip k lvl v H. discriminate. Qed.

Lemma ckey_eqb_eq : forall a b, ckey_eqb a b = true -> a = b.
Proof.
  intros [[p k] l] [[p' k'] l'] H. simpl in H.
  destruct (Nat.eqb l l') eqn:H3; [|discriminate]. destruct (Nat.eqb k k') eqn:H2; [|discriminate].
  apply ol_ostr_eqb_eq in H. apply Nat.eqb_eq in H2, H3. congruence.
Qed.

Lemma cache_ok_add : forall T c ip k lvl, cache_ok T c -> cache_ok T (cache_add (ip, k, lvl) (ks_pure T k lvl ip) c).
Proof.
  intros T c ip k lvl H ip' k' lvl' v Hf. unfold cache_add in Hf. simpl in Hf.
  destruct (if Nat.eqb lvl lvl' then if Nat.eqb k k' then ostr_eqb ip ip' else false else false) eqn:E.
  - inversion Hf; subst. assert (E' : ckey_eqb (ip, k, lvl) (ip', k', lvl') = true) by exact E.
    apply ckey_eqb_eq in E'. inversion E'; subst. reflexivity.
  - apply H. exact Hf.
Qed.

Lemma rec_ks_S : forall T k' c lvl ip,
  rec_ks T (S k') c lvl ip =
  match cache_find c (ip, S k', lvl) with
  | Some v => (v, c)
  | None =>
      let vc :=
        match k' with
        | 0 => (N.of_nat (length (filter (fun cl : N * nat => Nat.eqb (snd cl) lvl) (letters T ip))), c)
        | S _ =>
            fold_left
              (fun (acc : N * cache) (cl : N * nat) =>
                 if Nat.leb (snd cl) lvl then
                   let r := rec_ks T k' (snd acc) (lvl - snd cl) (shift ip (fst cl)) in
                   (N.add (fst acc) (fst r), snd r)
                 else acc)
              (letters T ip) (0%N, c)
        end in
      (fst vc, cache_add (ip, S k', lvl) (fst vc) (snd vc))
  end.
Proof. reflexivity. Qed.

Theorem rec_ks_ok : forall T k c lvl ip, 1 <= k -> cache_ok T c ->
  fst (rec_ks T k c lvl ip) = ks_pure T k lvl ip /\ cache_ok T (snd (rec_ks T k c lvl ip)).
Proof.
  intros T k. induction k as [|k' IH]; intros c lvl ip Hk Hc; [lia|].
  rewrite rec_ks_S. destruct (cache_find c (ip, S k', lvl)) as [v|] eqn:EF.
  - cbn [fst snd]. split; [apply Hc; exact EF | exact Hc].
  - destruct k' as [|k''].
    + cbv zeta. cbn [fst snd]. rewrite <- ks_pure_1. split; [reflexivity | apply cache_ok_add; exact Hc].
    + cbv zeta.
      set (step := fun (acc : N * cache) (cl : N * nat) =>
                 if Nat.leb (snd cl) lvl then
                   let r := rec_ks T (S k'') (snd acc) (lvl - snd cl) (shift ip (fst cl)) in
                   (N.add (fst acc) (fst r), snd r)
                 else acc).
      assert (F : forall ls acc c0, cache_ok T c0 ->
                fst (fold_left step ls (acc, c0)) =
                (acc + sumN (fun cl : N * nat => if Nat.leb (snd cl) lvl
                                      then ks_pure T (S k'') (lvl - snd cl) (shift ip (fst cl)) else 0%N) ls)%N /\
                cache_ok T (snd (fold_left step ls (acc, c0)))).
      { induction ls as [|cl ls IHl]; intros acc c0 Hc0; [rewrite sumN_nil | rewrite sumN_cons]; cbn [fold_left].
        - cbn [fst snd]. split; [lia | exact Hc0].
        - unfold step at 2. unfold step at 3. cbn [fst snd]. destruct (Nat.leb (snd cl) lvl) eqn:E.
          + destruct (IH c0 (lvl - snd cl) (shift ip (fst cl))) as [E1 E2]; [lia | exact Hc0|].
            cbv zeta. destruct (IHl (acc + fst (rec_ks T (S k'') c0 (lvl - snd cl) (shift ip (fst cl))))%N
                                  (snd (rec_ks T (S k'') c0 (lvl - snd cl) (shift ip (fst cl)))) E2) as [F1 F2].
            split; [rewrite F1, E1; lia | exact F2].
          + destruct (IHl acc c0 Hc0) as [F1 F2]. split; [rewrite F1; lia | exact F2]. }
      destruct (F (letters T ip) 0%N c Hc) as [F1 F2]. cbn [fst snd].
      assert (EV : fst (fold_left step (letters T ip) (0%N, c)) = ks_pure T (S (S k'')) lvl ip).
      { rewrite F1. rewrite N.add_0_l. reflexivity. }
      split; [exact EV | rewrite EV; apply cache_ok_add; exact F2].
Qed.

(* ---------- the guesser's CP table of the written directory ---------- *)
Lemma cp_at_entry : forall e p L,
  map (fun x : nat * ostr => last (snd x) 0%N) (filter (cp_line_matches p L) (entry_cp_lines e)) =
  if ostr_eqb (te_key e) p then map fst (filter (fun cl : N * nat => Nat.eqb (snd cl) L) (te_next e)) else [].
Proof.
  intros e p L. unfold entry_cp_lines. induction (te_next e) as [|[c l] r IH]; simpl.
  - destruct (ostr_eqb (te_key e) p); reflexivity.
  - unfold cp_line_matches at 1. simpl. rewrite ol_removelast_snoc.
    replace (is_nil (te_key e ++ [c])) with false by (destruct (te_key e); reflexivity). simpl.
    destruct (ostr_eqb (te_key e) p) eqn:E.
    + rewrite andb_true_r. destruct (Nat.eqb l L); simpl; [rewrite ol_last_snoc|]; rewrite IH; reflexivity.
    + rewrite andb_false_r. exact IH.
Qed.

Lemma cp_at_lines_none : forall g p L, (forall e, In e g -> te_key e <> p) ->
  map (fun x : nat * ostr => last (snd x) 0%N) (filter (cp_line_matches p L) (flat_map entry_cp_lines g)) = [].
Proof.
  induction g as [|e r IH]; intros p L H; simpl; [reflexivity|].
  rewrite filter_app, map_app, cp_at_entry.
  replace (ostr_eqb (te_key e) p) with false by (symmetry; apply ol_ostr_eqb_neq; apply H; left; reflexivity).
  simpl. apply IH. intros e' He'. apply H. right; exact He'.
Qed.

Lemma cp_at_gview : forall T p L, NoDup (map te_key (tt_grammar T)) ->
  cp_at (gview T) p L = map fst (filter (fun cl : N * nat => Nat.eqb (snd cl) L) (letters T p)).
Proof.
  intros T p L. unfold cp_at, letters. simpl og_cp. unfold write_cp.
  induction (tt_grammar T) as [|e r IH]; intro ND; simpl; [reflexivity|].
  inversion ND as [|? ? Hn ND']; subst.
  rewrite filter_app, map_app, cp_at_entry. destruct (ostr_eqb (te_key e) p) eqn:E.
  - rewrite cp_at_lines_none; [apply app_nil_r|]. apply ol_ostr_eqb_eq in E. subst p.
    intros e' He' Hk. apply Hn. rewrite <- Hk. apply in_map. exact He'.
  - simpl. apply IH. exact ND'.
Qed.

Lemma ip_at_gview : forall T L,
  ip_at (gview T) L = map te_key (filter (fun e => Nat.eqb (te_ip e) L) (tt_grammar T)).
Proof.
  intros T L. unfold ip_at. simpl og_ip. unfold write_ip. induction (tt_grammar T) as [|e r IH]; simpl; [reflexivity|].
  destruct (Nat.eqb (te_ip e) L); simpl; rewrite IH; reflexivity.
Qed.

(* ---------- ks_pure counts the completions ---------- *)
Lemma letters_levels : forall T m ip c l, levels_le m T -> In (c, l) (letters T ip) -> l <= m.
Proof.
  intros T m ip c l [H _] HI. unfold letters in HI. destruct (find_entry ip (tt_grammar T)) as [e|] eqn:E; [|destruct HI].
  apply ol_find_entry_In in E. destruct E as [E _]. destruct (H e E) as (_ & _ & H3). apply (H3 c l HI).
Qed.

Lemma completions_neg : forall G k p z, (z < 0)%Z -> completions G (S k) p z = [].
Proof.
  intros G k p z H. rewrite ol_completions_S. unfold levels_down.
  replace (z <? 0)%Z with true by (symmetry; apply Z.ltb_lt; exact H). reflexivity.
Qed.

Theorem ks_pure_completions : forall T, wf_ttab T -> levels_le guesser_max_level T ->
  forall k lvl ip, ks_pure T k lvl ip = N.of_nat (length (completions (gview T) k ip (Z.of_nat lvl))).
Proof.
  intros T WF HL. pose proof WF as (_ & _ & _ & ND & _).
  induction k as [|k IH]; intros lvl ip.
  - unfold completions. simpl. destruct lvl; reflexivity.
  - rewrite ol_completions_S. rewrite length_flat_map_sumN.
    unfold levels_down. replace (Z.of_nat lvl <? 0)%Z with false by (symmetry; apply Z.ltb_ge; lia).
    rewrite Nat2Z.id. simpl og_max_level.
    (* each level: the letters at that level *)
    transitivity (sumN (fun L => sumN (fun cl : N * nat => ks_pure T k (lvl - snd cl) (shift ip (fst cl)))
                                      (filter (fun cl : N * nat => Nat.eqb (snd cl) L) (letters T ip)))
                       (down_from (Nat.min lvl guesser_max_level))).
    + rewrite sumN_group by apply ol_NoDup_down_from. simpl ks_pure. apply sumN_ext_in. intros [c l] Hcl. simpl.
      rewrite existsb_down_from. assert (Hl := letters_levels _ _ _ _ _ HL Hcl).
      destruct (Nat.leb l lvl) eqn:E.
      * apply Nat.leb_le in E. replace (Nat.leb l (Nat.min lvl guesser_max_level)) with true; [reflexivity|].
        symmetry. apply Nat.leb_le. lia.
      * apply Nat.leb_gt in E. replace (Nat.leb l (Nat.min lvl guesser_max_level)) with false; [reflexivity|].
        symmetry. apply Nat.leb_gt. lia.
    + apply sumN_ext_in. intros L HLd. apply ol_in_down_from in HLd.
      rewrite length_flat_map_sumN. rewrite cp_at_gview by exact ND.
      unfold indexed. rewrite map_length.
      (* indexed list: sum over the pairs = sum over the elements *)
      assert (IX : forall (X : Type) (f : X -> N) (l : list X) b,
                 sumN (fun ic : nat * X => f (snd ic)) (combine (seq b (length l)) l) = sumN f l).
      { intros X f l. induction l as [|x l IHl]; intro b; simpl; [reflexivity | rewrite IHl; reflexivity]. }
      rewrite <- (map_length fst (filter (fun cl : N * nat => Nat.eqb (snd cl) L) (letters T ip))).
      transitivity (sumN (fun c : N => ks_pure T k (lvl - L) (shift ip c))
                         (map fst (filter (fun cl : N * nat => Nat.eqb (snd cl) L) (letters T ip)))).
      * rewrite sumN_map. apply sumN_ext_in. intros [c l] Hcl. apply filter_In in Hcl. destruct Hcl as [_ Hcl].
        simpl in *. apply Nat.eqb_eq in Hcl. subst. reflexivity.
      * rewrite <- (IX N (fun c => ks_pure T k (lvl - L) (shift ip c))
                       (map fst (filter (fun cl : N * nat => Nat.eqb (snd cl) L) (letters T ip))) 0).
        apply sumN_ext_in. intros [i c] _. simpl. rewrite map_length. rewrite IH.
        replace (Z.of_nat lvl - Z.of_nat L)%Z with (Z.of_nat (lvl - L)) by lia. reflexivity.
Qed.

(* ---------- what calc_omen_keyspace adds up ---------- *)
Section Calc.
  Variable T : ttab.
  Variable maxks : N.
  Variable ip_strict len_le : bool.

  (* the contribution of one (IP entry, length) pair to a level *)
  Definition ks_term (level : nat) (e : tentry) (ll : nat * nat) : N :=
    let lmi := (Z.of_nat level - Z.of_nat (te_ip e))%Z in
    if ip_guard ip_strict lmi && negb (len_skipped len_le (fst ll) (tt_ngram T)) && Nat.leb (snd ll) (Z.to_nat lmi)
    then ks_pure T (fst ll - tt_ngram T + 1) (Z.to_nat lmi - snd ll) (te_key e)
    else 0%N.

  Definition ks_full (level : nat) : N :=
    sumN (fun e => sumN (ks_term level e) (len_levels T)) (tt_grammar T).

  Definition lv_ok (st : lv_state) : Prop := cache_ok T (lv_cache st).

  Lemma ks_len_fold : forall level e pairs st,
    ip_guard ip_strict (Z.of_nat level - Z.of_nat (te_ip e)) = true ->
    lv_ok st ->
    let r := fold_left (ks_step_len T maxks len_le (te_key e) (Z.to_nat (Z.of_nat level - Z.of_nat (te_ip e)))) pairs st in
    lv_ok r /\
    (lv_stop st = true -> r = st) /\
    (lv_stop st = false ->
       (lv_stop r = false -> lv_sum r = (lv_sum st + sumN (ks_term level e) pairs)%N) /\
       (lv_stop r = true -> (maxks < lv_sum r)%N)).
  Proof.
    intros level e pairs. induction pairs as [|[len li] pairs IH]; intros st HG Hok; cbn [fold_left].
    - split; [exact Hok|]. split; [reflexivity|]. intro Hs. split; [intro; rewrite sumN_nil; lia | congruence].
    - set (st1 := ks_step_len T maxks len_le (te_key e) (Z.to_nat (Z.of_nat level - Z.of_nat (te_ip e))) st (len, li)).
      assert (S1 : lv_ok st1 /\ (lv_stop st = true -> st1 = st) /\
                   (lv_stop st = false ->
                      (lv_stop st1 = false -> lv_sum st1 = (lv_sum st + ks_term level e (len, li))%N) /\
                      (lv_stop st1 = true -> (maxks < lv_sum st1)%N))).
      { unfold st1, ks_step_len. destruct (lv_stop st) eqn:Es.
        - split; [exact Hok|]. split; [reflexivity | discriminate].
        - unfold ks_term. cbn [fst snd]. rewrite HG. simpl andb.
          destruct (len_skipped len_le len (tt_ngram T)) eqn:Ek; simpl negb; simpl andb.
          + split; [exact Hok|]. split; [discriminate|]. intros _. split; [intros _; lia | congruence].
          + destruct (Nat.leb li (Z.to_nat (Z.of_nat level - Z.of_nat (te_ip e)))) eqn:El.
            * destruct (rec_ks_ok T (len - tt_ngram T + 1) (lv_cache st)
                          (Z.to_nat (Z.of_nat level - Z.of_nat (te_ip e)) - li) (te_key e)) as [R1 R2]; [lia | exact Hok|].
              split; [exact R2|]. split; [discriminate|]. intros _. cbn [lv_stop lv_sum]. rewrite R1. split.
              -- intros _. reflexivity.
              -- intro H. apply N.ltb_lt in H. exact H.
            * split; [exact Hok|]. split; [discriminate|]. intros _. split; [intros _; lia | congruence]. }
      destruct S1 as (K1 & K2 & K3). destruct (IH st1 HG K1) as (I1 & I2 & I3). split; [exact I1|]. split.
      + intro Hs. rewrite (K2 Hs) in *. apply I2. exact Hs.
      + intro Hs. destruct (K3 Hs) as [K4 K5]. destruct (lv_stop st1) eqn:Es1.
        * rewrite (I2 eq_refl). rewrite Es1. split; [discriminate | intros _; apply K5; reflexivity].
        * destruct (I3 eq_refl) as [I4 I5]. split; [|exact I5]. intro Hr. rewrite (I4 Hr), (K4 eq_refl), sumN_cons. lia.
  Qed.

  Lemma ks_ip_fold : forall level g st, lv_ok st ->
    let r := fold_left (ks_step_ip T maxks ip_strict len_le level) g st in
    lv_ok r /\
    (lv_stop st = true -> r = st) /\
    (lv_stop st = false ->
       (lv_stop r = false -> lv_sum r = (lv_sum st + sumN (fun e => sumN (ks_term level e) (len_levels T)) g)%N) /\
       (lv_stop r = true -> (maxks < lv_sum r)%N)).
  Proof.
    intros level g. induction g as [|e g IH]; intros st Hok; cbn [fold_left].
    - split; [exact Hok|]. split; [reflexivity|]. intro Hs. split; [intro; rewrite sumN_nil; lia | congruence].
    - set (st1 := ks_step_ip T maxks ip_strict len_le level st e).
      assert (S1 : lv_ok st1 /\ (lv_stop st = true -> st1 = st) /\
                   (lv_stop st = false ->
                      (lv_stop st1 = false -> lv_sum st1 = (lv_sum st + sumN (ks_term level e) (len_levels T))%N) /\
                      (lv_stop st1 = true -> (maxks < lv_sum st1)%N))).
      { unfold st1, ks_step_ip. destruct (lv_stop st) eqn:Es.
        - split; [exact Hok|]. split; [reflexivity | discriminate].
        - destruct (ip_guard ip_strict (Z.of_nat level - Z.of_nat (te_ip e))) eqn:EG.
          + destruct (ks_len_fold level e (len_levels T) st EG Hok) as (L1 & L2 & L3).
            split; [exact L1|]. split; [discriminate|]. intros _. apply L3. exact Es.
          + split; [exact Hok|]. split; [discriminate|]. intros _. split; [|congruence]. intros _.
            rewrite (sumN_ext_in (ks_term level e) (fun _ => 0%N)); [rewrite sumN_zero; lia|].
            intros ll _. unfold ks_term. rewrite EG. reflexivity. }
      destruct S1 as (K1 & K2 & K3). destruct (IH st1 K1) as (I1 & I2 & I3). split; [exact I1|]. split.
      + intro Hs. rewrite (K2 Hs) in *. apply I2. exact Hs.
      + intro Hs. destruct (K3 Hs) as [K4 K5]. destruct (lv_stop st1) eqn:Es1.
        * rewrite (I2 eq_refl). rewrite Es1. split; [discriminate | intros _; apply K5; reflexivity].
        * destruct (I3 eq_refl) as [I4 I5]. split; [|exact I5]. intro Hr. rewrite (I4 Hr), (K4 eq_refl), sumN_cons. lia.
  Qed.

  Lemma ks_level_ok : forall c level, cache_ok T c ->
    let r := ks_level T maxks ip_strict len_le c level in
    cache_ok T (lv_cache r) /\
    (lv_stop r = false -> lv_sum r = ks_full level) /\
    (lv_stop r = true -> (maxks < lv_sum r)%N).
  Proof.
    intros c level Hc. unfold ks_level.
    destruct (ks_ip_fold level (tt_grammar T) (mk_lv_state 0%N false c false) Hc) as (H1 & _ & H3).
    split; [exact H1|]. destruct (H3 eq_refl) as [H4 H5]. split; [|exact H5].
    intro Hr. rewrite (H4 Hr). unfold ks_full. simpl. lia.
  Qed.

  Definition ks_inv (st : ks_state) : Prop :=
    cache_ok T (ks_cache st) /\
    forall L v, In (L, v) (ks_done st) -> (v <= maxks)%N -> v = ks_full L.

  Lemma ks_calc_inv : forall levels st, ks_inv st ->
    ks_inv (fold_left (ks_step_level T maxks ip_strict len_le) levels st).
  Proof.
    induction levels as [|level levels IH]; intros st Hinv; cbn [fold_left]; [exact Hinv|].
    apply IH. unfold ks_step_level. destruct (ks_stopped st); [exact Hinv|].
    destruct Hinv as [Hc Hd]. destruct (ks_level_ok (ks_cache st) level Hc) as (L1 & L2 & L3).
    split; [exact L1|]. cbn [ks_done]. intros L v HI Hv.
    destruct (lv_touched (ks_level T maxks ip_strict len_le (ks_cache st) level)); [|apply Hd; assumption].
    apply in_app_or in HI. destruct HI as [HI|[HI|[]]]; [apply Hd; assumption|].
    inversion HI; subst. destruct (lv_stop (ks_level T maxks ip_strict len_le (ks_cache st) L)) eqn:Es.
    - specialize (L3 eq_refl). lia.
    - apply L2. reflexivity.
  Qed.

  (* every listed level whose value did not trigger the cut-off holds the full sum,
     from every cache reachable from the empty one *)
  Theorem ks_calc_listed : forall max_level c L v, cache_ok T c ->
    In (L, v) (ks_done (calc_keyspace T max_level maxks ip_strict len_le c)) -> (v <= maxks)%N ->
    v = ks_full L.
  Proof.
    intros max_level c L v Hc. unfold calc_keyspace.
    assert (H : ks_inv (mk_ks_state [] c false)) by (split; [exact Hc | intros ? ? []]).
    apply (ks_calc_inv (seq 1 max_level)) in H. destruct H as [_ H]. apply H.
  Qed.

  Theorem ks_calc_cache_ok : forall max_level c, cache_ok T c ->
    cache_ok T (ks_cache (calc_keyspace T max_level maxks ip_strict len_le c)).
  Proof.
    intros max_level c Hc. unfold calc_keyspace.
    assert (H : ks_inv (mk_ks_state [] c false)) by (split; [exact Hc | intros ? ? []]).
    apply (ks_calc_inv (seq 1 max_level)) in H. apply H.
  Qed.
End Calc.

(* ---------- the full sum is the size of the level ---------- *)

(* sum over grammar['ln'][l] *)
Lemma sumN_ln_from : forall (h : nat -> N) ngram ls len l,
  sumN h (ln_from ngram len ls l) =
  sumN (fun ll : nat * nat => if Nat.leb ngram (fst ll) && Nat.eqb (snd ll) l then h (fst ll - (ngram - 1)) else 0%N)
       (combine (seq len (length ls)) ls).
Proof.
  intros h ngram ls. induction ls as [|x r IH]; intros len l; [reflexivity|].
  cbn [ln_from length seq combine]. rewrite sumN_app, sumN_cons, IH. cbn [fst snd].
  destruct (Nat.leb ngram len && Nat.eqb x l); [rewrite sumN_cons, sumN_nil; lia | rewrite sumN_nil; lia].
Qed.

Lemma len_levels_snd_le : forall T m ll, levels_le m T -> In ll (len_levels T) -> snd ll <= m.
Proof.
  intros T m [len li] [_ H] HI. unfold len_levels in HI. apply in_combine_r in HI. apply H. exact HI.
Qed.

Theorem ks_full_level_strings : forall T, wf_ttab T -> levels_le guesser_max_level T ->
  forall level, ks_full T false false level = N.of_nat (length (level_strings (gview T) (Z.of_nat level))).
Proof.
  intros T WF HL level. pose proof WF as (Hng & _ & _ & ND & _).
  set (G := gview T).
  set (F := fun (k : nat) (ip : ostr) (z : Z) => N.of_nat (length (completions G k ip z))).
  unfold level_strings, level_strings_f.
  rewrite length_flat_map_sumN.
  (* 1. push N.of_nat (length ...) inside *)
  transitivity (sumN (fun Ll => sumN (fun k => sumN (fun Li => sumN (fun ip =>
                   F k ip (Z.of_nat level - Z.of_nat Ll - Z.of_nat Li)%Z) (ip_at G Li))
                   (all_levels (og_max_level G))) (ln_at G Ll)) (all_levels (og_max_level G))).
  2:{ apply sumN_ext_in. intros Ll _. rewrite length_flat_map_sumN. apply sumN_ext_in. intros k _.
      rewrite length_flat_map_sumN. apply sumN_ext_in. intros Li _. rewrite length_flat_map_sumN.
      apply sumN_ext_in. intros ip _. unfold ip_strings. rewrite map_length. reflexivity. }
  (* 2. the IP sums: over the entries of the grammar *)
  assert (IPS : forall (h : nat -> ostr -> N),
            sumN (fun Li => sumN (h Li) (ip_at G Li)) (all_levels (og_max_level G)) =
            sumN (fun e => h (te_ip e) (te_key e)) (tt_grammar T)).
  { intro h. unfold all_levels. simpl og_max_level.
    transitivity (sumN (fun Li => sumN (fun e => h (te_ip e) (te_key e))
                                       (filter (fun e => Nat.eqb (te_ip e) Li) (tt_grammar T)))
                       (seq 0 (S guesser_max_level))).
    - apply sumN_ext_in. intros Li _. unfold G. rewrite ip_at_gview, sumN_map. apply sumN_ext_in.
      intros e He. apply filter_In in He. destruct He as [_ He]. apply Nat.eqb_eq in He. subst. reflexivity.
    - rewrite sumN_group by apply seq_NoDup. apply sumN_ext_in. intros e He. rewrite existsb_seq0.
      destruct HL as [HL1 _]. destruct (HL1 e He) as [H _]. replace (Nat.leb (te_ip e) guesser_max_level) with true; [reflexivity|].
      symmetry. apply Nat.leb_le. exact H. }
  (* 3. the length sums: over the lines of LN.level *)
  assert (LNS : forall (h : nat -> nat -> N),
            sumN (fun Ll => sumN (h Ll) (ln_at G Ll)) (all_levels (og_max_level G)) =
            sumN (fun ll : nat * nat => if Nat.leb (tt_ngram T) (fst ll) then h (snd ll) (fst ll - (tt_ngram T - 1)) else 0%N)
                 (len_levels T)).
  { intro h. unfold all_levels. simpl og_max_level. unfold ln_at. simpl og_ngram. simpl og_ln.
    transitivity (sumN (fun Ll => sumN (fun ll : nat * nat => if Nat.leb (tt_ngram T) (fst ll) then h (snd ll) (fst ll - (tt_ngram T - 1)) else 0%N)
                                       (filter (fun ll : nat * nat => Nat.eqb (snd ll) Ll) (len_levels T)))
                       (seq 0 (S guesser_max_level))).
    - apply sumN_ext_in. intros Ll _. rewrite sumN_ln_from, sumN_filter. unfold len_levels. apply sumN_ext_in.
      intros [len li] _. cbn [fst snd]. destruct (Nat.leb (tt_ngram T) len); destruct (Nat.eqb li Ll) eqn:E; try reflexivity.
      apply Nat.eqb_eq in E. subst. reflexivity.
    - rewrite sumN_group by apply seq_NoDup. apply sumN_ext_in. intros ll Hll. rewrite existsb_seq0.
      replace (Nat.leb (snd ll) guesser_max_level) with true; [reflexivity|].
      symmetry. apply Nat.leb_le. apply (len_levels_snd_le T _ ll HL Hll). }
  rewrite (LNS (fun Ll k => sumN (fun Li => sumN (fun ip => F k ip (Z.of_nat level - Z.of_nat Ll - Z.of_nat Li)%Z) (ip_at G Li))
                                 (all_levels (og_max_level G)))).
  unfold ks_full. rewrite sumN_comm. apply sumN_ext_in. intros [len li] Hll. cbn [fst snd].
  destruct (Nat.leb (tt_ngram T) len) eqn:En.
  - rewrite (IPS (fun Li ip => F (len - (tt_ngram T - 1)) ip (Z.of_nat level - Z.of_nat li - Z.of_nat Li)%Z)).
    apply sumN_ext_in. intros e He. unfold ks_term. cbn [fst snd]. unfold ip_guard, len_skipped.
    apply Nat.leb_le in En. replace (Nat.ltb len (tt_ngram T)) with false by (symmetry; apply Nat.ltb_ge; exact En).
    simpl negb. rewrite andb_true_r.
    replace (len - (tt_ngram T - 1)) with (len - tt_ngram T + 1) by lia.
    destruct (0 <=? Z.of_nat level - Z.of_nat (te_ip e))%Z eqn:E1; simpl andb.
    + apply Z.leb_le in E1.
      destruct (Nat.leb li (Z.to_nat (Z.of_nat level - Z.of_nat (te_ip e)))) eqn:E2.
      * apply Nat.leb_le in E2. unfold F, G. rewrite (ks_pure_completions T WF HL). do 3 f_equal. lia.
      * apply Nat.leb_gt in E2. unfold F. replace (len - tt_ngram T + 1) with (S (len - tt_ngram T)) by lia.
        rewrite completions_neg by lia. reflexivity.
    + apply Z.leb_gt in E1. unfold F. replace (len - tt_ngram T + 1) with (S (len - tt_ngram T)) by lia.
      rewrite completions_neg by lia. reflexivity.
  - rewrite (sumN_ext_in _ (fun _ => 0%N)); [apply sumN_zero|].
    intros e _. unfold ks_term. cbn [fst snd]. unfold len_skipped. apply Nat.leb_gt in En.
    replace (Nat.ltb len (tt_ngram T)) with true by (symmetry; apply Nat.ltb_lt; exact En).
    simpl negb. rewrite andb_false_r. reflexivity.
Qed.

(* ---------- cache states reachable from the empty cache ---------- *)
Inductive reachable (T : ttab) : cache -> Prop :=
| reach_nil : reachable T []
| reach_rec : forall c k lvl ip, reachable T c -> 1 <= k -> reachable T (snd (rec_ks T k c lvl ip))
| reach_calc : forall c max_level maxks s l, reachable T c ->
    reachable T (ks_cache (calc_keyspace T max_level maxks s l c)).

Lemma reachable_ok : forall T c, reachable T c -> cache_ok T c.
Proof.
  intros T c H. induction H.
  - apply cache_ok_nil.
  - apply rec_ks_ok; assumption.
  - apply ks_calc_cache_ok. assumption.
Qed.

(* _rec_calc_keyspace returns the number of completions, whatever was cached before *)
Theorem ol_rec_keyspace_counts : forall T, wf_ttab T -> levels_le guesser_max_level T ->
  forall c, reachable T c -> forall k lvl ip, 1 <= k ->
  fst (rec_ks T k c lvl ip) = N.of_nat (length (completions (gview T) k ip (Z.of_nat lvl))).
Proof.
  intros T WF HL c Hc k lvl ip Hk. destruct (rec_ks_ok T k c lvl ip Hk (reachable_ok T c Hc)) as [H _].
  rewrite H. apply ks_pure_completions; assumption.
Qed.

(* C18: with `>= 0` and `<` in calc_omen_keyspace *)
Theorem ol_keyspace : forall T, wf_ttab T -> levels_le guesser_max_level T ->
  forall c, reachable T c -> forall max_level maxks L v,
  In (L, v) (ks_done (calc_keyspace T max_level maxks false false c)) -> (v <= maxks)%N ->
  v = N.of_nat (length (level_strings (gview T) (Z.of_nat L))) /\ NoDup (level_strings (gview T) (Z.of_nat L)).
Proof.
  intros T WF HL c Hc max_level maxks L v HI Hv. split.
  - rewrite (ks_calc_listed T maxks false false max_level c L v (reachable_ok T c Hc) HI Hv).
    apply ks_full_level_strings; assumption.
  - apply ol_NoDup_level_strings. apply ol_wf_tables_gview; assumption.
Qed.

(* listed levels are between 1 and max_level *)
Lemma ks_done_range : forall T maxks s l levels st L v,
  In (L, v) (ks_done (fold_left (ks_step_level T maxks s l) levels st)) ->
  In (L, v) (ks_done st) \/ In L levels.
Proof.
  intros T maxks s l levels. induction levels as [|x r IH]; intros st L v H; cbn [fold_left] in H; [left; exact H|].
  apply IH in H. destruct H as [H|H]; [|right; right; exact H].
  unfold ks_step_level in H. destruct (ks_stopped st); [left; exact H|]. cbn [ks_done] in H.
  destruct (lv_touched (ks_level T maxks s l (ks_cache st) x)); [|left; exact H].
  apply in_app_or in H. destruct H as [H|[H|[]]]; [left; exact H|]. inversion H; subst. right; left; reflexivity.
Qed.

(* pcfg_omen_prob *)
Lemma in_omen_prob : forall cnt nvalid ks L p, In (L, p) (omen_prob cnt nvalid ks) ->
  exists v, In (L, v) ks /\ v <> 0%N /\
    p = PrimFloat.div (PrimFloat.div (float_of_N (N.of_nat (cnt L))) (float_of_N (N.of_nat nvalid))) (float_of_N v).
Proof.
  intros cnt nvalid ks L p H. unfold omen_prob in H. apply in_flat_map in H. destruct H as [[L' v] [H1 H2]].
  cbn [fst snd] in H2. destruct (N.eqb v 0) eqn:E; [destruct H2|]. destruct H2 as [H2|[]]. inversion H2; subst.
  exists v. split; [exact H1|]. split; [apply N.eqb_neq; exact E | reflexivity].
Qed.

Theorem ol_prob : forall T, wf_ttab T -> levels_le guesser_max_level T ->
  forall c, reachable T c -> forall max_level maxks pws nvalid L p,
  let st := calc_keyspace T max_level maxks false false c in
  In (L, p) (omen_prob (fun l => count_at (levels_count T pws) (Some l)) nvalid (ks_done st)) ->
  (forall v, In (L, v) (ks_done st) -> (v <= maxks)%N) ->
  let members := level_strings (gview T) (Z.of_nat L) in
  p = PrimFloat.div
        (PrimFloat.div (float_of_N (N.of_nat (length (filter (fun pw => existsb (ostr_eqb pw) members) pws))))
                       (float_of_N (N.of_nat nvalid)))
        (float_of_N (N.of_nat (length members))).
Proof.
  intros T WF HL c Hc max_level maxks pws nvalid L p st HI Hle members.
  apply in_omen_prob in HI. destruct HI as (v & Hv & _ & Hp).
  destruct (ol_keyspace T WF HL c Hc max_level maxks L v Hv (Hle v Hv)) as [E _].
  rewrite Hp, E. rewrite (ol_counts_guesser T WF HL). reflexivity.
Qed.

(* ---------- witnesses: the comparisons of the code as found ---------- *)
(* witness table: OmenLevelProofs.T_r9 *)
Lemma T_r9_closed : closedb T_r9 = true.
Proof. vm_compute. reflexivity. Qed.

(* `length <= ngram: continue` : the level-1 string "ab" (length = n-gram) is not counted *)
Theorem ol_refuted_len_eq_ngram :
  keyspace_of (calc_keyspace T_r9 18 10000000000 false true []) 1 = Some 0%N /\
  level_strings (gview T_r9) 1 = [[97%N; 98%N]].
Proof. split; vm_compute; reflexivity. Qed.

(* `level_minus_ip > 0` : "baba" (IP level 10, everything else 0) is not counted at level 10 *)
Theorem ol_refuted_zero_remainder :
  keyspace_of (calc_keyspace T_r9 18 10000000000 true false []) 10 = Some 1%N /\
  level_strings (gview T_r9) 10 = [[98%N; 97%N; 98%N; 97%N]; [97%N; 98%N; 97%N]].
Proof. split; vm_compute; reflexivity. Qed.

(* both, as in the code as found *)
Theorem ol_refuted_both :
  keyspace_of (calc_keyspace T_r9 18 10000000000 true true []) 1 = Some 0%N /\
  keyspace_of (calc_keyspace T_r9 18 10000000000 true true []) 10 = Some 1%N /\
  length (level_strings (gview T_r9) 1) = 1 /\ length (level_strings (gview T_r9) 10) = 2.
Proof. repeat split; vm_compute; reflexivity. Qed.

(* the hypotheses of ol_keyspace are satisfiable, non-trivially *)
Example ol_keyspace_example :
  reachable T_r9 [] /\
  ks_done (calc_keyspace T_r9 18 10000000000 false false []) =
    [(1, 1%N); (2, 0%N); (3, 0%N); (4, 0%N); (5, 0%N); (6, 0%N); (7, 0%N); (8, 0%N); (9, 0%N); (10, 2%N); (11, 1%N);
     (12, 0%N); (13, 0%N); (14, 0%N); (15, 0%N); (16, 0%N); (17, 0%N); (18, 0%N)].
Proof. split; [constructor | vm_compute; reflexivity]. Qed.

(* the cut-off: the level at which the bound is exceeded is listed with a partial count and is the last *)
Example ol_cutoff_example :
  ks_done (calc_keyspace T_r9 18 0 false false []) = [(1, 1%N)] /\
  ks_stopped (calc_keyspace T_r9 18 0 false false []) = true.
Proof. split; vm_compute; reflexivity. Qed.

Example ol_c18_satisfiable :
  wf_ttab T_r9 /\ levels_le guesser_max_level T_r9 /\ closedb T_r9 = true /\ reachable T_r9 [] /\
  keyspace_of (calc_keyspace T_r9 18 10000000000 false false []) 10 = Some 2%N /\
  ks_done (calc_keyspace T_r9 18 0 false false []) = [(1, 1%N)] /\
  ks_stopped (calc_keyspace T_r9 18 0 false false []) = true.
Proof.
  split; [apply T_r9_wf|]. split; [apply T_r9_wf|]. split; [exact T_r9_closed|]. split; [constructor|].
  split; [vm_compute; reflexivity|]. exact ol_cutoff_example.
Qed.
