(* Adjacency in the section lists: no two unlabelled sections are ever
   adjacent (every split puts a labelled section between its remainders), and
   therefore no two digit sections are adjacent in the result: a digit section
   is a maximal digit run of the password among what the earlier detectors
   left unlabelled. *)
From Coq Require Import List ZArith NArith Bool Lia.
From Pcfg Require Import Str Multiword Detect Segment DetectProofsStr DetectProofsDrive DetectProofsSimple DetectProofsSeg
     DetectProofsCount.
Import ListNotations.
Open Scope Z_scope.

(* the shape of every split: optional unlabelled, labelled ones, optional unlabelled *)
Definition split_shape (p : list section) : Prop :=
  exists l1 mids l3, p = osec l1 ++ mids ++ osec l3 /\ mids <> [] /\ Forall (fun x => unlab x = false) mids.

Lemma no_adj_shape l1 mids l3 rest : mids <> [] -> Forall (fun x => unlab x = false) mids ->
  no_adj unlab rest -> hd_is unlab rest = false -> no_adj unlab ((osec l1 ++ mids ++ osec l3) ++ rest).
Proof.
  intros Hne Hm Hr Hh.
  assert (H3 : no_adj unlab (osec l3 ++ rest)).
  { destruct l3; [exact Hr|]. rewrite osec_cons. simpl. split; [intros _; exact Hh|exact Hr]. }
  assert (H2 : no_adj unlab (mids ++ osec l3 ++ rest)).
  { clear Hne. induction Hm as [|x m Hx _ IH]; [exact H3|]. simpl. split; [congruence|exact IH]. }
  rewrite <- !app_assoc. destruct l1; [exact H2|]. rewrite osec_cons. simpl. split; [|exact H2].
  intros _. destruct mids as [|x m]; [congruence|]. simpl. now inversion Hm.
Qed.

Section Nan.
Variable F : Type.
Variable detect : str -> dres F.
Variable reex : bool.
Variable Inv : str -> Prop.
Hypothesis det_shape : forall s p f, Inv s -> detect s = DYes p f -> unlab_all Inv p /\ split_shape p.

Lemma drive_no_adj : forall todo out fs, drive_all detect reex todo = Some (out, fs) -> unlab_all Inv todo ->
  no_adj unlab todo -> no_adj unlab out.
Proof.
  intros todo out fs E Hi Hn. unfold drive_all in E.
  enough (H : no_adj unlab out /\ (hd_is unlab out = true -> hd_is unlab todo = true) /\ unlab_all Inv out) by apply H.
  revert E Hi Hn.
  apply (drive_rel_simple F detect reex
           (fun a b fs => unlab_all Inv a -> no_adj unlab a ->
              no_adj unlab b /\ (hd_is unlab b = true -> hd_is unlab a = true) /\ unlab_all Inv b)).
  - intros _ _. repeat split; [discriminate|constructor].
  - intros x a b fs0 IH Hi Hn. inversion Hi; subst. destruct Hn as (Hx & Hn).
    destruct (IH ltac:(assumption) Hn) as (Hb & Hh & Hib). split; [|split; [auto|now constructor]].
    simpl. split; [|assumption]. intros Hux. specialize (Hx Hux).
    destruct (hd_is unlab b) eqn:E; [|reflexivity]. rewrite (Hh eq_refl) in Hx. discriminate.
  - intros s p f rest out0 fs0 D IH Hi Hn. inversion Hi as [|? ? Hs Hr]; subst. destruct Hn as (Hx & Hn).
    destruct (det_shape s p f (Hs eq_refl) D) as (Hip & l1 & mids & l3 & -> & Hne & Hm).
    destruct (IH ltac:(apply Forall_app; now split)) as (Hb & _ & Hib).
    { apply no_adj_shape; try assumption. now apply Hx. }
    split; [assumption|]. split; [reflexivity|assumption].
Qed.

End Nan.

(* ---- the digit stage *)

Section DigitAdj.
Variable isdigit : N -> bool.

Definition isD (x : section) : bool := isC 6 x.
Definition starts_digit (x : section) : bool :=
  unlab x && match fst x with c :: _ => isdigit c | [] => false end.
Definition dbad (x : section) : bool := isD x || starts_digit x.

Lemma isD_unlab x : unlab x = true -> isD x = false.
Proof. unfold unlab, isD, isC. destruct (snd x); [discriminate|reflexivity]. Qed.

Lemma stops_not_start l3 : stops isdigit l3 -> l3 <> [] -> dbad (l3, None) = false.
Proof.
  intros [->|(c & r & -> & Hc)] Hne; [congruence|]. unfold dbad, isD, isC, starts_digit. simpl. now rewrite Hc.
Qed.

Let R (a b : list section) (fs : list str) : Prop :=
  no_adj unlab a -> filter isD (tl a) = [] -> (hd_is isD a = true -> hd_is dbad (tl a) = false) ->
  no_adj isD b /\ (hd_is isD b = true -> hd_is dbad a = true).

Lemma filter_isD_nil_hd l : filter isD l = [] -> hd_is isD l = false.
Proof. destruct l as [|x r]; [reflexivity|]. simpl. destruct (isD x); [discriminate|reflexivity]. Qed.

Lemma filter_isD_nil_tl l : filter isD l = [] -> filter isD (tl l) = [].
Proof. destruct l as [|x r]; [reflexivity|]. simpl. destruct (isD x); [discriminate|auto]. Qed.

Lemma hd_dbad_labelled_noD l : hd_is unlab l = false -> filter isD l = [] -> hd_is dbad l = false.
Proof.
  destruct l as [|x r]; [reflexivity|]. simpl. intros Hu Hf. unfold dbad, starts_digit. rewrite Hu. simpl.
  destruct (isD x); [discriminate|reflexivity].
Qed.

Lemma digit_stage_R : forall fuel todo out fs, drive (detect_digits isdigit) false fuel todo = Some (out, fs) -> R todo out fs.
Proof.
  apply drive_rel; unfold R.
  - intros _ _ _. split; [exact I|discriminate].
  - (* a labelled section is passed *)
    intros s l a b fs IH Hn Hf Hh. simpl in *. destruct Hn as (_ & Hn).
    destruct (IH Hn (filter_isD_nil_tl _ Hf)) as (Hb & Hhb).
    { intros E. rewrite (filter_isD_nil_hd _ Hf) in E. discriminate. }
    split; [|intros E; unfold dbad; now rewrite E].
    split; [|assumption]. intros Ex. specialize (Hh Ex).
    destruct (hd_is isD b) eqn:E; [|reflexivity]. rewrite (Hhb eq_refl) in Hh. discriminate.
  - (* an unlabelled section the detector declines *)
    intros s a b fs D IH Hn Hf Hh. simpl in *. destruct Hn as (_ & Hn).
    destruct (IH Hn (filter_isD_nil_tl _ Hf)) as (Hb & Hhb).
    { intros E. rewrite (filter_isD_nil_hd _ Hf) in E. discriminate. }
    split; [|discriminate]. split; [discriminate|assumption].
  - discriminate.
  - (* a split; the first piece is passed over *)
    intros _ s p f rest x rest' out fs D E IH Hn Hf Hh. simpl in Hn, Hf. destruct Hn as (Hx & Hn).
    specialize (Hx eq_refl).
    apply detect_digits_spec in D. destruct D as (l1 & l2 & l3 & -> & H1 & H2 & Hne & H3 & -> & _).
    (* what follows the digit section is not a digit section and does not start with a digit *)
    assert (Hafter : hd_is dbad (osec l3 ++ rest) = false).
    { destruct l3 as [|c l3]; [simpl; now apply hd_dbad_labelled_noD|].
      rewrite osec_cons. simpl. apply stops_not_start; [assumption|discriminate]. }
    assert (HnoD : filter isD (osec l3 ++ rest) = []).
    { rewrite filter_app. unfold isD. now rewrite filter_isC_osec. }
    assert (Hnan : no_adj unlab (osec l3 ++ rest)).
    { destruct l3; [exact Hn|]. rewrite osec_cons. simpl. split; [intros _; exact Hx|exact Hn]. }
    destruct l1 as [|c l1].
    + (* the digit section itself is passed over *)
      simpl in E. injection E as <- <-.
      destruct (IH Hnan (filter_isD_nil_tl _ HnoD)) as (Hb & Hhb).
      { intros Ed. rewrite (filter_isD_nil_hd _ HnoD) in Ed. discriminate. }
      split.
      * simpl. split; [|assumption]. intros _. destruct (hd_is isD out) eqn:Eo; [|reflexivity].
        rewrite (Hhb eq_refl) in Hafter. discriminate.
      * intros _. simpl. unfold dbad, starts_digit. simpl.
        destruct l2 as [|d l2]; [congruence|]. simpl in H2. apply andb_true_iff in H2. destruct H2 as (Hd & _).
        simpl. exact Hd.
    + rewrite osec_cons in E. simpl in E. injection E as <- <-.
      destruct (IH) as (Hb & Hhb).
      * simpl. split; [discriminate|exact Hnan].
      * exact HnoD.
      * intros _. exact Hafter.
      * split; [|discriminate]. simpl. split; [discriminate|assumption].
  - intros _ s f D. apply detect_digits_spec in D. destruct D as (l1 & l2 & l3 & _ & _ & _ & _ & _ & E & _).
    destruct l1; discriminate.
Qed.

Lemma digit_stage_no_adj todo out fs : drive_all (detect_digits isdigit) false todo = Some (out, fs) ->
  no_adj unlab todo -> filter isD todo = [] -> no_adj isD out.
Proof.
  intros E Hn Hf. unfold drive_all in E.
  apply (digit_stage_R _ _ _ _ E Hn (filter_isD_nil_tl _ Hf)).
  intros Ed. rewrite (filter_isD_nil_hd _ Hf) in Ed. discriminate.
Qed.

(* other_detection keeps digit sections where they are *)
Lemma other_no_adj sl : no_adj isD sl -> no_adj isD (fst (other_detection sl)).
Proof.
  simpl. induction sl as [|x r IH]; [auto|]. simpl. intros (Hx & Hr). split; [|now apply IH].
  assert (Ex : forall y : section, isD (match snd y with None => (fst y, Some (LO (len (fst y)))) | Some _ => y end) = isD y)
    by (intros [t [l|]]; reflexivity).
  rewrite Ex. intros E. specialize (Hx E). destruct r as [|y r']; [reflexivity|]. simpl in *. now rewrite Ex.
Qed.

End DigitAdj.

(* ---- every detector's split has the shape *)

Section Shapes.
Variables isalpha isdigit isupper : N -> bool.
Variable lower_c : N -> str.
Variable kbs : list board.
Variable min_run : Z.
Variable tlds : list str.
Variable year_prefixes : list str.
Variable context_strings : list str.
Variables mw_threshold mw_min_len mw_max_len : Z.
Hypothesis min_len_pos : 1 <= mw_min_len.
Hypothesis year_prefix_len : Forall (fun q => len q = 2) year_prefixes.
Hypothesis tlds_nonempty : Forall (fun t => 1 <= len t) tlds.

Notation L := (map (lower1 lower_c)).
Notation good := (good isalpha isdigit lower_c).
Notation mwp := (mw_parse lower_c mw_threshold mw_min_len mw_max_len).

Lemma shape_single l1 t (l : label) l3 : split_shape (osec l1 ++ [(t, Some l)] ++ osec l3).
Proof. exists l1, [(t, Some l)], l3. split; [reflexivity|]. split; [discriminate|]. constructor; [reflexivity|constructor]. Qed.

Lemma email_shape s p f : good s -> detect_email lower_c true tlds s = DYes p f -> unlab_all good p /\ split_shape p.
Proof.
  intros Hg D. destruct (email_class isalpha isdigit lower_c kbs min_run tlds year_prefixes context_strings s p f Hg D) as (Hi & _).
  split; [assumption|]. unfold detect_email in D.
  rewrite (working_aligned lower_c s (good_lowne isalpha isdigit lower_c s Hg)) in D.
  destruct (negb _); [discriminate|]. destruct (negb _); [discriminate|].
  apply DetectProofsWeb.email_go_spec in D; [|apply L_len]. destruct D as (l2 & l3 & _ & _ & -> & _).
  apply (shape_single [] l2 LE l3).
Qed.

Lemma website_shape s p f : good s -> detect_website isalpha lower_c true tlds s = DYes p f -> unlab_all good p /\ split_shape p.
Proof.
  intros Hg D.
  destruct (website_class isalpha isdigit lower_c kbs min_run tlds year_prefixes context_strings tlds_nonempty s p f Hg D) as (Hi & _).
  split; [assumption|]. unfold detect_website in D.
  rewrite (working_aligned lower_c s (good_lowne isalpha isdigit lower_c s Hg)) in D.
  destruct (negb _); [discriminate|].
  apply DetectProofsWeb.web_go_spec in D; [|assumption]. destruct D as (l1 & l2 & l3 & _ & _ & -> & _). apply shape_single.
Qed.

Lemma year_shape s p f : good s -> detect_year isdigit year_prefixes s = DYes p f -> unlab_all good p /\ split_shape p.
Proof.
  intros Hg D. destruct (year_class isalpha isdigit lower_c kbs min_run year_prefixes context_strings year_prefix_len s p f Hg D) as (Hi & _).
  split; [assumption|]. apply detect_year_spec in D; [|assumption].
  destruct D as (prefix & l1 & c2 & c3 & l3 & _ & _ & _ & _ & _ & ->). apply shape_single.
Qed.

Lemma context_shape s p f : good s -> detect_context isdigit context_strings s = DYes p f -> unlab_all good p /\ split_shape p.
Proof.
  intros Hg D. destruct (context_class isalpha isdigit lower_c kbs min_run year_prefixes context_strings s p f Hg D) as (Hi & _).
  split; [assumption|]. apply detect_context_spec in D. destruct D as (l1 & l3 & _ & _ & _ & ->). apply shape_single.
Qed.

Lemma alpha_shape2 m s p f : good s -> detect_alpha isalpha isupper lower_c true (mwp m) s = DYes p f ->
  unlab_all good p /\ split_shape p.
Proof.
  intros Hg D.
  destruct (alpha_class isalpha isdigit isupper lower_c kbs min_run year_prefixes context_strings
              mw_threshold mw_min_len mw_max_len min_len_pos m s p f Hg D) as (Hi & _).
  split; [assumption|].
  destruct (alpha_shape isalpha isdigit isupper lower_c mw_threshold mw_min_len mw_max_len min_len_pos m s p f Hg D)
    as (l1 & mids & l3 & -> & Hne & Hm & _).
  exists l1, mids, l3. split; [reflexivity|]. split; [assumption|].
  eapply Forall_impl; [|exact Hm]. intros x Hx. unfold unlab, isC in *. destruct (snd x); [reflexivity|discriminate].
Qed.

End Shapes.
