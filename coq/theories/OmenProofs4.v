(* OmenProofs4.v -- MarkovCracker.next_guess: the two cursors, fuel
   sufficiency, and exactness of a whole level (C10_exact); continuation from
   a saved state (C15). *)
From Coq Require Import List Arith Bool NArith ZArith Lia.
From Pcfg Require Import OmenSpec Omen OmenProofs OmenProofs2 OmenProofs3.
Import ListNotations.

(* ------------------------------------------------------------------ *)
(* a cursor [level, index] over a level-indexed table                   *)
Section Cursor.
  Context {X : Type}.
  Variable tbl : nat -> list X.

  (* what the positions from (level, index) on contribute, levels level..level+d *)
  Fixpoint cur_rest {Y} (f : nat -> nat -> list Y) (d level index : nat) : list Y :=
    flat_map (f level) (seq index (length (tbl level) - index)) ++
    match d with 0 => [] | S d' => cur_rest f d' (S level) 0 end.

  Lemma cur_rest_eq : forall {Y} (f : nat -> nat -> list Y) d level index,
    cur_rest f d level index =
    flat_map (f level) (seq index (length (tbl level) - index)) ++
    match d with 0 => [] | S d' => cur_rest f d' (S level) 0 end.
  Proof. intros Y f [|d] level index; reflexivity. Qed.

  Lemma cur_rest_step : forall {Y} (f : nat -> nat -> list Y) d level index,
    index < length (tbl level) ->
    cur_rest f d level index = f level index ++ cur_rest f d level (S index).
  Proof.
    intros Y f d level index H. rewrite !cur_rest_eq.
    replace (length (tbl level) - index) with (S (length (tbl level) - S index)) by lia.
    simpl. rewrite <- app_assoc. reflexivity.
  Qed.

  Lemma inc_cursor_some : forall {Y} (f : nat -> nat -> list Y) d level index bound l' i',
    inc_cursor tbl d level index bound = Some (l', i') ->
    i' < length (tbl l') /\ level <= l' /\ l' <= level + d /\
    cur_rest f d level index = f l' i' ++ cur_rest f (level + d - l') l' (S i').
  Proof.
    intros Y f d. induction d as [|d IH]; intros level index bound l' i' H; cbn [inc_cursor] in H.
    - destruct (Nat.ltb index (length (tbl level))) eqn:E; [|discriminate].
      apply Nat.ltb_lt in E. inversion H; subst. repeat split; try lia.
      replace (l' + 0 - l') with 0 by lia. apply cur_rest_step. exact E.
    - destruct (Nat.ltb index (length (tbl level))) eqn:E.
      + apply Nat.ltb_lt in E. inversion H; subst. repeat split; try lia.
        replace (l' + S d - l') with (S d) by lia. apply cur_rest_step. exact E.
      + apply Nat.ltb_ge in E. destruct (bound <? Z.of_nat (S level))%Z; [discriminate|].
        apply (IH (S level) 0 bound l' i') in H. destruct H as (H1 & H2 & H3 & H4).
        repeat split; try lia. rewrite cur_rest_eq.
        replace (length (tbl level) - index) with 0 by lia. simpl.
        rewrite H4. replace (S level + d - l') with (level + S d - l') by lia. reflexivity.
  Qed.

  Lemma cur_rest_nil : forall {Y} (f : nat -> nat -> list Y) d level,
    (forall l i, level <= l -> l <= level + d -> i < length (tbl l) -> f l i = []) ->
    cur_rest f d level 0 = [].
  Proof.
    intros Y f d. induction d as [|d IH]; intros level H; rewrite cur_rest_eq.
    - rewrite app_nil_r. apply flat_map_nil_all. intros i Hi. apply in_seq in Hi. apply H; lia.
    - rewrite IH; [|intros l i Ha Hb Hc; apply H; lia]. rewrite app_nil_r.
      apply flat_map_nil_all. intros i Hi. apply in_seq in Hi. apply H; lia.
  Qed.

  Lemma inc_cursor_none : forall {Y} (f : nat -> nat -> list Y) d level index bound,
    inc_cursor tbl d level index bound = None ->
    (forall l i, level < l -> l <= level + d -> (bound < Z.of_nat l)%Z -> i < length (tbl l) -> f l i = []) ->
    cur_rest f d level index = [].
  Proof.
    intros Y f d. induction d as [|d IH]; intros level index bound H Hf; cbn [inc_cursor] in H.
    - destruct (Nat.ltb index (length (tbl level))) eqn:E; [discriminate|]. apply Nat.ltb_ge in E.
      rewrite cur_rest_eq. replace (length (tbl level) - index) with 0 by lia. reflexivity.
    - destruct (Nat.ltb index (length (tbl level))) eqn:E; [discriminate|]. apply Nat.ltb_ge in E.
      rewrite cur_rest_eq. replace (length (tbl level) - index) with 0 by lia. simpl.
      destruct (bound <? Z.of_nat (S level))%Z eqn:Eb.
      + apply Z.ltb_lt in Eb. apply cur_rest_nil. intros l i Ha Hb Hc. apply Hf; lia.
      + apply (IH (S level) 0 bound H). intros l i Ha Hb Hc Hd. apply Hf; lia.
  Qed.

  Lemma flat_map_nth : forall {Y} (g : X -> list Y) (l : list X) dflt,
    flat_map g l = flat_map (fun i => g (nth i l dflt)) (seq 0 (length l)).
  Proof.
    intros Y g l dflt. induction l as [|x l IH]; simpl; [reflexivity|].
    rewrite IH. f_equal. rewrite <- seq_shift, flat_map_map. reflexivity.
  Qed.

  Lemma levels_cur_rest : forall {Y} (g : nat -> X -> list Y) dflt d a,
    flat_map (fun l => flat_map (g l) (tbl l)) (seq a (S d)) =
    cur_rest (fun l i => g l (nth i (tbl l) dflt)) d a 0.
  Proof.
    intros Y g dflt d. induction d as [|d IH]; intro a.
    - simpl. rewrite !app_nil_r, Nat.sub_0_r. apply flat_map_nth.
    - rewrite cur_rest_eq. rewrite <- IH. rewrite Nat.sub_0_r.
      change (seq a (S (S d))) with (a :: seq (S a) (S d)). cbn [flat_map]. f_equal. apply flat_map_nth.
  Qed.

  Lemma cur_rest_skip : forall {Y} (f : nat -> nat -> list Y) d level s,
    (forall l, level <= l -> l < s -> tbl l = []) -> level <= s -> s <= level + d ->
    cur_rest f d level 0 = cur_rest f (level + d - s) s 0.
  Proof.
    intros Y f d. induction d as [|d IH]; intros level s He H1 H2.
    - assert (s = level) by lia. subst. replace (level + 0 - level) with 0 by lia. reflexivity.
    - destruct (Nat.eq_dec s level) as [->|Hne].
      + replace (level + S d - level) with (S d) by lia. reflexivity.
      + rewrite cur_rest_eq. rewrite (He level) by lia. simpl.
        rewrite (IH (S level) s); [|intros l Ha Hb; apply He; lia | lia | lia].
        replace (S level + d - s) with (level + S d - s) by lia. reflexivity.
  Qed.

  Lemma cur_rest_prefix : forall {Y} (f : nat -> nat -> list Y) d level i,
    i <= length (tbl level) ->
    cur_rest f d level 0 = flat_map (f level) (seq 0 i) ++ cur_rest f d level i.
  Proof.
    intros Y f d level i. induction i as [|i IH]; intro H; [reflexivity|].
    rewrite IH by lia. rewrite (cur_rest_step f d level i) by lia.
    rewrite seq_S, flat_map_app. simpl. rewrite app_nil_r, <- app_assoc. reflexivity.
  Qed.

  (* a valid position splits the whole enumeration *)
  Lemma cur_rest_split : forall {Y} (f : nat -> nat -> list Y) d level l i,
    level <= l -> l <= level + d -> i < length (tbl l) ->
    exists pre, cur_rest f d level 0 = pre ++ f l i ++ cur_rest f (level + d - l) l (S i).
  Proof.
    intros Y f d. induction d as [|d IH]; intros level l i H1 H2 H3.
    - assert (l = level) by lia. subst. replace (level + 0 - level) with 0 by lia.
      rewrite (cur_rest_prefix f 0 level i) by lia. rewrite (cur_rest_step f 0 level i) by lia.
      eexists. reflexivity.
    - destruct (Nat.eq_dec l level) as [->|Hne].
      + replace (level + S d - level) with (S d) by lia.
        rewrite (cur_rest_prefix f (S d) level i) by lia. rewrite (cur_rest_step f (S d) level i) by lia.
        eexists. reflexivity.
      + destruct (IH (S level) l i ltac:(lia) ltac:(lia) H3) as [pre Hp].
        rewrite cur_rest_eq. rewrite Hp. replace (S level + d - l) with (level + S d - l) by lia.
        eexists. rewrite app_assoc. reflexivity.
  Qed.

  Definition unitf : nat -> nat -> list unit := fun _ _ => [tt].
  Definition cnt (d level index : nat) : nat := length (cur_rest unitf d level index).

  Lemma cnt_total : forall d a,
    cnt d a 0 = list_sum (map (fun l => length (tbl l)) (seq a (S d))).
  Proof.
    intros d. induction d as [|d IH]; intro a; unfold cnt in *.
    - simpl. rewrite app_nil_r, Nat.sub_0_r, Nat.add_0_r.
      generalize 0. induction (length (tbl a)) as [|n IHn]; intro b; simpl; [reflexivity | rewrite IHn; reflexivity].
    - rewrite cur_rest_eq, app_length, IH. rewrite Nat.sub_0_r.
      change (seq a (S (S d))) with (a :: seq (S a) (S d)). simpl map. simpl list_sum. f_equal.
      generalize 0. induction (length (tbl a)) as [|n IHn]; intro b; simpl; [reflexivity | rewrite IHn; reflexivity].
  Qed.
End Cursor.

(* ------------------------------------------------------------------ *)
(* extensionality of the specification in the CP table                  *)
Lemma completions_f_ext : forall cpf cpf' maxl,
  (forall p l, cpf p l = cpf' p l) ->
  forall k p lvl, completions_f cpf maxl k p lvl = completions_f cpf' maxl k p lvl.
Proof.
  intros cpf cpf' maxl H k. induction k as [|k IH]; intros p lvl; simpl; [reflexivity|].
  apply flat_map_ext. intro L. rewrite H. apply flat_map_ext. intro ic. rewrite IH. reflexivity.
Qed.

Lemma level_strings_f_ext : forall ipf cpf cpf' lnf maxl T,
  (forall p l, cpf p l = cpf' p l) ->
  level_strings_f ipf cpf lnf maxl T = level_strings_f ipf cpf' lnf maxl T.
Proof.
  intros ipf cpf cpf' lnf maxl T H. unfold level_strings_f.
  apply flat_map_ext. intro Ll. apply flat_map_ext. intro k. apply flat_map_ext. intro Li.
  apply flat_map_ext. intro ip. unfold ip_strings. rewrite (completions_f_ext cpf cpf' maxl H).
  apply map_ext. intro t. f_equal. unfold tree_chars. apply map_ext. intro r. unfold row_char. rewrite H. reflexivity.
Qed.

(* ------------------------------------------------------------------ *)
Section MC.
  Variable ipf : nat -> list ostr.
  Variable cpf : ostr -> nat -> list N.
  Variable lnf : nat -> list nat.
  Variable maxl : nat.
  Variable optmax : nat.
  Variable ffo_extra : nat.
  Hypothesis lnf_pos : forall l k, In k (lnf l) -> 1 <= k.
  Hypothesis extra_le : ffo_extra <= 1.
  Variable T : Z.
  Variable s_ip s_len : nat.
  Hypothesis Hs_ip : find_first_object maxl ffo_extra ipf = Some s_ip.
  Hypothesis Hs_len : find_first_object maxl ffo_extra lnf = Some s_len.

  Notation compl := (completions_f cpf maxl).
  Notation cok := (cache_ok cpf maxl).
  Notation rem := (rem cpf maxl).
  Notation fmt := (format_guess cpf).

  Lemma ffo_spec : forall {X} (tbl : nat -> list X) s,
    find_first_object maxl ffo_extra tbl = Some s ->
    s <= maxl /\ tbl s <> [] /\ (forall l, l < s -> tbl l = []).
  Proof.
    intros X tbl s H. unfold find_first_object in H.
    assert (G : forall n a, find (fun l => negb (is_nil (tbl l))) (seq a n) = Some s ->
                a <= s < a + n /\ tbl s <> [] /\ (forall l, a <= l -> l < s -> tbl l = [])).
    { induction n as [|n IH]; intros a Hf; simpl in Hf; [discriminate|].
      destruct (tbl a) eqn:E; simpl in Hf.
      - apply IH in Hf. destruct Hf as (H1 & H2 & H3). repeat split; try lia; [exact H2|].
        intros l Ha Hb. destruct (Nat.eq_dec l a); [subst; exact E | apply H3; lia].
      - inversion Hf; subst. repeat split; try lia; try congruence; try (intros; lia). }
    apply G in H. destruct H as (H1 & H2 & H3). repeat split; [lia | exact H2 |].
    intros l Hl. apply H3; lia.
  Qed.

  (* the strings of one (length, IP) cursor position *)
  Definition f_ip (k Ll : nat) (Li idx : nat) : list ostr :=
    ip_strings cpf maxl k (T - Z.of_nat Ll - Z.of_nat Li) (nth idx (ipf Li) []).
  Definition f_len (Ll idx : nat) : list ostr :=
    cur_rest ipf (f_ip (nth idx (lnf Ll) 0) Ll) maxl 0 0.

  Lemma level_strings_cur : level_strings_f ipf cpf lnf maxl T = cur_rest lnf f_len maxl 0 0.
  Proof.
    unfold level_strings_f, all_levels.
    transitivity (flat_map (fun Ll => flat_map (fun k => cur_rest ipf (f_ip k Ll) maxl 0 0) (lnf Ll)) (seq 0 (S maxl))).
    - apply flat_map_ext. intro Ll. apply flat_map_ext. intro k.
      exact (levels_cur_rest ipf (fun Li ip => ip_strings cpf maxl k (T - Z.of_nat Ll - Z.of_nat Li) ip) [] maxl 0).
    - exact (levels_cur_rest lnf (fun Ll k => cur_rest ipf (f_ip k Ll) maxl 0 0) 0 maxl 0).
  Qed.

  Lemma compl_neg : forall k p lvl, 1 <= k -> (lvl < 0)%Z -> compl k p lvl = [].
  Proof.
    intros [|k] p lvl Hk Hl; [lia|]. simpl. unfold levels_down.
    replace (lvl <? 0)%Z with true by (symmetry; apply Z.ltb_lt; exact Hl). reflexivity.
  Qed.

  Lemma f_ip_neg : forall k Ll Li idx, 1 <= k -> (T - Z.of_nat Ll - Z.of_nat Li < 0)%Z -> f_ip k Ll Li idx = [].
  Proof. intros. unfold f_ip, ip_strings. rewrite compl_neg by assumption. reflexivity. Qed.

  Definition cur_valid {X} (tbl : nat -> list X) (cur : nat * nat) : Prop :=
    fst cur <= maxl /\ snd cur < length (tbl (fst cur)).

  Notation K st := (cur_k lnf st).
  Notation IPS st := (cur_ipstr ipf st).
  Notation TG st := (cur_target st).

  Lemma cur_k_pos : forall st, cur_valid lnf (mc_len st) -> 1 <= K st.
  Proof. intros st [_ H]. apply (lnf_pos (fst (mc_len st))). unfold cur_k. apply nth_In. exact H. Qed.

  Definition rest_ip (st : mc_state) : list ostr :=
    cur_rest ipf (f_ip (K st) (fst (mc_len st))) (maxl - fst (mc_ip st)) (fst (mc_ip st)) (S (snd (mc_ip st))).
  Definition rest_len (st : mc_state) : list ostr :=
    cur_rest lnf f_len (maxl - fst (mc_len st)) (fst (mc_len st)) (S (snd (mc_len st))).

  Definition gs_list_ok (st : mc_state) (X : list tree) : Prop :=
    match X with
    | [] => True
    | t :: ys => In t (compl (K st) (IPS st) (TG st)) /\ rem (K st) (TG st) t = ys
    end.

  (* a state in the middle of a level *)
  Definition inv (st : mc_state) : Prop :=
    mc_target st = T /\ mc_started st = true /\ cur_valid lnf (mc_len st) /\ cur_valid ipf (mc_ip st) /\
    In (mc_tree st) (compl (K st) (IPS st) (TG st)).

  Definition remaining (st : mc_state) : list ostr :=
    map (fmt (IPS st)) (rem (K st) (TG st) (mc_tree st)) ++ rest_ip st ++ rest_len st.

  Definition total_ip : nat := cnt ipf maxl 0 0.
  Definition mu (st : mc_state) : nat :=
    cnt ipf (maxl - fst (mc_ip st)) (fst (mc_ip st)) (S (snd (mc_ip st))) +
    cnt lnf (maxl - fst (mc_len st)) (fst (mc_len st)) (S (snd (mc_len st))) * total_ip.

  Lemma cnt_valid_lt : forall {X} (tbl : nat -> list X) cur,
    cur_valid tbl cur -> S (cnt tbl (maxl - fst cur) (fst cur) (S (snd cur))) <= cnt tbl maxl 0 0.
  Proof.
    intros X tbl [l i] [H1 H2]. simpl in *. unfold cnt.
    destruct (cur_rest_split tbl unitf maxl 0 l i ltac:(lia) ltac:(lia) H2) as [pre Hp].
    rewrite Hp. rewrite !app_length. simpl. replace (0 + maxl - l) with (maxl - l) by lia. lia.
  Qed.

  Lemma ip_strings_fmt : forall k lvl ip, ip_strings cpf maxl k lvl ip = map (fmt ip) (compl k ip lvl).
  Proof. reflexivity. Qed.

  Lemma gs_list_ok_compl : forall st, gs_list_ok st (compl (K st) (IPS st) (TG st)).
  Proof.
    intro st. unfold gs_list_ok. destruct (compl (K st) (IPS st) (TG st)) as [|t ys] eqn:E; [exact I|].
    split; [left; reflexivity | eapply rem_of_hd; exact E].
  Qed.

  Definition upd_tree (st : mc_state) (t : tree) : mc_state :=
    mk_mc (mc_target st) true (mc_len st) (mc_ip st) t (mc_first st).

  (* the `while guess is None` loop *)
  Lemma mc_loop_spec : forall fuel c st X,
    mc_target st = T -> cur_valid lnf (mc_len st) -> cur_valid ipf (mc_ip st) ->
    cok c -> gs_list_ok st X -> mu st < fuel ->
    let res := mc_loop ipf cpf lnf maxl optmax fuel s_ip c st (hd_error X) in
    cok (snd res) /\
    match map (fmt (IPS st)) X ++ rest_ip st ++ rest_len st with
    | [] => fst (fst res) = Done
    | g :: tl => fst (fst res) = Guess g /\ inv (snd (fst res)) /\ remaining (snd (fst res)) = tl
    end.
  Proof.
    induction fuel as [|fuel IH]; intros c st X HT Hvl Hvi Hc HX Hmu; [lia|].
    destruct X as [|t ys].
    - (* the current GuessStructure is exhausted *)
      cbn [hd_error mc_loop map app].
      destruct (ffo_spec ipf s_ip Hs_ip) as (Hsa & Hsb & Hsc).
      pose proof (cur_k_pos st Hvl) as Hk.
      unfold increase. destruct Hvi as [Hvi1 Hvi2]. destruct Hvl as [Hvl1 Hvl2].
      replace (Nat.ltb maxl (fst (mc_ip st))) with false by (symmetry; apply Nat.ltb_ge; lia).
      destruct (inc_cursor ipf (maxl - fst (mc_ip st)) (fst (mc_ip st)) (S (snd (mc_ip st)))
                           (mc_target st - Z.of_nat (fst (mc_len st)))) as [[l' i']|] eqn:Einc.
      + (* next IP *)
        pose proof (inc_cursor_some ipf (f_ip (K st) (fst (mc_len st))) _ _ _ _ _ _ Einc) as (A1 & A2 & A3 & A4).
        pose proof (inc_cursor_some ipf unitf _ _ _ _ _ _ Einc) as (_ & _ & _ & B4).
        set (st' := mk_mc (mc_target st) true (mc_len st) (l', i') [] true).
        assert (HK : K st' = K st) by reflexivity.
        destruct (gs_first_spec cpf maxl optmax c (IPS st') (K st') (TG st') ltac:(rewrite HK; exact Hk) Hc) as [G1 G2].
        destruct (gs_next cpf maxl optmax c (IPS st') (K st') (TG st') []) as [r' c'] eqn:Eg. cbn [fst snd] in G1, G2.
        rewrite G1.
        assert (Hmu' : mu st' < fuel).
        { unfold mu in *. cbn [mc_ip mc_len st' fst snd] in *. fold (cnt ipf) in *.
          assert (cnt ipf (maxl - fst (mc_ip st)) (fst (mc_ip st)) (S (snd (mc_ip st))) =
                  S (cnt ipf (maxl - l') l' (S i'))) as E1.
          { unfold cnt. rewrite B4. unfold unitf at 1. simpl. f_equal.
            replace (fst (mc_ip st) + (maxl - fst (mc_ip st)) - l') with (maxl - l') by lia. reflexivity. }
          lia. }
        assert (Hvi' : cur_valid ipf (mc_ip st')) by (split; unfold st'; simpl; [lia | exact A1]).
        specialize (IH c' st' (compl (K st') (IPS st') (TG st')) HT (conj Hvl1 Hvl2) Hvi' G2
                       (gs_list_ok_compl st') Hmu').
        cbv zeta in IH. destruct IH as [I1 I2]. split; [exact I1|].
        unfold rest_ip at 1. rewrite A4.
        replace (fst (mc_ip st) + (maxl - fst (mc_ip st)) - l') with (maxl - l') by lia.
        assert (Hf : f_ip (K st) (fst (mc_len st)) l' i' = map (fmt (IPS st')) (compl (K st') (IPS st') (TG st'))).
        { unfold f_ip. rewrite ip_strings_fmt. unfold cur_target, cur_ipstr. cbn [mc_target mc_len mc_ip st' fst snd].
          rewrite HT. reflexivity. }
        rewrite Hf. rewrite <- app_assoc. exact I2.
      + (* no IP left for this length *)
        assert (Hri : rest_ip st = []).
        { unfold rest_ip. apply (inc_cursor_none ipf _ _ _ _ _ Einc). intros l i Ha Hb Hcc Hd.
          apply f_ip_neg; [exact Hk | lia]. }
        rewrite Hri. cbn [app].
        replace (Nat.ltb maxl (fst (mc_len st))) with false by (symmetry; apply Nat.ltb_ge; lia).
        destruct (inc_cursor lnf (maxl - fst (mc_len st)) (fst (mc_len st)) (S (snd (mc_len st))) (mc_target st))
          as [[l' i']|] eqn:Einc2.
        * (* next length, IP cursor back to the start *)
          pose proof (inc_cursor_some lnf f_len _ _ _ _ _ _ Einc2) as (A1 & A2 & A3 & A4).
          pose proof (inc_cursor_some lnf unitf _ _ _ _ _ _ Einc2) as (_ & _ & _ & B4).
          set (st' := mk_mc (mc_target st) true (l', i') (s_ip, 0) [] true).
          assert (Hvl' : cur_valid lnf (mc_len st')) by (split; simpl; [lia | exact A1]).
          assert (Hvi' : cur_valid ipf (mc_ip st')).
          { split; simpl; [exact Hsa | destruct (ipf s_ip); [congruence | simpl; lia]]. }
          pose proof (cur_k_pos st' Hvl') as Hk'.
          destruct (gs_first_spec cpf maxl optmax c (IPS st') (K st') (TG st') Hk' Hc) as [G1 G2].
          destruct (gs_next cpf maxl optmax c (IPS st') (K st') (TG st') []) as [r' c'] eqn:Eg. cbn [fst snd] in G1, G2.
          rewrite G1.
          assert (Hmu' : mu st' < fuel).
          { unfold mu in *. cbn [mc_ip mc_len st' fst snd] in *.
            assert (cnt lnf (maxl - fst (mc_len st)) (fst (mc_len st)) (S (snd (mc_len st))) =
                    S (cnt lnf (maxl - l') l' (S i'))) as E1.
            { unfold cnt. rewrite B4. unfold unitf at 1. simpl. f_equal.
              replace (fst (mc_len st) + (maxl - fst (mc_len st)) - l') with (maxl - l') by lia. reflexivity. }
            pose proof (cnt_valid_lt ipf (s_ip, 0) Hvi') as E2. cbn [fst snd] in E2. fold total_ip in E2.
            rewrite E1 in Hmu. simpl in Hmu. lia. }
          specialize (IH c' st' (compl (K st') (IPS st') (TG st')) HT Hvl' Hvi' G2 (gs_list_ok_compl st') Hmu').
          cbv zeta in IH. destruct IH as [I1 I2]. split; [exact I1|].
          unfold rest_len at 1. rewrite A4.
          replace (fst (mc_len st) + (maxl - fst (mc_len st)) - l') with (maxl - l') by lia.
          assert (Hf : f_len l' i' = map (fmt (IPS st')) (compl (K st') (IPS st') (TG st')) ++ rest_ip st').
          { unfold f_len. rewrite (cur_rest_skip ipf _ maxl 0 s_ip); [|intros l _ Hl; apply Hsc; exact Hl | lia | lia].
            replace (0 + maxl - s_ip) with (maxl - s_ip) by lia.
            rewrite cur_rest_step by (destruct Hvi' as [_ Hx]; exact Hx).
            unfold rest_ip. cbn [mc_ip mc_len st' fst snd]. f_equal.
            unfold f_ip. rewrite ip_strings_fmt. unfold cur_target, cur_ipstr, cur_k. cbn [mc_target mc_len mc_ip st' fst snd].
            rewrite HT. reflexivity. }
          rewrite Hf. rewrite <- app_assoc. exact I2.
        * (* nothing left: the level is exhausted *)
          assert (Hrl : rest_len st = []).
          { unfold rest_len. apply (inc_cursor_none lnf _ _ _ _ _ Einc2). intros l i Ha Hb Hcc Hd.
            unfold f_len. apply cur_rest_nil. intros l2 i2 _ _ _. apply f_ip_neg; [|lia].
            apply (lnf_pos l). apply nth_In. exact Hd. }
          rewrite Hrl. cbn [fst snd]. split; [exact Hc | reflexivity].
    - (* a guess *)
      cbn [hd_error mc_loop map app fst snd]. destruct HX as [HX1 HX2]. split; [exact Hc|].
      split; [reflexivity|]. split.
      + unfold inv. cbn [mc_target mc_started mc_len mc_ip mc_tree].
        repeat split; try assumption; try (destruct Hvl; assumption); try (destruct Hvi; assumption).
      + unfold remaining. cbn [mc_tree]. change (K (mk_mc (mc_target st) true (mc_len st) (mc_ip st) t (mc_first st))) with (K st).
        change (IPS (mk_mc (mc_target st) true (mc_len st) (mc_ip st) t (mc_first st))) with (IPS st).
        change (TG (mk_mc (mc_target st) true (mc_len st) (mc_ip st) t (mc_first st))) with (TG st).
        rewrite HX2. reflexivity.
  Qed.

  Lemma mu_bound : forall st, cur_valid lnf (mc_len st) -> cur_valid ipf (mc_ip st) ->
    mu st < mc_fuel ipf lnf maxl.
  Proof.
    intros st Hl Hi. unfold mu, mc_fuel, table_size.
    pose proof (cnt_valid_lt ipf _ Hi) as E1. pose proof (cnt_valid_lt lnf _ Hl) as E2.
    rewrite <- !cnt_total. fold total_ip in *.
    set (a := cnt ipf (maxl - fst (mc_ip st)) (fst (mc_ip st)) (S (snd (mc_ip st)))) in *.
    set (b := cnt lnf (maxl - fst (mc_len st)) (fst (mc_len st)) (S (snd (mc_len st)))) in *.
    set (tl := cnt lnf maxl 0 0) in *.
    assert (b * total_ip <= (tl - 1) * total_ip) by (apply Nat.mul_le_mono_r; lia).
    assert (tl * S total_ip = (tl - 1) * total_ip + total_ip + tl) by (destruct tl; [lia | simpl; nia]).
    lia.
  Qed.

  (* next_guess from a state in the middle of the level *)
  Lemma mc_next_inv : forall c st,
    inv st -> cok c ->
    let res := mc_next ipf cpf lnf maxl optmax (mc_fuel ipf lnf maxl) (s_ip, s_len) c st in
    cok (snd res) /\
    match remaining st with
    | [] => fst (fst res) = Done
    | g :: tl => fst (fst res) = Guess g /\ inv (snd (fst res)) /\ remaining (snd (fst res)) = tl
    end.
  Proof.
    intros c st (HT & Hst & Hvl & Hvi & Hin) Hc. unfold mc_next. rewrite Hst.
    assert (Hne : mc_tree st <> []).
    { intro E. pose proof (compl_length cpf maxl _ _ _ _ Hin) as Hl. rewrite E in Hl. simpl in Hl.
      pose proof (cur_k_pos st Hvl). lia. }
    destruct (gs_next_spec cpf maxl optmax c (IPS st) (K st) (TG st) (mc_tree st) Hc Hin Hne) as [G1 G2].
    destruct (gs_next cpf maxl optmax c (IPS st) (K st) (TG st) (mc_tree st)) as [r c'] eqn:Eg. cbn [fst snd] in G1, G2.
    rewrite G1. cbn [fst].
    assert (HX : gs_list_ok st (rem (K st) (TG st) (mc_tree st))).
    { unfold gs_list_ok. destruct (rem (K st) (TG st) (mc_tree st)) as [|t ys] eqn:E; [exact I|].
      apply (rem_next cpf maxl _ _ _ _ _ _ Hin E). }
    exact (mc_loop_spec _ c' st _ HT Hvl Hvi G2 HX (mu_bound st Hvl Hvi)).
  Qed.

  (* the first next_guess of a new cracker *)
  Lemma mc_next_fresh : forall c st,
    mc_started st = false -> mc_target st = T -> cok c ->
    let res := mc_next ipf cpf lnf maxl optmax (mc_fuel ipf lnf maxl) (s_ip, s_len) c st in
    cok (snd res) /\
    match level_strings_f ipf cpf lnf maxl T with
    | [] => fst (fst res) = Done
    | g :: tl => fst (fst res) = Guess g /\ inv (snd (fst res)) /\ remaining (snd (fst res)) = tl
    end.
  Proof.
    intros c st Hst HT Hc. unfold mc_next. rewrite Hst. cbn [fst snd].
    destruct (ffo_spec ipf s_ip Hs_ip) as (Ha1 & Ha2 & Ha3).
    destruct (ffo_spec lnf s_len Hs_len) as (Hb1 & Hb2 & Hb3).
    set (st0 := mk_mc (mc_target st) true (s_len, 0) (s_ip, 0) [] true).
    assert (Hvl : cur_valid lnf (mc_len st0)) by (split; simpl; [exact Hb1 | destruct (lnf s_len); [congruence | simpl; lia]]).
    assert (Hvi : cur_valid ipf (mc_ip st0)) by (split; simpl; [exact Ha1 | destruct (ipf s_ip); [congruence | simpl; lia]]).
    pose proof (cur_k_pos st0 Hvl) as Hk.
    change (mc_tree st0) with (@nil row).
    destruct (gs_first_spec cpf maxl optmax c (IPS st0) (K st0) (TG st0) Hk Hc) as [G1 G2].
    destruct (gs_next cpf maxl optmax c (IPS st0) (K st0) (TG st0) []) as [r c'] eqn:Eg. cbn [fst snd] in G1, G2.
    rewrite G1.
    pose proof (mc_loop_spec _ c' st0 _ HT Hvl Hvi G2 (gs_list_ok_compl st0) (mu_bound st0 Hvl Hvi)) as Hl.
    cbv zeta in Hl.
    assert (E : level_strings_f ipf cpf lnf maxl T =
                map (fmt (IPS st0)) (compl (K st0) (IPS st0) (TG st0)) ++ rest_ip st0 ++ rest_len st0).
    { rewrite level_strings_cur.
      rewrite (cur_rest_skip lnf _ maxl 0 s_len); [|intros l _ Hl'; apply Hb3; exact Hl' | lia | lia].
      replace (0 + maxl - s_len) with (maxl - s_len) by lia.
      rewrite cur_rest_step by (destruct Hvl as [_ Hx]; exact Hx).
      unfold rest_len at 1. cbn [mc_len st0 fst snd]. rewrite app_assoc. f_equal.
      unfold f_len. rewrite (cur_rest_skip ipf _ maxl 0 s_ip); [|intros l _ Hl'; apply Ha3; exact Hl' | lia | lia].
      replace (0 + maxl - s_ip) with (maxl - s_ip) by lia.
      rewrite cur_rest_step by (destruct Hvi as [_ Hx]; exact Hx).
      unfold rest_ip. cbn [mc_ip mc_len st0 fst snd]. f_equal.
      unfold f_ip. rewrite ip_strings_fmt. unfold cur_target, cur_ipstr, cur_k. cbn [mc_target mc_len mc_ip st0 fst snd].
      rewrite HT. reflexivity. }
    rewrite E. exact Hl.
  Qed.

  (* n calls of next_guess *)
  Definition state_ok (st : mc_state) (R : list ostr) : Prop :=
    (mc_started st = false /\ mc_target st = T /\ R = level_strings_f ipf cpf lnf maxl T) \/
    (inv st /\ remaining st = R).

  Definition run_status (n : nat) (R : list ostr) : mc_out := if Nat.leb n (length R) then Guess [] else Done.

  Lemma mc_run_spec : forall n c st R,
    state_ok st R -> cok c ->
    let res := mc_run ipf cpf lnf maxl optmax n (mc_fuel ipf lnf maxl) (s_ip, s_len) c st in
    fst (fst (fst res)) = firstn n R /\
    snd (fst (fst res)) = run_status n R /\
    cok (snd res) /\
    (n <= length R ->
     match n with
     | 0 => snd (fst res) = st
     | S _ => inv (snd (fst res)) /\ remaining (snd (fst res)) = skipn n R
     end).
  Proof.
    induction n as [|n IH]; intros c st R Hst Hc.
    - simpl. repeat split; auto.
    - cbn [mc_run].
      assert (Hstep :
        let res := mc_next ipf cpf lnf maxl optmax (mc_fuel ipf lnf maxl) (s_ip, s_len) c st in
        cok (snd res) /\
        match R with
        | [] => fst (fst res) = Done
        | g :: tl => fst (fst res) = Guess g /\ inv (snd (fst res)) /\ remaining (snd (fst res)) = tl
        end).
      { destruct Hst as [(H1 & H2 & H3) | (H1 & H2)].
        - subst R. apply mc_next_fresh; assumption.
        - subst R. apply mc_next_inv; assumption. }
      cbv zeta in Hstep. destruct Hstep as [S1 S2].
      destruct (mc_next ipf cpf lnf maxl optmax (mc_fuel ipf lnf maxl) (s_ip, s_len) c st) as [[o st'] c'] eqn:En.
      cbn [fst snd] in *. destruct R as [|g tl].
      + subst o. cbn [fst snd]. split; [reflexivity|]. split; [reflexivity|]. split; [exact S1|].
        simpl. intro Hn. lia.
      + destruct S2 as (S2 & S3 & S4). subst o.
        specialize (IH c' st' tl (or_intror (conj S3 S4)) S1). cbv zeta in IH.
        destruct (mc_run ipf cpf lnf maxl optmax n (mc_fuel ipf lnf maxl) (s_ip, s_len) c' st') as [[[l o2] st2] c2].
        cbn [fst snd] in *. destruct IH as (I1 & I2 & I3 & I4).
        split; [simpl; rewrite I1; reflexivity|].
        split; [rewrite I2; unfold run_status; simpl; reflexivity|].
        split; [exact I3|].
        intro Hn. simpl in Hn. specialize (I4 ltac:(lia)).
        destruct n as [|n']; [subst st2; split; [exact S3 | exact S4] | exact I4].
  Qed.

  Lemma run_status_not_oof : forall n R, run_status n R <> OutOfFuel.
  Proof. intros n R. unfold run_status. destruct (Nat.leb n (length R)); discriminate. Qed.
End MC.
