(* Executable model of lib_scorer/pcfg_password_scorer.py:
   PCFGPasswordScorer.create_multiword_detector and .parse (the PCFG
   probability; the OMEN score and the p/o category that depends on it are not
   modelled), over an abstract probability type so that the same definitions
   run with binary64 floats in the correspondence (same multiplication order as
   the code) and with exact rationals in the theorems.  Definitions only.

   The ruleset is what grammar_io.load_grammar leaves in the scorer object:
   per file the Counter as its (key, probability) items in insertion order
   (a Counter keeps the position of the first assignment of a key and the
   value of the last: dict_of; reading the files is the business of C07). *)
From Coq Require Import List ZArith NArith Bool.
From Pcfg Require Import Str Multiword Detect Segment.
Import ListNotations.
Open Scope Z_scope.

Section Scorer.
Variable P : Type.
Variable pmul : P -> P -> P.
Variables p0 p1 : P.
Variable pltb : P -> P -> bool.          (* float `<` *)

Definition entries := list (str * P).

(* grammar_counter[key] = value, in file order: a dict *)
Fixpoint dict_set (d : entries) (k : str) (v : P) : entries :=
  match d with
  | [] => [(k, v)]
  | (k', v') :: r => if str_eqb k' k then (k', v) :: r else (k', v') :: dict_set r k v
  end.
Definition dict_of (lines : entries) : entries := fold_left (fun d kv => dict_set d (fst kv) (snd kv)) lines [].
Fixpoint dict_get (d : entries) (k : str) : option P :=
  match d with
  | [] => None
  | (k', v) :: r => if str_eqb k' k then Some v else dict_get r k
  end.

Record ruleset := {
  r_bases : list (list label * P);            (* Grammar/grammar.txt, structure strings parsed into labels *)
  r_alpha : list (Z * entries);               (* Alpha/<len>.txt in config order *)
  r_masks : list (Z * entries);               (* Capitalization/<len>.txt *)
  r_digits : list (Z * entries);
  r_other : list (Z * entries);
  r_keyboard : list (Z * entries);
  r_years : entries;
  r_context : entries
}.

(* counter[len(item)][item]: None = KeyError (no file of that length); a key
   missing from a Counter reads as 0 *)
Fixpoint by_len (t : list (Z * entries)) (n : Z) : option entries :=
  match t with
  | [] => None
  | (k, e) :: r => match by_len r n with Some e' => Some e' | None => if k =? n then Some e else None end
  end.
Definition counter_get (d : entries) (k : str) : P :=
  match dict_get d k with Some v => v | None => p0 end.
Definition lookup_len (t : list (Z * entries)) (item : str) : option P :=
  match by_len t (len item) with
  | None => None
  | Some e => Some (counter_get e item)
  end.

(* ---- create_multiword_detector *)

(* Counter.most_common(): stable sort by value, descending *)
Fixpoint mc_insert (x : str * P) (l : entries) : entries :=
  match l with
  | [] => [x]
  | y :: r => if pltb (snd x) (snd y) then y :: mc_insert x r else x :: l
  end.
Definition most_common (d : entries) : entries := fold_right mc_insert [] d.

(* the loop over reversed(most_common()): the words that are trained
   (`if skipped < 5`: nskip) *)
Variable nskip : nat.
Fixpoint mw_select (l : entries) (skipped : nat) (prev : P) : list str :=
  match l with
  | [] => []
  | (w, p) :: r =>
      if Nat.ltb skipped nskip then
        if pltb prev p then mw_select r (S skipped) p else mw_select r skipped prev
      else w :: mw_select r skipped prev
  end.

Section Detector.
Variable isalpha : N -> bool.
Variable lower_c : N -> str.
Variables s_threshold s_min_len s_max_len : Z.      (* MultiWordDetector(threshold = 1, min_len = 4), max_len default *)

Definition scorer_words (rs : ruleset) : list str :=
  flat_map (fun ke => if s_min_len <=? fst ke
                      then mw_select (rev (most_common (snd ke))) 0 p0
                      else []) (r_alpha rs).

Definition scorer_mw (rs : ruleset) : mwmap :=
  fold_left (fun m w => mw_train isalpha lower_c s_threshold s_min_len s_max_len m false w) (scorer_words rs) [].
End Detector.

(* ---- parse *)

Inductive category := CatE | CatW | CatOther.

(* the `try: ... except KeyError: cur_prob = 0` block *)
Fixpoint mul_len (t : list (Z * entries)) (items : list str) (acc : P) : option P :=
  match items with
  | [] => Some acc
  | i :: r => match lookup_len t i with None => None | Some v => mul_len t r (pmul acc v) end
  end.
Fixpoint mul_flat (d : entries) (items : list str) (acc : P) : P :=
  match items with
  | [] => acc
  | i :: r => mul_flat d r (pmul acc (counter_get d i))
  end.

Fixpoint labels_eqb (a b : list label) : bool :=
  match a, b with
  | [], [] => true
  | x :: a', y :: b' => label_eqb x y && labels_eqb a' b'
  | _, _ => false
  end.
(* count_base_structures[base_structure]: last assignment wins, missing = 0 *)
Fixpoint base_get (b : list (list label * P)) (k : list label) : option P :=
  match b with
  | [] => None
  | (k', v) :: r => match base_get r k with Some v' => Some v' | None => if labels_eqb k' k then Some v else None end
  end.

Definition product (rs : ruleset) (r : parsed) : P :=
  match mul_len (r_keyboard rs) (p_walks r) p1 with None => p0 | Some a =>
  let a := mul_flat (r_years rs) (p_years r) a in
  let a := mul_flat (r_context rs) (p_context r) a in
  match mul_len (r_alpha rs) (p_alpha r) a with None => p0 | Some a =>
  match mul_len (r_masks rs) (p_masks r) a with None => p0 | Some a =>
  match mul_len (r_digits rs) (p_digits r) a with None => p0 | Some a =>
  match mul_len (r_other rs) (p_other r) a with None => p0 | Some a =>
  pmul a (match base_get (r_bases rs) (p_base r) with Some v => v | None => p0 end)
  end end end end end.

(* the check added to parse() after the product (regenerated constant
   scorer_rebuild_check says whether the source has it):
     alpha_sections = [x[0] for x in section_list if x[1] and x[1][0] == 'A']
     for text, word, mask in zip(alpha_sections, found_alpha_strings, found_mask_list):
         rebuilt = ''.join(c.upper() if m == 'U' else c for c, m in zip(word, mask))
         if rebuilt != text: cur_prob = 0 *)
Variable rebuild_check : bool.
Variable upper_c : N -> str.
Definition chUs : N := 85%N.

Fixpoint rebuild (word mask : str) : str :=
  match word, mask with
  | c :: wr, m :: mr => (if N.eqb m chUs then upper_c c else [c]) ++ rebuild wr mr
  | _, _ => []
  end.

Definition alpha_sections (sl : list section) : list str :=
  map fst (filter (fun x => match snd x with Some (LA _) => true | _ => false end) sl).

Fixpoint rebuild_all (texts words masks : list str) : bool :=
  match texts, words, masks with
  | t :: tr, w :: wr, m :: mr => str_eqb (rebuild w m) t && rebuild_all tr wr mr
  | _, _, _ => true
  end.

Definition rebuild_ok (r : parsed) : bool :=
  rebuild_all (alpha_sections (p_sections r)) (p_alpha r) (p_masks r).

(* PCFGPasswordScorer.parse: (category e / w / other, probability); None = an
   exception.  [seg] is the segmentation pipeline shared with the trainer
   (Segment.parse with the scorer's own multi-word detector); the early return
   for e-mails and websites happens before the later detectors run, whose
   results are not observable in that case *)
Definition score (seg : str -> presult) (rs : ruleset) (s : str) : option (category * P) :=
  match seg s with
  | PErr => None
  | POk r =>
      if nonempty (p_emails r) then Some (CatE, p0)
      else if nonempty (p_urls r) then Some (CatW, p0)
      else if negb (p_supported r) then Some (CatOther, p0)
      else Some (CatOther, if rebuild_check && negb (rebuild_ok r) then p0 else product rs r)
  end.

End Scorer.
