(* C13 for the instance the correspondence runs (constants and Unicode facts
   regenerated per run), the zero cases, and the witnesses for letters whose
   case mapping is not one-to-one. *)
From Coq Require Import List ZArith NArith Bool Lia QArith Sorting.Permutation Floats.
From Pcfg Require Import Str Multiword Detect Segment SegCorr Scorer ScorerCorr DetectProofsStr DetectProofsDrive DetectProofsSimple
     DetectProofsSeg DetectProofsCount DetectProofsPipe DetectProofsInst ScorerProofs.
From PcfgGen Require Import Consts_gen Unicode_gen.
Import ListNotations.
Open Scope Z_scope.

Definition c_case_ok := case_ok c_isupper c_lower c_upper.
Definition c_generates := generates c_upper.

Definition scorer_mw_Q (rs : rsQ) : mwmap :=
  scorer_mw Q 0%Q (fun a b => match Qcompare a b with Lt => true | _ => false end) scorer_mw_skip
            c_isalpha c_lower s_threshold s_min_len s_max_len rs.

Lemma side_scorer_min_len : 1 <= s_min_len.
Proof. vm_compute. discriminate. Qed.

(* the source has the rebuild check (it did not before the repair of R16) *)
Lemma side_rebuild_check : scorer_rebuild_check = true.
Proof. reflexivity. Qed.

(* the scorer as the current source has it, over Q *)
Notation score_c := (score Q Qmult 0%Q 1%Q scorer_rebuild_check c_upper).
Notation score_old := (score Q Qmult 0%Q 1%Q false c_upper).

Theorem promise_c : forall rs m s cat p, s <> [] ->
  score_c (parse_s m) rs s = Some (cat, p) -> ~ (p == 0)%Q -> c_generates rs s p.
Proof.
  intros rs m s cat p Hne. unfold parse_s. rewrite side_lower_aligned, side_rebuild_check.
  apply (promise c_isalpha c_isdigit c_isupper c_lower c_upper c_kbs kb_false_positive_words c_min_run tld_list
           year_prefixes context_strings s_threshold s_min_len s_max_len side_scorer_min_len side_year_prefixes
           side_tlds_nonempty side_min_run rs m s cat p Hne). apply good_all.
Qed.

Theorem promise_old_c : forall rs m s cat p, s <> [] ->
  score_old (parse_s m) rs s = Some (cat, p) -> ~ (p == 0)%Q -> c_case_ok s -> c_generates rs s p.
Proof.
  intros rs m s cat p Hne. unfold parse_s. rewrite side_lower_aligned.
  apply (promise_unchecked c_isalpha c_isdigit c_isupper c_lower c_upper c_kbs kb_false_positive_words c_min_run tld_list
           year_prefixes context_strings s_threshold s_min_len s_max_len side_scorer_min_len side_year_prefixes
           side_tlds_nonempty side_min_run rs m s cat p Hne). apply good_all.
Qed.

(* e-mail / website: classified as such, probability 0 *)
Theorem email_website_zero : forall (seg : str -> presult) (rs : rsQ) s r, seg s = POk r ->
  (p_emails r <> [] -> score_c seg rs s = Some (CatE, 0%Q)) /\
  (p_emails r = [] -> p_urls r <> [] -> score_c seg rs s = Some (CatW, 0%Q)).
Proof.
  intros seg rs s r E. unfold score. rewrite E. split.
  - intros H. apply nonempty_true in H. now rewrite H.
  - intros H1 H2. rewrite H1. simpl. apply nonempty_true in H2. now rewrite H2.
Qed.

(* a section whose length, value, mask or base structure is missing gives 0,
   never a product of the factors that were found *)
Theorem missing_is_zero : forall (rs : rsQ) r,
  (base_get Q (r_bases Q rs) (p_base r) = None \/
   (exists w, In w (p_walks r) /\ lookupQ (r_keyboard Q rs) w = None) \/
   (exists w, In w (p_alpha r) /\ lookupQ (r_alpha Q rs) w = None) \/
   (exists w, In w (p_masks r) /\ lookupQ (r_masks Q rs) w = None) \/
   (exists w, In w (p_digits r) /\ lookupQ (r_digits Q rs) w = None) \/
   (exists w, In w (p_other r) /\ lookupQ (r_other Q rs) w = None)) ->
  (product Q Qmult 0%Q 1%Q rs r == 0)%Q.
Proof.
  intros rs r H.
  destruct (Qeq_dec (product Q Qmult 0%Q 1%Q rs r) 0) as [E|E]; [exact E|exfalso].
  destruct (product_spec rs r E) as (bp & Eb & _).
  assert (Hml : forall t items acc v w, mul_len Q Qmult 0%Q t items acc = Some v -> In w items -> lookupQ t w <> None).
  { intros t items. induction items as [|i it IH]; intros acc v w Hm Hin; [contradiction|]. simpl in Hm.
    destruct (lookupQ t i) eqn:El; [|discriminate]. destruct Hin as [<-|Hin]; [congruence|]. eapply IH; eassumption. }
  unfold product in E.
  destruct (mul_len Q Qmult 0%Q (r_keyboard Q rs) (p_walks r) 1%Q) as [a1|] eqn:E1; [|apply E; reflexivity].
  destruct (mul_len Q Qmult 0%Q (r_alpha Q rs) (p_alpha r) _) as [a4|] eqn:E4; [|apply E; reflexivity].
  destruct (mul_len Q Qmult 0%Q (r_masks Q rs) (p_masks r) a4) as [a5|] eqn:E5; [|apply E; reflexivity].
  destruct (mul_len Q Qmult 0%Q (r_digits Q rs) (p_digits r) a5) as [a6|] eqn:E6; [|apply E; reflexivity].
  destruct (mul_len Q Qmult 0%Q (r_other Q rs) (p_other r) a6) as [a7|] eqn:E7; [|apply E; reflexivity].
  destruct H as [H|[(w & Hin & Hn)|[(w & Hin & Hn)|[(w & Hin & Hn)|[(w & Hin & Hn)|(w & Hin & Hn)]]]]].
  - congruence.
  - exact (Hml _ _ _ _ _ E1 Hin Hn).
  - exact (Hml _ _ _ _ _ E4 Hin Hn).
  - exact (Hml _ _ _ _ _ E5 Hin Hn).
  - exact (Hml _ _ _ _ _ E6 Hin Hn).
  - exact (Hml _ _ _ _ _ E7 Hin Hn).
Qed.

(* ---- R16: a letter whose case mapping is not one-to-one.  Ruleset: the only
   base structure A1, Alpha/1.txt = {ß}, Capitalization/1.txt = {U, L}.  The
   scorer gives 'ẞ' (U+1E9E, lower() = ß, isupper) the probability 1/2; the
   guesser writes the same pre-terminal as "SS". *)
Definition rs_sharp : rsQ :=
  {| r_bases := [([LA 1], 1%Q)]; r_alpha := [(1, [([223%N], 1%Q)])];
     r_masks := [(1, [([85%N], (1#2)%Q); ([76%N], (1#2)%Q)])];
     r_digits := []; r_other := []; r_keyboard := []; r_years := []; r_context := [] |}.
Definition w_sharp : str := [7838%N].

Lemma refuted_case_sharp_s :
  score_old (parse_s (scorer_mw_Q rs_sharp)) rs_sharp w_sharp = Some (CatOther, (1 * 1 * (1#2) * 1)%Q) /\
  score_c (parse_s (scorer_mw_Q rs_sharp)) rs_sharp w_sharp = Some (CatOther, 0%Q) /\
  ~ c_case_ok w_sharp /\ forall p, ~ c_generates rs_sharp w_sharp p.
Proof.
  split; [vm_compute; reflexivity|]. split; [vm_compute; reflexivity|]. split.
  - intros H. inversion H as [|? ? Hc _]; subst. vm_compute in Hc. discriminate.
  - intros p (ls & bp & picks & Hin & Hf & Hs & _). simpl in Hin. destruct Hin as [Hin|[]]. injection Hin as <- <-.
    inversion Hf as [|? tp ? ps Hpk Hf']; subst. inversion Hf'; subst. simpl in Hs. rewrite app_nil_r in Hs.
    destruct tp as [tx tq]. simpl in Hs, Hpk. subst tx. inversion Hpk as [| | |n e em w pw mask pmk He Hw Hem Hm Et Eq| |].
    simpl in He, Hem. injection He as <-. injection Hem as <-.
    destruct Hw as [Hw|[]]. injection Hw as <- <-.
    destruct Hm as [Hm|[Hm|[]]]; injection Hm as <- <-; vm_compute in Et; discriminate.
Qed.

(* the hypotheses of the promise are satisfiable: the lower-case sharp s under
   the same ruleset *)
Definition w_sharp_lower : str := [223%N].
Lemma demo_promise :
  score_c (parse_s (scorer_mw_Q rs_sharp)) rs_sharp w_sharp_lower = Some (CatOther, (1 * 1 * (1#2) * 1)%Q) /\
  c_generates rs_sharp w_sharp_lower (1 * 1 * (1#2) * 1)%Q.
Proof.
  assert (E : score_c (parse_s (scorer_mw_Q rs_sharp)) rs_sharp w_sharp_lower = Some (CatOther, (1 * 1 * (1#2) * 1)%Q))
    by (vm_compute; reflexivity).
  split; [exact E|].
  apply (promise_c rs_sharp (scorer_mw_Q rs_sharp) w_sharp_lower CatOther); [discriminate|exact E|].
  intros H. vm_compute in H. discriminate.
Qed.

(* ---- the promise, literally about the guesser model of C02 / C04 *)
From Pcfg Require Import ProbAlg Next NextSpec NextProofs QProb Expand ScorerGuesser.
From Coq Require Import Sorting.Permutation.

Theorem promise_preterminal_c : forall rs m s cat p, s <> [] ->
  score_c (parse_s m) rs s = Some (cat, p) -> ~ (p == 0)%Q ->
  exists it : item QProb, In it (all_preterminals (guesser_view rs)) /\
                          In s (denote c_upper (segs_of rs it)) /\ (iprob it == p)%Q.
Proof.
  intros rs m s cat p Hne Hs Hp. apply generates_preterminal. exact (promise_c rs m s cat p Hne Hs Hp).
Qed.

(* ... and by C02 that pre-terminal is emitted by the run of the guesser, for
   every well-formed view and every admissible queue *)
Theorem promise_emitted_c : forall rs m s cat p, s <> [] ->
  score_c (parse_s m) rs s = Some (cat, p) -> ~ (p == 0)%Q ->
  wf (guesser_view rs) -> forall pop, pop_ok_okb pop ->
  exists it : item QProb,
    In it (emitted (run pop (guesser_view rs) (total (guesser_view rs)) (start (guesser_view rs)))) /\
    In s (denote c_upper (segs_of rs it)) /\ (iprob it == p)%Q.
Proof.
  intros rs m s cat p Hne Hs Hp Hwf pop Hpop.
  destruct (promise_preterminal_c rs m s cat p Hne Hs Hp) as (it & Hin & Hd & Hq).
  exists it. split; [|split; assumption].
  destruct (C02_exactly_once_okb (guesser_view rs) Hwf pop Hpop) as (Hperm & _).
  eapply Permutation_in; [apply Permutation_sym; exact Hperm|exact Hin].
Qed.
