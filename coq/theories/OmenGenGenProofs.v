(* The theorems of C10 / C15 over the TRANSLATED OMEN generator
   (gen/OmenGen_{opt,gs,mc}_gen.v, redone from the Python text of optimizer.py,
   guess_structure.py and markov_cracker.py on every run): an Optimizer built by
   the translated constructor and a MarkovCracker built by the translated
   constructor on the grammar the loader builds from an OMEN model G, driven by
   the translated next_guess until it returns None, emit exactly
   level_strings G T, whatever (sound) content the Optimizer had; and a cracker
   holding a saved state emits exactly the rest of the level.

   These follow from the equalities of OmenGenOptProofs / OmenGenGsProofs /
   OmenGenGsNextProofs / OmenGenMcProofs (generated definition = model of Omen.v
   for all inputs) and the model's theorems (OmenProofs4 / 5). *)
From Coq Require Import List Arith Bool NArith ZArith Lia.
From Pcfg Require Import OmenSpec Omen OmenProofs OmenProofs2 OmenProofs3 OmenProofs4 OmenProofs5 OmenGenRt
     OmenGenRtProofs OmenGenOptProofs OmenGenGsProofs OmenGenGsNextProofs OmenGenMcProofs.
From PcfgGen Require Import Consts_gen OmenGen_opt_gen OmenGen_gs_gen OmenGen_mc_gen.
Import ListNotations.

Section Translated.
  Variable G : omen.
  Variable optmax : nat.
  Hypothesis extra_le : omen_first_object_extra <= 1.

  Notation extra := omen_first_object_extra.
  Notation ipf := (ip_at G).
  Notation lnf := (ln_at G).
  Notation cpi := (build_cp (og_cp G)).
  Notation cpf := (cp_fast G).
  Notation maxl := (og_max_level G).
  Notation LS T := (level_strings G T).

  (* the grammar dictionary the loader builds from the files of G *)
  Definition gram_of : pygrammar := gram ipf lnf cpi maxl (Z.of_nat (og_ngram G)).

  (* fuel that is always enough for one level of G *)
  Definition omen_fuel : nat := mc_py_fuel lnf cpi maxl (mc_fuel ipf lnf maxl).

  (* the Optimizer object holds the model's cache c, and c is sound *)
  Definition oinv (o : pyopt) (c : cache) : Prop := crel optmax o c /\ cache_ok cpf maxl c.

  Lemma oinv_inv o c : oinv o c <-> inv cpi maxl optmax o c.
  Proof. reflexivity. Qed.

  (* the translated Optimizer constructor gives an object holding the empty cache *)
  Theorem opt_init_translated fuel :
    exists o, py_opt_init fuel (Z.of_nat optmax) = Ok o /\ oinv o cempty.
  Proof.
    destruct (gen_opt_init fuel optmax) as (o & E & H). exists o. split; [exact E|].
    split; [exact H | apply cache_ok_empty].
  Qed.

  (* n calls of the translated next_guess on a new translated cracker *)
  Theorem prefix_translated T c o n starts fuel :
    oinv o c -> mc_starts ipf lnf maxl extra = Some starts -> fuel >= omen_fuel ->
    exists m0, py_mc_init fuel gram_of T = Ok m0 /\
    exists m2 o2 c2,
      py_mc_run n fuel m0 o = Ok (firstn n (LS T), negb (Nat.leb n (length (LS T))), m2, o2) /\ oinv o2 c2.
  Proof.
    intros Hinv Hs Hfuel. destruct starts as [s_ip s_len].
    unfold gram_of. rewrite (gen_mc_init ipf lnf cpi maxl (Z.of_nat (og_ngram G)) fuel T extra_le), Hs.
    eexists. split; [reflexivity|].
    unfold mc_starts in Hs.
    destruct (find_first_object maxl extra ipf) as [a|] eqn:Ea; [|discriminate].
    destruct (find_first_object maxl extra lnf) as [b|] eqn:Eb; [|discriminate].
    inversion Hs; subst a b.
    pose proof (mc_run_spec ipf cpf lnf maxl optmax extra (ln_at_pos G) extra_le T s_ip s_len Ea Eb
                            n c (mc_new T) (level_strings_f ipf cpf lnf maxl T)
                            (or_introl (conj eq_refl (conj eq_refl eq_refl))) (proj2 Hinv)) as H.
    cbv zeta in H. destruct H as (H1 & H2 & _ & _).
    destruct (gen_mc_run ipf lnf cpi maxl optmax (Z.of_nat (og_ngram G)) (build_cp_nonempty _) (ln_at_pos G)
                         s_ip s_len Ea Eb extra_le (mc_fuel ipf lnf maxl) n fuel (mc_new T)
                         (py_obj ipf lnf cpi maxl (Z.of_nat (og_ngram G)) s_ip s_len T None None None) o c)
      as (o2 & m2 & E & Hinv2 & _ & _).
    - cbn. eauto.
    - intro Hst. discriminate.
    - exact Hinv.
    - exact Hfuel.
    - change (cpf_of cpi) with cpf. rewrite H2. apply run_status_not_oof.
    - exists m2, o2. eexists. split; [|exact Hinv2].
      change (cpf_of cpi) with cpf in E. rewrite E, H1, H2, level_strings_fast.
      unfold run_status. destruct (Nat.leb n (length (LS T))); reflexivity.
  Qed.

  (* C10, first sentence, over the translated code *)
  Theorem exact_translated T c o starts fuel :
    oinv o c -> mc_starts ipf lnf maxl extra = Some starts -> fuel >= omen_fuel ->
    exists m0, py_mc_init fuel gram_of T = Ok m0 /\
    exists m2 o2 c2,
      py_mc_run (S (length (LS T))) fuel m0 o = Ok (LS T, true, m2, o2) /\ oinv o2 c2.
  Proof.
    intros Hinv Hs Hfuel.
    destruct (prefix_translated T c o (S (length (LS T))) starts fuel Hinv Hs Hfuel) as (m0 & E0 & m2 & o2 & c2 & E & H).
    exists m0. split; [exact E0|]. exists m2, o2, c2. split; [|exact H].
    rewrite E, firstn_all2 by lia.
    replace (Nat.leb (S (length (LS T))) (length (LS T))) with false by (symmetry; apply Nat.leb_gt; lia).
    reflexivity.
  Qed.

  (* C10, second sentence: what the Optimizer holds does not matter *)
  Theorem cache_independent_translated T c1 o1 c2 o2 n starts fuel m0 :
    oinv o1 c1 -> oinv o2 c2 -> mc_starts ipf lnf maxl extra = Some starts -> fuel >= omen_fuel ->
    py_mc_init fuel gram_of T = Ok m0 ->
    exists r1 r2, py_mc_run n fuel m0 o1 = Ok r1 /\ py_mc_run n fuel m0 o2 = Ok r2 /\
                  fst (fst (fst r1)) = fst (fst (fst r2)) /\ snd (fst (fst r1)) = snd (fst (fst r2)).
  Proof.
    intros H1 H2 Hs Hfuel E0.
    destruct (prefix_translated T c1 o1 n starts fuel H1 Hs Hfuel) as (ma & Ea & ma2 & oa & ca & Era & _).
    destruct (prefix_translated T c2 o2 n starts fuel H2 Hs Hfuel) as (mb & Eb & mb2 & ob & cb & Erb & _).
    rewrite E0 in Ea, Eb. injection Ea as <-. injection Eb as <-.
    eexists _, _. split; [exact Era|]. split; [exact Erb|]. split; reflexivity.
  Qed.

  (* C15: the object load_session leaves for a state saved after the (j+1)-th
     guess -- a cracker with the pickled target level and cursors, a
     GuessStructure built from them, holding the pickled parse tree and
     first_guess -- emits, with ANY sound Optimizer, exactly the rest of the
     level and then None *)
  Theorem continuation_translated T c c2 o2 j s_ip s_len l out st c1 fuel :
    cache_ok cpf maxl c -> oinv o2 c2 ->
    mc_starts ipf lnf maxl extra = Some (s_ip, s_len) ->
    j < length (LS T) ->
    enumerate ipf cpf lnf maxl optmax extra (S j) c T = Some (l, out, st, c1) ->
    fuel >= omen_fuel ->
    exists m2 o3 c3,
      py_mc_run (S (length (skipn (S j) (LS T)))) fuel
                (mk_py ipf lnf cpi maxl (Z.of_nat (og_ngram G)) s_ip s_len (mc_load (mc_save st))) o2 =
        Ok (skipn (S j) (LS T), true, m2, o3) /\ oinv o3 c3.
  Proof.
    intros Hc Hinv2 Hs Hj He Hfuel. unfold enumerate in He. rewrite Hs in He.
    unfold mc_starts in Hs.
    destruct (find_first_object maxl extra ipf) as [a|] eqn:Ea; [|discriminate].
    destruct (find_first_object maxl extra lnf) as [b|] eqn:Eb; [|discriminate].
    inversion Hs; subst a b.
    pose proof (mc_run_spec ipf cpf lnf maxl optmax extra (ln_at_pos G) extra_le T s_ip s_len Ea Eb
                            (S j) c (mc_new T) (level_strings_f ipf cpf lnf maxl T)
                            (or_introl (conj eq_refl (conj eq_refl eq_refl))) Hc) as H.
    cbv zeta in H.
    assert (He' : mc_run ipf cpf lnf maxl optmax (S j) (mc_fuel ipf lnf maxl) (s_ip, s_len) c (mc_new T) = (l, out, st, c1))
      by (injection He; auto).
    rewrite He' in H. cbn [fst snd] in H.
    rewrite level_strings_fast in H. destruct H as (_ & _ & _ & H4).
    specialize (H4 ltac:(lia)). destruct H4 as [Hst Hrem].
    assert (Hload : mc_load (mc_save st) = st).
    { destruct Hst as (_ & Hstd & _). destruct st; simpl in *. subst. reflexivity. }
    rewrite Hload.
    pose proof (mc_run_spec ipf cpf lnf maxl optmax extra (ln_at_pos G) extra_le T s_ip s_len Ea Eb
                            (S (length (skipn (S j) (LS T)))) c2 st (skipn (S j) (LS T))
                            (or_intror (conj Hst Hrem)) (proj2 Hinv2)) as H.
    cbv zeta in H. destruct H as (K1 & K2 & _ & _).
    destruct Hst as (HT & Hstd & Hvl & Hvi & Hin).
    destruct (gen_mc_run ipf lnf cpi maxl optmax (Z.of_nat (og_ngram G)) (build_cp_nonempty _) (ln_at_pos G)
                         s_ip s_len Ea Eb extra_le (mc_fuel ipf lnf maxl) (S (length (skipn (S j) (LS T)))) fuel st
                         (mk_py ipf lnf cpi maxl (Z.of_nat (og_ngram G)) s_ip s_len st) o2 c2)
      as (o3 & m2 & E & Hinv3 & _ & _).
    - unfold mc_rel. now rewrite Hstd.
    - intros _. split; [exact Hvl|]. split; [exact Hvi | exact Hin].
    - exact Hinv2.
    - exact Hfuel.
    - change (cpf_of cpi) with cpf. rewrite K2. apply run_status_not_oof.
    - exists m2, o3. eexists. split; [|exact Hinv3].
      change (cpf_of cpi) with cpf in E. rewrite E, K1, K2, firstn_all2 by lia.
      unfold run_status.
      replace (Nat.leb (S (length (skipn (S j) (LS T)))) (length (skipn (S j) (LS T)))) with false
        by (symmetry; apply Nat.leb_gt; lia).
      reflexivity.
  Qed.
End Translated.
