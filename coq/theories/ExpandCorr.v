(* Correspondence helpers for C04 / C09 / C17 (evaluated by vm_compute). *)
From Coq Require Import List Arith Bool NArith.
From Pcfg Require Import Expand.
Import ListNotations.

Fixpoint leqb {X} (e : X -> X -> bool) (a b : list X) : bool :=
  match a, b with
  | [], [] => true
  | x :: a', y :: b' => e x y && leqb e a' b'
  | _, _ => false
  end.
Definition str_eqb : str -> str -> bool := leqb N.eqb.

Definition upper_of (tbl : list (N * str)) (c : N) : str :=
  match find (fun p => N.eqb (fst p) c) tbl with Some p => snd p | None => [c] end.
Definition omen_of (tbl : list (str * list str)) (lv : str) : list str :=
  match find (fun p => str_eqb (fst p) lv) tbl with Some p => snd p | None => [] end.

Definition cat_of (n : nat) : cat := match n with 0 => CatM | 1 => CatC | _ => CatPlain end.
Definition mk_slots (l : list (nat * list str)) : list slot :=
  map (fun p => {| scat := cat_of (fst p); svals := snd p |}) l.

(* one observed call of create_guesses: limit, printed lines, returned count
   (None = the call raised) *)
Definition call := (option nat * option (list str * nat))%type.

Definition check_call (up : list (N * str)) (om : list (str * list str))
           (slots : list (nat * list str)) (c : call) : bool :=
  match expand (upper_of up) (omen_of om) (mk_slots slots) [] (fst c), snd c with
  | None, None => true
  | Some (out, k), Some (iout, ik) => leqb str_eqb out iout && Nat.eqb k ik
  | _, _ => false
  end.

Definition check_pt (up : list (N * str)) (om : list (str * list str))
           (x : list (nat * list str) * list call) : bool :=
  forallb (check_call up om (fst x)) (snd x).

Definition failing {X} (f : X -> bool) (l : list X) : list nat :=
  map fst (filter (fun kx => negb (f (snd kx))) (combine (seq 0 (length l)) l)).
