(* Lemmas about the runtime Loader2Rt.v: dicts as association lists, updates along a path,
   loops as folds, the conversions at the boundary to the typed readers of LoaderRt.v. *)
From Coq Require Import List Arith ZArith NArith Bool Lia.
From Pcfg Require Import TextFile LoaderRt Loader2Rt.
Import ListNotations.

(* ---------------------------------------------------------------- strings *)

Lemma str_eqb_refl (s : pstr) : str_eqb s s = true.
Proof. induction s as [|c r IH]; cbn; [reflexivity|]. now rewrite N.eqb_refl, IH. Qed.

Lemma str_eqb_eq (a b : pstr) : str_eqb a b = true -> a = b.
Proof.
  revert b. induction a as [|x a IH]; destruct b as [|y b]; cbn; intros H; try discriminate; [reflexivity|].
  apply andb_true_iff in H. destruct H as [H1 H2]. apply N.eqb_eq in H1. subst. f_equal. now apply IH.
Qed.

Lemma str_eqb_sym (a b : pstr) : str_eqb a b = str_eqb b a.
Proof.
  revert b. induction a as [|x a IH]; destruct b as [|y b]; cbn; try reflexivity.
  now rewrite N.eqb_sym, IH.
Qed.

Lemma str_eqb_neq (a b : pstr) : a <> b -> str_eqb a b = false.
Proof. intros H. destruct (str_eqb a b) eqn:E; [|reflexivity]. apply str_eqb_eq in E. contradiction. Qed.

Lemma dropwhile_ext (f g : N -> bool) s : (forall c, f c = g c) -> dropwhile f s = dropwhile g s.
Proof. intros H. induction s as [|c r IH]; cbn; [reflexivity|]. rewrite H. now rewrite IH. Qed.

Lemma rstrip_ext (f g : N -> bool) s : (forall c, f c = g c) -> rstrip f s = rstrip g s.
Proof. intros H. unfold rstrip. now rewrite (dropwhile_ext f g). Qed.

(* '\n\r' as a set of characters is what TextFile.is_crlf tests *)
Lemma memN_crlf c : memN c [10; 13]%N = is_crlf c.
Proof. unfold memN, is_crlf, CR, LF. cbn. destruct (N.eqb c 10), (N.eqb c 13); reflexivity. Qed.

Lemma rstrip_crlf s : rstrip (fun c => memN c [10; 13]%N) s = rstrip is_crlf s.
Proof. apply rstrip_ext, memN_crlf. Qed.

(* ---------------------------------------------------------------- dicts *)

Section Dicts.
Context {T C S : Type}.
Notation val := (pyval T C S).

Lemma key_eqb_refl (k : val) : is_key k = true -> key_eqb k k = true.
Proof. destruct k; cbn; try discriminate; intros _; [apply Z.eqb_refl | apply str_eqb_refl]. Qed.

Lemma key_eqb_sym (a b : val) : key_eqb a b = key_eqb b a.
Proof. destruct a, b; cbn; try reflexivity; [apply Z.eqb_sym | apply str_eqb_sym]. Qed.

Lemma key_eqb_eq (a b : val) : key_eqb a b = true -> a = b.
Proof.
  destruct a, b; cbn; try discriminate; intros H.
  - apply Z.eqb_eq in H. now subst.
  - apply str_eqb_eq in H. now subst.
Qed.

Lemma key_eqb_trans (a b c : val) : key_eqb a b = true -> key_eqb a c = key_eqb b c.
Proof. intros H. apply key_eqb_eq in H. now subst. Qed.

Lemma dfind_dput_same (k v : val) d : is_key k = true -> dfind k (dput k v d) = Some v.
Proof.
  intros Hk. induction d as [|[k' v'] r IH]; cbn.
  - now rewrite key_eqb_refl.
  - destruct (key_eqb k k') eqn:E; cbn; rewrite E; [reflexivity | exact IH].
Qed.

Lemma dfind_dput_other (k k' v : val) d : key_eqb k' k = false -> dfind k' (dput k v d) = dfind k' d.
Proof.
  intros Hn. induction d as [|[k2 v2] r IH]; cbn.
  - now rewrite Hn.
  - destruct (key_eqb k k2) eqn:E; cbn.
    + destruct (key_eqb k' k2) eqn:E2; [|reflexivity].
      assert (k = k2) by now apply key_eqb_eq. assert (k' = k2) by now apply key_eqb_eq.
      subst k k'. rewrite E in Hn. discriminate.
    + destruct (key_eqb k' k2); [reflexivity | exact IH].
Qed.

Lemma dput_dput_same (k v v' : val) d : is_key k = true -> dput k v' (dput k v d) = dput k v' d.
Proof.
  intros Hk. induction d as [|[k2 v2] r IH]; cbn.
  - now rewrite key_eqb_refl.
  - destruct (key_eqb k k2) eqn:E; cbn; rewrite E; [reflexivity | now rewrite IH].
Qed.

(* a key that is not there is appended *)
Lemma dput_fresh (k v : val) d : dfind k d = None -> dput k v d = d ++ [(k, v)].
Proof.
  induction d as [|[k2 v2] r IH]; cbn; [reflexivity|].
  destruct (key_eqb k k2); [discriminate|]. intros H. now rewrite IH.
Qed.

(* ... one that is there keeps its place *)
Lemma dput_mid (k v v' : val) (pre post : list (val * val)) :
  dfind k pre = None -> is_key k = true -> dput k v' (pre ++ (k, v) :: post) = pre ++ (k, v') :: post.
Proof.
  intros Hp Hk. induction pre as [|[k2 v2] r IH]; cbn.
  - now rewrite key_eqb_refl.
  - cbn in Hp. destruct (key_eqb k k2); [discriminate|]. now rewrite IH.
Qed.

Lemma dfind_mid (k v : val) (pre post : list (val * val)) :
  dfind k pre = None -> is_key k = true -> dfind k (pre ++ (k, v) :: post) = Some v.
Proof.
  intros Hp Hk. induction pre as [|[k2 v2] r IH]; cbn.
  - now rewrite key_eqb_refl.
  - cbn in Hp. destruct (key_eqb k k2); [discriminate|]. now apply IH.
Qed.

Context (O : cfg_oracles T C S).

(* c[k] = f(c[k]) on a dict that has the key: only that entry changes *)
Lemma upd_item_found (d : list (val * val)) (k old : val) (f : val -> xres val) :
  is_key k = true -> dfind k d = Some old ->
  dy_upd_item O (VDict d) k f = xthen (f old) (fun new => XDone (VDict (dput k new d))).
Proof.
  intros Hk Hf. unfold dy_upd_item, dy_getitem. rewrite Hk, Hf. cbn [x_opt xthen].
  destruct (f old); cbn [xthen]; [|reflexivity]. unfold dy_setitem. now rewrite Hk.
Qed.

Lemma upd_item_missing (d : list (val * val)) (k : val) (f : val -> xres val) :
  is_key k = true -> dfind k d = None -> dy_upd_item O (VDict d) k f = XFail (XBase EKey).
Proof. intros Hk Hf. unfold dy_upd_item, dy_getitem. now rewrite Hk, Hf. Qed.

Lemma upd_attr_found (a : list (pstr * val)) (n : pstr) (old : val) (f : val -> xres val) :
  afind n a = Some old ->
  dy_upd_attr (VObj a) n f = xthen (f old) (fun new => XDone (VObj (aput n new a))).
Proof. intros Hf. unfold dy_upd_attr, dy_getattr. rewrite Hf. cbn [x_opt xthen]. destruct (f old); reflexivity. Qed.

Lemma afind_aput_same (n : pstr) (v : val) a : afind n (aput n v a) = Some v.
Proof.
  induction a as [|[n' v'] r IH]; cbn.
  - now rewrite str_eqb_refl.
  - destruct (str_eqb n n') eqn:E; cbn; rewrite E; [reflexivity | exact IH].
Qed.

Lemma afind_aput_other (n n' : pstr) (v : val) a : str_eqb n' n = false -> afind n' (aput n v a) = afind n' a.
Proof.
  intros Hn. induction a as [|[n2 v2] r IH]; cbn.
  - now rewrite Hn.
  - destruct (str_eqb n n2) eqn:E; cbn.
    + destruct (str_eqb n' n2) eqn:E2; [|reflexivity].
      apply str_eqb_eq in E, E2. subst. now rewrite str_eqb_refl in Hn.
    + destruct (str_eqb n' n2); [reflexivity | exact IH].
Qed.

Lemma aput_aput_same (n : pstr) (v v' : val) a : aput n v' (aput n v a) = aput n v' a.
Proof.
  induction a as [|[n2 v2] r IH]; cbn.
  - now rewrite str_eqb_refl.
  - destruct (str_eqb n n2) eqn:E; cbn; rewrite E; [reflexivity | now rewrite IH].
Qed.

End Dicts.

(* ---------------------------------------------------------------- loops as folds *)

(* a fold that can stop with a result *)
Fixpoint fold_stop {X M R : Type} (step : X -> M -> M + R) (l : list X) (m : M) : M + R :=
  match l with
  | [] => inl m
  | x :: r => match step x m with
              | inl m' => fold_stop step r m'
              | inr v => inr v
              end
  end.

(* for line in file: a body that is, on the states [enc m], the step function [step] *)
Lemma for_lines_fold {R St M : Type} (enc : M -> St) (step : pstr -> M -> M + R)
      (body : pstr -> St -> fctl R St) (k : rt_file -> St -> R) :
  (forall ln m, body ln (enc m) = match step ln m with inl m' => FCont (enc m') | inr v => FRet v end) ->
  forall rest all m,
    rt_for_lines all rest body (enc m) rt_no_else_file k =
    match fold_stop step rest m with
    | inl m' => k {| f_all := all; f_rest := [] |} (enc m')
    | inr v => v
    end.
Proof.
  intros Hb. induction rest as [|ln r IH]; intros all m; cbn [rt_for_lines fold_stop]; [reflexivity|].
  rewrite Hb. destruct (step ln m) as [m'|v]; [apply IH | reflexivity].
Qed.

(* for x in l *)
Lemma for_fold {X R St M : Type} (enc : M -> St) (step : X -> M -> M + R)
      (body : X -> St -> lctl R St) (k : St -> R) :
  (forall x m, body x (enc m) = match step x m with inl m' => LCont (enc m') | inr v => LRet v end) ->
  forall l m,
    rt_for l body (enc m) rt_no_else k =
    match fold_stop step l m with
    | inl m' => k (enc m')
    | inr v => v
    end.
Proof.
  intros Hb. induction l as [|x r IH]; intros m; cbn [rt_for fold_stop]; [reflexivity|].
  rewrite Hb. destruct (step x m) as [m'|v]; [apply IH | reflexivity].
Qed.

(* the same when the body is the step only for the elements of the list and the states that occur *)
Lemma for_fold_inv {X R St M : Type} (enc : M -> St) (step : X -> M -> M + R) (P : X -> Prop) (I : M -> Prop)
      (body : X -> St -> lctl R St) (k : St -> R) :
  (forall x m, P x -> I m -> body x (enc m) = match step x m with inl m' => LCont (enc m') | inr v => LRet v end) ->
  (forall x m m', P x -> I m -> step x m = inl m' -> I m') ->
  forall l m, Forall P l -> I m ->
    rt_for l body (enc m) rt_no_else k =
    match fold_stop step l m with
    | inl m' => k (enc m')
    | inr v => v
    end.
Proof.
  intros Hb Hi. induction l as [|x r IH]; intros m HP HI; cbn [rt_for fold_stop]; [reflexivity|].
  inversion HP; subst. rewrite Hb by assumption. destruct (step x m) as [m'|v] eqn:E; [|reflexivity].
  apply IH; [assumption | eapply Hi; eassumption].
Qed.

Lemma for_lines_fold_inv {R St M : Type} (enc : M -> St) (step : pstr -> M -> M + R) (I : M -> Prop)
      (body : pstr -> St -> fctl R St) (k : rt_file -> St -> R) :
  (forall ln m, I m -> body ln (enc m) = match step ln m with inl m' => FCont (enc m') | inr v => FRet v end) ->
  (forall ln m m', I m -> step ln m = inl m' -> I m') ->
  forall rest all m, I m ->
    rt_for_lines all rest body (enc m) rt_no_else_file k =
    match fold_stop step rest m with
    | inl m' => k {| f_all := all; f_rest := [] |} (enc m')
    | inr v => v
    end.
Proof.
  intros Hb Hi. induction rest as [|ln r IH]; intros all m HI; cbn [rt_for_lines fold_stop]; [reflexivity|].
  rewrite Hb by assumption. destruct (step ln m) as [m'|v] eqn:E; [|reflexivity].
  apply IH. eapply Hi; eassumption.
Qed.

(* ---------------------------------------------------------------- the typed readers *)

Section Typed.
Context {T C S : Type}.
Notation val := (pyval T C S).

Lemma strs_of_vals_map (l : list pstr) : @strs_of_vals T C S (map VStr l) = Some l.
Proof. induction l as [|s r IH]; cbn; [reflexivity|]. now rewrite IH. Qed.

Lemma item_of_val_of (i : rt_item T) : @item_of_val T C S (val_of_item i) = Some i.
Proof. destruct i as [vs p]. unfold val_of_item, item_of_val. cbn. now rewrite strs_of_vals_map. Qed.

Lemma items_of_val_of (l : list (rt_item T)) : @items_of_val T C S (val_of_items l) = Some l.
Proof.
  unfold items_of_val, val_of_items. induction l as [|i r IH]; cbn [map items_of_vals]; [reflexivity|].
  now rewrite item_of_val_of, IH.
Qed.

Lemma counter_of_val_of (d : list (pstr * T)) : @counter_of_val T C S (val_of_counter d) = Some d.
Proof.
  unfold counter_of_val, val_of_counter. induction d as [|[k p] r IH]; cbn [map counter_of_vals fst snd]; [reflexivity|].
  now rewrite IH.
Qed.

End Typed.

(* ---------------------------------------------------------------- indices (the lemmas of LoaderGenProofs.v, repeated
   here so that these files do not depend on gen/Loader_gen.v) *)

Lemma rt_index_0 {X} (x : X) l : rt_index (x :: l) 0 = Done x.
Proof.
  unfold rt_index, rt_pos. cbn [Z.ltb Z.compare length].
  replace (Z.of_nat (S (length l)) <=? 0)%Z with false by (symmetry; apply Z.leb_gt; lia). reflexivity.
Qed.

Lemma rt_index_1 {X} (x y : X) l : rt_index (x :: y :: l) 1 = Done y.
Proof.
  unfold rt_index, rt_pos. cbn [Z.ltb Z.compare length].
  replace (Z.of_nat (S (S (length l))) <=? 1)%Z with false by (symmetry; apply Z.leb_gt; lia). reflexivity.
Qed.

Lemma rt_pos_last n : rt_pos (S n) (-1) = Some n.
Proof.
  unfold rt_pos. cbn [Z.ltb Z.compare].
  replace (-1 + Z.of_nat (S n))%Z with (Z.of_nat n) by lia.
  replace (Z.of_nat n <? 0)%Z with false by (symmetry; apply Z.ltb_ge; lia).
  replace (Z.of_nat (S n) <=? Z.of_nat n)%Z with false by (symmetry; apply Z.leb_gt; lia).
  now rewrite Nat2Z.id.
Qed.

Lemma rt_index_last {X} (G : list X) x : rt_index (G ++ [x]) (-1) = Done x.
Proof.
  unfold rt_index. rewrite app_length, Nat.add_1_r, rt_pos_last.
  rewrite nth_error_app2 by lia. now rewrite Nat.sub_diag.
Qed.

Lemma list_last_cases {X} (l : list X) : l = [] \/ exists G x, l = G ++ [x].
Proof. destruct l as [|a r]; [now left|]. right. destruct (exists_last (l := a :: r)) as (G & x & E); [discriminate|]. now exists G, x. Qed.

(* ---------------------------------------------------------------- small facts used by the equality proofs *)

Lemma if_same {A : Type} (c : bool) (x : A) : (if c then x else x) = x.
Proof. now destruct c. Qed.

Lemma fold_stop_inl {X M R : Type} (f : X -> M -> M) (l : list X) (m : M) :
  @fold_stop X M R (fun x m => inl (f x m)) l m = inl (fold_left (fun m x => f x m) l m).
Proof. revert m. induction l as [|x r IH]; intros m; cbn; [reflexivity | apply IH]. Qed.

Lemma combine_snoc {A B : Type} (a : list A) (b : list B) x y :
  length a = length b -> combine (a ++ [x]) (b ++ [y]) = combine a b ++ [(x, y)].
Proof.
  revert b. induction a as [|a0 a IH]; destruct b as [|b0 b]; cbn; intros H; try discriminate; [reflexivity|].
  now rewrite IH by (now inversion H).
Qed.

Lemma getitem_dict_found {T C S : Type} (O : cfg_oracles T C S) (d : list (pyval T C S * pyval T C S)) k v :
  is_key k = true -> dfind k d = Some v -> dy_getitem O (VDict d) k = XDone v.
Proof. intros Hk Hf. unfold dy_getitem. now rewrite Hk, Hf. Qed.

Lemma getattr_found {T C S : Type} (a : list (pstr * pyval T C S)) n v :
  afind n a = Some v -> dy_getattr (VObj a) n = XDone v.
Proof. intros Hf. unfold dy_getattr. now rewrite Hf. Qed.

Lemma rt_len_3 {X : Type} (a b c : X) r : (rt_len (a :: b :: c :: r) =? 2)%Z = false.
Proof. apply Z.eqb_neq. unfold rt_len. cbn [length]. lia. Qed.

Lemma getitem_0 {T C S : Type} (O : cfg_oracles T C S) (a : pyval T C S) l : dy_getitem O (VList (a :: l)) (VInt 0) = XDone a.
Proof. unfold dy_getitem. now rewrite rt_index_0. Qed.
Lemma getitem_1 {T C S : Type} (O : cfg_oracles T C S) (a b : pyval T C S) l : dy_getitem O (VList (a :: b :: l)) (VInt 1) = XDone b.
Proof. unfold dy_getitem. now rewrite rt_index_1. Qed.

(* a loop over the lines of a file is the fold of STEP over the model states encoded by ENC, from M0;
   first goal: the body is STEP on encoded states, second goal: what follows the loop *)
Ltac lines_loop ENC STEP M0 :=
  match goal with |- context [rt_for_lines ?all ?rest ?body ?s0 rt_no_else_file ?k] =>
    let HB := fresh "HB" in
    assert (HB : forall ln m, body ln (ENC m) = match STEP ln m with inl m' => FCont (ENC m') | inr v => FRet v end);
    [ cbv beta
    | rewrite (for_lines_fold ENC STEP body k HB rest all M0 : rt_for_lines all rest body s0 rt_no_else_file k = _);
      clear HB ]
  end.

(* ---------------------------------------------------------------- one-step rewriting lemmas (used where `cbn` on a
   whole generated function would leave conversions that are slow to re-check at Qed) *)

Lemma xbind_done {X Y : Type} (x : X) (h : xexn -> Y) (k : X -> Y) : xbind (XDone x) h k = k x.
Proof. reflexivity. Qed.
Lemma xbind_fail {X Y : Type} (e : xexn) (h : xexn -> Y) (k : X -> Y) : xbind (@XFail X e) h k = h e.
Proof. reflexivity. Qed.
Lemma xthen_done {X Y : Type} (x : X) (k : X -> xres Y) : xthen (XDone x) k = k x.
Proof. reflexivity. Qed.
Lemma xthen_fail {X Y : Type} (e : xexn) (k : X -> xres Y) : xthen (@XFail X e) k = XFail e.
Proof. reflexivity. Qed.

Section Steps.
Context {T C S : Type}.
Notation val := (pyval T C S).

Lemma path_join_strs (pj : list pstr -> pstr) (l : list pstr) :
  @dy_path_join T C S pj (map VStr l) = XDone (VStr (pj l)).
Proof.
  unfold dy_path_join. assert (H : @strs_of T C S (map VStr l) = Some l).
  { induction l as [|s r IH]; cbn [map strs_of]; [reflexivity | now rewrite IH]. }
  now rewrite H.
Qed.

Lemma truth_bool (b : bool) : @dy_truth T C S (VBool b) = XDone b.
Proof. reflexivity. Qed.

Lemma upd_attr_set (a : list (pstr * val)) n (v old : val) :
  afind n a = Some old -> dy_upd_attr (VObj a) n (fun _ => XDone v) = XDone (VObj (aput n v a)).
Proof. intros H. now rewrite (upd_attr_found a n old _ H). Qed.

Lemma setattr_obj (a : list (pstr * val)) n (v : val) : dy_setattr (VObj a) n v = XDone (VObj (aput n v a)).
Proof. reflexivity. Qed.

Lemma call_scorer_empty (f : list (pstr * T) -> pstr -> pstr -> outcome (list (pstr * T) * bool)) path enc :
  @call_scorer_load_from_file T C S f (VDict []) (VStr path) (VStr enc) =
  match f [] path enc with
  | Done (d, b) => XDone (val_of_counter d, VBool b)
  | Fail e => XFail (XBase e)
  end.
Proof. unfold call_scorer_load_from_file. cbn [counter_of_val counter_of_vals]. now destruct (f [] path enc) as [[d b]|e]. Qed.

Lemma cfg_read_file_new (O : cfg_oracles T C S) n :
  dy_cfg_read_file O VCfgNew (VStr n) = xthen (cp_read_file O n) (fun x => XDone (VCfg x)).
Proof. reflexivity. Qed.

Lemma cfg_get_str (O : cfg_oracles T C S) c s o :
  dy_cfg_get O (VCfg c) (VStr s) (VStr o) = xthen (cp_get O c s o) (fun v => XDone (VStr v)).
Proof. reflexivity. Qed.

Lemma getitem_cfg (O : cfg_oracles T C S) c s :
  dy_getitem O (VCfg c) (VStr s) = xthen (cp_section O c s) (fun r => XDone (VSect r)).
Proof. reflexivity. Qed.

End Steps.
