(* R4: the session-restore walk with the strict comparison `<` of the code as
   found (is_parent_around, pcfg_grammar.py:859-896) does NOT rebuild the
   frontier.  Concrete binary64 witness; everything is decided by computation.
   (Note: vm_compute is only applied to goals whose types do not mention
   [item F64] -- normalising the [F64] record inside a type argument diverges
   in practice; the other goals are closed by [reflexivity].) *)
From Coq Require Import List Arith Bool Floats Sorting.Permutation.
From Pcfg Require Import ProbAlg F64 Next NextSpec.
Import ListNotations.

Definition rs1 : ruleset F64 :=
  @Build_ruleset F64
    [[0x1p-1; 0x1p-2]; [0x1p-1; 0x1.999999999999ap-4]]%float
    [@Build_bstruct F64 1%float [0; 1]].

Definition m1 : P F64 := 0x1.999999999999ap-5%float.

Definition show (l : list (item F64)) := map (fun it => (itag it, map snd (ipt it))) l.

Lemma rs1_wfb : wfb rs1 = true.
Proof. vm_compute. reflexivity. Qed.

Lemma m1_ok : @okb F64 m1 = true.
Proof. vm_compute. reflexivity. Qed.

(* the code as found restores [0;1] (probability exactly m) and also its child [1;1] *)
Lemma restored_strict_rs1 : show (restored_gen true rs1 m1) = [(0, [1; 1]); (0, [0; 1])].
Proof. vm_compute. reflexivity. Qed.

(* the repaired code restores only [0;1] *)
Lemma restored_nonstrict_rs1 : show (restored_gen false rs1 m1) = [(0, [0; 1])].
Proof. vm_compute. reflexivity. Qed.

Lemma frontier_rs1 : show (filter (frontierb rs1 m1) (all_preterminals rs1)) = [(0, [0; 1])].
Proof. vm_compute. reflexivity. Qed.

Definition child1  : item F64 := mk rs1 0 [(0, 1); (1, 1)] 1%float.
Definition parent1 : item F64 := mk rs1 0 [(0, 0); (1, 1)] 1%float.

Lemma restored_strict_eq : restored_gen true rs1 m1 = [child1; parent1].
Proof. reflexivity. Qed.

Lemma restored_nonstrict_eq : restored_gen false rs1 m1 = [parent1].
Proof. reflexivity. Qed.

Lemma frontier_eq : filter (frontierb rs1 m1) (all_preterminals rs1) = [parent1].
Proof. reflexivity. Qed.

(* [0;1] is a parent of [1;1], has probability exactly m1, and both are restored *)
Lemma restored_strict_parent_and_child :
  In child1 (restored_gen true rs1 m1) /\
  In parent1 (restored_gen true rs1 m1) /\
  In parent1 (parents rs1 child1) /\
  @peq F64 (iprob parent1) m1 = true /\
  frontierb rs1 m1 child1 = false /\
  frontierb rs1 m1 parent1 = true.
Proof.
  rewrite restored_strict_eq.
  split; [left; reflexivity|].
  split; [right; left; reflexivity|].
  split; [left; reflexivity|].
  split; [vm_compute; reflexivity|].
  split; vm_compute; reflexivity.
Qed.

Theorem restore_strict_refuted :
  length (restored_gen true rs1 m1) = 2 /\
  length (filter (frontierb rs1 m1) (all_preterminals rs1)) = 1.
Proof. vm_compute. split; reflexivity. Qed.

Corollary restore_strict_not_frontier :
  ~ Permutation (restored_gen true rs1 m1) (filter (frontierb rs1 m1) (all_preterminals rs1)).
Proof.
  intros H. apply Permutation_length in H.
  destruct restore_strict_refuted as [H1 H2]. rewrite H1, H2 in H. discriminate.
Qed.
