(* C13, the guesser's side: the tables the scorer loaded, seen as the
   guesser's grammar -- Next-style tables of group probabilities (adjacent
   values of equal probability form one group, as lib_guesser/grammar_io
   _load_from_file does) with Expand-style value groups -- and the proof that a
   string the relation [generates] derives with probability p is a guess
   (Expand.denote) of a pre-terminal (NextSpec.all_preterminals) of that
   probability, over exact rationals (QProb). *)
From Coq Require Import List ZArith NArith Bool Lia QArith Setoid Arith.
From Pcfg Require Import ProbAlg Next NextSpec NextProofs QProb Expand.
From Pcfg Require Import Str Detect Segment Scorer ScorerProofs.
Import ListNotations.

Notation rsQ := (Scorer.ruleset Q).

(* ---- groups of equal probability *)

Fixpoint grp (e : entries Q) : list (Q * list Str.str) :=
  match e with
  | [] => []
  | (v, p) :: r =>
      match grp r with
      | (q, vs) :: gs => if Qeq_bool p q then (p, v :: vs) :: gs else (p, [v]) :: (q, vs) :: gs
      | [] => [(p, [v])]
      end
  end.

Lemma grp_In : forall e v p, In (v, p) e ->
  exists i q vs, nth_error (grp e) i = Some (q, vs) /\ (q == p)%Q /\ In v vs.
Proof.
  induction e as [|[v0 p0] r IH]; intros v p Hin; [contradiction|]. simpl.
  destruct Hin as [E|Hin].
  - injection E as -> ->. destruct (grp r) as [|[q vs] gs].
    + exists O, p, [v]. split; [reflexivity|]. split; [reflexivity|now left].
    + destruct (Qeq_bool p q); exists O; eexists _, _; (split; [reflexivity|]); (split; [reflexivity|now left]).
  - destruct (IH v p Hin) as (i & q & vs & Hn & Hq & Hv).
    destruct (grp r) as [|[q0 vs0] gs] eqn:Eg; [destruct i; discriminate|].
    destruct (Qeq_bool p0 q0) eqn:Eq.
    + destruct i as [|i].
      * simpl in Hn. injection Hn as <- <-. exists O, p0, (v0 :: vs0). split; [reflexivity|]. split; [|now right].
        apply Qeq_bool_iff in Eq. now rewrite Eq.
      * exists (S i), q, vs. split; [exact Hn|]. split; assumption.
    + exists (S i), q, vs. split; [exact Hn|]. split; assumption.
Qed.

(* ---- variables *)

Inductive vkey := VK (n : Z) | VY | VX | VA (n : Z) | VC (n : Z) | VD (n : Z) | VO (n : Z).

Definition vkey_eqb (a b : vkey) : bool :=
  match a, b with
  | VK n, VK m | VA n, VA m | VC n, VC m | VD n, VD m | VO n, VO m => Z.eqb n m
  | VY, VY | VX, VX => true
  | _, _ => false
  end.

Lemma vkey_eqb_eq a b : vkey_eqb a b = true <-> a = b.
Proof.
  destruct a, b; simpl; split; intros H; try discriminate; try reflexivity;
    try (apply Z.eqb_eq in H; now subst); try (injection H as ->; apply Z.eqb_refl).
Qed.

Definition gvar := (vkey * list (Q * list Str.str))%type.

Definition tab (t : list (Z * entries Q)) (n : Z) : entries Q :=
  match by_len Q t n with Some e => e | None => [] end.

Definition len_vars (mk : Z -> vkey) (t : list (Z * entries Q)) : list gvar :=
  map (fun ke => (mk (fst ke), grp (tab t (fst ke)))) t.

Definition gvars (rs : rsQ) : list gvar :=
  len_vars VK (r_keyboard Q rs) ++ [(VY, grp (r_years Q rs)); (VX, grp (r_context Q rs))] ++
  len_vars VA (r_alpha Q rs) ++ len_vars VC (r_masks Q rs) ++
  len_vars VD (r_digits Q rs) ++ len_vars VO (r_other Q rs).

(* the groups a key stands for *)
Definition key_groups (rs : rsQ) (k : vkey) : list (Q * list Str.str) :=
  match k with
  | VK n => grp (tab (r_keyboard Q rs) n) | VY => grp (r_years Q rs) | VX => grp (r_context Q rs)
  | VA n => grp (tab (r_alpha Q rs) n) | VC n => grp (tab (r_masks Q rs) n)
  | VD n => grp (tab (r_digits Q rs) n) | VO n => grp (tab (r_other Q rs) n)
  end.

Lemma len_vars_In mk t k G : In (k, G) (len_vars mk t) -> exists n, k = mk n /\ G = grp (tab t n).
Proof. unfold len_vars. intros H. apply in_map_iff in H. destruct H as ([n e] & E & _). injection E as <- <-. now exists n. Qed.

Lemma gvars_groups rs k G : In (k, G) (gvars rs) -> G = key_groups rs k.
Proof.
  unfold gvars. rewrite !in_app_iff. simpl.
  intros [H|[[H|[H|[]]]|[H|[H|[H|H]]]]];
    try (apply len_vars_In in H; destruct H as (n & -> & ->); reflexivity);
    injection H as <- <-; reflexivity.
Qed.

Lemma by_len_In (t : list (Z * entries Q)) n : forall e, by_len Q t n = Some e -> exists e', In (n, e') t.
Proof.
  induction t as [|[k e0] r IH]; intros e; simpl; [discriminate|].
  destruct (by_len Q r n) as [e1|] eqn:E.
  - intros _. destruct (IH e1 eq_refl) as (e' & H). exists e'. now right.
  - destruct (Z.eqb k n) eqn:Ek; [|discriminate]. intros _. apply Z.eqb_eq in Ek. subst. exists e0. now left.
Qed.

Lemma len_vars_has mk t n e : by_len Q t n = Some e -> In (mk n, grp (tab t n)) (len_vars mk t).
Proof.
  intros H. destruct (by_len_In t n e H) as (e' & Hin). unfold len_vars. apply in_map_iff.
  exists (n, e'). split; [reflexivity|assumption].
Qed.

Fixpoint vfind (k : vkey) (l : list gvar) (i : nat) : option nat :=
  match l with
  | [] => None
  | g :: r => if vkey_eqb (fst g) k then Some i else vfind k r (S i)
  end.

Lemma vfind_spec k : forall l i0 G, In (k, G) l ->
  exists i G', vfind k l i0 = Some (i0 + i)%nat /\ nth_error l i = Some (k, G').
Proof.
  induction l as [|[k0 G0] r IH]; intros i0 G Hin; [contradiction|]. simpl.
  destruct (vkey_eqb k0 k) eqn:E.
  - apply vkey_eqb_eq in E. subst. exists O, G0. split; [f_equal; lia|reflexivity].
  - destruct Hin as [H|H]; [injection H as -> _; rewrite (proj2 (vkey_eqb_eq k k) eq_refl) in E; discriminate|].
    destruct (IH (S i0) G H) as (i & G' & Hf & Hn). exists (S i), G'. split; [rewrite Hf; f_equal; lia|exact Hn].
Qed.

Definition vid (rs : rsQ) (k : vkey) : nat :=
  match vfind k (gvars rs) 0 with Some i => i | None => length (gvars rs) end.

(* the guesser's replacements for one label of a base structure: an alpha
   variable is followed by its capitalisation variable; E / W have no table
   here (an index beyond the table: no pre-terminal) *)
Definition label_vars (rs : rsQ) (l : label) : list nat :=
  match l with
  | LK n => [vid rs (VK n)] | LY => [vid rs VY] | LX => [vid rs VX]
  | LA n => [vid rs (VA n); vid rs (VC n)]
  | LD n => [vid rs (VD n)] | LO n => [vid rs (VO n)]
  | LE | LW => [length (gvars rs)]
  end.

Definition guesser_view (rs : rsQ) : Next.ruleset QProb :=
  @Next.Build_ruleset QProb (map (fun g : gvar => map fst (snd g)) (gvars rs))
    (map (fun b : list label * Q => @Next.Build_bstruct QProb (snd b) (flat_map (label_vars rs) (fst b))) (r_bases Q rs)).

Lemma vid_groups rs k : In (k, key_groups rs k) (gvars rs) ->
  groups (guesser_view rs) (vid rs k) = map fst (key_groups rs k) /\
  nth (vid rs k) (gvars rs) (k, []) = (k, key_groups rs k).
Proof.
  intros Hin. destruct (vfind_spec k (gvars rs) 0 _ Hin) as (i & G' & Hf & Hn).
  unfold vid. rewrite Hf. simpl.
  assert (HG : G' = key_groups rs k) by (apply gvars_groups; eapply nth_error_In; eassumption). subst G'.
  split.
  - unfold groups, guesser_view. simpl.
    rewrite (nth_indep _ [] (map fst (snd (k, @nil (Q * list Str.str))))).
    + rewrite (map_nth (fun g : gvar => map fst (snd g))). now rewrite (nth_error_nth _ _ _ Hn).
    + rewrite map_length. apply (proj1 (nth_error_Some (gvars rs) i)). unfold gvar. rewrite Hn. discriminate.
  - now apply nth_error_nth.
Qed.

(* the values of group i of a key *)
Definition vals_of (rs : rsQ) (k : vkey) (i : nat) : list Str.str :=
  snd (nth i (snd (nth (vid rs k) (gvars rs) (k, []))) (0%Q, [])).

(* the pre-terminal (base structure labels + group indices) as Expand segments *)
Fixpoint segs (rs : rsQ) (ls : list label) (idxs : list nat) : list seg :=
  match ls with
  | [] => []
  | l :: r =>
      match l, idxs with
      | LK n, i :: t => SegPlain (vals_of rs (VK n) i) :: segs rs r t
      | LY, i :: t => SegPlain (vals_of rs VY i) :: segs rs r t
      | LX, i :: t => SegPlain (vals_of rs VX i) :: segs rs r t
      | LD n, i :: t => SegPlain (vals_of rs (VD n) i) :: segs rs r t
      | LO n, i :: t => SegPlain (vals_of rs (VO n) i) :: segs rs r t
      | LA n, i :: j :: t => SegAlpha (vals_of rs (VA n) i) (vals_of rs (VC n) j) :: segs rs r t
      | _, _ => []
      end
  end.

Definition segs_of (rs : rsQ) (it : item QProb) : list seg :=
  match nth_error (r_bases Q rs) (itag it) with
  | Some b => segs rs (fst b) (map snd (ipt it))
  | None => []
  end.

(* ---- a derivation is a guess of a pre-terminal *)

Section Tie.
Variable upper_c : N -> Str.str.

Lemma mask_total_apply : forall m w, mask_total upper_c m w = apply_mask upper_c m w.
Proof.
  induction m as [|x m IH]; intros w; [reflexivity|]. destruct w as [|c w]; [reflexivity|].
  unfold mask_total in *. simpl. now rewrite IH.
Qed.

Lemma product_In : forall (texts : list Str.str) (cs : list (list Str.str)),
  Forall2 (fun t c => In t c) texts cs -> In (concat texts) (Expand.product cs).
Proof.
  induction 1 as [|t c ts cs Ht _ IH]; [now left|]. simpl. apply in_flat_map. exists t. split; [assumption|].
  apply in_map. exact IH.
Qed.

Lemma map_snd_combine {X Y} : forall (a : list X) (b : list Y), length a = length b -> map snd (combine a b) = b.
Proof. induction a as [|x a IH]; intros [|y b] H; simpl in *; try discriminate; [reflexivity|]. f_equal. apply IH. lia. Qed.

Notation gv := guesser_view.

(* one table entry as a group index *)
Lemma key_pick rs k (e : entries Q) v p :
  In (k, key_groups rs k) (gvars rs) -> key_groups rs k = grp e -> In (v, p) e ->
  exists i, (i < length (groups (gv rs) (vid rs k)))%nat /\
            (forall d, (@gp QProb (gv rs) d (vid rs k, i) == p)%Q) /\ In v (vals_of rs k i).
Proof.
  intros Hk Hg Hin. destruct (vid_groups rs k Hk) as (Egr & Enth).
  destruct (grp_In e v p Hin) as (i & q & vs & Hn & Hq & Hv).
  exists i. rewrite Egr, Hg. split; [|split].
  - rewrite map_length. apply nth_error_Some. rewrite Hn. discriminate.
  - intros d. unfold gp. simpl fst. simpl snd. rewrite Egr, Hg.
    assert (En : nth_error (map fst (grp e)) i = Some q) by (now rewrite nth_error_map, Hn).
    now rewrite (nth_error_nth _ _ _ En).
  - unfold vals_of. rewrite Enth. simpl. rewrite Hg. now rewrite (nth_error_nth _ _ _ Hn).
Qed.

Lemma present_len mk t n e rs pre post : gvars rs = pre ++ len_vars mk t ++ post ->
  by_len Q t n = Some e -> In (mk n, grp (tab t n)) (gvars rs).
Proof. intros -> H. rewrite !in_app_iff. right. left. now apply len_vars_has with (e := e). Qed.

Lemma tab_some t n e : by_len Q t n = Some e -> tab t n = e.
Proof. unfold tab. now intros ->. Qed.

Lemma picks_pt rs : forall ls picks,
  Forall2 (fun l tp => pick_ok upper_c rs l (fst tp) (snd tp)) ls picks ->
  exists idxs,
    Forall2 lt idxs (map (fun v => length (groups (gv rs) v)) (flat_map (label_vars rs) ls)) /\
    (forall d, (gprod (gv rs) d (combine (flat_map (label_vars rs) ls) idxs) == qprod (map snd picks))%Q) /\
    Forall2 (fun t sg => In t (seg_choices upper_c sg)) (map fst picks) (segs rs ls idxs).
Proof.
  induction 1 as [|l [t q] ls picks Hp _ (idxs & Hlt & Hprod & Hseg)].
  - exists []. split; [constructor|]. split; [intros d; reflexivity|constructor].
  - simpl in Hp.
    (* a plain variable *)
    assert (Hplain : forall k e v p, In (k, key_groups rs k) (gvars rs) -> key_groups rs k = grp e -> In (v, p) e ->
              label_vars rs l = [vid rs k] -> (forall i t0, segs rs (l :: ls) (i :: t0) = SegPlain (vals_of rs k i) :: segs rs ls t0) ->
              t = v -> q = p ->
              exists idxs0,
                Forall2 lt idxs0 (map (fun v0 => length (groups (gv rs) v0)) (flat_map (label_vars rs) (l :: ls))) /\
                (forall d, (gprod (gv rs) d (combine (flat_map (label_vars rs) (l :: ls)) idxs0) == qprod (map snd ((t, q) :: picks)))%Q) /\
                Forall2 (fun t1 sg => In t1 (seg_choices upper_c sg)) (map fst ((t, q) :: picks)) (segs rs (l :: ls) idxs0)).
    { intros k e v p Hk Hg Hin Hlv Hsg -> ->. destruct (key_pick rs k e v p Hk Hg Hin) as (i & Hi & Hgp & Hv).
      exists (i :: idxs). rewrite Hsg. simpl flat_map. rewrite Hlv. simpl. split; [constructor; assumption|]. split.
      - intros d. rewrite Hgp, Hprod. reflexivity.
      - constructor; [exact Hv|exact Hseg]. }
    inversion Hp as [n e v p He Hin|v p Hin|v p Hin|n e em w pw mask pmk He Hw Hem Hm|n e v p He Hin|n e v p He Hin]; subst.
    + apply (Hplain (VK n) e t q); try reflexivity; try assumption.
      * apply (present_len VK _ n e rs [] _ eq_refl He).
      * simpl. now rewrite (tab_some _ _ _ He).
    + apply (Hplain VY (r_years Q rs) t q); try reflexivity; try assumption.
      unfold gvars. rewrite !in_app_iff. right. left. now left.
    + apply (Hplain VX (r_context Q rs) t q); try reflexivity; try assumption.
      unfold gvars. rewrite !in_app_iff. right. left. right. now left.
    + (* alpha: word and mask *)
      assert (HkA : In (VA n, key_groups rs (VA n)) (gvars rs)).
      { unfold gvars. rewrite !in_app_iff. right. right. left. now apply len_vars_has with (e := e). }
      assert (HkC : In (VC n, key_groups rs (VC n)) (gvars rs)).
      { unfold gvars. rewrite !in_app_iff. right. right. right. left. now apply len_vars_has with (e := em). }
      destruct (key_pick rs (VA n) e w pw HkA ltac:(simpl; now rewrite (tab_some _ _ _ He)) Hw) as (i & Hi & Hgi & Hvi).
      destruct (key_pick rs (VC n) em mask pmk HkC ltac:(simpl; now rewrite (tab_some _ _ _ Hem)) Hm) as (j & Hj & Hgj & Hvj).
      exists (i :: j :: idxs). simpl. split; [constructor; [assumption|constructor; assumption]|]. split.
      * intros d. rewrite Hgi, Hgj, Hprod. ring.
      * constructor; [|exact Hseg]. simpl. apply in_flat_map. exists w. split; [assumption|].
        apply in_map_iff. exists mask. split; [apply mask_total_apply|assumption].
    + apply (Hplain (VD n) e t q); try reflexivity; try assumption.
      * unfold gvars. rewrite !in_app_iff. do 4 right. left. now apply len_vars_has with (e := e).
      * simpl. now rewrite (tab_some _ _ _ He).
    + apply (Hplain (VO n) e t q); try reflexivity; try assumption.
      * unfold gvars. rewrite !in_app_iff. do 5 right. now apply len_vars_has with (e := e).
      * simpl. now rewrite (tab_some _ _ _ He).
Qed.

(* C13's guesser side, literally about the guesser model of C02 / C04 *)
Theorem generates_preterminal rs s p : generates upper_c rs s p ->
  exists it : item QProb, In it (all_preterminals (gv rs)) /\ In s (denote upper_c (segs_of rs it)) /\
                          (iprob it == p)%Q.
Proof.
  intros (ls & bp & picks & Hin & Hf & Hs & Hp).
  destruct (In_nth_error _ _ Hin) as (k & Hk).
  destruct (picks_pt rs ls picks Hf) as (idxs & Hlt & Hprod & Hseg).
  set (vs := flat_map (label_vars rs) ls) in *.
  assert (Hlen : length vs = length idxs).
  { pose proof (Forall2_len _ _ _ Hlt) as Hl. rewrite map_length in Hl. symmetry. exact Hl. }
  exists (@mk QProb (gv rs) k (combine vs idxs) bp). split; [|split].
  - apply In_all_preterminals. exists (@Next.Build_bstruct QProb bp vs). simpl. repeat split.
    + unfold guesser_view. simpl. rewrite nth_error_map, Hk. reflexivity.
    + apply map_fst_combine. exact Hlen.
    + apply Forall2_lt_combine. exact Hlt.
  - unfold segs_of. simpl. rewrite Hk. simpl. assert (Ems : @map (prod var nat) nat (@snd var nat) (@combine nat nat vs idxs) = idxs)
      by (apply (@map_snd_combine nat nat); exact Hlen).
    rewrite Ems.
    subst s. unfold denote. apply product_In. clear -Hseg.
    induction Hseg; simpl; constructor; assumption.
  - simpl. rewrite find_prob_Q_factor, Hprod, Hp. reflexivity.
Qed.

End Tie.

(* ---- correspondence helpers: the view against what the real guesser loaded
   (variable name -> groups of (probability, values); base structures as lists
   of variable names), with the floats of the files as exact rationals *)

Definition label_keys (l : label) : list vkey :=
  match l with
  | LK n => [VK n] | LY => [VY] | LX => [VX] | LA n => [VA n; VC n] | LD n => [VD n] | LO n => [VO n]
  | LE | LW => []
  end.

Lemma label_vars_keys rs l : label_keys l <> [] -> label_vars rs l = map (vid rs) (label_keys l).
Proof. destruct l; simpl; intros H; try reflexivity; congruence. Qed.

Fixpoint list_eqb {X} (e : X -> X -> bool) (a b : list X) : bool :=
  match a, b with
  | [], [] => true
  | x :: a', y :: b' => e x y && list_eqb e a' b'
  | _, _ => false
  end.

Definition group_eqb (a b : Q * list Str.str) : bool := Qeq_bool (fst a) (fst b) && list_eqb str_eqb (snd a) (snd b).

Definition var_present (rs : rsQ) (k : vkey) : bool :=
  match vfind k (gvars rs) 0 with Some _ => true | None => false end.

Definition check_var (rs : rsQ) (x : vkey * list (Q * list Str.str)) : bool :=
  var_present rs (fst x) && list_eqb group_eqb (key_groups rs (fst x)) (snd x) &&
  list_eqb group_eqb (snd (nth (vid rs (fst x)) (gvars rs) (fst x, []))) (snd x).

Definition check_base (rs : rsQ) (b : list label * Q) (x : list vkey * Q) : bool :=
  list_eqb vkey_eqb (flat_map label_keys (fst b)) (fst x) && Qeq_bool (snd b) (snd x).

Definition failing_idx {X} (f : X -> bool) (l : list X) : list nat :=
  map fst (filter (fun kx => negb (f (snd kx))) (combine (seq 0 (length l)) l)).

(* indices of variables that differ, then 1000 + indices of base structures that differ *)
Definition gview_check (rs : rsQ) (vars : list (vkey * list (Q * list Str.str))) (bases : list (list vkey * Q)) : list nat :=
  failing_idx (check_var rs) vars ++
  (if Nat.eqb (length (r_bases Q rs)) (length bases)
   then map (fun i => (1000 + i)%nat)
            (failing_idx (fun bx => check_base rs (fst bx) (snd bx)) (combine (r_bases Q rs) bases))
   else [999%nat]).
