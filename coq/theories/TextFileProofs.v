(* TextFileProofs.v - the ruleset line format returns what was written:
   line splitting, rstrip, split on TAB, the guesser / scorer readers, the OMEN
   level files.  Generic in the code point classes; the concrete (probed)
   classes are plugged in by Props/C07.v together with the finite side
   conditions on them. *)
From Coq Require Import List NArith ZArith Bool Floats Lia.
From Pcfg Require Import TextFile.
Import ListNotations.
Open Scope N_scope.

(* ---------------------------------------------------------------- basics *)

Lemma str_eqb_true_iff : forall a b : str, str_eqb a b = true <-> a = b.
Proof.
  induction a as [|x a IH]; destruct b as [|y b]; simpl; split; intro H; try discriminate; try reflexivity.
  - apply andb_true_iff in H. destruct H as [H1 H2]. apply N.eqb_eq in H1. apply IH in H2. subst. reflexivity.
  - inversion H; subst. rewrite N.eqb_refl. simpl. apply IH. reflexivity.
Qed.

Lemma str_eqb_same : forall a, str_eqb a a = true.
Proof. intro a. apply str_eqb_true_iff. reflexivity. Qed.

Lemma str_eqb_false_iff : forall a b : str, str_eqb a b = false <-> a <> b.
Proof.
  intros a b. split.
  - intros H E. apply str_eqb_true_iff in E. congruence.
  - intro H. destruct (str_eqb a b) eqn:E; [apply str_eqb_true_iff in E; contradiction | reflexivity].
Qed.

Definition none_of (f : N -> bool) (s : str) : bool := forallb (fun c => negb (f c)) s.

Lemma none_of_app f a b : none_of f (a ++ b) = none_of f a && none_of f b.
Proof. unfold none_of. apply forallb_app. Qed.

Lemma none_of_cons f c s : none_of f (c :: s) = negb (f c) && none_of f s.
Proof. reflexivity. Qed.

Lemma none_of_in f s c : none_of f s = true -> In c s -> f c = false.
Proof.
  unfold none_of. intros H Hin. rewrite forallb_forall in H. specialize (H c Hin).
  destruct (f c); [discriminate | reflexivity].
Qed.

(* ---------------------------------------------------------------- lines *)

Section Lines.
  Variable lb : N -> bool.
  Hypothesis lb_LF : lb LF = true.

  Lemma concat_cons_first c L : concat (cons_first c L) = c :: concat L.
  Proof. destruct L; reflexivity. Qed.

  (* nothing is lost or invented by the line iteration *)
  Lemma lines_keep_concat : forall s, concat (lines_keep lb s) = s.
  Proof.
    induction s as [|c r IH]; simpl; [reflexivity|].
    destruct (ends_line lb c r); simpl.
    - rewrite IH. reflexivity.
    - rewrite concat_cons_first, IH. reflexivity.
  Qed.

  Lemma lines_keep_line : forall l rest, none_of lb l = true ->
    lines_keep lb (l ++ LF :: rest) = (l ++ [LF]) :: lines_keep lb rest.
  Proof.
    induction l as [|c l IH]; intros rest H.
    - simpl. unfold ends_line. rewrite lb_LF. simpl. reflexivity.
    - rewrite none_of_cons in H. apply andb_true_iff in H. destruct H as [Hc Hl].
      simpl. unfold ends_line. destruct (lb c); [discriminate|]. simpl.
      rewrite (IH rest Hl). reflexivity.
  Qed.

  Lemma lines_keep_lines : forall (ls : list str), Forall (fun l => none_of lb l = true) ls ->
    lines_keep lb (flat_map (fun l => l ++ [LF]) ls) = map (fun l => l ++ [LF]) ls.
  Proof.
    induction ls as [|l ls IH]; intro H; [reflexivity|].
    inversion H; subst. simpl. rewrite <- app_assoc. simpl.
    rewrite lines_keep_line by assumption. rewrite IH by assumption. reflexivity.
  Qed.
End Lines.

(* universal newlines leave a text without CR alone *)
Lemma univ_nl_id : forall s, none_of (N.eqb CR) s = true -> univ_nl s = s.
Proof.
  induction s as [|c r IH]; intro H; [reflexivity|].
  rewrite none_of_cons in H. apply andb_true_iff in H. destruct H as [Hc Hr].
  simpl. rewrite N.eqb_sym. destruct (N.eqb CR c); [discriminate|]. rewrite IH by assumption. reflexivity.
Qed.

(* ---------------------------------------------------------------- strip *)

Lemma dropwhile_all f : forall a b, forallb f a = true -> dropwhile f (a ++ b) = dropwhile f b.
Proof.
  induction a as [|x a IH]; intros b H; [reflexivity|].
  simpl in *. apply andb_true_iff in H. destruct H as [Hx Ha]. rewrite Hx. apply IH. assumption.
Qed.

Lemma rstrip_app_all f a b : forallb f b = true -> rstrip f (a ++ b) = rstrip f a.
Proof.
  intro H. unfold rstrip. rewrite rev_app_distr. rewrite dropwhile_all; [reflexivity|].
  rewrite forallb_forall in *. intros x Hx. apply H. apply in_rev. assumption.
Qed.

Lemma rstrip_last f a x : f x = false -> rstrip f (a ++ [x]) = a ++ [x].
Proof.
  intro H. unfold rstrip. rewrite rev_app_distr. simpl. rewrite H. simpl. rewrite rev_involutive. reflexivity.
Qed.

Lemma rstrip_none f s : none_of f s = true -> rstrip f s = s.
Proof.
  intro H. destruct s as [|c r] using rev_ind; [reflexivity|].
  apply rstrip_last. apply (none_of_in f (r ++ [c])); [assumption | apply in_or_app; right; left; reflexivity].
Qed.

Lemma lstrip_app_all f a b : forallb f a = true -> lstrip f (a ++ b) = lstrip f b.
Proof. apply dropwhile_all. Qed.

Lemma lstrip_head f c s : f c = false -> lstrip f (c :: s) = c :: s.
Proof. intro H. unfold lstrip. simpl. rewrite H. reflexivity. Qed.

(* ---------------------------------------------------------------- split / join *)

Lemma split_on_none sep : forall s, none_of (N.eqb sep) s = true -> split_on sep s = [s].
Proof.
  induction s as [|c r IH]; intro H; [reflexivity|].
  rewrite none_of_cons in H. apply andb_true_iff in H. destruct H as [Hc Hr].
  simpl. rewrite N.eqb_sym. destruct (N.eqb sep c); [discriminate|]. rewrite IH by assumption. reflexivity.
Qed.

Lemma split_on_app sep : forall a b, none_of (N.eqb sep) a = true ->
  split_on sep (a ++ sep :: b) = a :: split_on sep b.
Proof.
  induction a as [|c a IH]; intros b H.
  - simpl. rewrite N.eqb_refl. reflexivity.
  - rewrite none_of_cons in H. apply andb_true_iff in H. destruct H as [Hc Ha].
    simpl. rewrite N.eqb_sym. destruct (N.eqb sep c); [discriminate|]. rewrite IH by assumption. reflexivity.
Qed.

Lemma split_on_nonempty sep s : split_on sep s <> [].
Proof.
  destruct s as [|c r]; simpl; [discriminate|].
  destruct (N.eqb c sep); [discriminate|]. destruct (split_on sep r); discriminate.
Qed.

Lemma join_split sep : forall s, join sep (split_on sep s) = s.
Proof.
  induction s as [|c r IH]; [reflexivity|].
  simpl. destruct (N.eqb c sep) eqn:E.
  - apply N.eqb_eq in E. subst c.
    destruct (split_on sep r) as [|l ls] eqn:Es; [exfalso; eapply split_on_nonempty; eassumption|].
    simpl in *. rewrite IH. reflexivity.
  - destruct (split_on sep r) as [|l ls] eqn:Es; [exfalso; eapply split_on_nonempty; eassumption|].
    simpl in *. destruct ls; simpl in *; rewrite <- IH; reflexivity.
Qed.

(* ---------------------------------------------------------------- int() on plain digit strings *)

Definition ascii_digit (c : N) : bool := (48 <=? c) && (c <=? 57).
Definition digits_value (s : str) : N := fold_left (fun a c => a * 10 + (c - 48)) s 0.

Section ParseInt.
  Variable iws : N -> bool.
  Variable dz : list N.
  (* finite facts about the probed tables, discharged by computation *)
  Hypothesis dz_ascii : forall c, ascii_digit c = true -> digit_val dz c = Some (c - 48).
  Hypothesis iws_digit : forall c, ascii_digit c = true -> iws c = false.

  Lemma ascii_digit_not_us c : ascii_digit c = true -> N.eqb c 95 = false.
  Proof. unfold ascii_digit. intro H. apply andb_true_iff in H. destruct H as [H1 H2].
         apply N.leb_le in H1, H2. apply N.eqb_neq. lia. Qed.

  Lemma int_digits_ascii : forall s acc b, forallb ascii_digit s = true -> (s <> [] \/ b = true) ->
    int_digits dz acc b s = Some (fold_left (fun a c => a * 10 + (c - 48)) s acc).
  Proof.
    induction s as [|c r IH]; intros acc b H Hne.
    - simpl. destruct Hne as [Hne|Hb]; [contradiction|]. rewrite Hb. reflexivity.
    - simpl in H. apply andb_true_iff in H. destruct H as [Hc Hr].
      simpl. rewrite (ascii_digit_not_us c Hc). rewrite (dz_ascii c Hc).
      apply IH; [assumption | right; reflexivity].
  Qed.

  Lemma parse_int_digits : forall s, s <> [] -> forallb ascii_digit s = true ->
    parse_int iws dz s = Some (Z.of_N (digits_value s)).
  Proof.
    intros s Hne H. unfold parse_int.
    assert (Hn : none_of iws s = true).
    { unfold none_of. rewrite forallb_forall in *. intros c Hc. rewrite iws_digit; [reflexivity|]. apply H. assumption. }
    destruct s as [|c r]; [contradiction|].
    assert (Hc : ascii_digit c = true) by (simpl in H; apply andb_true_iff in H; tauto).
    rewrite lstrip_head by (apply iws_digit; assumption).
    rewrite rstrip_none by assumption.
    assert (E1 : N.eqb c 43 = false).
    { unfold ascii_digit in Hc. apply andb_true_iff in Hc. destruct Hc as [H1 H2]. apply N.leb_le in H1, H2. apply N.eqb_neq. lia. }
    assert (E2 : N.eqb c 45 = false).
    { unfold ascii_digit in Hc. apply andb_true_iff in Hc. destruct Hc as [H1 H2]. apply N.leb_le in H1, H2. apply N.eqb_neq. lia. }
    rewrite E1, E2. rewrite int_digits_ascii; [reflexivity | assumption | left; discriminate].
  Qed.
End ParseInt.

(* ---------------------------------------------------------------- the ruleset line format *)

(* characters repr(float) can produce: 0-9 . e + - i n f a *)
Definition float_chars : list N := [48; 49; 50; 51; 52; 53; 54; 55; 56; 57; 46; 101; 43; 45; 105; 110; 102; 97].
Definition float_char (c : N) : bool := memN c float_chars.

Section LineFormat.
  Variable lb ws : N -> bool.
  Variable repr : float -> str.
  Variable pfloat : str -> option float.
  Variable encb : N -> bool.
  Variable onfail : enc_fail.
  (* side conditions on the classes (finite, discharged by computation on the probed lists) *)
  Hypothesis lb_LF : lb LF = true.
  Hypothesis ws_LF : ws LF = true.
  Hypothesis lb_TAB : lb TAB = false.
  Hypothesis fc_lb : forall c, float_char c = true -> lb c = false.
  Hypothesis fc_ws : forall c, float_char c = true -> ws c = false.

  (* a value the format can carry: no TAB, no line break *)
  Definition safe_value (v : str) : bool := none_of (fun c => lb c || N.eqb TAB c) v.

  (* what is assumed of repr / float() for the floats of the list *)
  Definition float_ok (p : float) : Prop :=
    pfloat (repr p) = Some p /\ repr p <> [] /\ forallb float_char (repr p) = true.

  Lemma float_char_not_tab c : float_char c = true -> N.eqb TAB c = false.
  Proof.
    unfold float_char, memN, float_chars. simpl. intro H.
    repeat (apply orb_true_iff in H; destruct H as [H|H]; [apply N.eqb_eq in H; subst c; reflexivity|]).
    discriminate.
  Qed.

  Lemma safe_value_lb v : safe_value v = true -> none_of lb v = true.
  Proof.
    unfold safe_value, none_of. rewrite !forallb_forall. intros H c Hc. specialize (H c Hc).
    destruct (lb c); [discriminate | reflexivity].
  Qed.

  Lemma safe_value_tab v : safe_value v = true -> none_of (N.eqb TAB) v = true.
  Proof.
    unfold safe_value, none_of. rewrite !forallb_forall. intros H c Hc. specialize (H c Hc).
    destruct (N.eqb TAB c); [rewrite orb_true_r in H; discriminate | reflexivity].
  Qed.

  Lemma repr_none_lb p : float_ok p -> none_of lb (repr p) = true.
  Proof.
    intros (_ & _ & H). unfold none_of. rewrite forallb_forall in *. intros c Hc.
    rewrite fc_lb; [reflexivity | apply H; assumption].
  Qed.

  Lemma repr_none_tab p : float_ok p -> none_of (N.eqb TAB) (repr p) = true.
  Proof.
    intros (_ & _ & H). unfold none_of. rewrite forallb_forall in *. intros c Hc.
    rewrite float_char_not_tab; [reflexivity | apply H; assumption].
  Qed.

  Lemma write_line_shape it : write_line repr it = (fst it ++ TAB :: repr (snd it)) ++ [LF].
  Proof. unfold write_line. rewrite <- app_assoc. reflexivity. Qed.

  Lemma body_none_lb v p : safe_value v = true -> float_ok p -> none_of lb (v ++ TAB :: repr p) = true.
  Proof.
    intros Hv Hp. rewrite none_of_app, none_of_cons. rewrite (safe_value_lb v Hv), lb_TAB, (repr_none_lb p Hp). reflexivity.
  Qed.

  (* the line iteration returns exactly the lines that were written *)
  Lemma lines_keep_write_file : forall l,
    Forall (fun it => safe_value (fst it) = true /\ float_ok (snd it)) l ->
    lines_keep lb (write_file repr l) = map (write_line repr) l.
  Proof.
    induction l as [|[v p] l IH]; intro H; [reflexivity|].
    inversion H as [|? ? [Hv Hp] Hl]; subst. simpl in Hv, Hp.
    unfold write_file. simpl. rewrite write_line_shape. simpl. rewrite <- app_assoc. simpl.
    rewrite (lines_keep_line lb lb_LF) by (apply body_none_lb; assumption).
    f_equal. apply IH. assumption.
  Qed.

  (* one written line parses back to the item *)
  Lemma parse_write_line v p : safe_value v = true -> float_ok p ->
    parse_line ws pfloat (write_line repr (v, p)) = Some (v, p).
  Proof.
    intros Hv Hp. unfold parse_line. rewrite write_line_shape. simpl fst; simpl snd.
    rewrite rstrip_app_all by (simpl; rewrite ws_LF; reflexivity).
    destruct Hp as (Hpf & Hne & Hfc).
    destruct (exists_last Hne) as (r' & x & Er).
    assert (Hx : ws x = false).
    { apply fc_ws. rewrite forallb_forall in Hfc. apply Hfc. rewrite Er. apply in_or_app. right. left. reflexivity. }
    replace (v ++ TAB :: repr p) with ((v ++ TAB :: r') ++ [x]) by (rewrite Er, <- app_assoc; reflexivity).
    rewrite rstrip_last by assumption.
    replace ((v ++ TAB :: r') ++ [x]) with (v ++ TAB :: repr p) by (rewrite Er, <- app_assoc; reflexivity).
    rewrite split_on_app by (apply safe_value_tab; assumption).
    rewrite split_on_none by (apply repr_none_tab; repeat split; assumption).
    rewrite Hpf. reflexivity.
  Qed.

  Lemma guesser_items_written : forall l,
    Forall (fun it => safe_value (fst it) = true /\ float_ok (snd it)) l ->
    Forall (fun it => forallb encb (write_line repr it) = true) l ->
    guesser_items ws pfloat encb onfail (map (write_line repr) l) false = Some l.
  Proof.
    induction l as [|[v p] l IH]; intros H He; [reflexivity|].
    inversion H as [|? ? [Hv Hp] Hl]; subst. inversion He as [|? ? He1 Hel]; subst.
    simpl map. simpl guesser_items. rewrite He1. simpl.
    rewrite parse_write_line by assumption. rewrite IH by assumption. reflexivity.
  Qed.

  Lemma group_items_ok l :
    match l with (v, p) :: _ => PrimFloat.eqb p (-1)%float = false | [] => True end ->
    group_items l = Some (group_by_prob l).
  Proof. destruct l as [|[v p] r]; intro H; [reflexivity|]. simpl. rewrite H. reflexivity. Qed.

  (* THE ROUND TRIP, guesser: what _load_from_file builds from a file the
     trainer wrote is the written list grouped by consecutive equal probability *)
  Theorem roundtrip_guesser : forall l,
    Forall (fun it => safe_value (fst it) = true /\ float_ok (snd it)) l ->
    Forall (fun it => forallb encb (write_line repr it) = true) l ->
    match l with (v, p) :: _ => PrimFloat.eqb p (-1)%float = false | [] => True end ->
    load_guesser lb ws pfloat encb onfail (write_file repr l) = Some (group_by_prob l).
  Proof.
    intros l H He H1. unfold load_guesser. rewrite lines_keep_write_file by assumption.
    rewrite guesser_items_written by assumption. apply group_items_ok. assumption.
  Qed.

  (* no value is lost or duplicated by the grouping, and the order is kept *)
  Lemma groups_values : forall l p vs,
    flat_map gvals (groups p vs l) = rev vs ++ map fst l.
  Proof.
    induction l as [|[v q] r IH]; intros p vs; simpl.
    - rewrite app_nil_r. reflexivity.
    - destruct (PrimFloat.eqb q p); simpl.
      + rewrite IH. simpl. rewrite <- app_assoc. reflexivity.
      + rewrite IH. simpl. reflexivity.
  Qed.

  Theorem group_by_prob_values l : flat_map gvals (group_by_prob l) = map fst l.
  Proof. destruct l as [|[v p] r]; [reflexivity|]. simpl. rewrite groups_values. reflexivity. Qed.

  (* scorer *)
  Lemma dict_set_fresh {V} : forall (d : list (str * V)) k v, ~ In k (map fst d) -> dict_set k v d = d ++ [(k, v)].
  Proof.
    induction d as [|[k' v'] d IH]; intros k v H; [reflexivity|].
    simpl. destruct (str_eqb k k') eqn:E.
    - apply str_eqb_true_iff in E. subst. exfalso. apply H. left. reflexivity.
    - rewrite IH; [reflexivity|]. intro Hin. apply H. right. assumption.
  Qed.

  Lemma scorer_items_written : forall l d,
    Forall (fun it => safe_value (fst it) = true /\ float_ok (snd it)) l ->
    Forall (fun it => forallb encb (write_line repr it) = true) l ->
    NoDup (map fst d ++ map fst l) ->
    scorer_items ws pfloat encb onfail (map (write_line repr) l) d = (true, d ++ l).
  Proof.
    induction l as [|[v p] l IH]; intros d H He Hnd.
    - simpl. rewrite app_nil_r. reflexivity.
    - inversion H as [|? ? [Hv Hp] Hl]; subst. inversion He as [|? ? He1 Hel]; subst.
      simpl map. simpl scorer_items. rewrite He1. simpl.
      rewrite parse_write_line by assumption.
      assert (Hfresh : ~ In v (map fst d)).
      { intro Hin. simpl in Hnd. apply NoDup_remove_2 in Hnd. apply Hnd. apply in_or_app. left. assumption. }
      rewrite dict_set_fresh by assumption.
      rewrite IH; [rewrite <- app_assoc; reflexivity | assumption | assumption |].
      rewrite map_app. simpl. rewrite <- app_assoc. simpl. simpl in Hnd. assumption.
  Qed.

  Theorem roundtrip_scorer : forall l,
    Forall (fun it => safe_value (fst it) = true /\ float_ok (snd it)) l ->
    Forall (fun it => forallb encb (write_line repr it) = true) l ->
    NoDup (map fst l) ->
    load_scorer lb ws pfloat encb onfail (write_file repr l) = (true, l).
  Proof.
    intros l H He Hnd. unfold load_scorer. rewrite lines_keep_write_file by assumption.
    rewrite scorer_items_written; [reflexivity | assumption | assumption | simpl; assumption].
  Qed.
End LineFormat.

(* ---------------------------------------------------------------- OMEN level files *)

Section Omen.
  Variable lb iws : N -> bool.
  Variable dz : list N.
  Hypothesis lb_LF : lb LF = true.
  Hypothesis lb_CR : lb CR = true.
  Hypothesis lb_TAB : lb TAB = false.
  Hypothesis lb_digit : forall c, ascii_digit c = true -> lb c = false.
  Hypothesis dz_ascii : forall c, ascii_digit c = true -> digit_val dz c = Some (c - 48).
  Hypothesis iws_digit : forall c, ascii_digit c = true -> iws c = false.

  Definition level_ok (z : Z) : Prop := (0 <= z <= 10)%Z.

  Lemma level_cases z : level_ok z ->
    z = 0%Z \/ z = 1%Z \/ z = 2%Z \/ z = 3%Z \/ z = 4%Z \/ z = 5%Z \/ z = 6%Z \/ z = 7%Z \/ z = 8%Z \/ z = 9%Z \/ z = 10%Z.
  Proof. unfold level_ok. lia. Qed.

  (* str(level) for the levels that occur: plain ASCII digits whose value is the level *)
  Lemma dec_level z : level_ok z ->
    dec_of_Z z <> [] /\ forallb ascii_digit (dec_of_Z z) = true /\ Z.of_N (digits_value (dec_of_Z z)) = z.
  Proof.
    intro H. destruct (level_cases z H) as [E|[E|[E|[E|[E|[E|[E|[E|[E|[E|E]]]]]]]]]]; subst z;
      (split; [discriminate | split; reflexivity]).
  Qed.

  Lemma digits_none (f : N -> bool) s : (forall c, ascii_digit c = true -> f c = false) ->
    forallb ascii_digit s = true -> none_of f s = true.
  Proof.
    intros Hf H. unfold none_of. rewrite forallb_forall in *. intros c Hc. rewrite Hf; [reflexivity | apply H; assumption].
  Qed.

  Lemma ascii_digit_not c k : ascii_digit c = true -> (k < 48 \/ 57 < k) -> N.eqb k c = false.
  Proof.
    unfold ascii_digit. intros H Hk. apply andb_true_iff in H. destruct H as [H1 H2].
    apply N.leb_le in H1, H2. apply N.eqb_neq. lia.
  Qed.

  Definition safe_key (k : str) : bool := none_of (fun c => lb c || N.eqb TAB c) k.

  Lemma safe_key_lb k : safe_key k = true -> none_of lb k = true.
  Proof.
    unfold safe_key, none_of. rewrite !forallb_forall. intros H c Hc. specialize (H c Hc).
    destruct (lb c); [discriminate | reflexivity].
  Qed.
  Lemma safe_key_tab k : safe_key k = true -> none_of (N.eqb TAB) k = true.
  Proof.
    unfold safe_key, none_of. rewrite !forallb_forall. intros H c Hc. specialize (H c Hc).
    destruct (N.eqb TAB c); [rewrite orb_true_r in H; discriminate | reflexivity].
  Qed.
  Lemma safe_key_crlf k : safe_key k = true -> none_of is_crlf k = true.
  Proof.
    intro H. apply safe_key_lb in H. unfold none_of in *. rewrite forallb_forall in *. intros c Hc. specialize (H c Hc).
    unfold is_crlf. destruct (N.eqb c CR) eqn:E1.
    - apply N.eqb_eq in E1. subst c. rewrite lb_CR in H. discriminate.
    - destruct (N.eqb c LF) eqn:E2; [|reflexivity]. apply N.eqb_eq in E2. subst c. rewrite lb_LF in H. discriminate.
  Qed.

  Lemma level_line_shape it : write_level_line it = (dec_of_Z (fst it) ++ TAB :: snd it) ++ [LF].
  Proof. unfold write_level_line. rewrite <- app_assoc. reflexivity. Qed.

  Lemma parse_written_level maxlvl z k :
    level_ok z -> safe_key k = true -> (maxlvl = None \/ maxlvl = Some 10%Z) ->
    parse_level_line iws dz maxlvl (write_level_line (z, k)) = Some (z, k).
  Proof.
    intros Hz Hk Hm. destruct (dec_level z Hz) as (Hne & Hd & Hv).
    unfold parse_level_line. rewrite level_line_shape. simpl fst; simpl snd.
    rewrite rstrip_app_all by reflexivity.
    rewrite rstrip_none.
    2:{ rewrite none_of_app, none_of_cons. rewrite (safe_key_crlf k Hk).
        rewrite (digits_none is_crlf (dec_of_Z z)); [reflexivity | | assumption].
        intros c Hc. unfold is_crlf. rewrite (N.eqb_sym c CR), (N.eqb_sym c LF).
        rewrite (ascii_digit_not c CR Hc), (ascii_digit_not c LF Hc); [reflexivity | left; reflexivity | left; reflexivity]. }
    rewrite split_on_app.
    2:{ apply digits_none; [|assumption]. intros c Hc. apply ascii_digit_not; [assumption | left; reflexivity]. }
    rewrite split_on_none by (apply safe_key_tab; assumption).
    rewrite (parse_int_digits iws dz dz_ascii iws_digit) by assumption. rewrite Hv.
    destruct Hz as [Hz1 Hz2].
    replace (z <? 0)%Z with false by (symmetry; apply Z.ltb_ge; assumption).
    destruct Hm as [Hm|Hm]; subst maxlvl; [reflexivity|].
    replace (10 <? z)%Z with false by (symmetry; apply Z.ltb_ge; assumption). reflexivity.
  Qed.

  Lemma level_items_written maxlvl : forall l,
    Forall (fun it => level_ok (fst it) /\ safe_key (snd it) = true) l -> (maxlvl = None \/ maxlvl = Some 10%Z) ->
    level_items iws dz maxlvl (map write_level_line l) = Some l.
  Proof.
    induction l as [|[z k] l IH]; intros H Hm; [reflexivity|].
    inversion H as [|? ? [Hz Hk] Hl]; subst. simpl in Hz, Hk.
    simpl. rewrite parse_written_level by assumption. rewrite IH by assumption. reflexivity.
  Qed.

  Lemma level_body_none_lb z k : level_ok z -> safe_key k = true -> none_of lb (dec_of_Z z ++ TAB :: k) = true.
  Proof.
    intros Hz Hk. destruct (dec_level z Hz) as (_ & Hd & _).
    rewrite none_of_app, none_of_cons, lb_TAB, (safe_key_lb k Hk).
    rewrite (digits_none lb _ lb_digit Hd). reflexivity.
  Qed.

  Lemma lines_keep_write_levels : forall l,
    Forall (fun it => level_ok (fst it) /\ safe_key (snd it) = true) l ->
    lines_keep lb (write_levels l) = map write_level_line l.
  Proof.
    induction l as [|[z k] l IH]; intro H; [reflexivity|].
    inversion H as [|? ? [Hz Hk] Hl]; subst. simpl in Hz, Hk.
    unfold write_levels. simpl. rewrite level_line_shape. simpl. rewrite <- app_assoc. simpl.
    rewrite (lines_keep_line lb lb_LF) by (apply level_body_none_lb; assumption).
    f_equal. apply IH. assumption.
  Qed.

  (* guesser loader of IP.level / EP.level / CP.level *)
  Theorem roundtrip_omen_guesser : forall l,
    Forall (fun it => level_ok (fst it) /\ safe_key (snd it) = true) l ->
    omen_guesser_items lb iws dz (write_levels l) = Some l.
  Proof.
    intros l H. unfold omen_guesser_items. rewrite lines_keep_write_levels by assumption.
    apply level_items_written; [assumption | right; reflexivity].
  Qed.

  (* the same text through builtin open(): universal newlines, lines end at LF *)
  Lemma none_lb_none_cr s : none_of lb s = true -> none_of (N.eqb CR) s = true.
  Proof.
    unfold none_of. rewrite !forallb_forall. intros H c Hc. specialize (H c Hc).
    destruct (N.eqb CR c) eqn:E; [|reflexivity]. apply N.eqb_eq in E. subst c. rewrite lb_CR in H. discriminate.
  Qed.

  Lemma none_lb_none_lf s : none_of lb s = true -> none_of (N.eqb LF) s = true.
  Proof.
    unfold none_of. rewrite !forallb_forall. intros H c Hc. specialize (H c Hc).
    destruct (N.eqb LF c) eqn:E; [|reflexivity]. apply N.eqb_eq in E. subst c. rewrite lb_LF in H. discriminate.
  Qed.

  Lemma write_levels_no_cr : forall l,
    Forall (fun it => level_ok (fst it) /\ safe_key (snd it) = true) l ->
    none_of (N.eqb CR) (write_levels l) = true.
  Proof.
    induction l as [|[z k] l IH]; intro H; [reflexivity|].
    inversion H as [|? ? [Hz Hk] Hl]; subst. simpl in Hz, Hk.
    unfold write_levels. simpl. rewrite none_of_app. fold (write_levels l). rewrite IH by assumption.
    rewrite level_line_shape. simpl fst; simpl snd. rewrite none_of_app.
    rewrite (none_lb_none_cr _ (level_body_none_lb z k Hz Hk)). reflexivity.
  Qed.

  Lemma lines_text_write_levels : forall l,
    Forall (fun it => level_ok (fst it) /\ safe_key (snd it) = true) l ->
    lines_text (write_levels l) = map write_level_line l.
  Proof.
    intros l H. unfold lines_text. rewrite univ_nl_id by (apply write_levels_no_cr; assumption).
    induction l as [|[z k] l IH]; [reflexivity|].
    inversion H as [|? ? [Hz Hk] Hl]; subst. simpl in Hz, Hk.
    unfold write_levels. simpl. rewrite level_line_shape. simpl. rewrite <- app_assoc. simpl.
    rewrite (lines_keep_line (N.eqb LF)) by (try apply N.eqb_refl; apply none_lb_none_lf; apply level_body_none_lb; assumption).
    f_equal. apply IH. assumption.
  Qed.

  (* scorer loader of IP.level / CP.level, whichever way the file is opened *)
  Theorem roundtrip_omen_scorer : forall codecs_open l,
    Forall (fun it => level_ok (fst it) /\ safe_key (snd it) = true) l ->
    omen_scorer_items codecs_open lb iws dz (write_levels l) = Some l.
  Proof.
    intros co l H. unfold omen_scorer_items. destruct co.
    - rewrite lines_keep_write_levels by assumption. apply level_items_written; [assumption | left; reflexivity].
    - rewrite lines_text_write_levels by assumption. apply level_items_written; [assumption | left; reflexivity].
  Qed.

  (* alphabet.txt *)
  Theorem roundtrip_alphabet : forall a, Forall (fun c => safe_key c = true) a ->
    load_alphabet lb (write_alphabet a) = a.
  Proof.
    intros a H. unfold load_alphabet, write_alphabet.
    rewrite (lines_keep_lines lb lb_LF) by (eapply Forall_impl; [|exact H]; intros c Hc; apply safe_key_lb; assumption).
    rewrite map_map. induction a as [|c a IH]; [reflexivity|].
    inversion H; subst. simpl. rewrite rstrip_app_all by reflexivity.
    rewrite rstrip_none by (apply safe_key_crlf; assumption). f_equal. apply IH. assumption.
  Qed.
End Omen.

(* ---------------------------------------------------------------- file names *)

Lemma file_name_injective a b : file_name a = file_name b -> a = b.
Proof. unfold file_name. apply app_inv_tail. Qed.
