(* Hand-written model of CrackingSession._save_session and CrackingSession.run
   (lib_guesser/cracking_session.py) over the ABSTRACT world of SessionRt.v: the same
   collaborators as the generated file gen/Session_gen.v (the priority queue, the grammar
   object with its quit flag and OMEN counters, the save configuration and its file, the
   keyboard thread), in direct style: prologue, one iteration of the main loop, the loop.
   SessionGenProofs.v proves the translated Python equal to this model for EVERY world and
   every choice of the collaborators; SessionModelProofs.v instantiates the world with the
   collaborators of Session.v / Omen.v and derives the models run_session, limited,
   sess_restore, sess_quit and loop_saves from it.  Definitions only.

   and the concrete world of Session.v (second half): time, the keyboard thread's state
   under a schedule, the queue as a list of pre-terminals, the save configuration. *)
From Coq Require Import List Arith ZArith NArith Bool.
From Pcfg Require Import KernelRt ExpandRt Session SessionRt.
Import ListNotations.

Section SessionModel.
Context {W Item Pt G : Type}.
Context (new_queue restore_queue : W -> W).
Context (queue_next : W -> option Item * W).
Context (queue_update_save_config : W -> W).
Context (item_pt : Item -> Pt).
Context (create_guesses : Pt -> bool -> option Z -> W -> sres Z * list G * W).
Context (restore_omen : Z -> W -> sres Z * list G * W).
Context (read_should_exit : W -> bool * W).
Context (get_omen_exit : W -> bool).
Context (get_omen_guess_num : W -> Z).
Context (cfg_has_omen_number : W -> bool).
Context (cfg_omen_number : W -> Z).
Context (cfg_remove_omen_number : W -> W).
Context (cfg_set_omen_number : Z -> W -> W).
Context (write_save_file : W -> sres unit * W).
Context (start_keypress_thread : W -> W).

(* _save_session: the queue's position and, when a Markov level was interrupted
   (omen_exit), its guess number go into the configuration, which is then written; an
   OSError of the write is reported as False *)
Definition m_save (w : W) : sres bool * W :=
  let w := queue_update_save_config w in
  let w := if get_omen_exit w then cfg_set_omen_number (get_omen_guess_num w) w else w in
  match write_save_file w with
  | (SOk _, w') => (SOk true, w')
  | (SExc OSError, w') => (SOk false, w')
  | (SExc e, w') => (SExc e, w')
  end.

(* run, up to the main loop.  New session: new queue, the initial save, the keyboard
   thread.  Resumed session: the queue restored from the configuration, the thread, and if
   the configuration holds an OMEN guess number the interrupted Markov level is finished
   first (restore_omen); the number is forgotten unless the user quit inside it again. *)
Definition m_prologue (load_session : bool) (w : W) : sres unit * list G * W :=
  if load_session then
    let w := start_keypress_thread (restore_queue w) in
    if cfg_has_omen_number w then
      match restore_omen (cfg_omen_number w) w with
      | (SOk _, out, w') => (SOk tt, out, if get_omen_exit w' then w' else cfg_remove_omen_number w')
      | (SExc e, out, w') => (SExc e, out, w')
      end
    else (SOk tt, [], w)
  else
    match m_save (new_queue w) with
    | (SOk _, w') => (SOk tt, [], start_keypress_thread w')
    | (SExc e, w') => (SExc e, [], w')
    end.

(* one iteration of the main loop: inl r = the run ends with r, inr l = next iteration
   with the limit l.  pop; empty queue: return WITHOUT saving; quit flag set: save and stop
   (the popped pre-terminal is not guessed); otherwise guess it with the limit, subtract
   the returned count and stop at <= 0 (`if limit:`: None and 0 mean no limit); a closed
   pipe (OSError) ends the run silently *)
Definition m_step (limit : option Z) (w : W) : (sres unit + option Z) * list G * W :=
  match queue_next w with
  | (None, w1) => (inl (SOk tt), [], w1)
  | (Some it, w1) =>
      let '(quit, w2) := read_should_exit w1 in
      if quit then
        match m_save w2 with
        | (SOk _, w3) => (inl (SOk tt), [], w3)
        | (SExc e, w3) => (inl (SExc e), [], w3)
        end
      else
        match create_guesses (item_pt it) false limit w2 with
        | (SOk n, out, w3) =>
            (if_truthy limit
               (fun l => if Z.leb (l - n) 0 then inl (SOk tt) else inr (Some (l - n)%Z))
               (inr limit), out, w3)
        | (SExc OSError, out, w3) => (inl (SOk tt), out, w3)
        | (SExc e, out, w3) => (inl (SExc e), out, w3)
        end
  end.

Fixpoint m_loop (fuel : nat) (limit : option Z) (w : W) : sres unit * list G * W :=
  match fuel with
  | O => (SExc OutOfFuel, [], w)
  | S f =>
      match m_step limit w with
      | (inl r, out, w') => (r, out, w')
      | (inr l, out, w') => let '(r, out', w'') := m_loop f l w' in (r, out ++ out', w'')
      end
  end.

Definition m_run (fuel : nat) (load_session : bool) (limit : option Z) (w : W) : sres unit * list G * W :=
  match m_prologue load_session w with
  | (SOk _, out, w') => let '(r, out', w'') := m_loop fuel limit w' in (r, out ++ out', w'')
  | (SExc e, out, w') => (SExc e, out, w')
  end.

End SessionModel.

(* ====================================================================== *)
(* The world of Session.v: the collaborators of CrackingSession.run as the hand-written
   model Session.v sees them.  Time is the number of atomic steps of the main loop so far
   (one per pop + quit check, one per emitted guess); the keyboard thread consumes the
   events [sch t] just before step t once it has been started; the queue is the list of
   pre-terminals it will still return; a pre-terminal is its own parse tree. *)
Record sworld := mkW {
  sw_t : nat;                      (* atomic steps of the main loop so far *)
  sw_h : hstate;                   (* keyboard thread + quit flag as of the last step *)
  sw_started : bool;               (* the keyboard thread has been started *)
  sw_pending : list pterm;         (* what the queue will still return *)
  sw_popped : option nat;          (* pid of the last pre-terminal popped (the queue's position) *)
  sw_cfg_pos : option nat;         (* the queue's position in the save configuration *)
  sw_cfg_omen : option nat;        (* guessing_info/omen_guess_number in the save configuration *)
  sw_saves : list (option nat * option nat);  (* every write of the save file: (position, omen number) *)
  sw_om : option (nat * nat);      (* the .omn file: Markov level pid interrupted after its j-th guess *)
  sw_omen_exit : bool;             (* pcfg.omen_exit *)
  sw_omen_num : nat                (* pcfg.omen_guess_num *)
}.

Definition upd_time (w : sworld) (t : nat) (h : hstate) : sworld :=
  {| sw_t := t; sw_h := h; sw_started := sw_started w; sw_pending := sw_pending w; sw_popped := sw_popped w;
     sw_cfg_pos := sw_cfg_pos w; sw_cfg_omen := sw_cfg_omen w; sw_saves := sw_saves w; sw_om := sw_om w;
     sw_omen_exit := sw_omen_exit w; sw_omen_num := sw_omen_num w |}.
Definition upd_started (w : sworld) (b : bool) : sworld :=
  {| sw_t := sw_t w; sw_h := sw_h w; sw_started := b; sw_pending := sw_pending w; sw_popped := sw_popped w;
     sw_cfg_pos := sw_cfg_pos w; sw_cfg_omen := sw_cfg_omen w; sw_saves := sw_saves w; sw_om := sw_om w;
     sw_omen_exit := sw_omen_exit w; sw_omen_num := sw_omen_num w |}.
Definition upd_queue (w : sworld) (pend : list pterm) (pop : option nat) : sworld :=
  {| sw_t := sw_t w; sw_h := sw_h w; sw_started := sw_started w; sw_pending := pend; sw_popped := pop;
     sw_cfg_pos := sw_cfg_pos w; sw_cfg_omen := sw_cfg_omen w; sw_saves := sw_saves w; sw_om := sw_om w;
     sw_omen_exit := sw_omen_exit w; sw_omen_num := sw_omen_num w |}.
Definition upd_cfg (w : sworld) (pos omen : option nat) : sworld :=
  {| sw_t := sw_t w; sw_h := sw_h w; sw_started := sw_started w; sw_pending := sw_pending w; sw_popped := sw_popped w;
     sw_cfg_pos := pos; sw_cfg_omen := omen; sw_saves := sw_saves w; sw_om := sw_om w;
     sw_omen_exit := sw_omen_exit w; sw_omen_num := sw_omen_num w |}.
Definition upd_saves (w : sworld) (s : list (option nat * option nat)) : sworld :=
  {| sw_t := sw_t w; sw_h := sw_h w; sw_started := sw_started w; sw_pending := sw_pending w; sw_popped := sw_popped w;
     sw_cfg_pos := sw_cfg_pos w; sw_cfg_omen := sw_cfg_omen w; sw_saves := s; sw_om := sw_om w;
     sw_omen_exit := sw_omen_exit w; sw_omen_num := sw_omen_num w |}.
Definition upd_omen (w : sworld) (om : option (nat * nat)) (ex : bool) (num : nat) : sworld :=
  {| sw_t := sw_t w; sw_h := sw_h w; sw_started := sw_started w; sw_pending := sw_pending w; sw_popped := sw_popped w;
     sw_cfg_pos := sw_cfg_pos w; sw_cfg_omen := sw_cfg_omen w; sw_saves := sw_saves w; sw_om := om;
     sw_omen_exit := ex; sw_omen_num := num |}.

(* a Markov level under a limit: omen_generate_guesses returns when the limit is reached
   BEFORE it reads the quit flag; without a limit this is Session.emit_markov *)
Fixpoint emit_markov_lim (sch : schedule) (t : nat) (h : hstate) (gs : list nat) (j : nat) (lim : option nat)
  : list nat * nat * option nat * hstate :=
  match gs with
  | [] => ([], t, None, h)
  | g :: r =>
      let h' := h_steps h (sch t) in
      match lim with
      | Some 1 => ([g], S t, None, h')
      | _ =>
          if should_exit h' then ([g], S t, Some (S j), h')
          else let '(o, t', i, h'') := emit_markov_lim sch (S t) h' r (S j) (option_map pred lim) in (g :: o, t', i, h'')
      end
  end.

(* `if limit:` : None and 0 are no limit *)
Definition lim_of (l : option Z) : option nat :=
  match l with Some z => if Z.eqb z 0 then None else Some (Z.to_nat z) | None => None end.

Section SessionWorld.
Context (sch : schedule).
Context (fresh restored : list pterm).       (* what a new / a restored queue holds *)
Context (level_rest : nat -> nat -> list nat). (* the guesses Markov level pid still has after its j-th *)

(* nobody reads the keyboard before the thread is started *)
Definition w_eff (w : sworld) : schedule := if sw_started w then sch else quiet.

Definition w_new_queue (w : sworld) : sworld := upd_queue w fresh None.
Definition w_restore_queue (w : sworld) : sworld := upd_queue w restored None.
Definition w_queue_next (w : sworld) : option pterm * sworld :=
  match sw_pending w with
  | [] => (None, w)
  | p :: r => (Some p, upd_queue w r (Some (pid p)))
  end.
Definition w_update_save_config (w : sworld) : sworld := upd_cfg w (sw_popped w) (sw_cfg_omen w).
Definition w_item_pt (p : pterm) : pterm := p.

Definition w_create_guesses (p : pterm) (_ : bool) (l : option Z) (w : sworld) : sres Z * list nat * sworld :=
  if markov p then
    let '(o, t', i, h2) := emit_markov_lim (w_eff w) (sw_t w) (sw_h w) (guesses p) 0 (lim_of l) in
    (SOk (len o), o,
     upd_omen (upd_time w t' h2)
              (match i with Some j => Some (pid p, j) | None => sw_om w end)
              (match i with Some _ => true | None => sw_omen_exit w end)
              (length o))
  else
    let o := limit_take l (guesses p) in
    let '(t', h2) := emit_plain (w_eff w) (sw_t w) (sw_h w) o in
    (SOk (len o), o, upd_time w t' h2).

(* restore_omen(n, ..): the level named in the .omn file goes on after its n-th guess *)
Definition w_restore_omen (n : Z) (w : sworld) : sres Z * list nat * sworld :=
  match sw_om w with
  | None => (SExc OtherError, [], w)
  | Some (p, _) =>
      let '(o, t', i, h2) := emit_markov (w_eff w) (sw_t w) (sw_h w) (level_rest p (Z.to_nat n)) (Z.to_nat n) in
      (SOk (len o), o,
       upd_omen (upd_time w t' h2)
                (match i with Some j => Some (p, j) | None => sw_om w end)
                (match i with Some _ => true | None => false end)
                (Z.to_nat n + length o))
  end.

(* the main loop reads the flag: the step at which the keyboard thread's progress shows *)
Definition w_read_should_exit (w : sworld) : bool * sworld :=
  let h1 := h_steps (sw_h w) (w_eff w (sw_t w)) in (should_exit h1, upd_time w (S (sw_t w)) h1).

Definition w_get_omen_exit (w : sworld) : bool := sw_omen_exit w.
Definition w_get_omen_guess_num (w : sworld) : Z := Z.of_nat (sw_omen_num w).
Definition w_cfg_has_omen_number (w : sworld) : bool := match sw_cfg_omen w with Some _ => true | None => false end.
Definition w_cfg_omen_number (w : sworld) : Z := match sw_cfg_omen w with Some n => Z.of_nat n | None => 0%Z end.
Definition w_cfg_remove_omen_number (w : sworld) : sworld := upd_cfg w (sw_cfg_pos w) None.
Definition w_cfg_set_omen_number (z : Z) (w : sworld) : sworld := upd_cfg w (sw_cfg_pos w) (Some (Z.to_nat z)).
Definition w_write_save_file (w : sworld) : sres unit * sworld :=
  (SOk tt, upd_saves w (sw_saves w ++ [(sw_cfg_pos w, sw_cfg_omen w)])).
Definition w_start_keypress_thread (w : sworld) : sworld := upd_started w true.

(* the session before run() is called; [cfg] = omen_guess_number of the loaded save file,
   [om] = the .omn file beside it *)
Definition w_init (cfg : option nat) (om : option (nat * nat)) : sworld :=
  {| sw_t := 0; sw_h := h0; sw_started := false; sw_pending := []; sw_popped := None;
     sw_cfg_pos := None; sw_cfg_omen := cfg; sw_saves := []; sw_om := om;
     sw_omen_exit := false; sw_omen_num := 0 |}.

(* the model of run() in this world *)
Definition w_run (fuel : nat) (load_session : bool) (limit : option Z) (w : sworld) : sres unit * list nat * sworld :=
  m_run w_new_queue w_restore_queue w_queue_next w_update_save_config w_item_pt w_create_guesses w_restore_omen
        w_read_should_exit w_get_omen_exit w_get_omen_guess_num w_cfg_has_omen_number w_cfg_omen_number
        w_cfg_remove_omen_number w_cfg_set_omen_number w_write_save_file w_start_keypress_thread
        fuel load_session limit w.

(* what Session.v observes of a finished run *)
Definition w_outcome (r : sres unit * list nat * sworld) : outcome :=
  let '(_, o, w) := r in
  {| out := o;
     saved_at := match sw_saves w with _ :: (pos, _) :: _ => pos | _ => None end;
     omen_saved := sw_om w;
     finished := match sw_saves w with _ :: _ :: _ => false | _ => true end |}.
End SessionWorld.

(* ====================================================================== *)
(* The keyboard thread (keypress) as Session.v sees it: the events the main loop can
   observe.  The world of the thread: the lines input() will return - each with whether
   stderr still works while it is handled (a failing print ends the thread) - or an error
   of input() (closed stdin, ...); the end of the list is end of file. *)
Inductive kin :=
| KLine (s : pstr) (stderr_ok : bool)
| KErr.

Record kworld := mkK {
  kw_inputs : list kin;      (* what input() will still return *)
  kw_stderr : bool;          (* stderr works (as of the line being handled) *)
  kw_main_alive : bool;      (* threading.main_thread().is_alive() *)
  kw_flag : bool             (* pcfg.should_exit *)
}.

Definition k_read_input (w : kworld) : sres pstr * kworld :=
  match kw_inputs w with
  | [] => (SExc EOFError, w)
  | KErr :: r => (SExc OtherError, mkK r (kw_stderr w) (kw_main_alive w) (kw_flag w))
  | KLine s ok :: r => (SOk s, mkK r ok (kw_main_alive w) (kw_flag w))
  end.
Definition k_main_thread_is_alive (w : kworld) : bool * kworld := (kw_main_alive w, w).
(* print_status, print_help and every print(..., file=sys.stderr) of keypress *)
Definition k_stderr (w : kworld) : sres unit * kworld := if kw_stderr w then (SOk tt, w) else (SExc OSError, w).
Definition k_set_should_exit (w : kworld) : kworld := mkK (kw_inputs w) (kw_stderr w) (kw_main_alive w) true.

(* the events of Session.v the thread produces: [ENTER] / other text = a status report,
   'h' = help, 'q' = the quit flag and then the end of the thread; end of file, an error of
   input(), a dead main thread and a failing print to stderr end the thread without a flag *)
Fixpoint kp_trace (main_alive : bool) (ins : list kin) : list ev :=
  match ins with
  | [] => [EvThreadEnds]
  | KErr :: _ => [EvThreadEnds]
  | KLine s ok :: r =>
      if negb main_alive then [EvThreadEnds]
      else if negb ok then [EvThreadEnds]
      else if str_eqb s [113%N] then [EvQuitFlag; EvThreadEnds]
      else (if str_eqb s [104%N] then EvHelp else EvStatus) :: kp_trace main_alive r
  end.
