(* The generated expansion kernel (gen/Expand_gen.v: the translation of the Python
   text of PcfgGrammar.omen_generate_guesses, _recursive_guesses and
   create_guesses, redone on every run by harness/translate_expand.py) equals the
   hand-written model of Expand.v that the theorems of C04 / C09 / C17 are about.

   Main names: omen_generate_guesses_eq, recursive_guesses_eq, create_guesses_eq
   (generated = model: for every upper_c, grammar lookup gv, int() / MarkovCracker
   oracle, every parse tree whose nodes resolve ([resolve]), every limit None / n >= 0
   ([zlim]), fuel > len(pt), should_exit = false; the model's None is Exc LookupError);
   recursive_guesses_never_out_of_fuel / create_guesses_never_out_of_fuel (ALL
   inputs); source_* (theorems of C04 / C09 / C17 transported to the generated
   functions); source_example_* (the hypotheses are satisfiable, the generated
   code computes).

   These proofs are meant to break when one of the Python functions changes its
   meaning: the loop bodies of the generated text are compared with the model's
   loop step (ExpandProofs.gloop) case by case ([split_tests; same_step]: the
   limit tests `limit <= 0` / `limit == 0` against the model's [exhausted], the
   decrement against [lim_sub]).  They are written to survive rewrites of the
   source that leave every loop step the same: renamings, comments, reformatting,
   hoisted locals, `x = x + 1` for `x += 1`, another order of the statements of a
   loop body (the shape and order of the loop-carried state tuple is read off the
   goal: [apply_gloop]), the mask loop with a manual counter or with enumerate and
   either polarity of its test ([for_from_mask0] / [for_from_mask_enum0],
   [mask_body]), any arithmetically equal form of the limit tests and of the test
   `len(pt) == 1` ([split_len_test]), `if limit:` / `if not limit:`. *)
From Coq Require Import List Arith ZArith NArith Bool Lia.
From Pcfg Require Import KernelRt Expand ExpandProofs ExpandRt.
From PcfgGen Require Import Expand_gen.
Import ListNotations.

(* ------------------------------------------------------------------ *)
(* the runtime: what the combinators compute                           *)
(* ------------------------------------------------------------------ *)

Lemma seq_index_cons0 {X : Type} (x : X) (r : list X) : seq_index (x :: r) 0%Z = Ok x.
Proof.
  unfold seq_index, py_index. cbn [length Z.ltb Z.compare].
  replace (Z.leb (Z.of_nat (S (length r))) 0) with false by (symmetry; apply Z.leb_gt; lia).
  reflexivity.
Qed.

Lemma str_index_cons0 (c : N) (s : pstr) : str_index (c :: s) 0%Z = Ok [c].
Proof. unfold str_index. now rewrite seq_index_cons0. Qed.

Lemma seq_index_nil0 {X : Type} : seq_index (@nil X) 0%Z = Exc LookupError.
Proof. reflexivity. Qed.

Lemma py_index_nat (n i : nat) : py_index n (Z.of_nat i) = if Nat.ltb i n then Some i else None.
Proof.
  unfold py_index.
  replace (Z.ltb (Z.of_nat i) 0) with false by (symmetry; apply Z.ltb_ge; lia).
  cbv zeta iota.
  replace (Z.ltb (Z.of_nat i) 0) with false by (symmetry; apply Z.ltb_ge; lia).
  destruct (Nat.ltb_spec i n) as [H|H].
  - replace (Z.leb (Z.of_nat n) (Z.of_nat i)) with false by (symmetry; apply Z.leb_gt; lia).
    now rewrite Nat2Z.id.
  - replace (Z.leb (Z.of_nat n) (Z.of_nat i)) with true by (symmetry; apply Z.leb_le; lia).
    reflexivity.
Qed.

Lemma str_index_nat (s : pstr) (i : nat) :
  str_index s (Z.of_nat i) = match nth_error s i with Some c => Ok [c] | None => Exc LookupError end.
Proof.
  unfold str_index, seq_index. rewrite py_index_nat.
  destruct (Nat.ltb_spec i (length s)) as [H|H].
  - destruct (nth_error s i) eqn:E; [reflexivity|]. apply nth_error_None in E. lia.
  - apply nth_error_None in H. now rewrite H.
Qed.

Lemma py_bound_nat (n i : nat) : py_bound n (Z.of_nat i) = Nat.min i n.
Proof.
  unfold py_bound.
  replace (Z.ltb (Z.of_nat i) 0) with false by (symmetry; apply Z.ltb_ge; lia). lia.
Qed.

Lemma py_bound_neg (n i : nat) : py_bound n (- Z.of_nat i) = if Nat.eqb i 0 then 0 else n - i.
Proof.
  unfold py_bound. destruct i as [|i].
  - cbn. lia.
  - replace (Z.ltb (- Z.of_nat (S i)) 0) with true by (symmetry; apply Z.ltb_lt; lia).
    cbn [Nat.eqb]. lia.
Qed.

Lemma slice_from_1 {X : Type} (x : X) (r : list X) : slice_from (x :: r) 1%Z = r.
Proof.
  unfold slice_from. change 1%Z with (Z.of_nat 1). rewrite py_bound_nat.
  cbn [length]. reflexivity.
Qed.

(* cur[:-n] and cur[-n:] *)
Lemma slice_to_neg_len {Y : Type} (cur : pstr) (m : list Y) :
  slice_to cur (- len m) = py_drop_tail cur (length m).
Proof.
  unfold slice_to, len, py_drop_tail. rewrite py_bound_neg.
  destruct (Nat.eqb (length m) 0); reflexivity.
Qed.

Lemma slice_from_neg_len {Y : Type} (cur : pstr) (m : list Y) :
  slice_from cur (- len m) = py_tail cur (length m).
Proof.
  unfold slice_from, len, py_tail. rewrite py_bound_neg.
  destruct (Nat.eqb (length m) 0); reflexivity.
Qed.

Lemma str_eqb_char (c d : N) : str_eqb [c] [d] = N.eqb c d.
Proof. cbn. apply andb_true_r. Qed.

Lemma str_join_nil (l : list pstr) : str_join [] l = concat l.
Proof.
  destruct l as [|x r]; [reflexivity|]. unfold str_join.
  change (concat (x :: r)) with (x ++ concat r). apply f_equal.
  induction r as [|y r IH]; [reflexivity|].
  change (concat (y :: r)) with (y ++ concat r). rewrite <- IH. reflexivity.
Qed.

Lemma len_cons_eq_1 {X : Type} (x : X) (r : list X) :
  Z.eqb (len (x :: r)) 1 = match r with [] => true | _ => false end.
Proof.
  unfold len. destruct r as [|y r]; [reflexivity|].
  apply Z.eqb_neq. cbn [length]. lia.
Qed.

(* ---- the loop over a limited enumerator: ExpandProofs.gloop ---- *)
Section GLoop.
Context {St : Type}.
Context (rel : St -> list str -> nat -> lim -> Prop).
Context (f : str -> lim -> option (list str * nat)).

Definition body_ok (body : nat -> str -> St -> ctl (res (list pstr * Z)) St) (x : str) : Prop :=
  forall i st acc num l, rel st acc num l ->
  match f x l with
  | None => body i x st = Return (Exc LookupError)
  | Some (out, c) =>
      if exhausted l c then body i x st = Return (Ok (acc ++ out, Z.of_nat (num + c)))
      else exists st', body i x st = Continue st' /\ rel st' (acc ++ out) (num + c) (lim_sub l c)
  end.

Lemma for_from_gloop (body : nat -> str -> St -> ctl (res (list pstr * Z)) St)
      (k : St -> res (list pstr * Z)) (items : list str) :
  (forall x, In x items -> body_ok body x) ->
  (forall st acc num l, rel st acc num l -> k st = Ok (acc, Z.of_nat num)) ->
  forall i st acc num l, rel st acc num l ->
  for_from i items body st k = lift (gloop f items l acc num).
Proof.
  intros Hb Hk. induction items as [|x items IH]; intros i st acc num l Hr.
  - cbn. exact (Hk st acc num l Hr).
  - cbn [for_from gloop].
    pose proof (Hb x (or_introl eq_refl) i st acc num l Hr) as Hx.
    destruct (f x l) as [[out c]|].
    + destruct (exhausted l c).
      * rewrite Hx. reflexivity.
      * destruct Hx as [st' [Hx Hr']]. rewrite Hx. apply IH; [|exact Hr'].
        intros y Hy. apply Hb. now right.
    + rewrite Hx. reflexivity.
Qed.
End GLoop.

(* the limit bookkeeping `if limit: limit = limit - k; if limit <= 0: return`
   against the model's exhausted / lim_sub *)
Lemma exhausted_spec (l : lim) (k : nat) :
  exhausted l k = match l with Some (S n) => Nat.leb (S n) k | _ => false end.
Proof. reflexivity. Qed.

Lemma zlim_sub_pos (n k : nat) : Nat.leb (S n) k = false ->
  Some (Z.of_nat (S n) - Z.of_nat k)%Z = zlim (lim_sub (Some (S n)) k).
Proof.
  intros H. apply Nat.leb_gt in H. unfold zlim, lim_sub. cbn [active option_map]. f_equal. lia.
Qed.

(* ---- the loop that applies one capitalisation mask: Expand.mask_apply ---- *)
Section MaskLoop.
Context (upper_c : N -> pstr).

(* the pieces new_end collects: one per mask character *)
Fixpoint mask_pieces (mask tail : str) : option (list str) :=
  match mask with
  | [] => Some []
  | m :: mr =>
      match tail with
      | [] => None
      | c :: tr =>
          match mask_pieces mr tr with
          | None => None
          | Some r => Some ((if N.eqb m chL then [c] else upper_c c) :: r)
          end
      end
  end.

Lemma mask_apply_pieces (mask : str) : forall tail,
  mask_apply upper_c mask tail = option_map (@concat N) (mask_pieces mask tail).
Proof.
  induction mask as [|m mr IH]; intros tail; [reflexivity|].
  destruct tail as [|c tr]; [reflexivity|]. cbn [mask_apply mask_pieces]. rewrite IH.
  destruct (mask_pieces mr tr); reflexivity.
Qed.

Lemma skipn_nth_error {X : Type} (l : list X) : forall i,
  skipn i l = match nth_error l i with Some c => c :: skipn (S i) l | None => [] end.
Proof.
  induction l as [|x l IH]; intros i.
  - destruct i; reflexivity.
  - destruct i as [|i]; [reflexivity|]. cbn [skipn nth_error]. rewrite IH.
    destruct (nth_error l i); reflexivity.
Qed.

Lemma for_from_mask {R : Type} (tail : str) (raise : R)
      (body : nat -> pstr -> list pstr * Z -> ctl R (list pstr * Z)) :
  (forall j m ne i, body j [m] (ne, Z.of_nat i) =
     match nth_error tail i with
     | None => Return raise
     | Some c => Continue (ne ++ [if N.eqb m chL then [c] else upper_c c], Z.of_nat (S i))
     end) ->
  forall mask j ne i k,
  for_from j (chars mask) body (ne, Z.of_nat i) k =
  match mask_pieces mask (skipn i tail) with
  | None => raise
  | Some ps => k (ne ++ ps, Z.of_nat (i + length mask))
  end.
Proof.
  intros Hb. induction mask as [|m mr IH]; intros j ne i k.
  - cbn. now rewrite app_nil_r, Nat.add_0_r.
  - cbn [chars map for_from mask_pieces]. rewrite Hb, (skipn_nth_error tail i).
    destruct (nth_error tail i) as [c|]; [|reflexivity].
    fold (chars mr). rewrite IH. destruct (mask_pieces mr (skipn (S i) tail)) as [ps|]; [|reflexivity].
    cbn [length]. rewrite <- app_assoc, Nat.add_succ_r. reflexivity.
Qed.

Lemma for_from_mask0 {R : Type} (tail : str) (raise : R)
      (body : nat -> pstr -> list pstr * Z -> ctl R (list pstr * Z)) :
  (forall j m ne i, body j [m] (ne, Z.of_nat i) =
     match nth_error tail i with
     | None => Return raise
     | Some c => Continue (ne ++ [if N.eqb m chL then [c] else upper_c c], Z.of_nat (S i))
     end) ->
  forall mask j k,
  for_from j (chars mask) body ([], 0%Z) k =
  match mask_pieces mask tail with
  | None => raise
  | Some ps => k (ps, Z.of_nat (length mask))
  end.
Proof. intros Hb mask j k. exact (for_from_mask tail raise body Hb mask j [] 0 k). Qed.

(* the same loop written `for pos, c in enumerate(mask)`: the position is the loop's own
   counter and only new_end is carried *)
Lemma for_from_mask_enum {R : Type} (tail : str) (raise : R)
      (body : nat -> pstr -> list pstr -> ctl R (list pstr)) :
  (forall j m ne, body j [m] ne =
     match nth_error tail j with
     | None => Return raise
     | Some c => Continue (ne ++ [if N.eqb m chL then [c] else upper_c c])
     end) ->
  forall mask j ne k,
  for_from j (chars mask) body ne k =
  match mask_pieces mask (skipn j tail) with
  | None => raise
  | Some ps => k (ne ++ ps)
  end.
Proof.
  intros Hb. induction mask as [|m mr IH]; intros j ne k.
  - cbn. now rewrite app_nil_r.
  - cbn [chars map for_from mask_pieces]. rewrite Hb, (skipn_nth_error tail j).
    destruct (nth_error tail j) as [c|]; [|reflexivity].
    fold (chars mr). rewrite IH. destruct (mask_pieces mr (skipn (S j) tail)) as [ps|]; [|reflexivity].
    rewrite <- app_assoc. reflexivity.
Qed.

Lemma for_from_mask_enum0 {R : Type} (tail : str) (raise : R)
      (body : nat -> pstr -> list pstr -> ctl R (list pstr)) :
  (forall j m ne, body j [m] ne =
     match nth_error tail j with
     | None => Return raise
     | Some c => Continue (ne ++ [if N.eqb m chL then [c] else upper_c c])
     end) ->
  forall mask k,
  for_from 0 (chars mask) body [] k =
  match mask_pieces mask tail with
  | None => raise
  | Some ps => k ps
  end.
Proof. intros Hb mask k. exact (for_from_mask_enum tail raise body Hb mask 0 [] k). Qed.
End MaskLoop.

(* one step of the mask loop in the generated text is the model's step, whichever way the
   test on the mask character is written (== 'L' / != 'L' with the branches swapped) *)
Ltac mask_body :=
  intros; cbv beta iota zeta; rewrite str_eqb_char, str_index_nat; unfold chL;
  match goal with |- context [nth_error ?t ?i] => destruct (nth_error t i) end;
  match goal with |- context [N.eqb ?c 76] => destruct (N.eqb c 76) end;
  cbn [negb bindx]; unfold append, str_upper; cbn [flat_map]; rewrite ?app_nil_r;
  first [reflexivity | do 2 f_equal; lia].

(* ---- the loop-carried state of a generated loop ----
   The translator carries the variables a loop body assigns as a tuple, in the order of
   their first assignment in the body: which variables there are, and in which order, depends
   on how the source is written.  The proofs only need to know where the printed lines, the
   count and the limit sit in that tuple; any other component is a variable the model has no
   counterpart for (the manual `index` counter of the mask loop).  [apply_gloop junk l] reads
   this off the goal: it abstracts the initial state of the loop over the initial values
   [] / 0 / zlim l of the three and over [junk] (the value an extra variable has at loop
   entry; [no_junk] if there is none), and applies for_from_gloop with the relation "the
   state is that tuple, for some value of the extra variable". *)
Definition no_junk : Z := 0%Z.

Ltac apply_gloop junk l :=
  lazymatch goal with
  | |- for_from _ _ _ ?s0 _ = _ =>
      let t := eval pattern junk, (@nil pstr), 0%Z, (zlim l) in s0 in
      lazymatch t with
      | ?mk _ _ _ _ =>
          apply for_from_gloop with
            (rel := fun st acc num l' => exists j : Z, st = mk j acc (Z.of_nat num) (zlim l'))
      end
  end.

(* rewrite with an equation about [zlim l] where the goal has the Python value *)
Ltac rewrite_lim H :=
  let E := fresh "E" in pose proof H as E; cbn [zlim option_map Z.of_nat] in E; rewrite E; clear E.

(* finishing the comparison of one loop step of the generated code with the
   model's step: split the int / nat comparisons, then both sides are the same
   constructor applied to arithmetically equal values *)
Ltac split_tests :=
  repeat match goal with
  | |- context [Z.eqb ?a ?b] => destruct (Z.eqb_spec a b)
  | |- context [Z.leb ?a ?b] => destruct (Z.leb_spec a b)
  | |- context [Z.ltb ?a ?b] => destruct (Z.ltb_spec a b)
  | |- context [Nat.leb ?a ?b] => destruct (Nat.leb_spec a b)
  end.
(* the test that tells the last slot from the others (`len(pt) == 1`, `len(pt) > 1`,
   `2 > len(pt)`, ...) once pt is known to have one / at least two elements *)
Ltac split_len_test :=
  unfold len; cbn [length];
  repeat match goal with
  | |- context [Z.eqb (Z.of_nat ?n) ?b] => destruct (Z.eqb_spec (Z.of_nat n) b) as [?Hlen|?Hlen]; try (exfalso; lia)
  | |- context [Z.eqb ?b (Z.of_nat ?n)] => destruct (Z.eqb_spec b (Z.of_nat n)) as [?Hlen|?Hlen]; try (exfalso; lia)
  | |- context [Z.leb (Z.of_nat ?n) ?b] => destruct (Z.leb_spec (Z.of_nat n) b) as [?Hlen|?Hlen]; try (exfalso; lia)
  | |- context [Z.leb ?b (Z.of_nat ?n)] => destruct (Z.leb_spec b (Z.of_nat n)) as [?Hlen|?Hlen]; try (exfalso; lia)
  | |- context [Z.ltb (Z.of_nat ?n) ?b] => destruct (Z.ltb_spec (Z.of_nat n) b) as [?Hlen|?Hlen]; try (exfalso; lia)
  | |- context [Z.ltb ?b (Z.of_nat ?n)] => destruct (Z.ltb_spec b (Z.of_nat n)) as [?Hlen|?Hlen]; try (exfalso; lia)
  end; cbn [negb]; cbv iota.
Ltac same_step :=
  first [ reflexivity
        | exfalso; lia
        | solve [repeat f_equal; lia]
        | solve [eexists; split; [reflexivity|]; exists no_junk; cbv beta; repeat f_equal; lia]
        | solve [eexists; split; [reflexivity|]; eexists; cbv beta; repeat f_equal; lia] ].

(* ------------------------------------------------------------------ *)
(* generated = model                                                   *)
(* ------------------------------------------------------------------ *)
Section Eq.
Context (upper_c : N -> pstr).
(* self.grammar[t][i]['values'] (None: KeyError / IndexError) *)
Context (gv : pstr -> Z -> option (list pstr)).
(* int(s), and the strings MarkovCracker(omen_grammar, level, optimizer) yields *)
Context (py_int : pstr -> Z) (mcr : Z -> list pstr).
Context (honey : pstr -> list pnode -> option Z -> res (list pstr * Z)).

(* the model's OMEN oracle (level string -> strings of the level) *)
Definition omen_of (lv : str) : list str := mcr (py_int lv).

(* ---- omen_generate_guesses, nobody asking to quit ---- *)
Theorem omen_generate_guesses_eq (gs : list str) (l : lim) :
  py_omen_generate_guesses false gs (zlim l) =
  Ok (lim_take l gs, Z.of_nat (length (lim_take l gs))).
Proof.
  unfold py_omen_generate_guesses, for_each. cbv zeta.
  transitivity (lift (gloop (fun g _ => Some ([g], 1)) gs l [] 0)).
  - apply_gloop no_junk l.
    + intros x _ i st acc num l0 [j ->]. cbv beta iota.
      unfold append. destruct l0 as [[|n]|];
        cbn [zlim option_map if_truthy exhausted lim_sub active]; split_tests; same_step.
    + intros st acc num l0 [j ->]. reflexivity.
    + exists no_junk. reflexivity.
  - rewrite (gloop_behaves _ (fun g => [g])).
    + cbn [app Nat.add]. replace (flat_map (fun g => [g]) gs) with gs; [reflexivity|].
      induction gs as [|g gs IH]; [reflexivity|]. cbn. now rewrite <- IH.
    + apply Forall_forall. intros g _ l'. destruct l' as [[|n]|]; cbn [lim_take firstn]; rewrite ?firstn_nil; reflexivity.
Qed.

(* ---- _recursive_guesses ---- *)
Theorem recursive_guesses_eq : forall (pt : list pnode) (slots : list slot),
  resolve gv pt = Some slots ->
  forall (fuel : nat) (cur : str) (l : lim), length pt < fuel ->
  py_recursive_guesses upper_c gv py_int mcr false fuel cur pt (zlim l) =
  lift (expand upper_c omen_of slots cur l).
Proof.
  induction pt as [|[name idx] ptr IH]; intros slots Hres fuel cur l Hf.
  - destruct fuel as [|f]; [cbn in Hf; lia|]. inversion Hres; subst. reflexivity.
  - destruct fuel as [|f]; [cbn in Hf; lia|]. cbn [length] in Hf.
    cbn [resolve] in Hres. unfold resolve_node in Hres. cbn [fst snd] in Hres.
    destruct name as [|ch name]; [discriminate|]. cbn [cat_of] in Hres.
    destruct (gv (ch :: name) idx) as [vals|] eqn:Hgv; [|discriminate].
    destruct (resolve gv ptr) as [rest|] eqn:Hrest; [|discriminate].
    inversion Hres; subst slots; clear Hres.
    cbn [py_recursive_guesses].
    rewrite !seq_index_cons0. cbn [bindx fst snd]. rewrite str_index_cons0. cbn [bindx].
    rewrite !str_eqb_char, Hgv. cbn [lookup bindx].
    rewrite expand_cons. cbn [scat svals].
    destruct (N.eqb ch 77) eqn:EM.
    { (* Markov *)
      destruct vals as [|lv more]; [reflexivity|].
      rewrite seq_index_cons0. cbn [bindx].
      rewrite omen_generate_guesses_eq. cbn [bindx extend app lift].
      rewrite omen_emit_lim_take. reflexivity. }
    destruct (N.eqb ch 67) eqn:EC.
    { (* capitalisation masks *)
      destruct vals as [|m0 ms]; [reflexivity|].
      rewrite seq_index_cons0. cbn [bindx].
      rewrite slice_to_neg_len, slice_from_neg_len.
      unfold for_each.
      apply_gloop idx l.
      - intros m _ i st acc num l0 [j ->]. cbv beta iota.
        (* the mask loop: manual counter, or enumerate *)
        first [ rewrite (for_from_mask0 upper_c (py_tail cur (length m0)) (Return (Exc LookupError)))
                  by mask_body
              | unfold for_enum;
                rewrite (for_from_mask_enum0 upper_c (py_tail cur (length m0)) (Return (Exc LookupError)))
                  by mask_body ].
        rewrite mask_apply_pieces.
        destruct (mask_pieces upper_c m (py_tail cur (length m0))) as [ps|]; cbn [option_map];
          [|reflexivity].
        rewrite str_join_nil. cbn [app concat].
        destruct ptr as [|p ptr'].
        + split_len_test. inversion Hrest; subst rest. cbn [cont]. unfold append.
          destruct l0 as [[|n]|];
            cbn [zlim option_map if_truthy exhausted lim_sub active]; split_tests; same_step.
        + split_len_test.
          assert (Hne : exists s' rest', rest = s' :: rest').
          { cbn [resolve] in Hrest. destruct (resolve_node gv p); [|discriminate].
            destruct (resolve gv ptr'); [|discriminate]. inversion Hrest. eauto. }
          destruct Hne as [s' [rest' ->]]. cbn [cont].
          rewrite slice_from_1, (IH _ eq_refl f _ l0) by (cbn [length] in *; lia).
          destruct (expand upper_c omen_of (s' :: rest') _ l0) as [[out c]|]; cbn [lift bindx];
            [|reflexivity].
          unfold extend.
          destruct l0 as [[|n]|];
            cbn [zlim option_map if_truthy exhausted lim_sub active]; split_tests; same_step.
      - intros st acc num l0 [j ->]. reflexivity.
      - exists idx. reflexivity. }
    (* plain replacement *)
    unfold for_each.
    apply_gloop no_junk l.
    { intros it _ i st acc num l0 [j ->]. cbv beta iota.
      destruct ptr as [|p ptr'].
      + split_len_test. inversion Hrest; subst rest. cbn [cont]. unfold append.
        destruct l0 as [[|n]|];
          cbn [zlim option_map if_truthy exhausted lim_sub active]; split_tests; same_step.
      + split_len_test.
          assert (Hne : exists s' rest', rest = s' :: rest').
        { cbn [resolve] in Hrest. destruct (resolve_node gv p); [|discriminate].
          destruct (resolve gv ptr'); [|discriminate]. inversion Hrest. eauto. }
        destruct Hne as [s' [rest' ->]]. cbn [cont].
        rewrite slice_from_1, (IH _ eq_refl f _ l0) by (cbn [length] in *; lia).
        destruct (expand upper_c omen_of (s' :: rest') _ l0) as [[out c]|]; cbn [lift bindx];
          [|reflexivity].
        unfold extend.
        destruct l0 as [[|n]|];
          cbn [zlim option_map if_truthy exhausted lim_sub active]; split_tests; same_step.
    }
    { intros st acc num l0 [j ->]. reflexivity. }
    exists no_junk. reflexivity.
Qed.

(* ---- create_guesses, non-honeyword path ---- *)
Theorem create_guesses_eq (pt : list pnode) (slots : list slot) (fuel : nat) (l : lim) :
  resolve gv pt = Some slots -> length pt < fuel ->
  py_create_guesses upper_c gv py_int mcr false honey fuel pt false (zlim l) =
  lift (expand upper_c omen_of slots [] l).
Proof.
  intros Hres Hf. unfold py_create_guesses. cbn [negb].
  rewrite (recursive_guesses_eq pt slots Hres fuel [] l Hf).
  destruct (expand upper_c omen_of slots [] l) as [[out k]|]; reflexivity.
Qed.

(* ---- never out of fuel: len(pt) + 1 levels of recursion are enough ---- *)
Corollary recursive_guesses_fuel_enough (pt : list pnode) (slots : list slot) (fuel : nat) (cur : str) (l : lim) :
  resolve gv pt = Some slots -> length pt < fuel ->
  py_recursive_guesses upper_c gv py_int mcr false fuel cur pt (zlim l) <> Exc OutOfFuel.
Proof.
  intros Hres Hf. rewrite (recursive_guesses_eq pt slots Hres fuel cur l Hf).
  destruct (expand upper_c omen_of slots cur l) as [[out k]|]; discriminate.
Qed.

Corollary recursive_guesses_fuel_irrelevant (pt : list pnode) (slots : list slot) (f1 f2 : nat) (cur : str) (l : lim) :
  resolve gv pt = Some slots -> length pt < f1 -> length pt < f2 ->
  py_recursive_guesses upper_c gv py_int mcr false f1 cur pt (zlim l) =
  py_recursive_guesses upper_c gv py_int mcr false f2 cur pt (zlim l).
Proof.
  intros Hres H1 H2.
  now rewrite (recursive_guesses_eq pt slots Hres f1 cur l H1), (recursive_guesses_eq pt slots Hres f2 cur l H2).
Qed.

(* ------------------------------------------------------------------ *)
(* the theorems of C04 / C09 / C17 restated for the translated source  *)
(* ------------------------------------------------------------------ *)

(* C04: a well-formed pre-terminal prints exactly the product, in order *)
Theorem source_recursive_guesses_is_product (segs : list seg) (pt : list pnode) (cur : str) (fuel : nat) :
  segs <> [] -> Forall seg_ok' segs ->
  resolve gv pt = Some (flat_map slots_of segs) -> length pt < fuel ->
  py_recursive_guesses upper_c gv py_int mcr false fuel cur pt None =
  Ok (map (app cur) (denote upper_c segs), Z.of_nat (length (denote upper_c segs))).
Proof.
  intros Hne Hok Hres Hf.
  rewrite_lim (recursive_guesses_eq pt _ Hres fuel cur None Hf).
  now rewrite (C04_expand_is_product_cur upper_c omen_of segs cur Hne Hok).
Qed.

Theorem source_create_guesses_is_product (segs : list seg) (pt : list pnode) (fuel : nat) :
  segs <> [] -> Forall seg_ok' segs ->
  resolve gv pt = Some (flat_map slots_of segs) -> length pt < fuel ->
  py_create_guesses upper_c gv py_int mcr false honey fuel pt false None =
  Ok (denote upper_c segs, Z.of_nat (length (denote upper_c segs))).
Proof.
  intros Hne Hok Hres Hf.
  rewrite_lim (create_guesses_eq pt _ fuel None Hres Hf).
  now rewrite (C04_expand_is_product upper_c omen_of segs Hne Hok).
Qed.

(* C04 / C09 / C17: with limit = n >= 1 exactly the first n lines, and min(n, total) is returned *)
Theorem source_create_guesses_limit (segs : list seg) (pt : list pnode) (fuel n : nat) :
  segs <> [] -> Forall seg_ok' segs -> n >= 1 ->
  resolve gv pt = Some (flat_map slots_of segs) -> length pt < fuel ->
  py_create_guesses upper_c gv py_int mcr false honey fuel pt false (Some (Z.of_nat n)) =
  Ok (firstn n (denote upper_c segs), Z.of_nat (Nat.min n (length (denote upper_c segs)))).
Proof.
  intros Hne Hok Hn Hres Hf.
  rewrite_lim (create_guesses_eq pt _ fuel (Some n) Hres Hf).
  rewrite (C04_limit upper_c omen_of segs [] n Hne Hok Hn). now rewrite map_app_nil.
Qed.

(* limit 0 and limit None are the same (`if limit:`), any resolvable parse tree *)
Theorem source_create_guesses_limit_zero (pt : list pnode) (slots : list slot) (fuel : nat) :
  resolve gv pt = Some slots -> length pt < fuel ->
  py_create_guesses upper_c gv py_int mcr false honey fuel pt false (Some 0%Z) =
  py_create_guesses upper_c gv py_int mcr false honey fuel pt false None.
Proof.
  intros Hres Hf.
  rewrite_lim (create_guesses_eq pt slots fuel (Some 0) Hres Hf). rewrite_lim (create_guesses_eq pt slots fuel None Hres Hf).
  now rewrite C04_limit_zero_is_none.
Qed.

(* the returned count is the number of printed lines, any resolvable parse tree, any limit >= 0 *)
Theorem source_create_guesses_count (pt : list pnode) (slots : list slot) (fuel : nat) (l : lim) out k :
  resolve gv pt = Some slots -> length pt < fuel ->
  py_create_guesses upper_c gv py_int mcr false honey fuel pt false (zlim l) = Ok (out, k) ->
  k = Z.of_nat (length out).
Proof.
  intros Hres Hf. rewrite (create_guesses_eq pt slots fuel l Hres Hf).
  destruct (expand upper_c omen_of slots [] l) as [[o c]|] eqn:E; [|discriminate].
  cbn [lift]. intros H. inversion H; subst. f_equal. eapply C04_count_is_lines. exact E.
Qed.

(* a Markov pre-terminal: the strings of the level named by the first value of the group *)
Theorem source_create_guesses_markov (name : pstr) (idx : Z) (lv : pstr) (more : list pstr) (fuel : nat) (l : lim) :
  gv (77%N :: name) idx = Some (lv :: more) -> 1 < fuel ->
  py_create_guesses upper_c gv py_int mcr false honey fuel [(77%N :: name, idx)] false (zlim l) =
  Ok (lim_take l (mcr (py_int lv)), Z.of_nat (length (lim_take l (mcr (py_int lv))))).
Proof.
  intros Hgv Hf.
  rewrite (create_guesses_eq [(77%N :: name, idx)] [{| scat := CatM; svals := lv :: more |}] fuel l).
  - reflexivity.
  - cbn [resolve]. unfold resolve_node. cbn [fst snd cat_of N.eqb Pos.eqb]. now rewrite Hgv.
  - exact Hf.
Qed.

End Eq.

(* C09: inside a Markov level the generator loop stops after exactly n guesses *)
Theorem source_omen_limit (gs : list str) (n : nat) : n >= 1 ->
  py_omen_generate_guesses false gs (Some (Z.of_nat n)) =
  Ok (firstn n gs, Z.of_nat (Nat.min n (length gs))).
Proof.
  intros Hn. rewrite_lim (omen_generate_guesses_eq gs (Some n)).
  rewrite lim_take_pos by lia. now rewrite firstn_length.
Qed.

Theorem source_omen_unlimited (gs : list str) :
  py_omen_generate_guesses false gs None = Ok (gs, Z.of_nat (length gs)) /\
  py_omen_generate_guesses false gs (Some 0%Z) = Ok (gs, Z.of_nat (length gs)).
Proof. split; [exact (omen_generate_guesses_eq gs None)|exact (omen_generate_guesses_eq gs (Some 0))]. Qed.

(* ------------------------------------------------------------------ *)
(* never out of fuel, for ALL inputs (any parse tree, resolvable or     *)
(* not, any limit incl. negative ints, any should_exit)                *)
(* ------------------------------------------------------------------ *)
Definition not_oof {X : Type} (r : res X) : Prop := r <> Exc OutOfFuel.
(* a loop step that leaves the function does not leave it with OutOfFuel *)
Definition stepP {R St : Type} (P : R -> Prop) (c : ctl R St) : Prop :=
  match c with Continue _ => True | Return r => P r end.

Lemma for_from_inv {X R St : Type} (P : R -> Prop) (l : list X) :
  forall i (body : nat -> X -> St -> ctl R St) s k,
  (forall i x s, stepP P (body i x s)) ->
  (forall s, P (k s)) ->
  P (for_from i l body s k).
Proof.
  induction l as [|x l IH]; intros i body s k Hb Hk; cbn [for_from].
  - apply Hk.
  - pose proof (Hb i x s) as Hx. destruct (body i x s) as [s'|r]; [|exact Hx].
    apply IH; assumption.
Qed.

Lemma bindx_inv {X Y : Type} (P : Y -> Prop) (r : res X) (h : exc -> Y) (k : X -> Y) :
  not_oof r -> (forall e, e <> OutOfFuel -> P (h e)) -> (forall x, P (k x)) -> P (bindx r h k).
Proof.
  intros Hr Hh Hk. destruct r as [x|e]; cbn [bindx]; [apply Hk|].
  apply Hh. intros ->. now apply Hr.
Qed.

Lemma lookup_not_oof {X : Type} (o : option X) : not_oof (lookup o).
Proof. destruct o; discriminate. Qed.
Lemma seq_index_not_oof {X : Type} (l : list X) (i : Z) : not_oof (seq_index l i).
Proof. unfold seq_index. destruct (py_index (length l) i); [apply lookup_not_oof|discriminate]. Qed.
Lemma str_index_not_oof (s : pstr) (i : Z) : not_oof (str_index s i).
Proof.
  unfold str_index. apply (bindx_inv not_oof); [apply seq_index_not_oof| |discriminate].
  intros e He H. inversion H. contradiction.
Qed.

(* walks through the generated text: every exception comes from a subscript, a lookup or
   a callee that is itself never out of fuel; [prim] proves the latter *)
Ltac walk prim :=
  cbv beta iota zeta;
  lazymatch goal with
  | |- stepP _ (Continue _) => exact I
  | |- stepP _ (Return _) => cbn [stepP]; walk prim
  | |- not_oof (Ok _) => discriminate
  | |- ?Q (bindx ?r _ _) =>
      apply (bindx_inv Q);
      [ prim
      | let e := fresh "e" in let He := fresh "He" in
        intros e He; cbv beta; cbn [stepP]; intros H; inversion H; contradiction
      | intros ?; walk prim ]
  | |- ?Q (if_truthy ?l _ _) => destruct l as [?|]; cbn [if_truthy]; walk prim
  | |- ?Q (if ?c then _ else _) => destruct c; walk prim
  | |- ?Q (for_each _ _ _ _) => unfold for_each; walk prim
  | |- ?Q (for_enum _ _ _ _) => unfold for_enum; walk prim
  | |- ?Q (for_from _ _ _ _ _) =>
      apply (for_from_inv Q); [intros ? ? ?; walk prim | intros ?; walk prim]
  | |- ?Q (match ?x with pair _ _ => _ end) => destruct x; walk prim
  end.

Ltac prim0 :=
  first [ apply seq_index_not_oof | apply str_index_not_oof | apply lookup_not_oof ].

Lemma omen_never_out_of_fuel (se : bool) (gs : list pstr) (limit : option Z) :
  not_oof (py_omen_generate_guesses se gs limit).
Proof. unfold py_omen_generate_guesses. walk prim0. Qed.

Theorem recursive_guesses_never_out_of_fuel (upper_c : N -> pstr) (gv : pstr -> Z -> option (list pstr))
        (py_int : pstr -> Z) (mcr : Z -> list pstr) (se : bool) :
  forall (pt : list pnode) (fuel : nat) (cur : pstr) (limit : option Z), length pt < fuel ->
  not_oof (py_recursive_guesses upper_c gv py_int mcr se fuel cur pt limit).
Proof.
  induction pt as [|nd ptr IH]; intros fuel cur limit Hf.
  - destruct fuel as [|f]; [cbn in Hf; lia|]. cbn. discriminate.
  - destruct fuel as [|f]; [cbn in Hf; lia|]. cbn [length] in Hf.
    cbn [py_recursive_guesses].
    walk ltac:(first [ prim0 | apply omen_never_out_of_fuel
                     | rewrite slice_from_1; apply IH; lia ]).
Qed.

Theorem create_guesses_never_out_of_fuel (upper_c : N -> pstr) (gv : pstr -> Z -> option (list pstr))
        (py_int : pstr -> Z) (mcr : Z -> list pstr) (se : bool)
        (honey : pstr -> list pnode -> option Z -> res (list pstr * Z))
        (pt : list pnode) (fuel : nat) (limit : option Z) :
  length pt < fuel ->
  not_oof (py_create_guesses upper_c gv py_int mcr se honey fuel pt false limit).
Proof.
  intros Hf. unfold py_create_guesses. cbn [negb].
  walk ltac:(apply recursive_guesses_never_out_of_fuel; exact Hf).
Qed.

(* ------------------------------------------------------------------ *)
(* the hypotheses are satisfiable and the generated code runs:         *)
(* the example of ExpandProofs as a parse tree over a small grammar    *)
(* ------------------------------------------------------------------ *)
(* D1 -> "1" | "2";  A2 -> "ab" | "cd";  C2 -> "LL" | "UL";  O1 -> "!" | "?" | "#";
   M -> level "4";  A1 -> "a" *)
Definition gv_ex (t : pstr) (i : Z) : option (list pstr) :=
  if negb (Z.eqb i 0) then None
  else if str_eqb t [68; 49]%N then Some [[49]; [50]]%N
  else if str_eqb t [65; 50]%N then Some [[97; 98]; [99; 100]]%N
  else if str_eqb t [67; 50]%N then Some [[76; 76]; [85; 76]]%N
  else if str_eqb t [79; 49]%N then Some [[33]; [63]; [35]]%N
  else if str_eqb t [77]%N then Some [[52]]%N
  else if str_eqb t [65; 49]%N then Some [[97]]%N
  else None.
Definition pt_ex : list pnode :=
  [([68; 49]%N, 0%Z); ([65; 50]%N, 0%Z); ([67; 50]%N, 0%Z); ([79; 49]%N, 0%Z)].
Definition int_ex (s : pstr) : Z := match s with [c] => Z.of_N c - 48 | _ => 0 end.
Definition mcr_ex (level : Z) : list pstr := if Z.eqb level 4 then [[97]; [98]; [99]]%N else [].
Definition honey_ex (_ : pstr) (_ : list pnode) (_ : option Z) : res (list pstr * Z) := Exc LookupError.

Example source_example_resolves : resolve gv_ex pt_ex = Some (flat_map slots_of segs_ex).
Proof. vm_compute. reflexivity. Qed.

Example source_example_wellformed : segs_ex <> [] /\ Forall seg_ok' segs_ex /\ length pt_ex < 5.
Proof.
  split; [discriminate|]. split; [|cbn; lia].
  repeat constructor; try discriminate; cbn; try lia.
  exists 2. repeat constructor; cbn; lia.
Qed.

Example source_example_product :
  py_create_guesses up_ascii gv_ex int_ex mcr_ex false honey_ex 5 pt_ex false None =
  Ok (denote up_ascii segs_ex, 24%Z).
Proof. vm_compute. reflexivity. Qed.

Example source_example_limit :
  py_create_guesses up_ascii gv_ex int_ex mcr_ex false honey_ex 5 pt_ex false (Some 5%Z) =
  Ok (firstn 5 (denote up_ascii segs_ex), 5%Z).
Proof. vm_compute. reflexivity. Qed.

Example source_example_markov :
  py_create_guesses up_ascii gv_ex int_ex mcr_ex false honey_ex 2 [([77%N], 0%Z)] false (Some 2%Z) =
  Ok ([[97]; [98]]%N, 2%Z).
Proof. vm_compute. reflexivity. Qed.

(* a mask longer than the guess built so far: IndexError; an unknown variable: KeyError *)
Example source_example_index_error :
  py_create_guesses up_ascii gv_ex int_ex mcr_ex false honey_ex 3 [([65; 49]%N, 0%Z); ([67; 50]%N, 0%Z)] false None =
  Exc LookupError /\
  py_create_guesses up_ascii gv_ex int_ex mcr_ex false honey_ex 3 [([88]%N, 0%Z)] false None = Exc LookupError.
Proof. split; vm_compute; reflexivity. Qed.

(* the fuel is what bounds the recursion: with less than len(pt) the generated function gives up
   (len(pt) + 1 is the bound the theorems use; the last level does not recurse) *)
Example source_example_out_of_fuel :
  py_create_guesses up_ascii gv_ex int_ex mcr_ex false honey_ex 3 pt_ex false None = Exc OutOfFuel.
Proof. vm_compute. reflexivity. Qed.
