(* Lemmas about the runtime of the generated OMEN trainer code (OmenTrainer.v value
   operations, OmenTrainerRt.v loops): association lists as dicts, Python indexing,
   and the loop shapes the translator produces - a loop over the keys of a dict that
   rewrites the value of the current key (possibly of a dict that hangs below the loop
   state: [lens]), an index loop over a list that rewrites the current element, a
   read-only loop as a fold. *)
From Coq Require Import List Arith Bool NArith ZArith Lia.
From Pcfg Require Import KernelRt OmenSpec OmenLevel OmenTrainer OmenTrainerRt.
Import ListNotations.

(* ------------------------------------------------------------------ *)
(* the monad                                                            *)

Lemma tbind_ok {X Y} (x : X) (f : X -> tres Y) : tbind (TOk x) f = f x.
Proof. reflexivity. Qed.

Lemma tbind_assoc {X Y W} (r : tres X) (f : X -> tres Y) (g : Y -> tres W) :
  tbind (tbind r f) g = tbind r (fun x => tbind (f x) g).
Proof. destruct r; reflexivity. Qed.

Lemma tbind_ret {X} (r : tres X) : tbind r (fun x => TOk x) = r.
Proof. destruct r; reflexivity. Qed.

Lemma tmapM_app {X Y} (f : X -> tres Y) (a b : list X) :
  tmapM f (a ++ b) = (ya <~ tmapM f a ;; yb <~ tmapM f b ;; TOk (ya ++ yb)).
Proof.
  induction a as [|x a IH]; simpl.
  - destruct (tmapM f b); reflexivity.
  - destruct (f x); simpl; [|reflexivity]. rewrite IH.
    destruct (tmapM f a); simpl; [|reflexivity]. destruct (tmapM f b); reflexivity.
Qed.

Lemma tmapM_length {X Y} (f : X -> tres Y) l ys : tmapM f l = TOk ys -> length ys = length l.
Proof.
  revert ys. induction l as [|x l IH]; simpl; intros ys H.
  - inversion H. reflexivity.
  - destruct (f x); simpl in H; [|discriminate]. destruct (tmapM f l) eqn:E; simpl in H; [|discriminate].
    inversion H. simpl. f_equal. apply IH. reflexivity.
Qed.

Lemma tmapM_ext {X Y} (f g : X -> tres Y) l : (forall x, In x l -> f x = g x) -> tmapM f l = tmapM g l.
Proof.
  induction l as [|x l IH]; simpl; intro H; [reflexivity|].
  rewrite (H x) by (left; reflexivity). rewrite IH by (intros; apply H; right; assumption). reflexivity.
Qed.

Lemma tmapM_forall {X Y} (f : X -> tres Y) (P : X -> Y -> Prop) l ys :
  (forall x y, In x l -> f x = TOk y -> P x y) -> tmapM f l = TOk ys -> Forall2 P l ys.
Proof.
  revert ys. induction l as [|x l IH]; simpl; intros ys HP H.
  - inversion H. constructor.
  - destruct (f x) eqn:Ex; simpl in H; [|discriminate]. destruct (tmapM f l) eqn:E; simpl in H; [|discriminate].
    inversion H. constructor; [apply HP; auto|]. apply IH; auto.
Qed.

Lemma tfoldM_app {X S} (f : S -> X -> tres S) a b s :
  tfoldM f (a ++ b) s = (s' <~ tfoldM f a s ;; tfoldM f b s').
Proof.
  revert s. induction a as [|x a IH]; simpl; intro s; [reflexivity|].
  destruct (f s x); simpl; [apply IH | reflexivity].
Qed.

(* ------------------------------------------------------------------ *)
(* association lists as dicts                                           *)

Section Dict.
Context {K V : Type} (eqb : K -> K -> bool).
Hypothesis eqb_eq : forall a b, eqb a b = true <-> a = b.

Lemma eqb_refl k : eqb k k = true.
Proof. apply eqb_eq. reflexivity. Qed.

Lemma eqb_neq a b : a <> b -> eqb a b = false.
Proof. intro H. destruct (eqb a b) eqn:E; [|reflexivity]. apply eqb_eq in E. contradiction. Qed.

Lemma afind_aset_same k (v : V) d : afind eqb k (aset eqb k v d) = Some v.
Proof.
  induction d as [|[k' v'] d IH]; simpl.
  - rewrite eqb_refl. reflexivity.
  - destruct (eqb k' k) eqn:E; simpl; rewrite E; [reflexivity | exact IH].
Qed.

Lemma afind_aset_other k k' (v : V) d : k <> k' -> afind eqb k' (aset eqb k v d) = afind eqb k' d.
Proof.
  intro Hn. induction d as [|[k2 v2] d IH]; simpl.
  - rewrite eqb_neq by exact Hn. reflexivity.
  - destruct (eqb k2 k) eqn:E; simpl.
    + apply eqb_eq in E. subst k2. rewrite eqb_neq by exact Hn. reflexivity.
    + destruct (eqb k2 k'); [reflexivity | exact IH].
Qed.

Lemma aset_aset_same k (v1 v2 : V) d : aset eqb k v2 (aset eqb k v1 d) = aset eqb k v2 d.
Proof.
  induction d as [|[k' v'] d IH]; simpl.
  - rewrite eqb_refl. reflexivity.
  - destruct (eqb k' k) eqn:E; simpl; rewrite E; [reflexivity | rewrite IH; reflexivity].
Qed.

Lemma aset_same_id k (v : V) d : afind eqb k d = Some v -> aset eqb k v d = d.
Proof.
  induction d as [|[k' v'] d IH]; simpl; [discriminate|].
  destruct (eqb k' k) eqn:E; intro H.
  - inversion H. reflexivity.
  - rewrite IH by exact H. reflexivity.
Qed.

Lemma afind_in k (v : V) d : afind eqb k d = Some v -> In (k, v) d.
Proof.
  induction d as [|[k' v'] d IH]; simpl; [discriminate|].
  destruct (eqb k' k) eqn:E; intro H.
  - apply eqb_eq in E. inversion H. subst. left. reflexivity.
  - right. apply IH. exact H.
Qed.

Lemma afind_none_notin k d : afind eqb k d = None <-> ~ In k (map (@fst K V) d).
Proof.
  induction d as [|[k' v'] d IH]; simpl; [tauto|].
  destruct (eqb k' k) eqn:E.
  - apply eqb_eq in E. split; [discriminate | intro H; exfalso; apply H; left; exact E].
  - rewrite IH. split; [intros H [H1|H1]; [apply eqb_eq in H1; congruence | contradiction] | tauto].
Qed.

Lemma amem_true k d : amem eqb k d = true <-> exists v : V, afind eqb k d = Some v.
Proof.
  unfold amem. destruct (afind eqb k d); split; intro H; try discriminate; eauto.
  destruct H; discriminate.
Qed.

Lemma amem_false k (d : list (K * V)) : amem eqb k d = false <-> afind eqb k d = None.
Proof. unfold amem. destruct (afind eqb k d); split; intro H; try discriminate; reflexivity. Qed.

Lemma aset_absent k (v : V) d : afind eqb k d = None -> aset eqb k v d = d ++ [(k, v)].
Proof.
  induction d as [|[k' v'] d IH]; simpl; [reflexivity|].
  destruct (eqb k' k); [discriminate|]. intro H. rewrite IH by exact H. reflexivity.
Qed.

Lemma keys_aset_present k (v v0 : V) d : afind eqb k d = Some v0 -> map fst (aset eqb k v d) = map fst d.
Proof.
  induction d as [|[k' v'] d IH]; simpl; [discriminate|].
  destruct (eqb k' k) eqn:E; simpl; intro H; [reflexivity | rewrite IH by exact H; reflexivity].
Qed.

Lemma afind_app_notin k (a b : list (K * V)) : ~ In k (map fst a) -> afind eqb k (a ++ b) = afind eqb k b.
Proof.
  induction a as [|[k' v'] a IH]; simpl; [reflexivity|]. intro H.
  rewrite eqb_neq by (intro; apply H; left; assumption). apply IH. tauto.
Qed.

Lemma aset_app_notin k (v : V) (a b : list (K * V)) :
  ~ In k (map fst a) -> aset eqb k v (a ++ b) = a ++ aset eqb k v b.
Proof.
  induction a as [|[k' v'] a IH]; simpl; [reflexivity|]. intro H.
  rewrite eqb_neq by (intro; apply H; left; assumption). rewrite IH by tauto. reflexivity.
Qed.

Lemma afind_head k (v : V) d : afind eqb k ((k, v) :: d) = Some v.
Proof. simpl. rewrite eqb_refl. reflexivity. Qed.

Lemma aset_head k (v v' : V) d : aset eqb k v' ((k, v) :: d) = (k, v') :: d.
Proof. simpl. rewrite eqb_refl. reflexivity. Qed.

(* for k in d (the keys as they were when the loop started): d[k] = f k d[k] (or raise), where the
   dict d is seen through a lens (get / put, lawful on the states that satisfy inv) from the loop
   state: the loop maps f over the items *)
Lemma tfor_keys_lens {S R : Type} (get : S -> list (K * V)) (put : S -> list (K * V) -> S) (inv : S -> Prop)
      (f : K -> V -> tres V) (body : K -> S -> tres (ctl R S)) :
  (forall s d, inv s -> inv (put s d)) ->
  (forall s d, inv s -> get (put s d) = d) ->
  (forall s d d', inv s -> put (put s d) d' = put s d') ->
  (forall s, inv s -> put s (get s) = s) ->
  forall s0 (cont : S -> tres R), inv s0 -> NoDup (map fst (get s0)) ->
  (forall k s v, inv s -> In (k, v) (get s0) -> afind eqb k (get s) = Some v ->
     body k s = match f k v with
                | TOk v' => TOk (Continue (put s (aset eqb k v' (get s))))
                | TRaise e => TRaise e
                end) ->
  tfor (map fst (get s0)) body s0 cont =
  (d' <~ tmapM (fun kv => v' <~ f (fst kv) (snd kv) ;; TOk (fst kv, v')) (get s0) ;; cont (put s0 d')).
Proof.
  intros Hinv Hgp Hpp Hpg s0 cont Hi0 Hnd Hbody.
  assert (G : forall todo done s, inv s -> get s = done ++ todo -> NoDup (map fst (done ++ todo)) ->
            (forall kv, In kv todo -> In kv (get s0)) ->
            tfor (map fst todo) body s cont =
            (ys <~ tmapM (fun kv => v' <~ f (fst kv) (snd kv) ;; TOk (fst kv, v')) todo ;; cont (put s (done ++ ys)))).
  { induction todo as [|[k v] todo IH]; intros done s Hi Hs Hn Hin; simpl.
    - rewrite <- Hs, Hpg by exact Hi. reflexivity.
    - assert (Hk : ~ In k (map fst done)).
      { rewrite map_app in Hn. simpl in Hn. apply NoDup_remove_2 in Hn. intro H. apply Hn. apply in_or_app. left. exact H. }
      rewrite (Hbody k s v Hi) by (first [apply Hin; left; reflexivity | rewrite Hs, afind_app_notin by exact Hk; apply afind_head]).
      destruct (f k v) as [v'|e]; simpl; [|reflexivity].
      rewrite Hs, aset_app_notin by exact Hk. rewrite aset_head.
      rewrite (IH (done ++ [(k, v')]) (put s (done ++ (k, v') :: todo))).
      + destruct (tmapM _ todo); simpl; [|reflexivity]. rewrite Hpp, <- app_assoc by exact Hi. reflexivity.
      + apply Hinv. exact Hi.
      + rewrite Hgp, <- app_assoc by exact Hi. reflexivity.
      + rewrite <- app_assoc. simpl. rewrite map_app in *. simpl in *. exact Hn.
      + intros kv H. apply Hin. right. exact H. }
  rewrite (G (get s0) [] s0 Hi0 eq_refl Hnd (fun _ H => H)). reflexivity.
Qed.

(* the loop state is the dict itself *)
Lemma tfor_keys_map {R : Type} (f : K -> V -> tres V) (body : K -> list (K * V) -> tres (ctl R (list (K * V))))
      d (cont : list (K * V) -> tres R) :
  NoDup (map fst d) ->
  (forall k d' v, In (k, v) d -> afind eqb k d' = Some v ->
     body k d' = match f k v with
                 | TOk v' => TOk (Continue (aset eqb k v' d'))
                 | TRaise e => TRaise e
                 end) ->
  tfor (map fst d) body d cont =
  (d' <~ tmapM (fun kv => v' <~ f (fst kv) (snd kv) ;; TOk (fst kv, v')) d ;; cont d').
Proof.
  intros Hn Hb.
  apply (tfor_keys_lens (fun d => d) (fun _ d => d) (fun _ => True) f body); auto.
Qed.

End Dict.


Lemma ostr_eqb_eq a b : ostr_eqb a b = true <-> a = b.
Proof.
  revert b. induction a as [|x a IH]; destruct b as [|y b]; simpl; try (split; [discriminate | discriminate]); try tauto.
  rewrite andb_true_iff, N.eqb_eq, IH. split; [intros [-> ->]; reflexivity | intro H; inversion H; auto].
Qed.

(* ------------------------------------------------------------------ *)
(* Python indexing                                                      *)

Lemma tlen_nonneg {X} (l : list X) : (0 <= tlen l)%Z.
Proof. unfold tlen. lia. Qed.

Lemma tlen_app {X} (a b : list X) : tlen (a ++ b) = (tlen a + tlen b)%Z.
Proof. unfold tlen. rewrite app_length. lia. Qed.

Lemma tindex_ok {X} (l : list X) (i : Z) x :
  (0 <= i)%Z -> nth_error l (Z.to_nat i) = Some x -> tindex l i = TOk x.
Proof.
  intros Hi Hn. unfold tindex. assert (Hlt : Z.to_nat i < length l) by (apply nth_error_Some; congruence).
  assert (E0 : (i <? 0)%Z = false) by (apply Z.ltb_ge; lia). rewrite !E0. cbn [orb].
  replace (tlen l <=? i)%Z with false by (symmetry; apply Z.leb_gt; unfold tlen; lia).
  rewrite Hn. reflexivity.
Qed.

Lemma tindex_mid {X} (a b : list X) x : tindex (a ++ x :: b) (tlen a) = TOk x.
Proof.
  apply tindex_ok; [apply tlen_nonneg|]. unfold tlen. rewrite Nat2Z.id, nth_error_app2 by lia.
  rewrite Nat.sub_diag. reflexivity.
Qed.

Lemma set_nth_t_mid {X} (a b : list X) x y : set_nth_t (a ++ x :: b) (length a) y = a ++ y :: b.
Proof. induction a as [|z a IH]; simpl; [reflexivity | rewrite IH; reflexivity]. Qed.

Lemma set_nth_t_length {X} (l : list X) i y : length (set_nth_t l i y) = length l.
Proof. revert i. induction l as [|x l IH]; destruct i; simpl; auto. Qed.

Lemma tsetindex_ok {X} (l : list X) (i : Z) y :
  (0 <= i < tlen l)%Z -> tsetindex l i y = TOk (set_nth_t l (Z.to_nat i) y).
Proof.
  intros [H0 H1]. unfold tsetindex.
  assert (E0 : (i <? 0)%Z = false) by (apply Z.ltb_ge; lia). rewrite !E0. cbn [orb].
  replace (tlen l <=? i)%Z with false by (symmetry; apply Z.leb_gt; lia). reflexivity.
Qed.

Lemma tsetindex_mid {X} (a b : list X) x y : tsetindex (a ++ x :: b) (tlen a) y = TOk (a ++ y :: b).
Proof.
  rewrite tsetindex_ok.
  - unfold tlen. rewrite Nat2Z.id, set_nth_t_mid. reflexivity.
  - rewrite tlen_app. unfold tlen. simpl length. lia.
Qed.

Lemma trange_0 n : trange 0 (Z.of_nat n) = map Z.of_nat (seq 0 n).
Proof. unfold trange. rewrite Z.sub_0_r, Nat2Z.id. apply map_ext. intro. lia. Qed.

Lemma trange_0_tlen {X} (l : list X) : trange 0 (tlen l) = map Z.of_nat (seq 0 (length l)).
Proof. apply trange_0. Qed.

(* for i, x in enumerate(l): l[i] = f x (or raise), reading the live list: the loop maps f *)
Lemma tfor_index_map {X R : Type} (f : X -> tres X) (body : Z -> list X -> tres (ctl R (list X))) :
  (forall a x b, body (tlen a) (a ++ x :: b) =
     match f x with
     | TOk y => TOk (Continue (a ++ y :: b))
     | TRaise e => TRaise e
     end) ->
  forall l (cont : list X -> tres R),
  tfor (trange 0 (tlen l)) body l cont = (ys <~ tmapM f l ;; cont ys).
Proof.
  intros Hbody l cont. rewrite trange_0_tlen.
  assert (G : forall todo done,
            tfor (map Z.of_nat (seq (length done) (length todo))) body (done ++ todo) cont =
            (ys <~ tmapM f todo ;; cont (done ++ ys))).
  { induction todo as [|x todo IH]; intro done; simpl.
    - reflexivity.
    - change (Z.of_nat (length done)) with (tlen done). rewrite Hbody.
      destruct (f x) as [y|e]; simpl; [|reflexivity].
      specialize (IH (done ++ [y])). rewrite app_length in IH. simpl in IH. rewrite Nat.add_1_r in IH.
      rewrite <- app_assoc in IH. simpl in IH. rewrite IH.
      destruct (tmapM f todo); simpl; [|reflexivity]. rewrite <- app_assoc. reflexivity. }
  apply (G l []).
Qed.

(* a loop that never leaves early is a fold *)
Lemma tfor_fold {X S R : Type} (step : S -> X -> tres S) (body : X -> S -> tres (ctl R S)) l :
  (forall x s, In x l -> body x s = match step s x with TOk s' => TOk (Continue s') | TRaise e => TRaise e end) ->
  forall s (cont : S -> tres R), tfor l body s cont = (s' <~ tfoldM step l s ;; cont s').
Proof.
  induction l as [|x l IH]; intros Hb s cont; simpl; [reflexivity|].
  rewrite Hb by (left; reflexivity). destruct (step s x); simpl; [|reflexivity].
  apply IH. intros. apply Hb. right. assumption.
Qed.

(* for x in l: if not p x: return False ... return True *)
Lemma tfor_forallb {X R : Type} (p : X -> bool) (body : X -> unit -> tres (ctl R unit)) (bad : R) l :
  (forall x u, body x u = if p x then TOk (Continue tt) else TOk (Return bad)) ->
  forall (cont : unit -> tres R), tfor l body tt cont = if forallb p l then cont tt else TOk bad.
Proof.
  intros Hb cont. induction l as [|x l IH]; simpl; [reflexivity|].
  rewrite Hb. destruct (p x); simpl; [exact IH | reflexivity].
Qed.

(* ------------------------------------------------------------------ *)
(* loops that only append to a text                                     *)

Lemma tfor_append {X R : Type} (g : X -> ostr) (body : X -> ostr -> tres (ctl R ostr)) l :
  (forall x file, In x l -> body x file = TOk (Continue (file ++ g x))) ->
  forall file (cont : ostr -> tres R), tfor l body file cont = cont (file ++ flat_map g l).
Proof.
  induction l as [|x l IH]; intros Hb file cont; simpl.
  - rewrite app_nil_r. reflexivity.
  - rewrite Hb by (left; reflexivity). rewrite IH by (intros; apply Hb; right; assumption).
    rewrite app_assoc. reflexivity.
Qed.

Lemma ttry_continue {R St : Type} (s : St) catches handler (k : St -> tres R) :
  ttry (TOk (Continue s)) catches handler k = k s.
Proof. reflexivity. Qed.

(* ------------------------------------------------------------------ *)
(* the table view of a smoothed object                                  *)

Lemma omapM_Forall2 {X Y} (f : X -> option Y) l ys :
  omapM f l = Some ys -> Forall2 (fun x y => f x = Some y) l ys.
Proof.
  revert ys. induction l as [|x l IH]; simpl; intros ys H.
  - inversion H. constructor.
  - destruct (f x) eqn:E; [|discriminate]. destruct (omapM f l); [|discriminate]. inversion H.
    constructor; [exact E | apply IH; reflexivity].
Qed.

Lemma Forall2_in_l {X Y} (P : X -> Y -> Prop) l ys x : Forall2 P l ys -> In x l -> exists y, In y ys /\ P x y.
Proof.
  induction 1; simpl; [tauto|]. intros [->|H1]; [eauto|]. destruct (IHForall2 H1) as (y' & ? & ?). eauto.
Qed.

Lemma level_nat_inv z n : level_nat z = Some n -> z = Z.of_nat n.
Proof.
  unfold level_nat. destruct (z <? 0)%Z eqn:E; [discriminate|]. intro H. inversion H.
  apply Z.ltb_ge in E. lia.
Qed.

Lemma leaf_level_inv v n : leaf_level v = Some n -> exists c, v = NLevel (Z.of_nat n) c.
Proof.
  destruct v as [c|l c]; simpl; [discriminate|]. intro H. apply level_nat_inv in H. subst. eauto.
Qed.

Lemma tentry_of_inv k e te : tentry_of (k, e) = Some te ->
  te_key te = k /\ ge_ip_level e = Some (Z.of_nat (te_ip te)) /\ ge_ep_level e = Some (Z.of_nat (te_ep te)) /\
  Forall2 (fun cv cl => fst cl = fst cv /\ exists c, snd cv = NLevel (Z.of_nat (snd cl)) c) (ge_next e) (te_next te).
Proof.
  unfold tentry_of. simpl fst. simpl snd.
  destruct (ge_ip_level e) as [il|]; [|discriminate]. destruct (ge_ep_level e) as [el|]; [|discriminate].
  destruct (level_nat il) as [i|] eqn:Ei; [|discriminate]. destruct (level_nat el) as [p|] eqn:Ep; [|discriminate].
  destruct (omapM _ (ge_next e)) as [nx|] eqn:En; [|discriminate]. intro H. inversion H. simpl.
  apply level_nat_inv in Ei. apply level_nat_inv in Ep. subst il el. repeat split.
  apply omapM_Forall2 in En. clear -En. induction En as [|cv cl l l' H0 _ IH]; constructor; [|exact IH].
  destruct (leaf_level (snd cv)) as [n|] eqn:El; simpl in H0; [|discriminate]. inversion H0. simpl.
  split; [reflexivity|]. apply leaf_level_inv. exact El.
Qed.

Lemma ttab_of_inv A T : ttab_of A = Some T ->
  Forall2 (fun x y => tentry_of x = Some y) (al_grammar A) (tt_grammar T) /\
  Forall2 (fun v n => exists c, v = NLevel (Z.of_nat n) c) (al_ln_lookup A) (tt_ln T) /\
  tt_ngram T = Z.to_nat (al_ngram A) /\ tt_min_len T = Z.to_nat (al_min_length A) /\ tt_max_len T = Z.to_nat (al_max_length A).
Proof.
  unfold ttab_of. destruct (omapM tentry_of (al_grammar A)) as [g|] eqn:Eg; [|discriminate].
  destruct (omapM leaf_level (al_ln_lookup A)) as [ln|] eqn:El; [|discriminate].
  intro H. inversion H. simpl. repeat split.
  - apply omapM_Forall2. exact Eg.
  - apply omapM_Forall2 in El. clear -El. induction El; constructor; [apply leaf_level_inv; assumption | assumption].
Qed.

(* ------------------------------------------------------------------ *)
(* more on dicts                                                        *)

Section Dict2.
Context {K V : Type} (eqb : K -> K -> bool).
Hypothesis eqb_eq : forall a b, eqb a b = true <-> a = b.

Lemma in_aset k (v : V) d k' v' : In (k', v') (aset eqb k v d) -> (k' = k /\ v' = v) \/ In (k', v') d.
Proof.
  induction d as [|[k2 v2] d IH]; simpl.
  - intros [H|[]]. inversion H. auto.
  - destruct (eqb k2 k) eqn:E; simpl.
    + apply eqb_eq in E. subst k2. intros [H|H]; [inversion H; auto | auto].
    + intros [H|H]; [auto | destruct (IH H); auto].
Qed.

Lemma keys_aset k (v : V) d :
  map fst (aset eqb k v d) = if amem eqb k d then map fst d else map fst d ++ [k].
Proof.
  unfold amem. destruct (afind eqb k d) eqn:E.
  - eapply keys_aset_present. exact E.
  - rewrite aset_absent by exact E. rewrite map_app. reflexivity.
Qed.

Lemma nodup_keys_aset k (v : V) d : NoDup (map fst d) -> NoDup (map fst (aset eqb k v d)).
Proof.
  intro H. rewrite keys_aset. unfold amem. destruct (afind eqb k d) eqn:E; [exact H|].
  apply (afind_none_notin eqb eqb_eq) in E. clear -H E. induction (map fst d) as [|x l IH]; simpl.
  - constructor; [simpl; tauto | constructor].
  - inversion H; subst. constructor.
    + rewrite in_app_iff. simpl. intros [H0|[H0|[]]]; [contradiction | subst; apply E; left; reflexivity].
    + apply IH; [assumption | intro; apply E; right; assumption].
Qed.
End Dict2.

Lemma tslice_length {X} (s : list X) a b :
  (0 <= a)%Z -> (a <= b)%Z -> (b <= tlen s)%Z -> tlen (tslice s (Some a) (Some b)) = (b - a)%Z.
Proof.
  intros H0 H1 H2. unfold tslice, tslice_bound.
  replace (a <? 0)%Z with false by (symmetry; apply Z.ltb_ge; lia).
  replace (b <? 0)%Z with false by (symmetry; apply Z.ltb_ge; lia).
  rewrite !Z.min_l by lia. unfold tlen in *. rewrite firstn_length, skipn_length. lia.
Qed.

Lemma tsetindex_length {X} (l : list X) i x l' : tsetindex l i x = TOk l' -> length l' = length l.
Proof.
  unfold tsetindex. destruct (_ || _); [discriminate|]. intro H. inversion H. apply set_nth_t_length.
Qed.

Lemma in_trange a b i : In i (trange a b) -> (a <= i < b)%Z.
Proof.
  unfold trange. rewrite in_map_iff. intros (n & <- & Hn). apply in_seq in Hn. lia.
Qed.

Lemma tfoldM_inv {X S} (f : S -> X -> tres S) (P : S -> Prop) l :
  (forall s x s', In x l -> P s -> f s x = TOk s' -> P s') ->
  forall s s', P s -> tfoldM f l s = TOk s' -> P s'.
Proof.
  induction l as [|x l IH]; intros Hf s s' Hs H; simpl in H.
  - inversion H. subst. exact Hs.
  - destruct (f s x) eqn:E; simpl in H; [|discriminate].
    eapply IH; [intros; eapply Hf; eauto; right; assumption | | exact H]. eapply Hf; eauto. left. reflexivity.
Qed.

(* a loop that never leaves early is a fold, for a body that is the step on the states of an invariant *)
Lemma tfor_fold_inv {X S R : Type} (step : S -> X -> tres S) (P : S -> Prop) (body : X -> S -> tres (ctl R S)) l :
  (forall x s s', In x l -> P s -> step s x = TOk s' -> P s') ->
  (forall x s, In x l -> P s -> body x s = match step s x with TOk s' => TOk (Continue s') | TRaise e => TRaise e end) ->
  forall s (cont : S -> tres R), P s -> tfor l body s cont = (s' <~ tfoldM step l s ;; cont s').
Proof.
  induction l as [|x l IH]; intros Hp Hb s cont Hs; simpl; [reflexivity|].
  rewrite Hb by (auto; left; reflexivity). destruct (step s x) eqn:E; simpl; [|reflexivity].
  apply IH.
  - intros. eapply Hp; eauto. right. assumption.
  - intros. apply Hb; auto. right. assumption.
  - eapply Hp; eauto. left. reflexivity.
Qed.
