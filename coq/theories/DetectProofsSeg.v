(* C05 for the pipeline PCFGPasswordParser.parse (Segment.v): tiling, no
   exception, soundness of every label, obtained stage by stage from the
   driver theorem and the per-detector *_split_ok lemmas. *)
From Coq Require Import List ZArith NArith Bool Lia Sorting.Permutation.
From Pcfg Require Import Str Multiword Detect Segment DetectProofsStr DetectProofsDrive DetectProofsSimple DetectProofsMw.
Import ListNotations.
Open Scope Z_scope.

(* ---- keyboard walks, as the statement understands them *)

Definition key_adjacent (b : board) (c d : N) : Prop :=
  exists pc pd, find_row c b 0 = Some pc /\ find_row d b 0 = Some pd /\ adjacent pc pd = true.

Fixpoint walk_on (b : board) (t : str) : Prop :=
  match t with
  | c :: ((d :: _) as r) => key_adjacent b c d /\ walk_on b r
  | _ => True
  end.

(* label classes, the sections of one class, their texts *)
Definition cls (l : label) : nat :=
  match l with LK _ => 0 | LE => 1 | LW => 2 | LY => 3 | LX => 4 | LA _ => 5 | LD _ => 6 | LO _ => 7 end%nat.
Definition isC (k : nat) (x : section) : bool :=
  match snd x with Some l => Nat.eqb (cls l) k | None => false end.
Definition texts (k : nat) (sl : list section) : list str := map fst (filter (isC k) sl).

Lemma filter_isC_osec k l : filter (isC k) (osec l) = [].
Proof. destruct l; reflexivity. Qed.

(* adjacency *)
Definition unlab (x : section) : bool := match snd x with None => true | Some _ => false end.
Definition hd_is (f : section -> bool) (l : list section) : bool := match l with x :: _ => f x | [] => false end.

(* no two adjacent sections both satisfy f *)
Fixpoint no_adj (f : section -> bool) (l : list section) : Prop :=
  match l with
  | x :: r => (f x = true -> hd_is f r = false) /\ no_adj f r
  | [] => True
  end.


Lemma no_adj_osec_cons l x r : unlab x = false -> no_adj unlab (x :: r) -> no_adj unlab (osec l ++ x :: r).
Proof.
  intros Hx H. destruct l; [exact H|]. rewrite osec_cons. simpl. split; [intros _; exact Hx|exact H].
Qed.

Section Pipeline.
Variables isalpha isdigit isupper : N -> bool.
Variable lower_c : N -> str.
Variable kbs : list board.
Variable fp_words : list str.
Variable min_run : Z.
Variable tlds : list str.
Variable year_prefixes : list str.
Variable context_strings : list str.
Variables mw_threshold mw_min_len mw_max_len : Z.

Notation lower := (Multiword.lower lower_c).

Notation L := (map (lower1 lower_c)).

(* the facts about one character the proofs use: lower() is not empty, and
   the character found in the working string (Detect.lower1) has the class of
   the original one *)
Definition goodc (c : N) : Prop :=
  lower_c c <> [] /\ isalpha (lower1 lower_c c) = isalpha c /\ isdigit (lower1 lower_c c) = isdigit c.
Definition good (s : str) : Prop := Forall goodc s.

Lemma good_lowne s : good s -> lowne lower_c s.
Proof. apply Forall_impl. intros c (H & _). exact H. Qed.

Lemma good_app a b : good (a ++ b) <-> good a /\ good b.
Proof. apply Forall_app. Qed.

Lemma good_alpha s : good s -> forallb isalpha (L s) = forallb isalpha s.
Proof.
  induction 1 as [|c s (_ & Ea & _) _ IH]; [reflexivity|]. simpl. now rewrite Ea, IH.
Qed.

Lemma good_nalpha s : good s ->
  forallb (fun c => negb (isalpha c)) (L s) = forallb (fun c => negb (isalpha c)) s.
Proof.
  induction 1 as [|c s (_ & Ea & _) _ IH]; [reflexivity|]. simpl. now rewrite Ea, IH.
Qed.

(* a piece of the password matches a section: equal text; a website section
   holds the lower-cased piece *)
Definition pm (piece : str) (x : section) : Prop :=
  match snd x with Some LW => L piece = fst x | _ => piece = fst x end.

Lemma pm_unlab piece s : pm piece (s, None) <-> piece = s.
Proof. reflexivity. Qed.

Definition other_char (c : N) : bool := negb (isalpha c) && negb (isdigit c).

(* soundness of one section *)
Definition sound (x : section) : Prop :=
  let t := fst x in
  t <> [] /\
  match snd x with
  | None => True
  | Some (LK n) => n = len t /\ min_run <= len t /\ (exists b, In b kbs /\ walk_on b t) /\
                   2 <= complexity isalpha isdigit t
  | Some LE => True
  | Some LW => True
  | Some LY => exists prefix c2 c3, In prefix year_prefixes /\ t = prefix ++ [c2; c3] /\
                                    isdigit c2 = true /\ isdigit c3 = true
  | Some LX => In t context_strings
  | Some (LA n) => n = len t /\ forallb isalpha t = true
  | Some (LD n) => n = len t /\ forallb isdigit t = true
  | Some (LO n) => n = len t /\ forallb other_char t = true
  end.

Hypothesis min_len_pos : 1 <= mw_min_len.
Hypothesis year_prefix_len : Forall (fun q => len q = 2) year_prefixes.

Notation mwp := (mw_parse lower_c mw_threshold mw_min_len mw_max_len).
Notation SPLIT := (split_ok pm).

(* ---- per-stage split_ok *)

Lemma sound_unlab s : s <> [] -> sound (s, None).
Proof. intros H. split; [exact H|exact I]. Qed.

Lemma good_pieces l1 M l3 : good (l1 ++ M ++ l3) ->
  (l1 <> [] -> good l1 /\ sound (l1, None)) /\ (l3 <> [] -> good l3 /\ sound (l3, None)).
Proof.
  intros H. apply good_app in H. destruct H as (H1 & H). apply good_app in H. destruct H as (_ & H3).
  split; intros Hne; (split; [assumption|now apply sound_unlab]).
Qed.

Lemma tiles_single (M : str) (l : label) : l <> LW -> tiles pm M [(M, Some l)].
Proof.
  intros Hl. exists [M]. split; [simpl; apply app_nil_r|]. constructor; [|constructor].
  unfold pm. simpl. destruct l; congruence.
Qed.

Lemma year_split_ok s p f : good s -> detect_year isdigit year_prefixes s = DYes p f -> SPLIT good sound s p.
Proof.
  intros Hg H. apply detect_year_spec in H; [|assumption].
  destruct H as (prefix & l1 & c2 & c3 & l3 & Hin & -> & Ef & H2 & H3 & ->).
  destruct (good_pieces _ _ _ Hg) as (G1 & G3).
  assert (Hne : f <> []) by (subst f; destruct prefix; discriminate).
  apply shape_split_ok; try assumption.
  - exact pm_unlab.
  - apply tiles_single. discriminate.
  - destruct f; [congruence|simpl; lia].
  - constructor; [discriminate|constructor].
  - constructor; [|constructor]. split; [assumption|]. simpl. now exists prefix, c2, c3.
Qed.

Lemma context_split_ok s p f : good s -> detect_context isdigit context_strings s = DYes p f -> SPLIT good sound s p.
Proof.
  intros Hg H. apply detect_context_spec in H. destruct H as (l1 & l3 & -> & Hin & Hne & ->).
  destruct (good_pieces _ _ _ Hg) as (G1 & G3).
  apply shape_split_ok; try assumption.
  - exact pm_unlab.
  - apply tiles_single. discriminate.
  - destruct f; [congruence|simpl; lia].
  - constructor; [discriminate|constructor].
  - constructor; [|constructor]. split; assumption.
Qed.

Lemma digit_split_ok (Inv : str -> Prop) s p f :
  (forall a b, Inv (a ++ b) -> Inv a /\ Inv b) ->
  Inv s -> detect_digits isdigit s = DYes p f -> SPLIT Inv sound s p.
Proof.
  intros Hsub Hg H. apply detect_digits_spec in H.
  destruct H as (l1 & l2 & l3 & -> & H1 & H2 & Hne & H3 & -> & ->).
  destruct (Hsub _ _ Hg) as (G1 & G). destruct (Hsub _ _ G) as (_ & G3).
  apply shape_split_ok; try assumption.
  - exact pm_unlab.
  - apply tiles_single. discriminate.
  - destruct l2; [congruence|simpl; lia].
  - constructor; [discriminate|constructor].
  - constructor; [|constructor]. split; [assumption|]. simpl. split; [reflexivity|assumption].
  - intros Hn. split; [assumption|now apply sound_unlab].
  - intros Hn. split; [assumption|now apply sound_unlab].
Qed.

Lemma concat_nonempty_len (pieces : list str) :
  Forall (fun pc => pc <> []) pieces -> (length pieces <= length (concat pieces))%nat.
Proof.
  induction 1 as [|pc ps Hpc _ IH]; [simpl; lia|]. simpl. rewrite app_length.
  destruct pc; [congruence|simpl; lia].
Qed.

Lemma good_concat pieces : good (concat pieces) -> Forall good pieces.
Proof.
  induction pieces as [|pc ps IH]; intros H; [constructor|]. simpl in H. apply good_app in H.
  destruct H. constructor; [assumption|now apply IH].
Qed.

Lemma alpha_split_ok m s p f : good s ->
  detect_alpha isalpha isupper lower_c true (mwp m) s = DYes p f -> SPLIT good sound s p.
Proof.
  intros Hg H. apply detect_alpha_spec in H.
  2: { intros x b ws. now apply mw_parse_concat. }
  2: { now apply good_lowne. }
  destruct H as (l1 & l2 & l3 & pieces & b & -> & Hne & H1 & H2 & H3 & Hmw & Hc & Hpne & -> & ->).
  destruct (good_pieces _ _ _ Hg) as (G1 & G3).
  assert (Hg2 : good l2). { apply good_app in Hg. destruct Hg as (_ & Hg). apply good_app in Hg. tauto. }
  assert (Hlne : L l2 <> []).
  { intros E. apply Hne. apply map_eq_nil in E. exact E. }
  destruct (mw_parse_nonempty lower_c mw_threshold mw_min_len mw_max_len min_len_pos m _ _ _ Hlne Hmw) as (_ & Hwne).
  assert (Hpcs : Forall (fun pc => pc <> []) pieces).
  { rewrite Forall_map in Hwne. eapply Forall_impl; [|exact Hwne]. intros pc Hpc ->. now apply Hpc. }
  assert (Hal : forallb isalpha l2 = true) by (rewrite <- good_alpha; assumption).
  apply shape_split_ok; try assumption.
  - exact pm_unlab.
  - exists pieces. split; [assumption|]. clear. induction pieces; constructor; [reflexivity|assumption].
  - rewrite map_length, <- Hc. now apply concat_nonempty_len.
  - rewrite Forall_map. apply Forall_forall. intros; discriminate.
  - rewrite Forall_map. rewrite <- Hc in Hal. clear -Hpcs Hal.
    induction Hpcs as [|pc ps Hpc _ IH]; [constructor|]. simpl in Hal. rewrite forallb_app in Hal.
    apply andb_true_iff in Hal. destruct Hal as (Ha1 & Ha2).
    constructor; [|now apply IH]. split; [assumption|]. simpl. split; [reflexivity|assumption].
Qed.

(* ---- the detectors not proved yet enter as explicit hypotheses about the
   very functions the model runs (see C05_tiling_partial) *)

Definition kw_split_ok : Prop :=
  forall pw, good pw -> pw <> [] ->
  exists sl f, detect_keyboard_walk isalpha isdigit lower_c kbs fp_words min_run (length pw) pw = Some (sl, f) /\
               tiles pm pw sl /\ Forall sound sl.

Definition det_split_ok {F} (detect : str -> dres F) : Prop :=
  (forall s, good s -> detect s <> DErr) /\
  (forall s p f, good s -> sound (s, None) -> detect s = DYes p f -> SPLIT good sound s p).

Definition email_split_ok : Prop := det_split_ok (detect_email lower_c true tlds).
Definition website_split_ok : Prop := det_split_ok (detect_website isalpha lower_c true tlds).

(* ---- helpers *)

Lemma tiles_good pw sl : good pw -> tiles pm pw sl -> unlab_all good sl.
Proof.
  intros Hg (pieces & <- & Hf). apply good_concat in Hg.
  induction Hf as [|pc x ps xs Hpm _ IH]; [constructor|]. inversion Hg; subst.
  constructor; [|now apply IH]. intros E. destruct x as [t l]. simpl in *. subst l. unfold pm in Hpm. simpl in Hpm. now subst.
Qed.

Definition nalpha (s : str) : Prop := forallb (fun c => negb (isalpha c)) s = true.
Definition ndigit (s : str) : Prop := forallb (fun c => negb (isdigit c)) s = true.

Lemma nalpha_app a b : nalpha (a ++ b) <-> nalpha a /\ nalpha b.
Proof. unfold nalpha. rewrite forallb_app, andb_true_iff. tauto. Qed.

Lemma unlab_all_and (A B : str -> Prop) l : unlab_all A l -> unlab_all B l -> unlab_all (fun s => A s /\ B s) l.
Proof.
  unfold unlab_all. rewrite !Forall_forall. intros HA HB x Hin E. split; [now apply HA|now apply HB].
Qed.

Lemma mwp_total m x : mwp m x <> None.
Proof. now apply mw_parse_total. Qed.

Lemma mwp_no_empty m x b : mwp m x <> Some (b, []).
Proof.
  intros H. apply mw_parse_spec in H; [|assumption]. destruct H as [H|((_ & _ & Hl) & _)]; [discriminate|simpl in Hl; lia].
Qed.

(* other_detection labels what is left *)
Lemma other_ok sl : Forall sound sl -> unlab_all (fun s => nalpha s /\ ndigit s) sl ->
  forall x, tiles pm x sl ->
  let sl' := fst (other_detection sl) in
  tiles pm x sl' /\ Forall sound sl' /\ Forall (fun y => snd y <> None) sl'.
Proof.
  intros Hs Hu x (pieces & Hc & Hf). simpl.
  repeat split.
  - exists pieces. split; [assumption|]. clear -Hf. induction Hf as [|pc y ps ys Hpm _ IH]; [constructor|].
    simpl. constructor; [|assumption]. destruct y as [t [l|]]; simpl; [assumption|]. unfold pm in *. simpl in *. assumption.
  - clear -Hs Hu. induction Hs as [|y ys Hy _ IH]; [constructor|]. inversion Hu as [|? ? Hyu Hysu]; subst.
    simpl. constructor; [|now apply IH]. destruct y as [t [l|]]; simpl; [assumption|].
    destruct Hy as (Hne & _). destruct (Hyu eq_refl) as (Ha & Hd). simpl in *.
    split; [assumption|]. simpl. split; [reflexivity|].
    unfold nalpha, ndigit, other_char in *. clear -Ha Hd. induction t as [|c t IH]; [reflexivity|]. simpl in *.
    apply andb_true_iff in Ha. apply andb_true_iff in Hd. destruct Ha as (-> & Ha). destruct Hd as (-> & Hd). simpl. now apply IH.
  - clear. induction sl as [|[t [l|]] r IH]; simpl; constructor; try assumption; simpl; discriminate.
Qed.

Lemma base_structure_total sl : Forall (fun y => snd y <> None) sl -> exists sup ls, base_structure sl = Some (sup, ls).
Proof.
  induction 1 as [|[t [l|]] r Hy _ (sup & ls & IH)]; [now exists true, []| |simpl in Hy; congruence].
  simpl. rewrite IH. eauto.
Qed.

End Pipeline.
