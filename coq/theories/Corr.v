(* Helpers for the correspondence checks: the harness writes what the Python
   implementation produced as Gallina literals and these functions compare it
   with what the model computes (everything here is evaluated by vm_compute). *)
From Coq Require Import List Arith Bool Floats PArith NArith.
From Pcfg Require Import ProbAlg F64 Next NextSpec.
Import ListNotations.

Definition feq (a b : float) : bool := PrimFloat.eqb a b.

Fixpoint list_eqb {X} (e : X -> X -> bool) (a b : list X) : bool :=
  match a, b with
  | [], [] => true
  | x :: a', y :: b' => e x y && list_eqb e a' b'
  | _, _ => false
  end.

Definition pair_eqb {X Y} (e1 : X -> X -> bool) (e2 : Y -> Y -> bool) (a b : X * Y) : bool :=
  e1 (fst a) (fst b) && e2 (snd a) (snd b).

Definition pt_eqb : pt -> pt -> bool := list_eqb (pair_eqb Nat.eqb Nat.eqb).

(* lexicographic order on parse trees *)
Fixpoint pt_ltb (a b : pt) : bool :=
  match a, b with
  | [], [] => false
  | [], _ => true
  | _, [] => false
  | (v, i) :: a', (w, j) :: b' =>
      if Nat.ltb v w then true else if Nat.ltb w v then false else
      if Nat.ltb i j then true else if Nat.ltb j i then false else pt_ltb a' b'
  end.

(* an observed queue item: parse tree, base probability, probability *)
Definition obs := (pt * float * float)%type.
Definition obs_of (it : item F64) : obs := (ipt it, ibase it, iprob it).
Definition obs_eqb (a b : obs) : bool :=
  match a, b with (t, b1, p1), (u, b2, p2) => pt_eqb t u && feq b1 b2 && feq p1 p2 end.

(* total preorder: probability descending, then tree, then base probability *)
Definition obs_before (a b : obs) : bool :=
  match a, b with (t, b1, p1), (u, b2, p2) =>
    if PrimFloat.ltb p2 p1 then true else if PrimFloat.ltb p1 p2 then false else
    if pt_ltb t u then true else if pt_ltb u t then false else PrimFloat.leb b2 b1
  end.

Fixpoint ins (x : obs) (l : list obs) : list obs :=
  match l with
  | [] => [x]
  | y :: r => if obs_before x y then x :: l else y :: ins x r
  end.
Definition sort_obs (l : list obs) : list obs := fold_right ins [] l.

(* two streams agree up to the order inside runs of equal probability *)
Definition streams_agree (a b : list obs) : bool :=
  list_eqb feq (map snd a) (map snd b) && list_eqb obs_eqb (sort_obs a) (sort_obs b).

Definition mk_rs (t : list (list float)) (b : list (float * list nat)) : ruleset F64 :=
  @Build_ruleset F64 t (map (fun pb => @Build_bstruct F64 (fst pb) (snd pb)) b).

(* C01/C02: the whole run of the model against the whole run of the code *)
Definition check_run (rs : ruleset F64) (impl : list obs) : bool :=
  let s := run pop_first_max rs (S (length impl)) (start rs) in
  wfb rs && Nat.eqb (length (pending s)) 0 &&
  streams_agree (map obs_of (rev (emitted s))) impl &&
  (* and the independent enumeration has the same multiset *)
  list_eqb obs_eqb (sort_obs (map obs_of (all_preterminals rs))) (sort_obs impl).

(* C08: resumed run.  [strict] selects the comparison in is_parent_around. *)
Definition check_resume (strict : bool) (rs : ruleset F64) (m : float) (impl : list obs) : bool :=
  let s := run pop_first_max rs (S (length impl)) (resume_start_gen strict rs m) in
  Nat.eqb (length (pending s)) 0 &&
  streams_agree (map obs_of (rev (emitted s))) impl.

Definition failing {X} (f : X -> bool) (l : list X) : list nat :=
  map fst (filter (fun kx => negb (f (snd kx))) (combine (seq 0 (length l)) l)).
