(* IoFloatFacts.v - binary64 facts the trainer I/O theorems use: a finite
   non-negative probability is not the reader's initial prev_prob -1.0, and
   division of counts by their common positive total is monotone and stays in
   [0,1] (what makes a trainer-written list "sorted non-increasing" in binary64
   and feeds the wf hypothesis of the guesser's order theorems).
   Proved through Flocq as in F64.v. *)
From Coq Require Import ZArith Reals Lra Floats Bool.
From Flocq Require Import Core IEEE754.BinarySingleNaN IEEE754.PrimFloat.
From Pcfg Require Import ProbAlg F64.
Open Scope R_scope.

Lemma okb_not_minus_one p : okbF p = true -> PrimFloat.eqb p (-1)%float = false.
Proof.
  intro H. pose proof (okbF_okF p H) as [Hf Hp].
  change (-1)%float with (PrimFloat.opp 1%float).
  rewrite eqb_equiv, opp_equiv.
  rewrite Beqb_correct.
  - rewrite B2R_Bopp, one_R. unfold Req_bool. rewrite Rcompare_Gt; [reflexivity|]. lra.
  - exact Hf.
  - rewrite is_finite_Bopp. destruct okF_one as [F _]. exact F.
Qed.

Lemma zero_R : B2R (Prim2B 0%float) = 0.
Proof.
  replace (Prim2B 0%float) with (B754_zero false : B); [reflexivity|].
  apply B2SF_inj. rewrite B2SF_Prim2B. reflexivity.
Qed.

Lemma rnd_one : rnd 1 = 1.
Proof. rewrite <- (@Bone_correct FloatOps.prec FloatOps.emax Hprec Hmax). apply rnd_id. Qed.

Lemma rnd_zero : rnd 0 = 0.
Proof. apply round_0. apply valid_rnd_round_mode. Qed.

(* count / total for 0 <= count <= total, total > 0 *)
Lemma Bdiv_unit (a t : B) : okB a -> okB t -> 0 < B2R t -> B2R a <= B2R t ->
  B2R (Bdiv mode_NE a t) = rnd (B2R a / B2R t) /\ unitB (Bdiv mode_NE a t).
Proof.
  intros [Fa Pa] [Ft Pt] Ht Hle.
  assert (Hq0 : 0 <= B2R a / B2R t) by (apply Rmult_le_pos; [exact Pa | left; apply Rinv_0_lt_compat; exact Ht]).
  assert (Hq1 : B2R a / B2R t <= 1).
  { apply (Rmult_le_reg_r (B2R t)); [exact Ht|]. unfold Rdiv. rewrite Rmult_assoc, Rinv_l by lra. lra. }
  assert (Hr0 : 0 <= rnd (B2R a / B2R t)) by (rewrite <- rnd_zero; apply rnd_mono; exact Hq0).
  assert (Hr1 : rnd (B2R a / B2R t) <= 1) by (rewrite <- rnd_one; apply rnd_mono; exact Hq1).
  pose proof (Bdiv_correct FloatOps.prec FloatOps.emax Hprec Hmax mode_NE a t) as Hc.
  assert (Hnz : B2R t <> 0) by lra. specialize (Hc Hnz).
  rewrite Rlt_bool_true in Hc.
  - destruct Hc as (Hr & Hf & _). split; [exact Hr|]. split; [split|].
    + rewrite Hf. exact Fa.
    + rewrite Hr. exact Hr0.
    + rewrite Hr. exact Hr1.
  - rewrite Rabs_pos_eq by exact Hr0. apply Rle_lt_trans with 1; [exact Hr1|].
    change 1 with (bpow radix2 0). apply bpow_lt. reflexivity.
Qed.

Theorem pdiv_unit_F (a t : PrimFloat.float) : okF a -> okF t ->
  (0 <? t)%float = true -> (a <=? t)%float = true -> unitF (a / t).
Proof.
  intros Ha Ht H0 Hle. unfold unitF. rewrite div_equiv.
  assert (R0 : 0 < B2R (Prim2B t)).
  { rewrite ltb_R in H0 by (exact Ht || (apply okbF_okF; reflexivity)).
    destruct (Rlt_bool_spec (B2R (Prim2B 0%float)) (B2R (Prim2B t))) as [H|H]; [|discriminate].
    rewrite zero_R in H. exact H. }
  assert (R1 : B2R (Prim2B a) <= B2R (Prim2B t)).
  { rewrite leb_R in Hle by assumption.
    destruct (Rle_bool_spec (B2R (Prim2B a)) (B2R (Prim2B t))); [assumption|discriminate]. }
  apply (Bdiv_unit _ _ Ha Ht R0 R1).
Qed.

(* division by one positive total is monotone *)
Theorem pdiv_mono_F (a b t : PrimFloat.float) : okF a -> okF b -> okF t ->
  (0 <? t)%float = true -> (a <=? b)%float = true -> (b <=? t)%float = true ->
  (a / t <=? b / t)%float = true.
Proof.
  intros Ha Hb Ht H0 Hab Hbt.
  assert (R0 : 0 < B2R (Prim2B t)).
  { rewrite ltb_R in H0 by (exact Ht || (apply okbF_okF; reflexivity)).
    destruct (Rlt_bool_spec (B2R (Prim2B 0%float)) (B2R (Prim2B t))) as [H|H]; [|discriminate].
    rewrite zero_R in H. exact H. }
  assert (Rab : B2R (Prim2B a) <= B2R (Prim2B b)).
  { rewrite leb_R in Hab by assumption.
    destruct (Rle_bool_spec (B2R (Prim2B a)) (B2R (Prim2B b))); [assumption|discriminate]. }
  assert (Rbt : B2R (Prim2B b) <= B2R (Prim2B t)).
  { rewrite leb_R in Hbt by assumption.
    destruct (Rle_bool_spec (B2R (Prim2B b)) (B2R (Prim2B t))); [assumption|discriminate]. }
  assert (Rat : B2R (Prim2B a) <= B2R (Prim2B t)) by lra.
  destruct (Bdiv_unit _ _ Ha Ht R0 Rat) as [Ea [Oa _]].
  destruct (Bdiv_unit _ _ Hb Ht R0 Rbt) as [Eb [Ob _]].
  assert (G : B2R (Bdiv mode_NE (Prim2B a) (Prim2B t)) <= B2R (Bdiv mode_NE (Prim2B b) (Prim2B t))).
  { rewrite Ea, Eb. apply rnd_mono.
    unfold Rdiv. apply Rmult_le_compat_r; [left; apply Rinv_0_lt_compat; exact R0 | exact Rab]. }
  rewrite leb_R by (unfold okF; rewrite div_equiv; assumption).
  rewrite !div_equiv. apply Rle_bool_true. exact G.
Qed.
