(* OmenSpec.v -- shared SPECIFICATION of the OMEN (Markov) level model.
   Definitions only, standard library only.  Used by C10/C15 (generator) and
   C11/C18 (trainer-side level and keyspace).

   Strings are lists of code points ([ostr = list N]).  Levels stored in the
   files are naturals; level *budgets* (a target level minus costs already
   spent) are integers [Z] because they may become negative.

   Anchors: /repo/lib_guesser/omen/input_file_io.py (what the GUESSER loads),
   /repo/lib_guesser/omen/markov_cracker.py + guess_structure.py (the order in
   which the generator walks the tables). *)
From Coq Require Import List Arith Bool NArith ZArith.
Import ListNotations.

Definition ostr := list N.

Fixpoint ostr_eqb (a b : ostr) : bool :=
  match a, b with
  | [], [] => true
  | x :: a', y :: b' => N.eqb x y && ostr_eqb a' b'
  | _, _ => false
  end.

Definition is_nil {X} (l : list X) : bool := match l with [] => true | _ => false end.

(* ------------------------------------------------------------------ *)
(* An OMEN model as the guesser loads it.                              *)
(*  og_ip : lines of IP.level  (level, string of ngram-1 characters), file order
    og_cp : lines of CP.level  (level, string of ngram characters),   file order
    og_ln : lines of LN.level  (level of length 1, of length 2, ...)           *)
Record omen := mk_omen {
  og_ngram     : nat;
  og_max_level : nat;                 (* input_file_io._load_config: 10 *)
  og_ip        : list (nat * ostr);
  og_cp        : list (nat * ostr);
  og_ln        : list nat
}.

(* ------------------------------------------------------------------ *)
(* Lookup functions mirroring input_file_io.py                          *)

(* grammar['ip'][l] : the IP strings at level l, in file order *)
Definition ip_at (G : omen) (l : nat) : list ostr :=
  map snd (filter (fun e => Nat.eqb (fst e) l) (og_ip G)).

(* a CP line (l, s) is stored under prefix s[0:-1], level l, as character s[-1] *)
Definition cp_line_matches (p : ostr) (l : nat) (e : nat * ostr) : bool :=
  Nat.eqb (fst e) l && negb (is_nil (snd e)) && ostr_eqb (removelast (snd e)) p.

(* grammar['cp'][p][l] : the next characters after prefix p at level l, file
   order; [] when the key is absent *)
Definition cp_at (G : omen) (p : ostr) (l : nat) : list N :=
  map (fun e => last (snd e) 0%N) (filter (cp_line_matches p l) (og_cp G)).

(* grammar['ln'][l] : for the lengths len >= ngram that have level l, the number
   of transitions len-(ngram-1), in file order (line i is length i, from 1) *)
Fixpoint ln_from (ngram len : nat) (ls : list nat) (l : nat) : list nat :=
  match ls with
  | [] => []
  | x :: r =>
      (if Nat.leb ngram len && Nat.eqb x l then [len - (ngram - 1)] else [])
      ++ ln_from ngram (S len) r l
  end.
Definition ln_at (G : omen) (l : nat) : list nat := ln_from (og_ngram G) 1 (og_ln G) l.

(* ------------------------------------------------------------------ *)
(* The canonical order (DESIGN Appendix A.4)                            *)

(* next prefix after choosing character c:  ip[1:] + c *)
Definition shift (p : ostr) (c : N) : ostr := tl p ++ [c].

(* a parse-tree row [prefix, level, index]; a parse tree is a list of rows *)
Definition row := (ostr * nat * nat)%type.
Definition tree := list row.
Definition row_prefix (r : row) : ostr := fst (fst r).
Definition row_level (r : row) : nat := snd (fst r).
Definition row_index (r : row) : nat := snd r.

Fixpoint down_from (n : nat) : list nat :=
  match n with 0 => [0] | S m => n :: down_from m end.

(* the levels tried at one position with budget lvl: min lvl maxl, ..., 1, 0;
   none when the budget is negative *)
Definition levels_down (maxl : nat) (lvl : Z) : list nat :=
  if (lvl <? 0)%Z then [] else down_from (Nat.min (Z.to_nat lvl) maxl).

Definition indexed {X} (l : list X) : list (nat * X) := combine (seq 0 (length l)) l.

Section Canonical.
  (* the tables as functions, so that the same definitions serve the files
     ([cp_at G]) and any indexed representation of them *)
  Variable ipf : nat -> list ostr.
  Variable cpf : ostr -> nat -> list N.
  Variable lnf : nat -> list nat.
  Variable maxl : nat.

  (* all parse trees of k transitions from prefix p whose levels sum to
     EXACTLY lvl, in the generator's order: level high -> low, index low -> high,
     depth first.  For k = 1 this is [(p,lvl,i) | i < |cp p lvl|] when
     0 <= lvl <= maxl and [] otherwise. *)
  Fixpoint completions_f (k : nat) (p : ostr) (lvl : Z) : list tree :=
    match k with
    | 0 => if (lvl =? 0)%Z then [[]] else []
    | S k' =>
        flat_map (fun L =>
          flat_map (fun ic =>
            map (cons (p, L, fst ic))
                (completions_f k' (shift p (snd ic)) (lvl - Z.of_nat L)))
            (indexed (cpf p L)))
          (levels_down maxl lvl)
    end.

  (* the characters a parse tree spells *)
  Definition row_char (r : row) : N := nth (row_index r) (cpf (row_prefix r) (row_level r)) 0%N.
  Definition tree_chars (t : tree) : ostr := map row_char t.

  Definition all_levels : list nat := seq 0 (S maxl).

  (* the strings of k transitions starting with initial n-gram ip, budget lvl *)
  Definition ip_strings (k : nat) (lvl : Z) (ip : ostr) : list ostr :=
    map (fun t => ip ++ tree_chars t) (completions_f k ip lvl).

  (* What the generator must emit for target level T, in order:
     length cursor (level ascending, file order inside a level), then IP cursor
     (level ascending, file order inside a level), then completions with the
     remaining budget.  Pairs over budget have a negative remainder and
     contribute nothing. *)
  Definition level_strings_f (T : Z) : list ostr :=
    flat_map (fun Ll =>
      flat_map (fun k =>
        flat_map (fun Li =>
          flat_map (ip_strings k (T - Z.of_nat Ll - Z.of_nat Li)) (ipf Li))
          all_levels)
        (lnf Ll))
      all_levels.
End Canonical.

Definition completions (G : omen) : nat -> ostr -> Z -> list tree :=
  completions_f (cp_at G) (og_max_level G).

Definition level_strings (G : omen) (T : Z) : list ostr :=
  level_strings_f (ip_at G) (cp_at G) (ln_at G) (og_max_level G) T.

(* ------------------------------------------------------------------ *)
(* Set-level definition: the level of a string                          *)

Fixpoint first_level (s : ostr) (lines : list (nat * ostr)) : option nat :=
  match lines with
  | [] => None
  | (l, x) :: r => if ostr_eqb x s then Some l else first_level s r
  end.

Definition ip_level (G : omen) (ip : ostr) : option nat := first_level ip (og_ip G).
Definition cp_level (G : omen) (g : ostr) : option nat := first_level g (og_cp G).

(* cost of a total length; None when the guesser cannot generate the length *)
Definition ln_level (G : omen) (len : nat) : option nat :=
  if Nat.ltb len (og_ngram G) || Nat.eqb len 0 then None
  else nth_error (og_ln G) (len - 1).

Definition oadd (a b : option nat) : option nat :=
  match a, b with Some x, Some y => Some (x + y) | _, _ => None end.

(* sum of the costs of all n-grams (windows of n1+1 characters) of s *)
Fixpoint trans_level (G : omen) (n1 : nat) (s : ostr) : option nat :=
  match s with
  | [] => Some 0
  | _ :: r =>
      if Nat.leb (length s) n1 then Some 0
      else oadd (cp_level G (firstn (S n1) s)) (trans_level G n1 r)
  end.

(* length cost + IP cost + sum of transition costs; None if any n-gram is
   missing or the length is not generable *)
Definition level_of (G : omen) (s : ostr) : option nat :=
  let n1 := og_ngram G - 1 in
  oadd (ln_level G (length s))
       (oadd (ip_level G (firstn n1 s)) (trans_level G n1 s)).

(* ------------------------------------------------------------------ *)
(* Well-formed tables (what the trainer writes / the loader accepts)    *)

Definition wf_tables (G : omen) : Prop :=
  2 <= og_ngram G /\
  NoDup (map snd (og_ip G)) /\
  NoDup (map snd (og_cp G)) /\
  (forall l s, In (l, s) (og_ip G) -> length s = og_ngram G - 1 /\ l <= og_max_level G) /\
  (forall l s, In (l, s) (og_cp G) -> length s = og_ngram G /\ l <= og_max_level G) /\
  (forall l, In l (og_ln G) -> l <= og_max_level G).

Fixpoint nodupb (l : list ostr) : bool :=
  match l with
  | [] => true
  | x :: r => negb (existsb (ostr_eqb x) r) && nodupb r
  end.

Definition wf_tablesb (G : omen) : bool :=
  Nat.leb 2 (og_ngram G) &&
  nodupb (map snd (og_ip G)) && nodupb (map snd (og_cp G)) &&
  forallb (fun e => Nat.eqb (length (snd e)) (og_ngram G - 1) && Nat.leb (fst e) (og_max_level G)) (og_ip G) &&
  forallb (fun e => Nat.eqb (length (snd e)) (og_ngram G) && Nat.leb (fst e) (og_max_level G)) (og_cp G) &&
  forallb (fun l => Nat.leb l (og_max_level G)) (og_ln G).

(* MarkovCracker._find_first_object scans range(0, max_level): the constructor
   only succeeds when some IP and some length sit strictly below max_level *)
Definition first_below_max (G : omen) : Prop :=
  (exists l, l < og_max_level G /\ ip_at G l <> []) /\
  (exists l, l < og_max_level G /\ ln_at G l <> []).
