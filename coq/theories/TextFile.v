(* TextFile.v - strings as lists of code points, the Python text primitives the
   ruleset files go through, the ruleset line format (writer, guesser reader,
   scorer reader) and the OMEN level files (writer, guesser reader, scorer
   reader).  Definitions only; proofs are in TextFileProofs.v.

   Everything the Python runtime decides is a parameter:
     lb   : code points on which str.splitlines / codecs line iteration split
     ws   : code points str.strip / rstrip / lstrip remove
     iws  : code points int() skips around a number
     dz   : the zeros of the runs of ten Unicode decimal digits
     repr : float -> text   and   pfloat : text -> option float
   The concrete lists are probed from the running interpreter on every run
   (gen/Consts_gen.v: py_linebreaks, py_whitespace, py_int_whitespace,
   py_decimal_zeros); repr / float() are instantiated by finite tables computed
   by the interpreter on exactly the arguments that occur (IoCorr.v). *)
From Coq Require Import List NArith ZArith Bool Floats.
Import ListNotations.
Open Scope N_scope.

Definition char := N.
Definition str := list N.

Definition TAB : N := 9.
Definition LF : N := 10.
Definition CR : N := 13.
Definition SP : N := 32.

Definition memN (c : N) (l : list N) : bool := existsb (N.eqb c) l.

Fixpoint str_eqb (a b : str) : bool :=
  match a, b with
  | [], [] => true
  | x :: a', y :: b' => N.eqb x y && str_eqb a' b'
  | _, _ => false
  end.

(* ---------------------------------------------------------------- lines *)

(* str.splitlines(keepends=True); also what codecs.StreamReader.readline
   returns call after call.  CR LF is one line end. *)
Definition ends_line (lb : N -> bool) (c : N) (r : str) : bool :=
  lb c && negb (N.eqb c CR && match r with d :: _ => N.eqb d LF | [] => false end).

Definition cons_first (c : N) (ls : list str) : list str :=
  match ls with [] => [[c]] | l :: r => (c :: l) :: r end.

Fixpoint lines_keep (lb : N -> bool) (s : str) : list str :=
  match s with
  | [] => []
  | c :: r => if ends_line lb c r then [c] :: lines_keep lb r
              else cons_first c (lines_keep lb r)
  end.

(* builtin open(name, 'r'): universal newlines (CR LF and CR become LF), lines
   end at LF only *)
Fixpoint univ_nl (s : str) : str :=
  match s with
  | [] => []
  | c :: r =>
      if N.eqb c CR then
        match r with
        | d :: r' => if N.eqb d LF then LF :: univ_nl r' else LF :: univ_nl r
        | [] => [LF]
        end
      else c :: univ_nl r
  end.

Definition lines_text (s : str) : list str := lines_keep (N.eqb LF) (univ_nl s).

(* ---------------------------------------------------------------- strip / split *)

Fixpoint dropwhile (f : N -> bool) (s : str) : str :=
  match s with
  | c :: r => if f c then dropwhile f r else s
  | [] => []
  end.

Definition lstrip (f : N -> bool) (s : str) : str := dropwhile f s.
Definition rstrip (f : N -> bool) (s : str) : str := rev (dropwhile f (rev s)).

Definition is_crlf (c : N) : bool := N.eqb c CR || N.eqb c LF.

(* str.split(sep) for a one-character separator: never the empty list *)
Fixpoint split_on (sep : N) (s : str) : list str :=
  match s with
  | [] => [[]]
  | c :: r =>
      if N.eqb c sep then [] :: split_on sep r
      else match split_on sep r with
           | l :: ls => (c :: l) :: ls
           | [] => [[c]]
           end
  end.

Fixpoint join (sep : N) (l : list str) : str :=
  match l with
  | [] => []
  | [a] => a
  | a :: r => a ++ sep :: join sep r
  end.

Fixpoint starts_with (p s : str) : bool :=
  match p, s with
  | [], _ => true
  | x :: p', y :: s' => N.eqb x y && starts_with p' s'
  | _ :: _, [] => false
  end.

Definition ends_with (p s : str) : bool := starts_with (rev p) (rev s).

(* ---------------------------------------------------------------- int() *)

Definition digit_val (dz : list N) (c : N) : option N :=
  match find (fun z => (z <=? c) && (c <? z + 10)) dz with
  | Some z => Some (c - z)
  | None => None
  end.

(* digits, single underscores allowed between digits *)
Fixpoint int_digits (dz : list N) (acc : N) (prev_digit : bool) (s : str) : option N :=
  match s with
  | [] => if prev_digit then Some acc else None
  | c :: r =>
      if N.eqb c 95 then
        if prev_digit then int_digits dz acc false r else None
      else match digit_val dz c with
           | Some d => int_digits dz (acc * 10 + d) true r
           | None => None
           end
  end.

(* Python int(text): optional surrounding whitespace, optional sign, decimal
   digits of any script *)
Definition parse_int (iws : N -> bool) (dz : list N) (s : str) : option Z :=
  let t := rstrip iws (lstrip iws s) in
  match t with
  | [] => None
  | c :: r =>
      if N.eqb c 43 then option_map Z.of_N (int_digits dz 0 false r)
      else if N.eqb c 45 then option_map (fun n => Z.opp (Z.of_N n)) (int_digits dz 0 false r)
      else option_map Z.of_N (int_digits dz 0 false t)
  end.

(* str(n) for a non-negative integer *)
Fixpoint dec_digits (fuel : nat) (n : N) (acc : str) : str :=
  match fuel with
  | O => acc
  | S f => let acc' := (48 + n mod 10) :: acc in
           if n <? 10 then acc' else dec_digits f (n / 10) acc'
  end.
Definition dec_of_N (n : N) : str := dec_digits (S (N.to_nat (N.log2 n))) n [].
Definition dec_of_Z (z : Z) : str :=
  match z with
  | Zneg p => 45 :: dec_of_N (Npos p)
  | _ => dec_of_N (Z.to_N z)
  end.

(* ---------------------------------------------------------------- ruleset line format *)

(* save_pcfg_data.calculate_and_save_counter: str(value) TAB str(prob) LF *)
Definition write_line (repr : float -> str) (it : str * float) : str :=
  fst it ++ TAB :: repr (snd it) ++ [LF].
Definition write_file (repr : float -> str) (l : list (str * float)) : str :=
  flat_map (write_line repr) l.

(* one line of either grammar reader: rstrip(), split on TAB, float(fields[1]) *)
Definition parse_line (ws : N -> bool) (pfloat : str -> option float) (line : str)
  : option (str * float) :=
  match split_on TAB (rstrip ws line) with
  | v :: f :: _ => match pfloat f with Some p => Some (v, p) | None => None end
  | _ => None
  end.

(* what line.encode(encoding) does in the readers *)
Inductive enc_fail := EncSkip | EncAbort.

(* lib_guesser/grammar_io._load_from_file, the parsing part: [skip] is the
   error_flag (a line that does not parse makes the reader drop the next line
   too); a line the codec cannot re-encode is dropped, or - when the codec
   reports 'surrogates not allowed' - the reader dies on an unbound variable
   and the load fails *)
Fixpoint guesser_items (ws : N -> bool) (pfloat : str -> option float) (encb : N -> bool)
    (onfail : enc_fail) (lines : list str) (skip : bool) : option (list (str * float)) :=
  match lines with
  | [] => Some []
  | ln :: r =>
      if skip then guesser_items ws pfloat encb onfail r false
      else if negb (forallb encb ln) then
        match onfail with
        | EncAbort => None
        | EncSkip => guesser_items ws pfloat encb onfail r false
        end
      else match parse_line ws pfloat ln with
           | Some it => option_map (cons it) (guesser_items ws pfloat encb onfail r false)
           | None => guesser_items ws pfloat encb onfail r true
           end
  end.

Record group := { gvals : list str; gprob : float }.

(* consecutive items whose probability == the probability of the first item of
   the open group join that group *)
Fixpoint groups (p : float) (vs : list str) (l : list (str * float)) : list group :=
  match l with
  | [] => [{| gvals := rev vs; gprob := p |}]
  | (v, q) :: r =>
      if PrimFloat.eqb q p then groups p (v :: vs) r
      else {| gvals := rev vs; gprob := p |} :: groups q [v] r
  end.

Definition group_by_prob (l : list (str * float)) : list group :=
  match l with
  | [] => []
  | (v, p) :: r => groups p [v] r
  end.

(* prev_prob starts at -1.0: a first probability equal to it indexes an empty
   list and the load fails *)
Definition group_items (l : list (str * float)) : option (list group) :=
  match l with
  | [] => Some []
  | (v, p) :: r => if PrimFloat.eqb p (-1)%float then None else Some (groups p [v] r)
  end.

Definition load_guesser (lb ws : N -> bool) (pfloat : str -> option float) (encb : N -> bool)
    (onfail : enc_fail) (text : str) : option (list group) :=
  match guesser_items ws pfloat encb onfail (lines_keep lb text) false with
  | Some its => group_items its
  | None => None
  end.

(* Python dict assignment d[k] = v on an insertion-ordered association list *)
Fixpoint dict_set {V} (k : str) (v : V) (d : list (str * V)) : list (str * V) :=
  match d with
  | [] => [(k, v)]
  | (k', v') :: r => if str_eqb k k' then (k, v) :: r else (k', v') :: dict_set k v r
  end.

Fixpoint dict_get {V} (k : str) (d : list (str * V)) : option V :=
  match d with
  | [] => None
  | (k', v') :: r => if str_eqb k k' then Some v' else dict_get k r
  end.

(* lib_scorer/grammar_io._load_from_file: no recovery, any malformed line fails
   the load (the entries read so far stay in the counter: second component) *)
Fixpoint scorer_items (ws : N -> bool) (pfloat : str -> option float) (encb : N -> bool)
    (onfail : enc_fail) (lines : list str) (d : list (str * float)) : bool * list (str * float) :=
  match lines with
  | [] => (true, d)
  | ln :: r =>
      if negb (forallb encb ln) then
        match onfail with
        | EncAbort => (false, d)
        | EncSkip => scorer_items ws pfloat encb onfail r d
        end
      else match parse_line ws pfloat ln with
           | Some (v, p) => scorer_items ws pfloat encb onfail r (dict_set v p d)
           | None => (false, d)
           end
  end.

Definition load_scorer (lb ws : N -> bool) (pfloat : str -> option float) (encb : N -> bool)
    (onfail : enc_fail) (text : str) : bool * list (str * float) :=
  scorer_items ws pfloat encb onfail (lines_keep lb text) [].

(* lib_guesser/grammar_io._load_base_structures without skip_brute: builtin
   open, rstrip, split; a letter starts a replacement, anything else extends
   the last one; 'C<len>' is inserted after every 'A<len>' *)
Fixpoint split_base (isalpha : N -> bool) (s : str) (acc : list str) : option (list str) :=
  match s with
  | [] => Some (rev acc)
  | c :: r =>
      if isalpha c then split_base isalpha r ([c] :: acc)
      else match acc with
           | cur :: rest => split_base isalpha r ((cur ++ [c]) :: rest)
           | [] => None
           end
  end.

Fixpoint add_case (l : list str) : list str :=
  match l with
  | [] => []
  | x :: r => match x with
              | 65 :: len => x :: (67 :: len) :: add_case r
              | _ => x :: add_case r
              end
  end.

Fixpoint base_items (ws : N -> bool) (pfloat : str -> option float) (isalpha : N -> bool)
    (lines : list str) : option (list (float * list str)) :=
  match lines with
  | [] => Some []
  | ln :: r =>
      match parse_line ws pfloat ln with
      | Some (v, p) =>
          match split_base isalpha v [], base_items ws pfloat isalpha r with
          | Some reps, Some rest => Some ((PrimFloat.div p 1, add_case reps) :: rest)
          | _, _ => None
          end
      | None => None
      end
  end.

Definition load_base (ws : N -> bool) (pfloat : str -> option float) (isalpha : N -> bool)
    (text : str) : option (list (float * list str)) :=
  base_items ws pfloat isalpha (lines_text text).

(* ---------------------------------------------------------------- OMEN level files *)

(* omen_file_output: str(level) TAB ngram LF *)
Definition write_level_line (it : Z * str) : str :=
  dec_of_Z (fst it) ++ TAB :: snd it ++ [LF].
Definition write_levels (l : list (Z * str)) : str := flat_map write_level_line l.

(* one line of an OMEN reader: rstrip('\n\r'), split on TAB, exactly two
   fields, int(), range check (no upper bound when maxlvl = None) *)
Definition parse_level_line (iws : N -> bool) (dz : list N) (maxlvl : option Z) (line : str)
  : option (Z * str) :=
  match split_on TAB (rstrip is_crlf line) with
  | [f; k] =>
      match parse_int iws dz f with
      | Some lvl =>
          if (lvl <? 0)%Z then None
          else match maxlvl with
               | Some m => if (m <? lvl)%Z then None else Some (lvl, k)
               | None => Some (lvl, k)
               end
      | None => None
      end
  | _ => None
  end.

Fixpoint level_items (iws : N -> bool) (dz : list N) (maxlvl : option Z) (lines : list str)
  : option (list (Z * str)) :=
  match lines with
  | [] => Some []
  | ln :: r =>
      match parse_level_line iws dz maxlvl ln, level_items iws dz maxlvl r with
      | Some it, Some rest => Some (it :: rest)
      | _, _ => None
      end
  end.

(* lib_guesser/omen/input_file_io._load_ngrams: codecs line iteration, strict *)
Definition omen_guesser_items (lb iws : N -> bool) (dz : list N) (text : str) : option (list (Z * str)) :=
  level_items iws dz (Some 10%Z) (lines_keep lb text).

(* lib_scorer/omen_scorer._load_omen: builtin open (universal newlines) unless
   the source uses codecs.open *)
Definition omen_scorer_items (codecs_open : bool) (lb iws : N -> bool) (dz : list N) (text : str)
  : option (list (Z * str)) :=
  level_items iws dz None (if codecs_open then lines_keep lb text else lines_text text).

(* the structures built from the items *)
Definition ip_buckets (its : list (Z * str)) : list (list str) :=
  map (fun lvl => map snd (filter (fun it => Z.eqb (fst it) (Z.of_nat lvl)) its)) (seq 0 11).

Definition ep_dict (its : list (Z * str)) : list (str * Z) :=
  fold_left (fun d it => dict_set (snd it) (fst it) d) its [].

Fixpoint zdict_add (lvl : Z) (c : N) (d : list (Z * str)) : list (Z * str) :=
  match d with
  | [] => [(lvl, [c])]
  | (l, cs) :: r => if Z.eqb l lvl then (l, cs ++ [c]) :: r else (l, cs) :: zdict_add lvl c r
  end.

Fixpoint cp_add (pre : str) (lvl : Z) (c : N) (d : list (str * list (Z * str))) :=
  match d with
  | [] => [(pre, [(lvl, [c])])]
  | (p, m) :: r => if str_eqb p pre then (p, zdict_add lvl c m) :: r else (p, m) :: cp_add pre lvl c r
  end.

(* line[1][0:-1] and line[1][-1]; an empty ngram raises IndexError *)
Definition cp_dict (its : list (Z * str)) : option (list (str * list (Z * str))) :=
  fold_left (fun od it =>
               match od, rev (snd it) with
               | Some d, c :: pre_rev => Some (cp_add (rev pre_rev) (fst it) c d)
               | _, _ => None
               end) its (Some []).

(* alphabet.txt: one character per line, rstrip('\n\r') *)
Definition load_alphabet (lb : N -> bool) (text : str) : list str :=
  map (rstrip is_crlf) (lines_keep lb text).
Definition write_alphabet (a : list str) : str := flat_map (fun c => c ++ [LF]) a.

(* LN.level: one level per line, builtin open on both sides *)
Definition write_ln (l : list Z) : str := flat_map (fun z => dec_of_Z z ++ [LF]) l.
Fixpoint ln_levels (iws : N -> bool) (dz : list N) (maxlvl : option Z) (lines : list str) : option (list Z) :=
  match lines with
  | [] => Some []
  | ln :: r =>
      match parse_int iws dz (rstrip is_crlf ln), ln_levels iws dz maxlvl r with
      | Some lvl, Some rest =>
          if (lvl <? 0)%Z then None
          else match maxlvl with
               | Some m => if (m <? lvl)%Z then None else Some (lvl :: rest)
               | None => Some (lvl :: rest)
               end
      | _, _ => None
      end
  end.

(* guesser: ln[level] collects cur_length - (ngram - 1) for cur_length >= ngram *)
Definition ln_guesser (ngram : Z) (lvls : list Z) : list (list Z) :=
  let idx := combine (map Z.of_nat (seq 1 (length lvls))) lvls in
  map (fun lvl => map (fun p => (fst p - (ngram - 1))%Z)
                      (filter (fun p => Z.eqb (snd p) (Z.of_nat lvl) && (ngram <=? fst p)%Z) idx))
      (seq 0 11).

(* ---------------------------------------------------------------- config file lists *)

(* config_file.create_filename_list and save_indexed_counters name files the
   same way: str(key) + ".txt" *)
Definition dot_txt : str := [46; 116; 120; 116].
Definition file_name (key : str) : str := key ++ dot_txt.
