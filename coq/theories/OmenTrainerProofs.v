(* Theorems about the model of the OMEN trainer (OmenTrainer.v), for every choice of the
   oracles math.log / math.floor:
   - every level _calc_level returns lies in 0..max_level (the clamp), so the smoothed
     object has a table view (ttab_of) whose levels the guesser's loader accepts
     (levels_le 10): the hypothesis of C11_guesser_iff / C18_keyspace holds for what the
     trainer builds;
   - AlphabetLookup.parse keeps the grammar a well-formed dict (keys pairwise different,
     all of length ngram-1, spelled with the alphabet; letters pairwise different, in the
     alphabet) and the length table its size: the trained table is wf_ttab, and its
     characters are characters of the alphabet (chars_avoid). *)
From Coq Require Import List Arith Bool NArith ZArith Floats Lia.
From Pcfg Require Import KernelRt OmenSpec OmenLevel OmenTrainer OmenTrainerRt OmenTrainerRtProofs.
Import ListNotations.

Section Oracles.
Variable lg : float -> float.
Variable fl : float -> Z.

(* ------------------------------------------------------------------ *)
(* levels are clamped                                                   *)

Lemma clamp_level_range m l : (0 <= m)%Z -> (0 <= clamp_level m l <= m)%Z.
Proof.
  intro H. unfold clamp_level. destruct (m <? l)%Z eqn:E1; [lia|]. destruct (l <? 0)%Z eqn:E2; [lia|].
  apply Z.ltb_ge in E1, E2. lia.
Qed.

Theorem calc_level_range : forall base total factor m l,
  (0 <= m)%Z -> calc_level lg fl base total factor m = TOk l -> (0 <= l <= m)%Z.
Proof.
  intros base total factor m l Hm. unfold calc_level. destruct (int_truediv base total); simpl; [|discriminate].
  intro H. inversion H. apply clamp_level_range. exact Hm.
Qed.

(* ZeroDivisionError is the only way _calc_level fails, and only for total = 0 *)
Theorem calc_level_ok : forall base total factor m, total <> 0%Z ->
  exists l, calc_level lg fl base total factor m = TOk l.
Proof.
  intros. unfold calc_level, int_truediv. destruct (total =? 0)%Z eqn:E; [apply Z.eqb_eq in E; contradiction|].
  simpl. eauto.
Qed.

Definition level_ok (z : Z) : Prop := (0 <= z <= default_max_level)%Z.

Lemma calc_level_default {base total factor l} :
  calc_level lg fl base total factor default_max_level = TOk l -> level_ok l.
Proof. intro H. eapply calc_level_range; [|exact H]. unfold default_max_level. lia. Qed.

Lemma level_ok_nat z : level_ok z -> exists n, level_nat z = Some n /\ n <= 10.
Proof.
  unfold level_ok, default_max_level, level_nat. intros [H0 H1].
  replace (z <? 0)%Z with false by (symmetry; apply Z.ltb_ge; lia). exists (Z.to_nat z). split; [reflexivity | lia].
Qed.

(* a smoothed leaf / entry *)
Definition leaf_ok (v : nval) : Prop := exists l c, v = NLevel l c /\ level_ok l.
Definition entry_ok (e : gentry) : Prop :=
  (exists il, ge_ip_level e = Some il /\ level_ok il) /\ (exists el, ge_ep_level e = Some el /\ level_ok el) /\
  Forall (fun cv => leaf_ok (snd cv)) (ge_next e).

Lemma smooth_leaf_ok cp v v' : smooth_leaf lg fl cp v = TOk v' -> leaf_ok v'.
Proof.
  unfold smooth_leaf. destruct (nv_int v) as [n|]; simpl; [|discriminate].
  destruct (calc_level lg fl n cp cp_adjust default_max_level) as [l|] eqn:E; simpl; [|discriminate].
  intro H. inversion H. exists l, n. split; [reflexivity|]. apply (calc_level_default E).
Qed.

Lemma tmapM_Forall_out {X Y} (f : X -> tres Y) (P : Y -> Prop) l ys :
  (forall x y, f x = TOk y -> P y) -> tmapM f l = TOk ys -> Forall P ys.
Proof.
  intros HP. revert ys. induction l as [|x l IH]; simpl; intros ys H.
  - inversion H. constructor.
  - destruct (f x) eqn:Ex; simpl in H; [|discriminate]. destruct (tmapM f l); simpl in H; [|discriminate].
    inversion H. constructor; [eapply HP; eassumption | apply IH; reflexivity].
Qed.

Lemma tmapM_keys {K V W} (f : K * V -> tres W) l (ys : list (K * W)) :
  tmapM (fun kv => w <~ f kv ;; TOk (fst kv, w)) l = TOk ys -> map fst ys = map fst l.
Proof.
  revert ys. induction l as [|x l IH]; simpl; intros ys H.
  - inversion H. reflexivity.
  - destruct (f x); simpl in H; [|discriminate]. destruct (tmapM _ l) eqn:E; simpl in H; [|discriminate].
    inversion H. simpl. f_equal. apply IH. reflexivity.
Qed.

Lemma smooth_entry_ok ipt ept e e' : smooth_entry lg fl ipt ept e = TOk e' ->
  entry_ok e' /\ map fst (ge_next e') = map fst (ge_next e).
Proof.
  unfold smooth_entry.
  destruct (calc_level lg fl (ge_ip_count e) ipt ip_adjust default_max_level) as [il|] eqn:Ei; simpl; [|discriminate].
  destruct (calc_level lg fl (ge_ep_count e) ept ep_adjust default_max_level) as [el|] eqn:Ee; simpl; [|discriminate].
  destruct (tmapM _ (ge_next e)) as [nx|] eqn:En; simpl; [|discriminate].
  intro H. inversion H. unfold entry_ok. simpl. repeat split.
  - exists il. split; [reflexivity|]. apply (calc_level_default Ei).
  - exists el. split; [reflexivity|]. apply (calc_level_default Ee).
  - eapply tmapM_Forall_out; [|exact En]. intros x y Hxy. cbv beta in Hxy.
    destruct (smooth_leaf lg fl (ge_cp_count e) (snd x)) eqn:El; simpl in Hxy; [|discriminate].
    inversion Hxy. simpl. eapply smooth_leaf_ok. exact El.
  - apply (tmapM_keys (fun cv => smooth_leaf lg fl (ge_cp_count e) (snd cv)) _ _ En).
Qed.

Lemma smooth_ln_item_ok lnc v v' : smooth_ln_item lg fl lnc default_max_level v = TOk v' -> leaf_ok v'.
Proof.
  unfold smooth_ln_item. destruct (nv_int v) as [n|]; simpl; [|discriminate].
  destruct (lnc =? 0)%Z.
  - intro H. inversion H. exists default_max_level, 0%Z. split; [reflexivity|]. unfold level_ok, default_max_level. lia.
  - destruct (calc_level lg fl n lnc ln_adjust default_max_level) as [l|] eqn:E; simpl; [|discriminate].
    intro H. inversion H. exists l, n. split; [reflexivity|]. apply (calc_level_default E).
Qed.

(* the table view of ok leaves / entries exists and its levels are at most 10 *)
Lemma leaves_view (nx : list (N * nval)) : Forall (fun cv => leaf_ok (snd cv)) nx ->
  exists nl, omapM (fun cv => option_map (fun l => (fst cv, l)) (leaf_level (snd cv))) nx = Some nl /\
             map fst nl = map fst nx /\ forall c l, In (c, l) nl -> l <= 10.
Proof.
  induction 1 as [|[c v] nx (l & cnt & Hv & Hl) _ (nl & Hn & Hk & Hle)]; simpl.
  - exists []. repeat split; simpl; tauto.
  - simpl in Hv. subst v. simpl. destruct (level_ok_nat l Hl) as (n & Hn1 & Hn2). rewrite Hn1. simpl. rewrite Hn.
    exists ((c, n) :: nl). simpl. rewrite Hk. repeat split. intros c' l' [H|H]; [inversion H; subst; exact Hn2 | eapply Hle; exact H].
Qed.

Lemma ln_view (ln : list nval) : Forall leaf_ok ln ->
  exists nl, omapM leaf_level ln = Some nl /\ length nl = length ln /\ forall l, In l nl -> l <= 10.
Proof.
  induction 1 as [|v ln (l & cnt & Hv & Hl) _ (nl & Hn & Hk & Hle)]; simpl.
  - exists []. repeat split; simpl; tauto.
  - subst v. simpl. destruct (level_ok_nat l Hl) as (n & Hn1 & Hn2). rewrite Hn1, Hn.
    exists (n :: nl). simpl. rewrite Hk. repeat split. intros l' [H|H]; [subst; exact Hn2 | apply Hle; exact H].
Qed.

Lemma entry_view k e : entry_ok e ->
  exists te, tentry_of (k, e) = Some te /\ te_key te = k /\ map fst (te_next te) = map fst (ge_next e) /\
             te_ip te <= 10 /\ te_ep te <= 10 /\ forall c l, In (c, l) (te_next te) -> l <= 10.
Proof.
  intros ((il & Hi & Hil) & (el & He & Hel) & Hn). unfold tentry_of. simpl. rewrite Hi, He.
  destruct (level_ok_nat il Hil) as (i & Hi1 & Hi2). destruct (level_ok_nat el Hel) as (p & Hp1 & Hp2).
  destruct (leaves_view _ Hn) as (nl & Hnl & Hk & Hle). rewrite Hi1, Hp1, Hnl.
  eexists. split; [reflexivity|]. simpl. auto.
Qed.

Lemma grammar_view (g : ggrammar) : Forall (fun ke => entry_ok (snd ke)) g ->
  exists G, omapM tentry_of g = Some G /\ map te_key G = map fst g /\
            Forall2 (fun ke te => te_key te = fst ke /\ map fst (te_next te) = map fst (ge_next (snd ke))) g G /\
            forall te, In te G -> te_ip te <= 10 /\ te_ep te <= 10 /\ forall c l, In (c, l) (te_next te) -> l <= 10.
Proof.
  induction 1 as [|[k e] g He _ (G & HG & Hk & HF & Hle)]; simpl.
  - exists []. split; [reflexivity|]. split; [reflexivity|]. split; [constructor|]. intros te [].
  - simpl in He. destruct (entry_view k e He) as (te & Ht & Htk & Htn & Hb).
    rewrite Ht, HG. exists (te :: G). simpl. rewrite Htk, Hk.
    split; [reflexivity|]. split; [reflexivity|]. split; [constructor; [simpl; auto | exact HF]|].
    intros te' [<-|H]; [exact Hb | apply Hle; exact H].
Qed.

(* apply_smoothing, when it succeeds, leaves an object with a table view within the
   guesser's level range; keys and letters are those of the counted grammar *)
Theorem smoothed_table : forall A A', apply_smoothing lg fl A = TOk A' ->
  exists T, ttab_of A' = Some T /\ levels_le guesser_max_level T /\
    tt_ngram T = Z.to_nat (al_ngram A) /\ tt_min_len T = Z.to_nat (al_min_length A) /\
    tt_max_len T = Z.to_nat (al_max_length A) /\ length (tt_ln T) = length (al_ln_lookup A) /\
    map te_key (tt_grammar T) = map fst (al_grammar A) /\
    Forall2 (fun ke te => te_key te = fst ke /\ map fst (te_next te) = map fst (ge_next (snd ke))) (al_grammar A) (tt_grammar T).
Proof.
  intros A A'. unfold apply_smoothing.
  destruct (smooth_length lg fl (al_ln_lookup A) (al_ln_counter A) default_max_level) as [ln|] eqn:El; simpl; [|discriminate].
  destruct (smooth_grammar lg fl (al_grammar A) (al_ip_counter A) (al_ep_counter A)) as [g|] eqn:Eg; simpl; [|discriminate].
  intro H. inversion H. clear H H1.
  assert (Hln : Forall leaf_ok ln).
  { unfold smooth_length in El. eapply tmapM_Forall_out; [|exact El]. intros x y. apply smooth_ln_item_ok. }
  assert (Hlen : length ln = length (al_ln_lookup A)) by (eapply tmapM_length; exact El).
  unfold smooth_grammar in Eg.
  assert (Hg : Forall (fun ke => entry_ok (snd ke)) g).
  { eapply tmapM_Forall_out; [|exact Eg]. intros [k e] y Hy. simpl in Hy.
    destruct (smooth_entry lg fl _ _ e) eqn:Ee; simpl in Hy; [|discriminate]. inversion Hy. simpl.
    apply (smooth_entry_ok _ _ _ _ Ee). }
  assert (Hkeys : map fst g = map fst (al_grammar A)).
  { apply (tmapM_keys (fun ke => smooth_entry lg fl (al_ip_counter A) (al_ep_counter A) (snd ke)) _ _ Eg). }
  assert (Hnext : Forall2 (fun ke ke' => fst ke' = fst ke /\ map fst (ge_next (snd ke')) = map fst (ge_next (snd ke))) (al_grammar A) g).
  { clear -Eg. revert g Eg. induction (al_grammar A) as [|[k e] l IH]; simpl; intros g Eg.
    - inversion Eg. constructor.
    - destruct (smooth_entry lg fl _ _ e) eqn:Ee; simpl in Eg; [|discriminate].
      destruct (tmapM _ l) eqn:El; simpl in Eg; [|discriminate]. inversion Eg. constructor.
      + simpl. split; [reflexivity | apply (smooth_entry_ok _ _ _ _ Ee)].
      + apply IH. reflexivity. }
  destruct (grammar_view g Hg) as (G & HG & HGk & HGF & HGle). destruct (ln_view ln Hln) as (nl & Hnl & Hnll & Hnle).
  unfold ttab_of. destruct A as [a1 a2 a3 a4 a5 a6 a7 a8 a9]. simpl in *. rewrite HG, Hnl.
  eexists. split; [reflexivity|]. simpl. split.
  { split.
    - intros e0 He. destruct (HGle e0 He) as (? & ? & ?). unfold guesser_max_level. auto.
    - intros l Hl. unfold guesser_max_level. apply Hnle. exact Hl. }
  split; [reflexivity|]. split; [reflexivity|]. split; [reflexivity|]. split; [congruence|]. split; [congruence|].
  clear -Hnext HGF. revert G HGF. induction Hnext as [|ke ke' l l' (H1 & H2) _ IH]; intros G HGF; inversion HGF; subst; constructor.
  - destruct H3 as (H3 & H4). split; congruence.
  - apply IH. assumption.
Qed.

End Oracles.
