(* Theorems about the model of the OMEN trainer (OmenTrainer.v), for every choice of the
   oracles math.log / math.floor:
   - every level _calc_level returns lies in 0..max_level (the clamp), so the smoothed
     object has a table view (ttab_of) whose levels the guesser's loader accepts
     (levels_le 10): the hypothesis of C11_guesser_iff / C18_keyspace holds for what the
     trainer builds;
   - AlphabetLookup.parse keeps the grammar a well-formed dict (keys pairwise different,
     all of length ngram-1, spelled with the alphabet; letters pairwise different, in the
     alphabet) and the length table its size: the trained table is wf_ttab, and its
     characters are characters of the alphabet (chars_avoid). *)
From Coq Require Import List Arith Bool NArith ZArith Floats Lia.
From Pcfg Require Import KernelRt OmenSpec OmenLevel OmenTrainer OmenTrainerRt OmenTrainerRtProofs.
Import ListNotations.

Section Oracles.
Variable lg : float -> float.
Variable fl : float -> Z.

(* ------------------------------------------------------------------ *)
(* levels are clamped                                                   *)

Lemma clamp_level_range m l : (0 <= m)%Z -> (0 <= clamp_level m l <= m)%Z.
Proof.
  intro H. unfold clamp_level. destruct (m <? l)%Z eqn:E1; [lia|]. destruct (l <? 0)%Z eqn:E2; [lia|].
  apply Z.ltb_ge in E1, E2. lia.
Qed.

Theorem calc_level_range : forall base total factor m l,
  (0 <= m)%Z -> calc_level lg fl base total factor m = TOk l -> (0 <= l <= m)%Z.
Proof.
  intros base total factor m l Hm. unfold calc_level. destruct (int_truediv base total); simpl; [|discriminate].
  intro H. inversion H. apply clamp_level_range. exact Hm.
Qed.

(* ZeroDivisionError is the only way _calc_level fails, and only for total = 0 *)
Theorem calc_level_ok : forall base total factor m, total <> 0%Z ->
  exists l, calc_level lg fl base total factor m = TOk l.
Proof.
  intros. unfold calc_level, int_truediv. destruct (total =? 0)%Z eqn:E; [apply Z.eqb_eq in E; contradiction|].
  simpl. eauto.
Qed.

Definition level_ok (z : Z) : Prop := (0 <= z <= default_max_level)%Z.

Lemma calc_level_default {base total factor l} :
  calc_level lg fl base total factor default_max_level = TOk l -> level_ok l.
Proof. intro H. eapply calc_level_range; [|exact H]. unfold default_max_level. lia. Qed.

Lemma level_ok_nat z : level_ok z -> exists n, level_nat z = Some n /\ n <= 10.
Proof.
  unfold level_ok, default_max_level, level_nat. intros [H0 H1].
  replace (z <? 0)%Z with false by (symmetry; apply Z.ltb_ge; lia). exists (Z.to_nat z). split; [reflexivity | lia].
Qed.

(* a smoothed leaf / entry *)
Definition leaf_ok (v : nval) : Prop := exists l c, v = NLevel l c /\ level_ok l.
Definition entry_ok (e : gentry) : Prop :=
  (exists il, ge_ip_level e = Some il /\ level_ok il) /\ (exists el, ge_ep_level e = Some el /\ level_ok el) /\
  Forall (fun cv => leaf_ok (snd cv)) (ge_next e).

Lemma smooth_leaf_ok cp v v' : smooth_leaf lg fl cp v = TOk v' -> leaf_ok v'.
Proof.
  unfold smooth_leaf. destruct (nv_int v) as [n|]; simpl; [|discriminate].
  destruct (calc_level lg fl n cp cp_adjust default_max_level) as [l|] eqn:E; simpl; [|discriminate].
  intro H. inversion H. exists l, n. split; [reflexivity|]. apply (calc_level_default E).
Qed.

Lemma tmapM_Forall_out {X Y} (f : X -> tres Y) (P : Y -> Prop) l ys :
  (forall x y, f x = TOk y -> P y) -> tmapM f l = TOk ys -> Forall P ys.
Proof.
  intros HP. revert ys. induction l as [|x l IH]; simpl; intros ys H.
  - inversion H. constructor.
  - destruct (f x) eqn:Ex; simpl in H; [|discriminate]. destruct (tmapM f l); simpl in H; [|discriminate].
    inversion H. constructor; [eapply HP; eassumption | apply IH; reflexivity].
Qed.

Lemma tmapM_keys {K V W} (f : K * V -> tres W) l (ys : list (K * W)) :
  tmapM (fun kv => w <~ f kv ;; TOk (fst kv, w)) l = TOk ys -> map fst ys = map fst l.
Proof.
  revert ys. induction l as [|x l IH]; simpl; intros ys H.
  - inversion H. reflexivity.
  - destruct (f x); simpl in H; [|discriminate]. destruct (tmapM _ l) eqn:E; simpl in H; [|discriminate].
    inversion H. simpl. f_equal. apply IH. reflexivity.
Qed.

Lemma smooth_entry_ok ipt ept e e' : smooth_entry lg fl ipt ept e = TOk e' ->
  entry_ok e' /\ map fst (ge_next e') = map fst (ge_next e).
Proof.
  unfold smooth_entry.
  destruct (calc_level lg fl (ge_ip_count e) ipt ip_adjust default_max_level) as [il|] eqn:Ei; simpl; [|discriminate].
  destruct (calc_level lg fl (ge_ep_count e) ept ep_adjust default_max_level) as [el|] eqn:Ee; simpl; [|discriminate].
  destruct (tmapM _ (ge_next e)) as [nx|] eqn:En; simpl; [|discriminate].
  intro H. inversion H. unfold entry_ok. simpl. repeat split.
  - exists il. split; [reflexivity|]. apply (calc_level_default Ei).
  - exists el. split; [reflexivity|]. apply (calc_level_default Ee).
  - eapply tmapM_Forall_out; [|exact En]. intros x y Hxy. cbv beta in Hxy.
    destruct (smooth_leaf lg fl (ge_cp_count e) (snd x)) eqn:El; simpl in Hxy; [|discriminate].
    inversion Hxy. simpl. eapply smooth_leaf_ok. exact El.
  - apply (tmapM_keys (fun cv => smooth_leaf lg fl (ge_cp_count e) (snd cv)) _ _ En).
Qed.

Lemma smooth_ln_item_ok lnc v v' : smooth_ln_item lg fl lnc default_max_level v = TOk v' -> leaf_ok v'.
Proof.
  unfold smooth_ln_item. destruct (nv_int v) as [n|]; simpl; [|discriminate].
  destruct (lnc =? 0)%Z.
  - intro H. inversion H. exists default_max_level, 0%Z. split; [reflexivity|]. unfold level_ok, default_max_level. lia.
  - destruct (calc_level lg fl n lnc ln_adjust default_max_level) as [l|] eqn:E; simpl; [|discriminate].
    intro H. inversion H. exists l, n. split; [reflexivity|]. apply (calc_level_default E).
Qed.

(* the table view of ok leaves / entries exists and its levels are at most 10 *)
Lemma leaves_view (nx : list (N * nval)) : Forall (fun cv => leaf_ok (snd cv)) nx ->
  exists nl, omapM (fun cv => option_map (fun l => (fst cv, l)) (leaf_level (snd cv))) nx = Some nl /\
             map fst nl = map fst nx /\ forall c l, In (c, l) nl -> l <= 10.
Proof.
  induction 1 as [|[c v] nx (l & cnt & Hv & Hl) _ (nl & Hn & Hk & Hle)]; simpl.
  - exists []. repeat split; simpl; tauto.
  - simpl in Hv. subst v. simpl. destruct (level_ok_nat l Hl) as (n & Hn1 & Hn2). rewrite Hn1. simpl. rewrite Hn.
    exists ((c, n) :: nl). simpl. rewrite Hk. repeat split. intros c' l' [H|H]; [inversion H; subst; exact Hn2 | eapply Hle; exact H].
Qed.

Lemma ln_view (ln : list nval) : Forall leaf_ok ln ->
  exists nl, omapM leaf_level ln = Some nl /\ length nl = length ln /\ forall l, In l nl -> l <= 10.
Proof.
  induction 1 as [|v ln (l & cnt & Hv & Hl) _ (nl & Hn & Hk & Hle)]; simpl.
  - exists []. repeat split; simpl; tauto.
  - subst v. simpl. destruct (level_ok_nat l Hl) as (n & Hn1 & Hn2). rewrite Hn1, Hn.
    exists (n :: nl). simpl. rewrite Hk. repeat split. intros l' [H|H]; [subst; exact Hn2 | apply Hle; exact H].
Qed.

Lemma entry_view k e : entry_ok e ->
  exists te, tentry_of (k, e) = Some te /\ te_key te = k /\ map fst (te_next te) = map fst (ge_next e) /\
             te_ip te <= 10 /\ te_ep te <= 10 /\ forall c l, In (c, l) (te_next te) -> l <= 10.
Proof.
  intros ((il & Hi & Hil) & (el & He & Hel) & Hn). unfold tentry_of. simpl. rewrite Hi, He.
  destruct (level_ok_nat il Hil) as (i & Hi1 & Hi2). destruct (level_ok_nat el Hel) as (p & Hp1 & Hp2).
  destruct (leaves_view _ Hn) as (nl & Hnl & Hk & Hle). rewrite Hi1, Hp1, Hnl.
  eexists. split; [reflexivity|]. simpl. auto.
Qed.

Lemma grammar_view (g : ggrammar) : Forall (fun ke => entry_ok (snd ke)) g ->
  exists G, omapM tentry_of g = Some G /\ map te_key G = map fst g /\
            Forall2 (fun ke te => te_key te = fst ke /\ map fst (te_next te) = map fst (ge_next (snd ke))) g G /\
            forall te, In te G -> te_ip te <= 10 /\ te_ep te <= 10 /\ forall c l, In (c, l) (te_next te) -> l <= 10.
Proof.
  induction 1 as [|[k e] g He _ (G & HG & Hk & HF & Hle)]; simpl.
  - exists []. split; [reflexivity|]. split; [reflexivity|]. split; [constructor|]. intros te [].
  - simpl in He. destruct (entry_view k e He) as (te & Ht & Htk & Htn & Hb).
    rewrite Ht, HG. exists (te :: G). simpl. rewrite Htk, Hk.
    split; [reflexivity|]. split; [reflexivity|]. split; [constructor; [simpl; auto | exact HF]|].
    intros te' [<-|H]; [exact Hb | apply Hle; exact H].
Qed.

(* apply_smoothing, when it succeeds, leaves an object with a table view within the
   guesser's level range; keys and letters are those of the counted grammar *)
Theorem smoothed_table : forall A A', apply_smoothing lg fl A = TOk A' ->
  exists T, ttab_of A' = Some T /\ levels_le guesser_max_level T /\
    tt_ngram T = Z.to_nat (al_ngram A) /\ tt_min_len T = Z.to_nat (al_min_length A) /\
    tt_max_len T = Z.to_nat (al_max_length A) /\ length (tt_ln T) = length (al_ln_lookup A) /\
    map te_key (tt_grammar T) = map fst (al_grammar A) /\
    Forall2 (fun ke te => te_key te = fst ke /\ map fst (te_next te) = map fst (ge_next (snd ke))) (al_grammar A) (tt_grammar T).
Proof.
  intros A A'. unfold apply_smoothing.
  destruct (smooth_length lg fl (al_ln_lookup A) (al_ln_counter A) default_max_level) as [ln|] eqn:El; simpl; [|discriminate].
  destruct (smooth_grammar lg fl (al_grammar A) (al_ip_counter A) (al_ep_counter A)) as [g|] eqn:Eg; simpl; [|discriminate].
  intro H. inversion H. clear H H1.
  assert (Hln : Forall leaf_ok ln).
  { unfold smooth_length in El. eapply tmapM_Forall_out; [|exact El]. intros x y. apply smooth_ln_item_ok. }
  assert (Hlen : length ln = length (al_ln_lookup A)) by (eapply tmapM_length; exact El).
  unfold smooth_grammar in Eg.
  assert (Hg : Forall (fun ke => entry_ok (snd ke)) g).
  { eapply tmapM_Forall_out; [|exact Eg]. intros [k e] y Hy. simpl in Hy.
    destruct (smooth_entry lg fl _ _ e) eqn:Ee; simpl in Hy; [|discriminate]. inversion Hy. simpl.
    apply (smooth_entry_ok _ _ _ _ Ee). }
  assert (Hkeys : map fst g = map fst (al_grammar A)).
  { apply (tmapM_keys (fun ke => smooth_entry lg fl (al_ip_counter A) (al_ep_counter A) (snd ke)) _ _ Eg). }
  assert (Hnext : Forall2 (fun ke ke' => fst ke' = fst ke /\ map fst (ge_next (snd ke')) = map fst (ge_next (snd ke))) (al_grammar A) g).
  { clear -Eg. revert g Eg. induction (al_grammar A) as [|[k e] l IH]; simpl; intros g Eg.
    - inversion Eg. constructor.
    - destruct (smooth_entry lg fl _ _ e) eqn:Ee; simpl in Eg; [|discriminate].
      destruct (tmapM _ l) eqn:El; simpl in Eg; [|discriminate]. inversion Eg. constructor.
      + simpl. split; [reflexivity | apply (smooth_entry_ok _ _ _ _ Ee)].
      + apply IH. reflexivity. }
  destruct (grammar_view g Hg) as (G & HG & HGk & HGF & HGle). destruct (ln_view ln Hln) as (nl & Hnl & Hnll & Hnle).
  unfold ttab_of. destruct A as [a1 a2 a3 a4 a5 a6 a7 a8 a9]. simpl in *. rewrite HG, Hnl.
  eexists. split; [reflexivity|]. simpl. split.
  { split.
    - intros e0 He. destruct (HGle e0 He) as (? & ? & ?). unfold guesser_max_level. auto.
    - intros l Hl. unfold guesser_max_level. apply Hnle. exact Hl. }
  split; [reflexivity|]. split; [reflexivity|]. split; [reflexivity|]. split; [congruence|]. split; [congruence|].
  clear -Hnext HGF. revert G HGF. induction Hnext as [|ke ke' l l' (H1 & H2) _ IH]; intros G HGF; inversion HGF; subst; constructor.
  - destruct H3 as (H3 & H4). split; congruence.
  - apply IH. assumption.
Qed.

End Oracles.

(* ------------------------------------------------------------------ *)
(* AlphabetLookup.parse keeps the grammar a well-formed dict            *)

Definition entry_inv (alphabet : ostr) (e : gentry) : Prop :=
  NoDup (map fst (ge_next e)) /\ forall c v, In (c, v) (ge_next e) -> in_alphabet alphabet [c] = true.

Definition pinv (A : alookup) : Prop :=
  NoDup (map fst (al_grammar A)) /\
  forall k e, In (k, e) (al_grammar A) ->
    tlen k = (al_ngram A - 1)%Z /\ in_alphabet (al_alphabet A) k = true /\ entry_inv (al_alphabet A) e.

(* what parse never changes *)
Definition same_config (A B : alookup) : Prop :=
  al_alphabet B = al_alphabet A /\ al_ngram B = al_ngram A /\ al_min_length B = al_min_length A /\
  al_max_length B = al_max_length A /\ length (al_ln_lookup B) = length (al_ln_lookup A).

Lemma same_config_refl A : same_config A A.
Proof. unfold same_config. tauto. Qed.

Lemma same_config_trans A B C : same_config A B -> same_config B C -> same_config A C.
Proof. unfold same_config. intuition congruence. Qed.

Lemma entry_inv_new alphabet : entry_inv alphabet new_entry.
Proof. split; simpl; [constructor | tauto]. Qed.

Lemma bump_next_inv alphabet c e e' : entry_inv alphabet e -> bump_next alphabet c e = TOk e' -> entry_inv alphabet e'.
Proof.
  intros [Hn Ha]. unfold bump_next. destruct (afind N.eqb c (ge_next e)) as [v|] eqn:E.
  - destruct (nv_int v) as [n|]; simpl; [|discriminate]. intro H. inversion H. split; simpl.
    + apply (nodup_keys_aset N.eqb N.eqb_eq). exact Hn.
    + intros c' v' Hin. apply in_aset in Hin; [|exact N.eqb_eq]. destruct Hin as [[-> _]|Hin].
      * apply (Ha c v). apply (afind_in N.eqb N.eqb_eq). exact E.
      * apply (Ha c' v'). exact Hin.
  - destruct (in_alphabet alphabet [c]) eqn:Ec; intro H; inversion H; subst; [|split; assumption]. split; simpl.
    + apply (nodup_keys_aset N.eqb N.eqb_eq). exact Hn.
    + intros c' v' Hin. apply in_aset in Hin; [|exact N.eqb_eq]. destruct Hin as [[-> _]|Hin]; [exact Ec | apply (Ha c' v'); exact Hin].
Qed.

Lemma parse_pos_inv pw A i A' :
  (1 <= al_ngram A)%Z -> (0 <= i)%Z -> (i + al_ngram A - 1 <= tlen pw)%Z ->
  pinv A -> parse_pos pw A i = TOk A' -> pinv A' /\ same_config A A'.
Proof.
  intros Hng Hi Hlen [Hnd Hent]. unfold parse_pos. cbv zeta.
  set (k := tslice pw (Some i) (Some (i + al_ngram A - 1)%Z)).
  assert (Hk : tlen k = (al_ngram A - 1)%Z) by (unfold k; rewrite tslice_length; lia).
  assert (Hgo : forall e0, entry_inv (al_alphabet A) e0 -> in_alphabet (al_alphabet A) k = true ->
            forall (r : tres alookup),
            r = (e2 <~ (if (i =? tlen pw - (al_ngram A - 1))%Z
                        then TOk (ge_set_ep_count (if (i =? 0)%Z then ge_set_ip_count e0 (ge_ip_count e0 + 1) else e0)
                                    (ge_ep_count (if (i =? 0)%Z then ge_set_ip_count e0 (ge_ip_count e0 + 1) else e0) + 1))
                        else c <~ tindex pw (i + al_ngram A - 1) ;;
                             bump_next (al_alphabet A) c (if (i =? 0)%Z then ge_set_ip_count e0 (ge_ip_count e0 + 1) else e0)) ;;
                 let A1 := al_set_grammar A (aset ostr_eqb k e2 (al_grammar A)) in
                 let A2 := if (i =? 0)%Z then al_set_ip_counter A1 (al_ip_counter A1 + 1) else A1 in
                 TOk (if (i =? tlen pw - (al_ngram A - 1))%Z then al_set_ep_counter A2 (al_ep_counter A2 + 1) else A2)) ->
            r = TOk A' -> pinv A' /\ same_config A A').
  { intros e0 He0 Hka r -> H.
    set (e1 := if (i =? 0)%Z then ge_set_ip_count e0 (ge_ip_count e0 + 1) else e0) in *.
    assert (He1 : entry_inv (al_alphabet A) e1) by (unfold e1; destruct (i =? 0)%Z; [destruct e0|]; exact He0).
    match type of H with (tbind ?m _ = _) => destruct m as [e2|] eqn:E2 end; simpl in H; [|discriminate].
    assert (He2 : entry_inv (al_alphabet A) e2).
    { destruct (i =? tlen pw - (al_ngram A - 1))%Z.
      - inversion E2. destruct e1; exact He1.
      - destruct (tindex pw (i + al_ngram A - 1)) as [c|]; simpl in E2; [|discriminate]. eapply bump_next_inv; eauto. }
    assert (HP : pinv (al_set_grammar A (aset ostr_eqb k e2 (al_grammar A)))).
    { split.
      - destruct A; simpl. apply (nodup_keys_aset ostr_eqb ostr_eqb_eq). exact Hnd.
      - intros k' e' Hin. replace (al_grammar (al_set_grammar A (aset ostr_eqb k e2 (al_grammar A)))) with (aset ostr_eqb k e2 (al_grammar A)) in Hin by (destruct A; reflexivity).
        replace (al_ngram (al_set_grammar A _)) with (al_ngram A) by (destruct A; reflexivity).
        replace (al_alphabet (al_set_grammar A _)) with (al_alphabet A) by (destruct A; reflexivity).
        apply in_aset in Hin; [|exact ostr_eqb_eq]. destruct Hin as [[-> ->]|Hin]; [auto | apply Hent; exact Hin]. }
    inversion H. clear H. split.
    - destruct A as [a1 a2 a3 a4 a5 a6 a7 a8 a9]; unfold pinv in *; simpl in *.
      destruct (i =? 0)%Z; destruct (i =? tlen pw - (a2 - 1))%Z; simpl; exact HP.
    - destruct A as [a1 a2 a3 a4 a5 a6 a7 a8 a9]; unfold same_config; simpl.
      destruct (i =? 0)%Z; destruct (i =? tlen pw - (a2 - 1))%Z; simpl; tauto. }
  destruct (afind ostr_eqb k (al_grammar A)) as [e|] eqn:Ef.
  - destruct (Hent k e (afind_in ostr_eqb ostr_eqb_eq _ _ _ Ef)) as (_ & Hka & He).
    destruct (in_alphabet (al_alphabet A) k); intro H; eapply (Hgo e He Hka); try reflexivity; exact H.
  - destruct (in_alphabet (al_alphabet A) k) eqn:Hka.
    + intro H. eapply (Hgo new_entry (entry_inv_new _) eq_refl); try reflexivity. exact H.
    + intro H. inversion H. subst. split; [split; assumption | apply same_config_refl].
Qed.


Lemma pinv_ext A B : al_grammar B = al_grammar A -> al_ngram B = al_ngram A -> al_alphabet B = al_alphabet A ->
  pinv A -> pinv B.
Proof. unfold pinv. intros -> -> ->. tauto. Qed.

Theorem parse_inv : forall A pw A', (1 <= al_ngram A)%Z -> pinv A -> parse A pw = TOk A' ->
  pinv A' /\ same_config A A'.
Proof.
  intros A pw A' Hng HP. unfold parse. cbv zeta.
  destruct (_ || _); [intro H; inversion H; subst; split; [exact HP | apply same_config_refl]|].
  destruct (tindex (al_ln_lookup A) (tlen pw - 1)) as [v|]; simpl; [|discriminate].
  destruct (nv_int v) as [c|]; simpl; [|discriminate].
  destruct (tsetindex (al_ln_lookup A) (tlen pw - 1) (NCount (c + 1))) as [ln|] eqn:Es; simpl; [|discriminate].
  apply tsetindex_length in Es.
  set (A1 := al_set_ln_counter (al_set_ln_lookup A ln) (al_ln_counter A + 1)).
  assert (H1 : pinv A1 /\ same_config A A1).
  { split; [apply (pinv_ext A); try exact HP; destruct A; reflexivity|]. destruct A; unfold same_config; simpl in *. tauto. }
  intro H. refine (tfoldM_inv (parse_pos pw) (fun s => pinv s /\ same_config A s) _ _ A1 A' H1 H).
  intros s i s' Hin [Hs Hc] Hstep. apply in_trange in Hin.
  destruct Hc as (Ha & Hn & Hmi & Hma & Hl).
  destruct (parse_pos_inv pw s i s') as [Hp' Hc']; try exact Hstep; try exact Hs; try lia.
  split; [exact Hp' | eapply same_config_trans; [|exact Hc']; unfold same_config; tauto].
Qed.

Theorem parse_all_inv : forall pws A A', (1 <= al_ngram A)%Z -> pinv A -> parse_all A pws = TOk A' ->
  pinv A' /\ same_config A A'.
Proof.
  intros pws A A' Hng HP H. unfold parse_all in H.
  refine (tfoldM_inv parse (fun s => pinv s /\ same_config A s) pws _ A A' (conj HP (same_config_refl A)) H).
  intros s pw s' _ [Hs Hc] Hstep. destruct (parse_inv s pw s') as [Hp' Hc']; try assumption.
  { destruct Hc as (_ & -> & _). exact Hng. }
  split; [exact Hp' | eapply same_config_trans; eassumption].
Qed.

Lemma pinv_init alphabet ngram minl maxl : pinv (alookup_init alphabet ngram minl maxl).
Proof. split; simpl; [constructor | tauto]. Qed.

(* the invariant is what makes the association lists dicts: the precondition of the
   equality of the translated smooth_grammar with its model *)
Lemma pinv_grammar_nodup A : pinv A ->
  NoDup (map fst (al_grammar A)) /\ forall k e, In (k, e) (al_grammar A) -> NoDup (map fst (ge_next e)).
Proof. intros [H1 H2]. split; [exact H1|]. intros k e Hin. apply (H2 k e Hin). Qed.

Lemma Forall2_in_r {X Y} (P : X -> Y -> Prop) l ys y : Forall2 P l ys -> In y ys -> exists x, In x l /\ P x y.
Proof.
  induction 1; simpl; [tauto|]. intros [->|H1]; [eauto|]. destruct (IHForall2 H1) as (x' & ? & ?). eauto.
Qed.

Lemma in_alphabet_in alphabet s c : in_alphabet alphabet s = true -> In c s -> In c alphabet.
Proof.
  unfold in_alphabet. rewrite forallb_forall. intros H Hc. specialize (H c Hc). apply existsb_exists in H.
  destruct H as (x & Hx & He). apply N.eqb_eq in He. subst. exact Hx.
Qed.

Section Trained.
Variable lg : float -> float.
Variable fl : float -> Z.

(* MAIN: whatever log / floor are, the tables the trainer builds from ANY password list are
   the tables the theorems of C11 / C18 are about: well-formed, levels within the guesser's
   range, and spelled with characters of the alphabet only *)
Theorem trained_table : forall alphabet ngram max_length pws A,
  (2 <= ngram)%Z -> (0 <= max_length)%Z ->
  train lg fl alphabet ngram max_length pws = TOk A ->
  exists T, ttab_of A = Some T /\ wf_ttab T /\ levels_le guesser_max_level T /\
    tt_ngram T = Z.to_nat ngram /\ tt_max_len T = Z.to_nat max_length /\
    forall bad, (forall c, In c alphabet -> ~ In c bad) -> chars_avoid bad T.
Proof.
  intros alphabet ngram maxl pws A Hng Hml. unfold train.
  destruct (parse_all (alookup_init alphabet ngram 1 maxl) pws) as [A0|] eqn:Ep; simpl; [|discriminate].
  intro Hs. assert (Hng1 : (1 <= al_ngram (alookup_init alphabet ngram 1 maxl))%Z) by (simpl; lia).
  destruct (parse_all_inv pws _ A0 Hng1 (pinv_init _ _ _ _) Ep) as [[Hnd Hent] (Ha & Hn & Hmi & Hma & Hl)].
  simpl in Ha, Hn, Hmi, Hma, Hl. rewrite repeat_length in Hl.
  destruct (smoothed_table lg fl A0 A Hs) as (T & HT & Hle & Tn & Tmi & Tma & Tln & Tk & TF).
  exists T. split; [exact HT|]. split; [|split; [exact Hle|]].
  - unfold wf_ttab. rewrite Tn, Tmi, Tma, Tln, Tk, Hn, Hmi, Hma, Hl.
    replace (1 <? ngram)%Z with true by (symmetry; apply Z.ltb_lt; lia).
    split; [lia|]. split; [reflexivity|]. split; [reflexivity|]. split; [exact Hnd|].
    intros te Hte. destruct (Forall2_in_r _ _ _ _ TF Hte) as ([k e] & Hin & Hk & Hnx). simpl in Hk, Hnx.
    destruct (Hent k e Hin) as (Hlen & _ & Hnd' & _). rewrite Hk, Hnx. split; [|exact Hnd'].
    rewrite Hn in Hlen. unfold tlen in Hlen. lia.
  - rewrite Tn, Tma, Hn, Hma. split; [reflexivity|]. split; [reflexivity|].
    intros bad Hbad te Hte. destruct (Forall2_in_r _ _ _ _ TF Hte) as ([k e] & Hin & Hk & Hnx). simpl in Hk, Hnx.
    destruct (Hent k e Hin) as (_ & Hka & _ & Hca). rewrite Ha in Hka, Hca. split.
    + intros c Hc. rewrite Hk in Hc. apply Hbad. eapply in_alphabet_in; eassumption.
    + intros c l Hcl. assert (Hc : In c (map fst (ge_next e))) by (rewrite <- Hnx; apply (in_map fst _ _ Hcl)).
      apply in_map_iff in Hc. destruct Hc as ([c' v] & <- & Hcv). simpl. apply Hbad.
      eapply in_alphabet_in; [apply (Hca c' v Hcv) | left; reflexivity].
Qed.

End Trained.
