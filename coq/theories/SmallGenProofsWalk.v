(* The generated random walk (gen/Small_walk_gen.v: the translation of the Python
   text of PcfgGrammar.random_walk, redone on every run) equals the hand-written
   model Honey.random_walk (with the fall-back to the last entry) that the
   theorems of C16 are about.

   The equality holds for every number type and operations (in particular
   binary64), for every choice of the "undefined" values the generated section
   is parameterised by, for every grammar with at least one base structure
   (self.base[-1] raises otherwise) and every draw list that is long enough (one
   draw for the base structure, one per position; random.random() never runs
   out).  pt_item['base_prob'] is 1.0 and pt_item['prob'] is _find_prob of the
   walk, which Honey.v does not model: they are stated as such.

   The proof is meant to break when random_walk changes its meaning: the body
   lemmas compare the translated loop bodies with the model's selection scan,
   comparison by comparison. *)
From Coq Require Import List Arith Bool Lia.
From Pcfg Require Import KernelRt SmallRt SmallGenProofs Honey.
From PcfgGen Require Import Small_walk_gen.
Import ListNotations.

Section Scan.
Context {T X : Type} (add : T -> T -> T) (leb : T -> T -> bool) (w : X -> T) (u : T).

(* "cur += w(x); if cur >= u: select x, break" with the running sum kept *)
Fixpoint scan (l : list X) (acc : T) (i : nat) : T * option (nat * X) :=
  match l with
  | [] => (acc, None)
  | x :: r => let acc' := add acc (w x) in
              if leb u acc' then (acc', Some (i, x)) else scan r acc' (S i)
  end.

Lemma scan_select (l : list X) : forall acc i,
  option_map fst (snd (scan l acc i)) = select_from add leb (map w l) u acc i.
Proof.
  induction l as [|x r IH]; intros acc i; simpl; [reflexivity|].
  destruct (leb u (add acc (w x))); [reflexivity|apply IH].
Qed.

Lemma scan_nth (l : list X) : forall acc i k x,
  snd (scan l acc i) = Some (k, x) -> i <= k /\ nth_error l (k - i) = Some x.
Proof.
  induction l as [|a r IH]; intros acc i k x; simpl; [discriminate|].
  destruct (leb u (add acc (w a))).
  - simpl. intros H. inversion H; subst. rewrite Nat.sub_diag. split; [lia|reflexivity].
  - intros H. destruct (IH _ _ _ _ H) as [Hk Hn]. split; [lia|].
    replace (k - i) with (S (k - S i)) by lia. exact Hn.
Qed.

Lemma loop_scan {R P : Type} (fin : nat -> X -> P -> P) (l : list X) :
  forall i (body : nat -> X -> T * P -> ctl3 R (T * P)) acc p kelse kbrk,
  (forall j x cur q, body j x (cur, q) =
     if leb u (add cur (w x)) then Brk (add cur (w x), fin j x q) else Cont (add cur (w x), q)) ->
  loop_from i l body (acc, p) kelse kbrk =
  match scan l acc i with
  | (c, Some (k, x)) => kbrk (c, fin k x p)
  | (c, None) => kelse (c, p)
  end.
Proof.
  induction l as [|a r IH]; intros i body acc p kelse kbrk H; simpl; [reflexivity|].
  rewrite H. destruct (leb u (add acc (w a))); [reflexivity|]. now apply IH.
Qed.
End Scan.

Lemma last_indep {X : Type} (l : list X) (d d' : X) : l <> [] -> last l d = last l d'.
Proof.
  induction l as [|a r IH]; intros H; [contradiction|]. simpl.
  destruct r as [|b r']; [reflexivity|]. apply IH. discriminate.
Qed.

Section WalkEq.
Context {T : Type} (zero one : T) (add mul : T -> T -> T) (leb ltb : T -> T -> bool) (ofnat : nat -> T).
Context (find_prob : list (nat * nat) -> T -> T).
(* the undefined values: arbitrary *)
Context (ud : T) (un : nat * nat) (ug : T * nat) (ub : T * list nat).

Notation hgrammar := (@hgrammar T).
Notation py_random_walk := (py_random_walk zero one add mul leb ltb ofnat find_prob ud un ug ub).
Notation m_random_walk := (random_walk zero add mul leb ofnat true).
Notation m_walk_positions := (walk_positions zero add mul leb ofnat true).
Notation m_pick_group := (pick_group zero add mul leb ofnat true).

(* the weight of a group as the loop computes it *)
Definition gw (grp : T * nat) : T := mul (fst grp) (ofnat (snd grp)).

Lemma weights_gw (row : list (T * nat)) : weights mul ofnat row = map gw row.
Proof. reflexivity. Qed.

Lemma pick_scan (row : list (T * nat)) (u : T) :
  m_pick_group row u =
  match snd (scan add leb gw u row zero 0) with Some (k, _) => k | None => length row - 1 end.
Proof.
  unfold pick_group, select. rewrite weights_gw, <- (scan_select add leb gw u row zero 0).
  destruct (snd (scan add leb gw u row zero 0)) as [[k x]|]; reflexivity.
Qed.

(* one iteration of the per-position loop on the state
   (prob_target, rnd, cur_prob, pt_item['pt']) *)
Definition pos_step (g : hgrammar) (i : nat) (st : T * list T * T * list (nat * nat)) : T * list T * T * list (nat * nat) :=
  let '(_, rnd, _, pt) := st in
  let u := hd ud rnd in
  let v := fst (nth i pt un) in
  (u, tl rnd, fst (scan add leb gw u (hrow g v) zero 0), set_nth pt i (v, m_pick_group (hrow g v) u)).

Lemma positions_loop {R : Type} (g : hgrammar) (suf : list (nat * nat)) :
  forall pre rnd p0 c0, length suf <= length rnd ->
  exists p c, forall j (body : nat -> T * list T * T * list (nat * nat) -> ctl3 R _) kelse kbrk,
  (forall i st, body i st = Cont (pos_step g i st)) ->
  loop_from j (seq (length pre) (length suf)) (fun _ => body) (p0, rnd, c0, pre ++ suf) kelse kbrk
  = kelse (p, skipn (length suf) rnd, c, pre ++ m_walk_positions g (map fst suf) rnd).
Proof.
  induction suf as [|[v ix] r IH]; intros pre rnd p0 c0 Hlen.
  - exists p0, c0. intros j body kelse kbrk H. reflexivity.
  - destruct rnd as [|u rnd']; [simpl in Hlen; lia|].
    simpl in Hlen.
    destruct (IH (pre ++ [(v, m_pick_group (hrow g v) u)]) rnd' u
                 (fst (scan add leb gw u (hrow g v) zero 0)) ltac:(lia)) as (p & c & Hpc).
    exists p, c. intros j body kelse kbrk H. simpl seq. simpl loop_from.
    rewrite H. unfold pos_step. rewrite nth_app_mid, set_nth_app_mid. simpl fst. simpl hd. simpl tl.
    specialize (Hpc (S j) body kelse kbrk H).
    replace (length (pre ++ [(v, m_pick_group (hrow g v) u)])) with (S (length pre)) in Hpc
      by (rewrite app_length; simpl; lia).
    rewrite <- !app_assoc in Hpc. simpl app in Hpc. rewrite Hpc.
    simpl. reflexivity.
Qed.

(* what the model selects, in terms of the scan the loops are rewritten to *)
Lemma model_select (g : hgrammar) (u0 : T) (us : list T) : hbases g <> [] ->
  match scan add leb (@fst T (list nat)) u0 (hbases g) zero 0 with
  | (_, Some (_, x)) => In x (hbases g) /\ m_random_walk g u0 us = Some (m_walk_positions g (snd x) us)
  | (_, None) => In (last (hbases g) ub) (hbases g) /\
                 m_random_walk g u0 us = Some (m_walk_positions g (snd (last (hbases g) ub)) us)
  end.
Proof.
  intros Hne. unfold random_walk, select.
  rewrite <- (scan_select add leb (@fst T (list nat)) u0 (hbases g) zero 0).
  destruct (scan add leb (@fst T (list nat)) u0 (hbases g) zero 0) as [c [[k x]|]] eqn:E.
  - destruct (scan_nth add leb (@fst T (list nat)) u0 (hbases g) zero 0 k x) as [_ Hn];
      [rewrite E; reflexivity|]. rewrite Nat.sub_0_r in Hn.
    split; [eapply nth_error_In; exact Hn|]. simpl option_map. cbv iota.
    now rewrite (nth_error_nth _ _ _ Hn).
  - split.
    + destruct (exists_last Hne) as (l' & a & ->). rewrite last_last. apply in_or_app. right. now left.
    + simpl option_map. cbv iota. destruct (hbases g) as [|b0 br] eqn:Eb; [contradiction|].
      rewrite (last_indep (b0 :: br) (zero, []) ub) by discriminate. reflexivity.
Qed.

(* The equality proof does not follow one fixed generated text.  Its steps:
   - the body of the per-position loop (group scan written with range + indexing, or with enumerate over
     the list of groups) is rewritten to the model's scan [walk_pos_body_tac];
   - the per-position loop is the model's walk_positions [walk_positions_tac];
   - the selection of the base structure (for ... else with the append loop inside, or a None sentinel with
     the fall-back after the loop and one append loop) is rewritten to the model's scan; both spellings are
     tried.  A source of another shape has to be proved equal here first. *)
Ltac walk_pos_body_tac g :=
  let i := fresh "i" in let p1 := fresh "p1" in let rnd1 := fresh "rnd1" in
  let c1 := fresh "c1" in let pt1 := fresh "pt1" in
  let v0 := fresh "v0" in let ix0 := fresh "ix0" in let Enth := fresh "Enth" in
  intros i [[[p1 rnd1] c1] pt1]; cbv beta iota zeta; unfold draw, drawn, sub;
  (* the item of the position: read through item[0] or unpacked in the for header *)
  destruct (nth i pt1 un) as [v0 ix0] eqn:Enth; cbv beta iota zeta; cbn [fst snd];
  try (rewrite (for_range_as_enum ug (hrow g v0) _
         (fun index (grp : T * nat) '(cur_prob, pt_item_pt) =>
            if leb (hd ud rnd1) (add cur_prob (gw grp))
            then Brk (add cur_prob (gw grp), set_nth pt_item_pt i (v0, index))
            else Cont (add cur_prob (gw grp), pt_item_pt)))
      by (intros ? [? ?] ?; reflexivity));
  unfold for_enum;
  (* the group found is stored at once (for ... else), or its index is kept (default = last group before
     the loop) and stored after the loop *)
  first
    [ rewrite (loop_scan add leb gw (hd ud rnd1)
                 (fun (index : nat) (_ : T * nat) (pp : list (nat * nat)) => set_nth pp i (v0, index)))
        by (intros ? ? ? ?; reflexivity)
    | rewrite (loop_scan add leb gw (hd ud rnd1) (fun (index : nat) (_ : T * nat) (_ : nat) => index))
        by (intros ? ? ? ?; reflexivity) ];
  unfold pos_step; cbv beta iota zeta; rewrite Enth; cbn [fst]; rewrite pick_scan;
  destruct (scan add leb gw (hd ud rnd1) (hrow g v0) zero 0) as [? [[? ?]|]]; reflexivity.

Ltac walk_positions_tac g us u0 c0 vars Hl :=
  unfold for_enum_cur, for_each;
  let p := fresh "p" in let c2 := fresh "c2" in let Hpos := fresh "Hpos" in let Hl' := fresh "Hl'" in
  assert (Hl' : length (map (fun v : nat => (v, 0)) vars) <= length us) by (rewrite map_length; exact Hl);
  destruct (positions_loop (R := (list (nat * nat) * T * T)%type) g (map (fun v : nat => (v, 0)) vars) [] us u0 c0 Hl')
    as (p & c2 & Hpos);
  rewrite (Hpos 0);
  [ simpl app; rewrite map_map; simpl; rewrite map_id; reflexivity | walk_pos_body_tac g ].

Theorem small_random_walk_eq (g : hgrammar) (u0 : T) (us : list T) :
  hbases g <> [] ->
  (forall b, In b (hbases g) -> length (snd b) <= length us) ->
  exists w, m_random_walk g u0 us = Some w /\
            py_random_walk g (u0 :: us) = (w, one, find_prob w one).
Proof.
  intros Hne Hlen.
  pose proof (model_select g u0 us Hne) as Hm.
  unfold Small_walk_gen.py_random_walk. cbv zeta.
  unfold draw at 1, drawn at 1. simpl hd. simpl tl.
  match goal with |- context [for_each (hbases g) ?b ?s ?o ?k] => set (Krest := k); set (Oelse := o) end.
  first
  [ (* for ... else, the append loop in the breaking branch and in the else block *)
    solve [
      assert (HK : forall c0 vars, length vars <= length us ->
                Krest (c0, map (fun v => (v, 0)) vars) =
                (m_walk_positions g vars us, one, find_prob (m_walk_positions g vars us) one))
        by (intros c0 vars Hl; subst Krest; cbv beta iota; walk_positions_tac g us u0 c0 vars Hl);
      unfold for_each at 1;
      rewrite (loop_scan add leb (@fst T (list nat)) u0
                 (fun (_ : nat) (item : T * list nat) (pt : list (nat * nat)) => pt ++ map (fun v => (v, 0)) (snd item)))
        by (intros j x cur q; cbv beta iota;
            destruct (leb u0 (add cur (fst x))); [|reflexivity];
            (* the structure is appended by a loop, or at once (extend + comprehension) *)
            first [ reflexivity | rewrite (for_each_append_map (snd x) _ (fun v => (v, 0))); reflexivity ]);
      destruct (scan add leb (@fst T (list nat)) u0 (hbases g) zero 0) as [c [[k x]|]];
      destruct Hm as [Hin Hm]; eexists; (split; [exact Hm|]);
      [ simpl app; apply HK; apply Hlen; exact Hin
      | subst Oelse; cbv beta iota zeta;
        try (rewrite (for_each_append_map (snd (last (hbases g) ub)) _ (fun v => (v, 0))) by reflexivity);
        simpl app; apply HK; apply Hlen; exact Hin ] ]
  | (* a None sentinel set in the breaking branch, the fall-back after the loop, one append loop *)
    solve [
      assert (HK : forall c0 (sel : option (T * list nat)),
                length (snd (match sel with None => last (hbases g) ub | Some b => b end)) <= length us ->
                Krest (c0, sel) =
                (m_walk_positions g (snd (match sel with None => last (hbases g) ub | Some b => b end)) us, one,
                 find_prob (m_walk_positions g (snd (match sel with None => last (hbases g) ub | Some b => b end)) us) one))
        by (intros c0 sel Hl; subst Krest; cbv beta iota zeta;
            try (rewrite (for_each_append_map _ _ (fun v => (v, 0))) by reflexivity);
            cbv beta zeta; simpl app;
            walk_positions_tac g us u0 c0 (snd (match sel with None => last (hbases g) ub | Some b => b end)) Hl);
      unfold for_each at 1;
      rewrite (loop_scan add leb (@fst T (list nat)) u0
                 (fun (_ : nat) (item : T * list nat) (_ : option (T * list nat)) => Some item))
        by (intros j x cur q; reflexivity);
      destruct (scan add leb (@fst T (list nat)) u0 (hbases g) zero 0) as [c [[k x]|]];
      destruct Hm as [Hin Hm]; eexists; (split; [exact Hm|]); subst Oelse; cbv beta;
      [ apply (HK c (Some x)) | apply (HK c None) ]; apply Hlen; exact Hin ]
  | (* for ... else that only records the chosen entry; the structure is built from it afterwards *)
    solve [
      assert (HK : forall c0 (b : T * list nat), length (snd b) <= length us ->
                Krest (c0, b) =
                (m_walk_positions g (snd b) us, one, find_prob (m_walk_positions g (snd b) us) one))
        by (intros c0 b Hl; subst Krest; cbv beta iota zeta; walk_positions_tac g us u0 c0 (snd b) Hl);
      unfold for_each at 1;
      rewrite (loop_scan add leb (@fst T (list nat)) u0
                 (fun (_ : nat) (item : T * list nat) (_ : T * list nat) => item))
        by (intros j x cur q; reflexivity);
      destruct (scan add leb (@fst T (list nat)) u0 (hbases g) zero 0) as [c [[k x]|]];
      destruct Hm as [Hin Hm]; eexists; (split; [exact Hm|]); subst Oelse; cbv beta iota zeta;
      apply HK; apply Hlen; exact Hin ] ].
Qed.

(* ---- what the model's walk is, position by position ---- *)
Lemma walk_positions_vars (g : hgrammar) (vars : list nat) : forall us,
  length vars <= length us -> map fst (m_walk_positions g vars us) = vars.
Proof.
  induction vars as [|v r IH]; intros us H; [reflexivity|].
  destruct us as [|u ur]; [simpl in H; lia|]. simpl. f_equal. apply IH. simpl in H. lia.
Qed.

Lemma walk_positions_nth (g : hgrammar) (vars : list nat) : forall us i v u,
  nth_error vars i = Some v -> nth_error us i = Some u ->
  nth_error (m_walk_positions g vars us) i = Some (v, m_pick_group (nth v (htable g) []) u).
Proof.
  induction vars as [|v0 r IH]; intros us i v u Hv Hu; [destruct i; discriminate|].
  destruct us as [|u0 ur]; [destruct i; discriminate|].
  destruct i as [|i]; simpl in *.
  - inversion Hv; inversion Hu; subst. reflexivity.
  - now apply IH.
Qed.

(* the structure of the generated walk is the entry of self.base the model's
   selection names (the first whose running sum reaches the draw) *)
Theorem small_random_walk_base (g : hgrammar) (u0 : T) (us : list T) (k : nat) :
  hbases g <> [] ->
  (forall b, In b (hbases g) -> length (snd b) <= length us) ->
  select zero add leb (map fst (hbases g)) u0 = Some k ->
  map fst (fst (fst (py_random_walk g (u0 :: us)))) = snd (nth k (hbases g) (zero, [])).
Proof.
  intros Hne Hlen Hsel.
  destruct (small_random_walk_eq g u0 us Hne Hlen) as (w & Hm & ->). simpl fst.
  unfold random_walk in Hm. rewrite Hsel in Hm. inversion Hm; subst.
  apply walk_positions_vars. apply Hlen.
  apply (proj1 (select_first zero add leb _ _ _)) in Hsel. destruct Hsel as [Hk _].
  rewrite map_length in Hk. now apply nth_In.
Qed.

(* ... and every position holds the group the model's selection names for the
   position's draw (the first whose running weight reaches it, else the last) *)
Theorem small_random_walk_group (g : hgrammar) (u0 : T) (us : list T) (i v ix : nat) (u : T) :
  hbases g <> [] ->
  (forall b, In b (hbases g) -> length (snd b) <= length us) ->
  nth_error (fst (fst (py_random_walk g (u0 :: us)))) i = Some (v, ix) ->
  nth_error us i = Some u ->
  ix = m_pick_group (nth v (htable g) []) u.
Proof.
  intros Hne Hlen Hn Hu.
  destruct (small_random_walk_eq g u0 us Hne Hlen) as (w & Hm & E). rewrite E in Hn. simpl fst in Hn.
  assert (exists vars, w = m_walk_positions g vars us /\ length vars <= length us) as (vars & -> & Hl).
  { unfold random_walk in Hm.
    destruct (select zero add leb (map fst (hbases g)) u0) as [b|] eqn:Es.
    - inversion Hm. eexists; split; [reflexivity|]. apply Hlen.
      apply (proj1 (select_first zero add leb _ _ _)) in Es. destruct Es as [Hk _].
      rewrite map_length in Hk. now apply nth_In.
    - assert (Hm' : Some (m_walk_positions g (snd (last (hbases g) (zero, []))) us) = Some w)
        by (destruct (hbases g); [contradiction|exact Hm]).
      inversion Hm'. eexists; split; [reflexivity|]. apply Hlen.
      destruct (exists_last Hne) as (l' & a & ->). rewrite last_last. apply in_or_app. right. now left. }
  assert (Hv : nth_error vars i = Some v).
  { pose proof (walk_positions_vars g vars us Hl) as Hvars.
    rewrite <- Hvars. rewrite nth_error_map, Hn. reflexivity. }
  rewrite (walk_positions_nth g vars us i v u Hv Hu) in Hn. now inversion Hn.
Qed.

End WalkEq.

(* ---- exact arithmetic: the interval statements of Honey.v about the generated walk ---- *)
From Coq Require Import QArith ZArith.
Close Scope Q_scope.

Theorem small_walk_base_interval_Q :
  forall one (ltb : Q -> Q -> bool) find_prob undef_draw undef_node undef_group undef_base
         (g : @hgrammar Q) (u0 : Q) (us : list Q) (k : nat),
  hbases g <> [] ->
  (forall b, In b (hbases g) -> length (snd b) <= length us) ->
  (k < length (hbases g))%nat -> Forall (fun w => 0 <= w)%Q (map fst (hbases g)) ->
  (u0 <= nth k (Qcums (map fst (hbases g))) 0)%Q ->
  (k = 0%nat \/ (nth (k - 1) (Qcums (map fst (hbases g))) 0 < u0)%Q) ->
  map fst (fst (fst (py_random_walk 0%Q one Qplus Qmult Qle_bool ltb (fun n => inject_Z (Z.of_nat n)) find_prob
                       undef_draw undef_node undef_group undef_base g (u0 :: us))))
  = snd (nth k (hbases g) (0%Q, [])).
Proof.
  intros one lt fp ud un ug ub g u0 us k Hne Hlen Hk Hpos H1 H2.
  apply small_random_walk_base; [exact Hne|exact Hlen|].
  apply (proj2 (select_interval_Q (map fst (hbases g)) u0 k ltac:(now rewrite map_length) Hpos)). now split.
Qed.

Theorem small_walk_group_interval_Q :
  forall one (ltb : Q -> Q -> bool) find_prob undef_draw undef_node undef_group undef_base
         (g : @hgrammar Q) (u0 : Q) (us : list Q) (i v ix k : nat) (u : Q),
  hbases g <> [] ->
  (forall b, In b (hbases g) -> length (snd b) <= length us) ->
  nth_error (fst (fst (py_random_walk 0%Q one Qplus Qmult Qle_bool ltb (fun n => inject_Z (Z.of_nat n)) find_prob
                         undef_draw undef_node undef_group undef_base g (u0 :: us)))) i = Some (v, ix) ->
  nth_error us i = Some u ->
  let ws := weights Qmult (fun n => inject_Z (Z.of_nat n)) (nth v (htable g) []) in
  (k < length ws)%nat -> Forall (fun w => 0 <= w)%Q ws ->
  (u <= nth k (Qcums ws) 0)%Q -> (k = 0%nat \/ (nth (k - 1) (Qcums ws) 0 < u)%Q) ->
  ix = k.
Proof.
  intros one lt fp ud un ug ub g u0 us i v ix k u Hne Hlen Hn Hu ws Hk Hpos H1 H2.
  rewrite (small_random_walk_group _ _ _ _ _ _ _ _ _ _ _ _ g u0 us i v ix u Hne Hlen Hn Hu).
  unfold pick_group. fold ws.
  assert (E : Qsel ws u = Some k) by (apply (proj2 (select_interval_Q ws u k Hk Hpos)); now split).
  unfold Qsel in E. now rewrite E.
Qed.
