(* PipelineDisk.v - the real binary64 disk stage of Pipeline.v (the text the
   trainer writes, read back by the guesser's loaders) coincides with the ideal
   disk stage on lists of lines whose values are safe and encodable and whose
   probabilities are finite and non-negative, under oracle hypotheses about
   repr / float() / the codec (record io_ok). *)
From Coq Require Import List NArith ZArith Bool Floats Lia.
From Pcfg Require Import ProbAlg F64 TextFile TextFileProofs IoCorr IoFloatFacts IoFacts Pipeline.
Import ListNotations.

(* what is assumed of the Python runtime for the ruleset files (oracles) *)
Record io_ok (io : fileio) : Prop := {
  io_lb : f_lb io = LB;                          (* the probed line-break class *)
  io_ws : f_ws io = WS;                          (* the probed white-space class *)
  (* CPython: float(repr(p)) == p for every finite p, repr uses only 0-9 . e + - i n f a *)
  io_repr : forall p, okbF p = true -> float_ok (f_repr io) (f_pfloat io) p;
  (* the ruleset encoding can encode ASCII (TAB, LF, digits, the characters of repr) *)
  io_ascii : forall c, (c < 128)%N -> f_encb io c = true
}.

Definition line_ok (io : fileio) (it : TextFile.str * float) : Prop :=
  safe (fst it) = true /\ forallb (f_encb io) (fst it) = true /\ okbF (snd it) = true.

(* ---------------------------------------------------------------- grouping *)

Lemma ggroups_F64 : forall (l : list (TextFile.str * float)) (p : float) (vs : list TextFile.str),
  map (fun g => (gvals g, gprob g)) (groups p vs l) = ggroups RF p vs l.
Proof.
  induction l as [|[v q] r IH]; intros p vs.
  - reflexivity.
  - cbn [groups ggroups].
    change (a_eqb RF q p) with (PrimFloat.eqb q p).
    destruct (PrimFloat.eqb q p).
    + apply IH.
    + cbn [map gvals gprob]. rewrite IH. reflexivity.
Qed.

(* the generic grouping of Pipeline.v at binary64 is TextFile's grouping *)
Lemma ggroup_F64 : forall l : list (TextFile.str * float),
  map (fun g => (gvals g, gprob g)) (group_by_prob l) = ggroup RF l.
Proof.
  intros [|[v p] r]; [reflexivity|].
  cbn [group_by_prob ggroup]. apply ggroups_F64.
Qed.

(* ---------------------------------------------------------------- characters *)

(* every character repr(float) can produce is ASCII *)
Lemma float_char_ascii : forall c, float_char c = true -> (c < 128)%N.
Proof.
  assert (A : forallb (fun c => N.ltb c 128) float_chars = true) by reflexivity.
  rewrite forallb_forall in A. intros c H. unfold float_char, memN in H. apply existsb_exists in H.
  destruct H as [x [Hx E]]. apply N.eqb_eq in E. subst x. apply N.ltb_lt. apply A. exact Hx.
Qed.

Lemma TAB_ascii : (TAB < 128)%N. Proof. reflexivity. Qed.
Lemma LF_ascii : (LF < 128)%N. Proof. reflexivity. Qed.

(* a written line is encodable when its value is *)
Lemma write_line_encodable io v p : io_ok io ->
  forallb (f_encb io) v = true -> float_ok (f_repr io) (f_pfloat io) p ->
  forallb (f_encb io) (write_line (f_repr io) (v, p)) = true.
Proof.
  intros Hio Hv (_ & _ & Hfc). unfold write_line. cbn [fst snd].
  rewrite forallb_app, Hv. cbn [andb forallb].
  rewrite (io_ascii io Hio TAB TAB_ascii). cbn [andb].
  rewrite forallb_app. cbn [forallb].
  rewrite (io_ascii io Hio LF LF_ascii). cbn [andb]. rewrite andb_true_r.
  rewrite forallb_forall in *. intros c Hc.
  apply (io_ascii io Hio). apply float_char_ascii. apply Hfc. exact Hc.
Qed.

(* ---------------------------------------------------------------- the ruleset files *)

Theorem disk_F64_is_ideal : forall io (l : list (TextFile.str * float)), io_ok io ->
  Forall (line_ok io) l -> disk_F64 io l = disk_ideal RF l.
Proof.
  intros io l Hio Hl. unfold disk_F64, disk_ideal.
  rewrite (io_lb io Hio), (io_ws io Hio).
  destruct (roundtrip_guesser_inst (f_repr io) (f_pfloat io) (f_encb io) (f_onfail io) l) as [E _].
  - eapply Forall_impl; [|exact Hl]. intros it (Hs & _ & Hok). split; [exact Hs|].
    apply (io_repr io Hio). exact Hok.
  - eapply Forall_impl; [|exact Hl]. intros [v p] (Hs & He & Hok). cbn [fst snd] in *.
    apply write_line_encodable; [exact Hio | exact He |]. apply (io_repr io Hio). exact Hok.
  - eapply Forall_impl; [|exact Hl]. intros it (_ & _ & Hok). exact Hok.
  - rewrite E. cbn [option_map]. rewrite ggroup_F64. reflexivity.
Qed.

(* ---------------------------------------------------------------- Grammar/grammar.txt *)

(* the class on which the builtin open ends a line *)
Lemma eqLF_LF : N.eqb LF LF = true. Proof. reflexivity. Qed.
Lemma eqLF_TAB : N.eqb LF TAB = false. Proof. reflexivity. Qed.

Lemma float_chars_eqLF : forall c, float_char c = true -> N.eqb LF c = false.
Proof.
  intros c H. destruct (N.eqb LF c) eqn:E; [|reflexivity].
  apply N.eqb_eq in E. subst c. apply float_chars_LB in H. rewrite LB_LF in H. discriminate.
Qed.

(* a value safe w.r.t. the codecs line-break class is safe w.r.t. LF alone *)
Lemma safe_safe_eqLF v : safe v = true -> safe_value (N.eqb LF) v = true.
Proof.
  unfold safe, safe_value, none_of. rewrite !forallb_forall. intros H c Hc. specialize (H c Hc).
  destruct (N.eqb LF c) eqn:E.
  - apply N.eqb_eq in E. subst c. rewrite LB_LF in H. discriminate.
  - destruct (LB c); [discriminate | exact H].
Qed.

(* the written text holds no CR *)
Lemma write_file_no_cr repr pfloat : forall l : list (TextFile.str * float),
  Forall (fun it => safe (fst it) = true /\ float_ok repr pfloat (snd it)) l ->
  none_of (N.eqb CR) (write_file repr l) = true.
Proof.
  induction l as [|[v p] l IH]; intro H; [reflexivity|].
  inversion H as [|? ? [Hv Hp] Hl]; subst. cbn [fst snd] in Hv, Hp.
  unfold write_file. cbn [flat_map]. rewrite none_of_app. fold (write_file repr l).
  rewrite IH by assumption. rewrite andb_true_r.
  rewrite write_line_shape. cbn [fst snd]. rewrite none_of_app.
  rewrite (none_lb_none_cr LB LB_CR _
             (body_none_lb LB repr pfloat LB_TAB float_chars_LB v p Hv Hp)).
  reflexivity.
Qed.

Lemma lines_text_write_file repr pfloat : forall l : list (TextFile.str * float),
  Forall (fun it => safe (fst it) = true /\ float_ok repr pfloat (snd it)) l ->
  lines_text (write_file repr l) = map (write_line repr) l.
Proof.
  intros l H. unfold lines_text.
  rewrite univ_nl_id by (apply (write_file_no_cr repr pfloat); exact H).
  apply (lines_keep_write_file (N.eqb LF) repr pfloat eqLF_LF eqLF_TAB float_chars_eqLF).
  eapply Forall_impl; [|exact H]. intros it [Hs Hf]. split; [apply safe_safe_eqLF; exact Hs | exact Hf].
Qed.

Lemma base_lines_written repr pfloat : forall l : list (TextFile.str * float),
  Forall (fun it => safe (fst it) = true /\ float_ok repr pfloat (snd it)) l ->
  base_lines WS pfloat (map (write_line repr) l) = Some l.
Proof.
  induction l as [|[v p] l IH]; intro H; [reflexivity|].
  inversion H as [|? ? [Hv Hp] Hl]; subst. cbn [fst snd] in Hv, Hp.
  cbn [map base_lines].
  rewrite (parse_write_line LB WS repr pfloat WS_LF float_chars_WS v p Hv Hp).
  rewrite IH by assumption. reflexivity.
Qed.

(* Grammar/grammar.txt is read with the builtin open (universal newlines, no codec check) *)
Theorem disk_base_F64_is_ideal : forall io (l : list (TextFile.str * float)), io_ok io ->
  Forall (fun it => safe (fst it) = true /\ okbF (snd it) = true) l ->
  disk_base_F64 io l = @disk_base_ideal F64 l.
Proof.
  intros io l Hio Hl. unfold disk_base_F64, disk_base_ideal.
  assert (H : Forall (fun it : TextFile.str * float =>
                        safe (fst it) = true /\ float_ok (f_repr io) (f_pfloat io) (snd it)) l).
  { eapply Forall_impl; [|exact Hl]. intros it [Hs Hok]. split; [exact Hs|].
    apply (io_repr io Hio). exact Hok. }
  rewrite (io_ws io Hio).
  rewrite (lines_text_write_file (f_repr io) (f_pfloat io) l H).
  apply base_lines_written. exact H.
Qed.

Print Assumptions disk_F64_is_ideal.
Print Assumptions disk_base_F64_is_ideal.
