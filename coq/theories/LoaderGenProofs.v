(* The generated rule-file loaders (gen/Loader_gen.v: the translation of the Python
   text of lib_guesser/grammar_io.py _load_from_file, _load_base_structures,
   load_omen_keyspace and lib_scorer/grammar_io.py _load_from_file, redone on every
   run by harness/translate_loader.py) equal the hand-written models of TextFile.v
   (load_guesser, load_scorer, the readers C07 and C04 are about) and Loader.v
   (load_bases, C14).

   The proofs compare the translated loop bodies with the model's per-line
   functions test by test (body lemmas, by case analysis and computation) and then
   go by induction over the lines; they do not depend on the names of the Python
   locals or on the exact generated text, so a rewrite that leaves the meaning
   alone keeps checking and a change of meaning breaks a body lemma. *)
From Coq Require Import List Arith ZArith NArith Bool Floats Lia.
From Pcfg Require Import TextFile LoaderRt.
From Pcfg Require Import F64 TextFileProofs IoCorr IoFacts.
From PcfgGen Require Import Loader_gen.
Import ListNotations.

(* ---------------------------------------------------------------- runtime facts *)

Lemma rt_index_0 {X} (x : X) l : rt_index (x :: l) 0 = Done x.
Proof.
  unfold rt_index, rt_pos. cbn [Z.ltb Z.compare length].
  replace (Z.of_nat (S (length l)) <=? 0)%Z with false by (symmetry; apply Z.leb_gt; lia). reflexivity.
Qed.

Lemma rt_index_1 {X} (x y : X) l : rt_index (x :: y :: l) 1 = Done y.
Proof.
  unfold rt_index, rt_pos. cbn [Z.ltb Z.compare length].
  replace (Z.of_nat (S (S (length l))) <=? 1)%Z with false by (symmetry; apply Z.leb_gt; lia). reflexivity.
Qed.

Lemma rt_index_1_short {X} (x : X) : rt_index [x] 1 = Fail EIndex.
Proof. reflexivity. Qed.

Lemma rt_index_nil {X} i : rt_index (@nil X) i = Fail EIndex.
Proof.
  assert (H : rt_pos 0 i = None).
  { unfold rt_pos. cbn [Z.of_nat]. rewrite Z.add_0_r. destruct (i <? 0)%Z eqn:E; rewrite E; [reflexivity|].
    replace (0 <=? i)%Z with true by (symmetry; apply Z.leb_le; apply Z.ltb_ge in E; lia). reflexivity. }
  unfold rt_index. cbn [length]. now rewrite H.
Qed.

Lemma rt_pos_last n : rt_pos (S n) (-1) = Some n.
Proof.
  unfold rt_pos. cbn [Z.ltb Z.compare].
  replace (-1 + Z.of_nat (S n))%Z with (Z.of_nat n) by lia.
  replace (Z.of_nat n <? 0)%Z with false by (symmetry; apply Z.ltb_ge; lia).
  replace (Z.of_nat (S n) <=? Z.of_nat n)%Z with false by (symmetry; apply Z.leb_gt; lia).
  now rewrite Nat2Z.id.
Qed.

Lemma rt_set_nth_last {X} (G : list X) x x' : rt_set_nth (G ++ [x]) (length G) x' = G ++ [x'].
Proof. induction G as [|g G IH]; cbn; [reflexivity|now rewrite IH]. Qed.

Lemma upd_index_last {X} (G : list X) x f :
  upd_index (G ++ [x]) (-1) f = rt_bind (f x) (fun e => Fail e) (fun x' => Done (G ++ [x'])).
Proof.
  unfold upd_index. rewrite app_length, Nat.add_1_r, rt_pos_last.
  rewrite nth_error_app2 by lia. rewrite Nat.sub_diag. cbn [nth_error].
  destruct (f x); cbn; [now rewrite rt_set_nth_last|reflexivity].
Qed.

Lemma upd_index_nil {X} i (f : X -> outcome X) : upd_index [] i f = Fail EIndex.
Proof.
  assert (H : rt_pos 0 i = None).
  { unfold rt_pos. cbn [Z.of_nat]. rewrite Z.add_0_r. destruct (i <? 0)%Z eqn:E; rewrite E; [reflexivity|].
    replace (0 <=? i)%Z with true by (symmetry; apply Z.leb_le; apply Z.ltb_ge in E; lia). reflexivity. }
  unfold upd_index. cbn [length]. now rewrite H.
Qed.

Lemma list_last_cases {X} (l : list X) : l = [] \/ exists G x, l = G ++ [x].
Proof. destruct l as [|a l] using rev_ind; [now left|right; eauto]. Qed.

(* ---------------------------------------------------------------- binary64 *)

Definition F64ops : fops :=
  {| F := float; f_one := 1%float; f_mone := (-1)%float; f_zero := 0%float; f_eqb := PrimFloat.eqb;
     f_sub := PrimFloat.sub; f_div := PrimFloat.div; f_iszero := fun x => PrimFloat.eqb x 0 |}.

(* line.encode(encoding) as the model has it: the codec encodes the characters
   [encb] holds for and reports [reason] otherwise *)
Definition enc_of (encb : N -> bool) (reason : pstr) (_ line : pstr) : option pstr :=
  if forallb encb line then None else Some reason.

(* the errors= argument of codecs.open the readers are written for *)
Definition surrogateescape : pstr := [115; 117; 114; 114; 111; 103; 97; 116; 101; 101; 115; 99; 97; 112; 101]%N.

Definition surrogates_not_allowed : pstr :=
  [115; 117; 114; 114; 111; 103; 97; 116; 101; 115; 32; 110; 111; 116; 32; 97; 108; 108; 111; 119; 101; 100]%N.

(* what the readers do with a line the codec cannot encode: the reason
   'surrogates not allowed' takes the branch that reads a local no statement ever
   binds (UnboundLocalError, caught by `except Exception`: the load fails), any
   other reason skips the line *)
Definition onfail_of_reason (reason : pstr) : enc_fail :=
  if str_eqb reason surrogates_not_allowed then EncAbort else EncSkip.

Definition item_of (g : group) : rt_item float := {| it_values := gvals g; it_prob := gprob g |}.
Definition group_of (i : rt_item float) : group := {| gvals := it_values i; gprob := it_prob i |}.

Lemma group_of_item_of g : group_of (item_of g) = g.
Proof. destruct g; reflexivity. Qed.

(* ---------------------------------------------------------------- guesser: _load_from_file *)

Section GuesserFile.
Context (ws : N -> bool) (pfloat : pstr -> option float) (encb : N -> bool) (reason : pstr).
Context (copen : pstr -> pstr -> option pstr -> option (list pstr)).

Notation onfail := (onfail_of_reason reason).
Notation py_load := (py_load_from_file F64ops ws pfloat (enc_of encb reason) copen).

(* grammar_section[-1]['values'].append(v) *)
Definition app_last (gs : list (rt_item float)) (v : pstr) : option (list (rt_item float)) :=
  match rev gs with
  | [] => None
  | x :: g => Some (rev g ++ [{| it_values := it_values x ++ [v]; it_prob := it_prob x |}])
  end.

Lemma upd_append_last (gs : list (rt_item float)) v :
  upd_index gs (-1) (fun t => upd_values t (fun t0 => Done (rt_append t0 v))) = rt_opt EIndex (app_last gs v).
Proof.
  unfold app_last. destruct (list_last_cases gs) as [->|(G & x & ->)].
  - now rewrite upd_index_nil.
  - rewrite upd_index_last, rev_app_distr. cbn. now rewrite rev_involutive.
Qed.

(* what one line does to (error_flag, debug_count, prev_prob, grammar_section) *)
Definition gstep (ln : pstr) (st : bool * Z * float * list (rt_item float))
  : fctl (outcome (list (rt_item float) * bool)) (bool * Z * float * list (rt_item float)) :=
  let '(flag, dc, prev, gs) := st in
  if flag then FCont (false, dc, prev, gs)
  else if negb (forallb encb ln) then
    match onfail with
    | EncAbort => FRet (Done (gs, false))
    | EncSkip => FCont (false, (dc + 1)%Z, prev, gs)
    end
  else match parse_line ws pfloat ln with
       | None => FCont (true, (dc + 1)%Z, prev, gs)
       | Some (v, p) =>
           if PrimFloat.eqb p prev then
             match app_last gs v with
             | Some gs' => FCont (false, (dc + 1)%Z, prev, gs')
             | None => FRet (Done (gs, false))
             end
           else FCont (false, (dc + 1)%Z, p, gs ++ [{| it_values := [v]; it_prob := p |}])
       end.

(* the run of the loop as the translation has it, with the body replaced by gstep *)
Fixpoint grun (lines : list pstr) (st : bool * Z * float * list (rt_item float)) : outcome (list (rt_item float) * bool) :=
  match lines with
  | [] => Done (snd st, true)
  | ln :: r => match gstep ln st with
               | FCont st' => grun r st'
               | FBrk _ st' => Done (snd st', true)
               | FRet v => v
               end
  end.

Lemma load_from_file_run filename encoding lines :
  copen filename encoding (Some surrogateescape) = Some lines ->
  py_load [] filename encoding = grun lines (false, 0%Z, (-1)%float, []).
Proof.
  intros Ho. cbv beta zeta delta [py_load_from_file].
  match goal with |- context [rt_open (copen ?a ?b ?c)] => replace (copen a b c) with (copen filename encoding (Some surrogateescape)) by reflexivity end.
  rewrite Ho.
  cbn [rt_open rt_bind]. unfold rt_for_file, rt_fopen. cbn [f_all f_rest].
  match goal with |- rt_for_lines _ _ ?b _ _ _ = _ => set (body := b) end.
  assert (Hbody : forall ln st, body ln st = gstep ln st).
  { intros ln [[[flag dc] prev] gs]. unfold body, gstep. destruct flag; [reflexivity|].
    unfold rt_encode, enc_of. destruct (forallb encb ln); cbn [negb rt_bind].
    2:{ unfold rt_join, onfail_of_reason, rt_reason, surrogates_not_allowed.
        destruct (str_eqb reason _); reflexivity. }
    unfold parse_line. change TAB with 9%N.
    destruct (split_on 9 (rstrip ws ln)) as [|v [|f r]].
    - rewrite rt_index_nil. reflexivity.
    - rewrite rt_index_0. cbn [rt_bind]. rewrite rt_index_1_short. reflexivity.
    - rewrite rt_index_0. cbn [rt_bind]. rewrite rt_index_1. cbn [rt_bind]. unfold rt_float.
      destruct (pfloat f) as [p|]; cbn [rt_opt rt_bind]; [|reflexivity].
      cbn [F64ops f_eqb]. destruct (PrimFloat.eqb p prev); [|reflexivity].
      rewrite upd_append_last. destruct (app_last gs v); reflexivity. }
  clearbody body.
  match goal with |- rt_for_lines _ _ _ _ _ ?k0 = _ => set (K := k0) end.
  assert (Hrun : forall rest all st, rt_for_lines all rest body st rt_no_else_file K = grun rest st).
  { induction rest as [|ln r IH]; intros all st; cbn [rt_for_lines grun].
    - destruct st as [[[a b] c] d]. reflexivity.
    - rewrite Hbody. destruct (gstep ln st) as [st'|sk st'|v]; [apply IH| |reflexivity].
      destruct st' as [[[a b] c] d]. reflexivity. }
  apply Hrun.
Qed.

(* the result of a loader call against the model's result: the same groups and
   True, or False (with whatever was read so far) where the model's load fails *)
Definition agrees (r : outcome (list (rt_item float) * bool)) (m : option (list group)) : Prop :=
  match m with
  | Some gs => r = Done (map item_of gs, true)
  | None => exists gs, r = Done (gs, false)
  end.

Lemma app_last_snoc (G : list (rt_item float)) x v :
  app_last (G ++ [x]) v = Some (G ++ [{| it_values := it_values x ++ [v]; it_prob := it_prob x |}]).
Proof. unfold app_last. rewrite rev_app_distr. cbn. now rewrite rev_involutive. Qed.

(* a group is open: grammar_section ends with it and prev_prob is its probability *)
Lemma grun_open : forall lines flag dc (Gm : list group) vals p,
  agrees (grun lines (flag, dc, p, map item_of Gm ++ [{| it_values := vals; it_prob := p |}]))
         (option_map (fun its => Gm ++ groups p (rev vals) its) (guesser_items ws pfloat encb onfail lines flag)).
Proof.
  induction lines as [|ln r IH]; intros flag dc Gm vals p.
  - cbn. rewrite map_app. cbn. unfold item_of at 2. cbn. now rewrite rev_involutive.
  - cbn [grun guesser_items gstep]. destruct flag; [apply IH|].
    destruct (forallb encb ln); cbn [negb].
    2:{ destruct onfail; [apply IH|]. cbn. eauto. }
    destruct (parse_line ws pfloat ln) as [[v q]|]; [|apply IH].
    destruct (PrimFloat.eqb q p) eqn:E.
    + rewrite app_last_snoc. cbn [it_values it_prob].
      specialize (IH false (dc + 1)%Z Gm (vals ++ [v]) p).
      destruct (guesser_items ws pfloat encb onfail r false) as [its|]; cbn [option_map] in *; [|exact IH].
      cbn [groups]. rewrite E. now rewrite rev_unit in IH.
    + specialize (IH false (dc + 1)%Z (Gm ++ [{| gvals := vals; gprob := p |}]) [v] q).
      rewrite map_app in IH. cbn [map] in IH. unfold item_of at 2 in IH. cbn [gvals gprob] in IH.
      destruct (guesser_items ws pfloat encb onfail r false) as [its|]; cbn [option_map] in *; [|exact IH].
      cbn [groups]. rewrite E. rewrite rev_involutive.
      replace (Gm ++ {| gvals := vals; gprob := p |} :: groups q [v] its)
        with ((Gm ++ [{| gvals := vals; gprob := p |}]) ++ groups q (rev [v]) its)
        by (rewrite <- app_assoc; reflexivity).
      exact IH.
Qed.

(* nothing read yet: grammar_section is empty and prev_prob is -1.0 *)
Lemma grun_start : forall lines flag dc,
  agrees (grun lines (flag, dc, (-1)%float, []))
         (match guesser_items ws pfloat encb onfail lines flag with Some its => group_items its | None => None end).
Proof.
  induction lines as [|ln r IH]; intros flag dc.
  - cbn. reflexivity.
  - cbn [grun guesser_items gstep]. destruct flag; [apply IH|].
    destruct (forallb encb ln); cbn [negb].
    2:{ destruct onfail; [apply IH|]. cbn. eauto. }
    destruct (parse_line ws pfloat ln) as [[v q]|]; [|apply IH].
    destruct (PrimFloat.eqb q (-1)) eqn:E.
    + cbn [app_last rev]. destruct (guesser_items ws pfloat encb onfail r false) as [its|]; cbn [option_map group_items].
      * rewrite E. cbn. eauto.
      * cbn. eauto.
    + pose proof (grun_open r false (dc + 1)%Z [] [v] q) as H. cbn [map app] in H.
      change ([] ++ [{| it_values := [v]; it_prob := q |}]) with [{| it_values := [v]; it_prob := q |}].
      destruct (guesser_items ws pfloat encb onfail r false) as [its|]; cbn [option_map group_items] in *; [|exact H].
      rewrite E. exact H.
Qed.

(* THE TIE, guesser reader: for every file (list of lines the iteration yields), every
   whitespace class, float() and codec, the translated _load_from_file called on an
   empty list returns what the model reader returns *)
Theorem load_from_file_eq filename encoding lines :
  copen filename encoding (Some surrogateescape) = Some lines ->
  agrees (py_load [] filename encoding)
         (match guesser_items ws pfloat encb onfail lines false with Some its => group_items its | None => None end).
Proof. intros Ho. rewrite (load_from_file_run _ _ _ Ho). apply grun_start. Qed.

Corollary load_from_file_is_load_guesser (lb : N -> bool) filename encoding text :
  copen filename encoding (Some surrogateescape) = Some (lines_keep lb text) ->
  agrees (py_load [] filename encoding) (load_guesser lb ws pfloat encb onfail text).
Proof. intros Ho. unfold load_guesser. apply load_from_file_eq. exact Ho. Qed.

(* a file that cannot be opened: False, the list untouched *)
Theorem load_from_file_no_file gs filename encoding :
  copen filename encoding (Some surrogateescape) = None -> py_load gs filename encoding = Done (gs, false).
Proof. intros Ho. cbv beta zeta delta [py_load_from_file].
  match goal with |- context [rt_open (copen ?a ?b ?c)] => replace (copen a b c) with (copen filename encoding (Some surrogateescape)) by reflexivity end.
  rewrite Ho. reflexivity. Qed.

(* the translated function never lets an exception escape *)
Theorem load_from_file_total filename encoding :
  exists gs b, py_load [] filename encoding = Done (gs, b).
Proof.
  destruct (copen filename encoding (Some surrogateescape)) as [lines|] eqn:Ho.
  - pose proof (load_from_file_eq _ _ _ Ho) as H. unfold agrees in H.
    destruct (match guesser_items ws pfloat encb onfail lines false with Some its => group_items its | None => None end);
      [eauto|destruct H; eauto].
  - rewrite (load_from_file_no_file _ _ _ Ho). eauto.
Qed.
End GuesserFile.

(* ---------------------------------------------------------------- guesser: _load_base_structures *)

Lemma rt_index_mid {X} (pre : list X) x r : rt_index (pre ++ x :: r) (Z.of_nat (length pre)) = Done x.
Proof.
  assert (H : rt_pos (length (pre ++ x :: r)) (Z.of_nat (length pre)) = Some (length pre)).
  { unfold rt_pos. rewrite app_length. cbn [length].
    assert (H1 : (Z.of_nat (length pre) <? 0)%Z = false) by (apply Z.ltb_ge; lia).
    rewrite H1. cbv zeta. rewrite H1.
    replace (Z.of_nat (length pre + S (length r)) <=? Z.of_nat (length pre))%Z with false by (symmetry; apply Z.leb_gt; lia).
    now rewrite Nat2Z.id. }
  unfold rt_index. rewrite H, nth_error_app2 by lia. now rewrite Nat.sub_diag.
Qed.

Lemma rt_str_index_0 c s : rt_str_index (c :: s) 0 = Done [c].
Proof. unfold rt_str_index. now rewrite rt_index_0. Qed.

Lemma rt_slice_tail {X} (c : X) s : rt_slice (c :: s) (Some 1%Z) None = s.
Proof.
  unfold rt_slice, rt_len, rt_bound. cbv zeta. cbn [length Z.ltb Z.compare].
  replace (Z.min 1 (Z.of_nat (S (length s)))) with 1%Z by lia.
  replace (Z.to_nat (Z.of_nat (S (length s)) - 1)) with (length s) by lia.
  cbn [Z.to_nat Pos.to_nat Pos.iter_op Nat.add skipn]. apply firstn_all.
Qed.

Lemma rt_insert_after {X} (pre : list X) t x r :
  rt_insert (pre ++ t :: r) (Z.of_nat (length pre) + 1) x = pre ++ t :: x :: r.
Proof.
  unfold rt_insert, rt_len, rt_bound. cbv zeta. rewrite app_length. cbn [length].
  replace (Z.of_nat (length pre) + 1 <? 0)%Z with false by (symmetry; apply Z.ltb_ge; lia).
  replace (Z.to_nat (Z.min (Z.of_nat (length pre) + 1) (Z.of_nat (length pre + S (length r))))) with (length (pre ++ [t]))
    by (rewrite app_length; cbn [length]; lia).
  replace (pre ++ t :: r) with ((pre ++ [t]) ++ r) by (rewrite <- app_assoc; reflexivity).
  rewrite firstn_app, firstn_all, Nat.sub_diag, skipn_app, skipn_all, Nat.sub_diag. cbn [firstn skipn].
  rewrite app_nil_r. cbn [app]. now rewrite <- app_assoc.
Qed.

From Pcfg Require Import Expand ExpandCorr Loader.

Lemma is_M_rt s : ExpandCorr.str_eqb s [chM] = TextFile.str_eqb [77%N] s.
Proof.
  unfold ExpandCorr.str_eqb, chM. destruct s as [|c [|d r]]; cbn; try reflexivity.
  - now rewrite N.eqb_sym.
  - now rewrite N.eqb_sym.
Qed.

Lemma has_M_rt toks : has_M toks = rt_in [77%N] toks.
Proof. unfold has_M, rt_in, is_M. induction toks as [|t r IH]; cbn; [reflexivity|]. now rewrite is_M_rt, IH. Qed.

Section BaseStructures.
Context (fo : fops) (ws isalpha : N -> bool) (pfloat : pstr -> option (F fo)).
Context (bopen : pstr -> option (list pstr)) (pjoin : list pstr -> pstr).

Notation P := (F fo).
Notation py_bases := (py_load_base_structures fo ws isalpha pfloat bopen pjoin).
Notation m_load_bases := (load_bases (f_one fo) (f_sub fo) (f_div fo) (f_iszero fo) isalpha).
Notation m_read_bases := (read_bases (f_div fo) (f_iszero fo) isalpha).

Definition base_of (b : P * list str) : rt_base P := {| bs_prob := fst b; bs_repl := snd b |}.
Definition grammar_txt : pstr := [103; 114; 97; 109; 109; 97; 114; 46; 116; 120; 116]%N.

(* TextFile.parse_line for any carrier of the probabilities: rstrip(), split on TAB, float(fields[1]) *)
Definition gparse_line (ln : pstr) : option (str * P) :=
  match split_on TAB (rstrip ws ln) with
  | v :: f :: _ => match pfloat f with Some p => Some (v, p) | None => None end
  | _ => None
  end.

(* every line of the file parses: the model's input is the list of parsed lines *)
Fixpoint parse_all (lines : list pstr) : option (list (str * P)) :=
  match lines with
  | [] => Some []
  | ln :: r => match gparse_line ln, parse_all r with
               | Some it, Some rest => Some (it :: rest)
               | _, _ => None
               end
  end.

(* ---- the character loop: tokenisation of the structure string.  The loop carries the list of
   replacements in some state St (the new_base record, or a plain local list): [put] builds the
   state from the list *)
Lemma chars_loop {R St} (put : list pstr -> St) (body : pstr -> St -> lctl R St) (fail : R) k :
  (forall c l, body [c] (put l) =
     if isalpha c then LCont (put (l ++ [[c]]))
     else match rev l with
          | [] => LRet fail
          | t :: acc => LCont (put (rev acc ++ [t ++ [c]]))
          end) ->
  forall s acc,
  rt_for (rt_chars s) body (put (rev acc)) rt_no_else k =
  match tokenize_aux isalpha s acc with
  | Some toks => k (put toks)
  | None => fail
  end.
Proof.
  intros Hb. induction s as [|c r IH]; intros acc; cbn [rt_chars map rt_for tokenize_aux].
  - reflexivity.
  - rewrite Hb. destruct (isalpha c).
    + change (rev acc ++ [[c]]) with (rev ([c] :: acc)). apply IH.
    + rewrite rev_involutive. destruct acc as [|t acc']; [reflexivity|].
      change (rev acc' ++ [t ++ [c]]) with (rev ((t ++ [c]) :: acc')). apply IH.
Qed.

Lemma rt_index_last {X} (G : list X) x : rt_index (G ++ [x]) (-1) = Done x.
Proof.
  unfold rt_index. rewrite app_length, Nat.add_1_r, rt_pos_last.
  rewrite nth_error_app2 by lia. now rewrite Nat.sub_diag.
Qed.

(* tokens are never empty *)
Lemma tokenize_aux_nonempty : forall s acc toks,
  Forall (fun t => t <> []) acc -> tokenize_aux isalpha s acc = Some toks -> Forall (fun t => t <> []) toks.
Proof.
  induction s as [|c r IH]; intros acc toks Ha H; cbn in H.
  - inversion H; subst. apply Forall_rev. exact Ha.
  - destruct (isalpha c).
    + apply (IH ([c] :: acc) toks); [|exact H]. constructor; [discriminate|exact Ha].
    + destruct acc as [|t acc']; [discriminate|]. inversion Ha as [|? ? Ht Hacc]; subst.
      apply (IH ((t ++ [c]) :: acc') toks); [|exact H]. constructor; [|exact Hacc].
      destruct t; discriminate.
Qed.

(* ---- the while loop: a C<len> behind every A<len> *)
Lemma caps_loop {R} (cond : rt_base P * Z -> bool) (body : rt_base P * Z -> lctl R (rt_base P * Z))
      (k : rt_base P * Z -> R) (nofuel : R) prob :
  (forall b i, cond (b, i) = Z.ltb i (rt_len (bs_repl b))) ->
  (forall (pre : list (list N)) (c : N) (len : list N) (r : list (list N)),
     body ({| bs_prob := prob; bs_repl := pre ++ (c :: len) :: r |}, Z.of_nat (length pre)) =
     LCont ({| bs_prob := prob; bs_repl := if N.eqb c chA then pre ++ (c :: len) :: (chC :: len) :: r else pre ++ (c :: len) :: r |},
            (Z.of_nat (length pre) + 1)%Z)) ->
  forall (rest pre : list (list N)) (fuel' : nat),
  Forall (fun t => t <> []) rest -> (2 * length rest < fuel')%nat ->
  rt_while fuel' cond body
           ({| bs_prob := prob; bs_repl := pre ++ rest |}, Z.of_nat (length pre)) rt_no_else k nofuel =
  k ({| bs_prob := prob; bs_repl := pre ++ insert_caps rest |}, Z.of_nat (length (pre ++ insert_caps rest))).
Proof.
  intros Hc Hb.
  assert (Hlt : forall (pre : list (list N)) t r, (Z.of_nat (length pre) <? rt_len (pre ++ t :: r))%Z = true).
  { intros pre t r. apply Z.ltb_lt. unfold rt_len. rewrite app_length. cbn [length]. lia. }
  assert (Hsnoc : forall (pre : list (list N)) t, (Z.of_nat (length pre) + 1)%Z = Z.of_nat (length (pre ++ [t]))).
  { intros pre t. rewrite app_length. cbn [length]. lia. }
  induction rest as [|t r IH]; intros pre fuel' Hne Hf.
  - destruct fuel' as [|f]; [lia|]. cbn [rt_while insert_caps]. rewrite Hc. cbn [bs_repl]. unfold rt_len.
    rewrite !app_nil_r, Z.ltb_irrefl. reflexivity.
  - inversion Hne as [|? ? Ht Hr]; subst. destruct t as [|c len]; [contradiction|].
    destruct fuel' as [|f]; [cbn in Hf; lia|]. cbn [rt_while]. rewrite Hc. cbn [bs_repl].
    rewrite Hlt, Hb. cbn [insert_caps]. destruct (N.eqb c chA) eqn:Ec.
    + (* the inserted C<len> is looked at next: it does not start with A *)
      destruct f as [|f]; [cbn in Hf; lia|]. cbn [rt_while]. rewrite Hc. cbn [bs_repl].
      replace (Z.of_nat (length pre) + 1)%Z with (Z.of_nat (length (pre ++ [c :: len]))) by (symmetry; apply Hsnoc).
      replace (pre ++ (c :: len) :: (chC :: len) :: r) with ((pre ++ [c :: len]) ++ (chC :: len) :: r) by (rewrite <- app_assoc; reflexivity).
      rewrite Hlt, Hb. change (N.eqb chC chA) with false. cbv iota.
      replace (Z.of_nat (length (pre ++ [c :: len])) + 1)%Z with (Z.of_nat (length ((pre ++ [c :: len]) ++ [chC :: len]))) by (symmetry; apply Hsnoc).
      replace ((pre ++ [c :: len]) ++ (chC :: len) :: r) with (((pre ++ [c :: len]) ++ [chC :: len]) ++ r)
        by (rewrite <- (app_assoc (pre ++ [c :: len])); reflexivity).
      rewrite (IH _ f Hr) by (cbn [length] in Hf; lia).
      repeat rewrite <- app_assoc. reflexivity.
    + replace (Z.of_nat (length pre) + 1)%Z with (Z.of_nat (length (pre ++ [c :: len]))) by (symmetry; apply Hsnoc).
      replace (pre ++ (c :: len) :: r) with ((pre ++ [c :: len]) ++ r) by (rewrite <- app_assoc; reflexivity).
      rewrite (IH _ f Hr) by (cbn [length] in Hf; lia).
      repeat rewrite <- app_assoc. reflexivity.
Qed.


(* ... the same written as a for loop that builds the new list *)
Lemma caps_for {R} (body : pstr -> list pstr -> lctl R (list pstr)) (k : list pstr -> R) :
  (forall (c : N) (len : list N) (m : list (list N)),
     body (c :: len) m = LCont (if N.eqb c chA then m ++ [c :: len; chC :: len] else m ++ [c :: len])) ->
  forall (toks m : list (list N)), Forall (fun t => t <> []) toks ->
  rt_for toks body m rt_no_else k = k (m ++ insert_caps toks).
Proof.
  intros Hb. induction toks as [|t r IH]; intros m Hne; cbn [rt_for insert_caps].
  - now rewrite app_nil_r.
  - inversion Hne as [|? ? Ht Hr]; subst. destruct t as [|c len]; [contradiction|].
    rewrite Hb. destruct (N.eqb c chA); rewrite (IH _ Hr), <- app_assoc; reflexivity.
Qed.

Lemma is_M_rt2 s : is_M s = TextFile.str_eqb s [77%N].
Proof. unfold is_M, ExpandCorr.str_eqb, chM. destruct s as [|c [|d r]]; reflexivity. Qed.

(* ---- first pass (skip_brute): the probability of the first line whose structure is "M" *)
Notation R0 := (outcome (list (rt_base P) * bool)).

(* what one line of the first pass does to total_prob ([bs0]: base_structures, not touched yet;
   [sk]: does the code call file.seek(0) before it breaks out of the loop) *)
Definition scan_step (sk : bool) (bs0 : list (rt_base P)) (ln : pstr) (t : P) : fctl R0 P :=
  match split_on TAB (rstrip ws ln) with
  | [] => FRet (Done (bs0, false))
  | v :: rest =>
      if is_M v then
        match rest with
        | [] => FRet (Done (bs0, false))
        | f :: _ => match pfloat f with
                    | None => FRet (Done (bs0, false))
                    | Some p => FBrk sk (f_sub fo t p)
                    end
        end
      else FCont t
  end.

(* the first pass: it fails (inl) or leaves a total_prob (inr) *)
Fixpoint scan_run (bs0 : list (rt_base P)) (rest : list pstr) (t : P) : R0 + P :=
  match rest with
  | [] => inr t
  | ln :: r => match scan_step true bs0 ln t with
               | FCont t' => scan_run bs0 r t'
               | FBrk _ t' => inr t'
               | FRet v => inl v
               end
  end.

(* the loop of the first pass; [K'] is what runs after it on the REWOUND file: the file is rewound
   by the loop body before `break` and by the `else:` block (sk = true), or by the code behind the
   loop (sk = false) *)
Lemma scan_loop (all : list pstr) (sk : bool) bs0 (body : pstr -> P -> fctl R0 P)
      (orelse : rt_file -> P -> (rt_file -> P -> R0) -> R0) (k : rt_file -> P -> R0) (K' : P -> R0) :
  (forall ln t, body ln t = scan_step sk bs0 ln t) ->
  (forall t, orelse {| f_all := all; f_rest := [] |} t k = K' t) ->
  (forall r t, k (if sk then rt_fopen all else {| f_all := all; f_rest := r |}) t = K' t) ->
  forall rest t,
  rt_for_lines all rest body t orelse k =
  match scan_run bs0 rest t with inl v => v | inr t' => K' t' end.
Proof.
  intros Hb He Hk. induction rest as [|ln r IH]; intros t; cbn [rt_for_lines scan_run].
  - apply He.
  - rewrite Hb. unfold scan_step. destruct (split_on TAB (rstrip ws ln)) as [|v rest]; [reflexivity|].
    destruct (is_M v); [|apply IH]. destruct rest as [|f rest']; [reflexivity|].
    destruct (pfloat f); [apply Hk|reflexivity].
Qed.

Lemma scan_run_parsed bs0 : forall rest ls t, parse_all rest = Some ls ->
  scan_run bs0 rest t = inr (match scan_M ls with Some pm => f_sub fo t pm | None => t end).
Proof.
  induction rest as [|ln r IH]; intros ls t Hp; cbn [parse_all] in Hp.
  - inversion Hp; subst. reflexivity.
  - unfold gparse_line in Hp. cbn [scan_run]. unfold scan_step.
    destruct (split_on TAB (rstrip ws ln)) as [|v [|f rest]]; try discriminate.
    destruct (pfloat f) as [p|]; [|discriminate].
    destruct (parse_all r) as [ls'|]; [|discriminate]. inversion Hp; subst. cbn [scan_M].
    destruct (is_M v); [reflexivity|]. now apply IH.
Qed.

Lemma scan_run_cases bs0 : forall rest t, scan_run bs0 rest t = inl (Done (bs0, false)) \/ exists t', scan_run bs0 rest t = inr t'.
Proof.
  induction rest as [|ln r IH]; intros t; cbn [scan_run]; [right; eauto|]. unfold scan_step.
  destruct (split_on TAB (rstrip ws ln)) as [|v rest]; [now left|].
  destruct (is_M v); [|apply IH]. destruct rest as [|f rest']; [now left|]. destruct (pfloat f); [right; eauto|now left].
Qed.

(* ---- second pass: tokenise, divide, keep *)
Definition bases_done (r : outcome (list (rt_base P) * bool)) (m : option (list (P * list str))) : Prop :=
  match m with
  | Some l => r = Done (map base_of l, true)
  | None => exists bs, r = Done (bs, false)
  end.

(* what one line of the second pass does to base_structures *)
Definition read_step (skip : bool) (total : P) (ln : pstr) (bs : list (rt_base P)) : fctl R0 (list (rt_base P)) :=
  match gparse_line ln with
  | None => FRet (Done (bs, false))
  | Some (v, p) =>
      if f_iszero fo total then FRet (Done (bs, false))
      else match tokenize isalpha v with
           | None => FRet (Done (bs, false))
           | Some toks => if negb skip || negb (has_M toks)
                          then FCont (bs ++ [base_of (f_div fo p total, toks)]) else FCont bs
           end
  end.

Fixpoint read_run (skip : bool) (total : P) (rest : list pstr) (bs : list (rt_base P)) : R0 + list (rt_base P) :=
  match rest with
  | [] => inr bs
  | ln :: r => match read_step skip total ln bs with
               | FCont bs' => read_run skip total r bs'
               | FBrk _ bs' => inr bs'
               | FRet v => inl v
               end
  end.

Lemma read_loop (all : list pstr) (skip : bool) (total : P)
      (body : pstr -> list (rt_base P) -> fctl R0 (list (rt_base P))) (k : rt_file -> list (rt_base P) -> R0) :
  (forall ln bs, body ln bs = read_step skip total ln bs) ->
  forall rest bs,
  rt_for_lines all rest body bs rt_no_else_file k =
  match read_run skip total rest bs with inl v => v | inr bs' => k {| f_all := all; f_rest := [] |} bs' end.
Proof.
  intros Hb. induction rest as [|ln r IH]; intros bs; cbn [rt_for_lines read_run]; [reflexivity|].
  rewrite Hb. unfold read_step. destruct (gparse_line ln) as [[v p]|]; [|reflexivity].
  destruct (f_iszero fo total); [reflexivity|]. destruct (tokenize isalpha v) as [toks|]; [|reflexivity].
  destruct (negb skip || negb (has_M toks)); apply IH.
Qed.

Lemma read_run_parsed skip total : forall rest ls bs, parse_all rest = Some ls ->
  match m_read_bases skip total ls with
  | Some l => read_run skip total rest bs = inr (bs ++ map base_of l)
  | None => exists bs', read_run skip total rest bs = inl (Done (bs', false))
  end.
Proof.
  induction rest as [|ln r IH]; intros ls bs Hp; cbn [parse_all] in Hp.
  - inversion Hp; subst. cbn. now rewrite app_nil_r.
  - destruct (gparse_line ln) as [[v p]|] eqn:E; [|discriminate].
    destruct (parse_all r) as [ls'|] eqn:Er; [|discriminate]. inversion Hp; subst.
    cbn [read_run read_bases]. unfold read_step. rewrite E.
    destruct (f_iszero fo total); [eauto|].
    destruct (tokenize isalpha v) as [toks|]; [|eauto].
    destruct (negb skip || negb (has_M toks)).
    + specialize (IH ls' (bs ++ [base_of (f_div fo p total, toks)]) eq_refl).
      destruct (m_read_bases skip total ls') as [l|]; [|exact IH].
      rewrite IH. cbn [map]. now rewrite <- app_assoc.
    + specialize (IH ls' bs eq_refl). destruct (m_read_bases skip total ls') as [l|]; exact IH.
Qed.

Lemma read_run_unparsable skip total : forall rest bs, parse_all rest = None ->
  exists bs', read_run skip total rest bs = inl (Done (bs', false)).
Proof.
  induction rest as [|ln r IH]; intros bs Hp; cbn [parse_all] in Hp; [discriminate|].
  cbn [read_run]. unfold read_step. destruct (gparse_line ln) as [[v p]|]; [|eauto].
  destruct (f_iszero fo total); [eauto|]. destruct (tokenize isalpha v) as [toks|]; [|eauto].
  assert (Hr : parse_all r = None) by (destruct (parse_all r); [discriminate|reflexivity]).
  destruct (negb skip || negb (has_M toks)); now apply IH.
Qed.

(* the tokens the second pass stores are never empty *)
Lemma read_bases_nonempty skip total : forall ls l,
  m_read_bases skip total ls = Some l -> Forall (fun b => Forall (fun t => t <> []) (snd b)) l.
Proof.
  induction ls as [|[v p] r IH]; intros l H; cbn in H.
  - inversion H. constructor.
  - destruct (f_iszero fo total); [discriminate|].
    destruct (tokenize isalpha v) as [toks|] eqn:Et; [|discriminate].
    destruct (m_read_bases skip total r) as [rest|]; [|discriminate].
    assert (Hn : Forall (fun t => t <> []) toks) by (apply (tokenize_aux_nonempty v [] toks); [constructor|exact Et]).
    destruct (negb skip || negb (has_M toks)); inversion H; subst; [constructor; [exact Hn|]|]; now apply IH.
Qed.

Lemma read_bases_tokens skip total : forall ls l,
  m_read_bases skip total ls = Some l ->
  forall b, In b l -> exists v p, In (v, p) ls /\ tokenize isalpha v = Some (snd b).
Proof.
  induction ls as [|[v p] r IH]; intros l H b Hin; cbn in H.
  - inversion H; subst. contradiction.
  - destruct (f_iszero fo total); [discriminate|].
    destruct (tokenize isalpha v) as [toks|] eqn:Et; [|discriminate].
    destruct (m_read_bases skip total r) as [rest|]; [|discriminate].
    assert (Hr : forall b, In b rest -> exists v0 p0, In (v0, p0) ((v, p) :: r) /\ tokenize isalpha v0 = Some (snd b)).
    { intros b0 Hb0. destruct (IH rest eq_refl b0 Hb0) as (v0 & p0 & Hi & Ht). exists v0, p0. split; [now right|exact Ht]. }
    destruct (negb skip || negb (has_M toks)); inversion H; subst; [|now apply Hr].
    destruct Hin as [<-|Hin]; [|now apply Hr]. exists v, p. split; [now left|exact Et].
Qed.

Lemma tokenize_aux_length : forall s acc toks,
  tokenize_aux isalpha s acc = Some toks -> (length toks <= length acc + length s)%nat.
Proof.
  induction s as [|c r IH]; intros acc toks H; cbn in H.
  - inversion H; subst. rewrite rev_length. lia.
  - destruct (isalpha c).
    + apply IH in H. cbn [length] in *. lia.
    + destruct acc as [|t acc']; [discriminate|]. apply IH in H. cbn [length] in *. lia.
Qed.

(* ---- case mangling: the loop over the stored structures *)
Definition caps_of (b : rt_base P) : rt_base P := {| bs_prob := bs_prob b; bs_repl := insert_caps (bs_repl b) |}.

Lemma mut_loop {R} (body : rt_base P -> unit -> lctl R (rt_base P * unit)) (k : list (rt_base P) -> unit -> R) :
  forall l done, (forall b, In b l -> body b tt = LCont (caps_of b, tt)) ->
  rt_for_mut done l body tt k = k (done ++ map caps_of l) tt.
Proof.
  induction l as [|b r IH]; intros done Hb; cbn [rt_for_mut map].
  - now rewrite app_nil_r.
  - rewrite (Hb b (or_introl eq_refl)). rewrite IH by (intros b0 Hi; apply Hb; now right).
    now rewrite <- app_assoc.
Qed.

Definition total_of (skip : bool) (ls : list (str * P)) : P :=
  if skip then match scan_M ls with Some pm => f_sub fo (f_one fo) pm | None => f_one fo end else f_one fo.

Lemma load_bases_rewinding skip ls :
  m_load_bases true skip ls =
  option_map (map (fun b => (fst b, insert_caps (snd b)))) (m_read_bases skip (total_of skip ls) ls).
Proof. unfold load_bases, total_of. destruct skip; [destruct (scan_M ls)|]; reflexivity. Qed.

(* the translated function, pass by pass: the two passes are [scan_run] / [read_run] (the loop bodies
   compared with scan_step / read_step test by test), the case-mangling loop is the continuation K3,
   which on a list of non-empty tokens and with enough fuel inserts the C<n> *)
Lemma load_base_structures_run fuel dir folder skip lines :
  bopen (pjoin [dir; folder; grammar_txt]) = Some lines ->
  exists K3 : list (rt_base P) -> R0,
    py_bases fuel [] dir skip folder =
      match (if skip then scan_run [] lines (f_one fo) else inr (f_one fo)) with
      | inl v => v
      | inr total => match read_run skip total lines [] with
                     | inl v => v
                     | inr bs => K3 bs
                     end
      end /\
    forall l : list (P * list str),
      (forall p toks, In (p, toks) l -> Forall (fun t => t <> []) toks /\ (2 * length toks < fuel)%nat) ->
      K3 (map base_of l) = Done (map base_of (map (fun b => (fst b, insert_caps (snd b))) l), true).
Proof.
  intros Ho. cbv beta zeta delta [py_load_base_structures].
  match goal with |- context [rt_open (bopen ?x)] => replace (bopen x) with (Some lines) by (symmetry; exact Ho) end.
  cbn [rt_open rt_bind].
  match goal with |- context [rt_join ?f ?K] => set (K2 := K); change (rt_join f K2) with (f K2) end. cbv beta.
  (* first pass: the loop body against scan_step, for either way of rewinding the file *)
  match goal with |- exists K3, ?lhs = _ /\ _ =>
    assert (H1 : lhs = match (if skip then scan_run [] lines (f_one fo) else inr (f_one fo)) with
                       | inl v => v | inr total => K2 (rt_fopen lines, total) end) end.
  { destruct skip; [|reflexivity]. unfold rt_for_file, rt_fopen. cbn [f_all f_rest].
    match goal with |- rt_for_lines _ _ ?b _ ?e ?k = _ =>
      first [ rewrite (scan_loop lines true [] b e k (fun t => K2 (rt_fopen lines, t)));
              [ reflexivity
              | (intros ln t; unfold scan_step; change TAB with 9%N;
              destruct (split_on 9 (rstrip ws ln)) as [|v rest];
              [ rewrite rt_index_nil; reflexivity
              | rewrite rt_index_0; cbn [rt_bind]; rewrite is_M_rt2; destruct (TextFile.str_eqb v [77%N]); [|reflexivity];
                destruct rest as [|f rest'];
                [ rewrite rt_index_1_short; reflexivity
                | rewrite rt_index_1; cbn [rt_bind]; unfold rt_float; destruct (pfloat f); reflexivity ] ])
              | intros; reflexivity | intros; reflexivity ]
            | rewrite (scan_loop lines false [] b e k (fun t => K2 (rt_fopen lines, t)));
              [ reflexivity
              | (intros ln t; unfold scan_step; change TAB with 9%N;
              destruct (split_on 9 (rstrip ws ln)) as [|v rest];
              [ rewrite rt_index_nil; reflexivity
              | rewrite rt_index_0; cbn [rt_bind]; rewrite is_M_rt2; destruct (TextFile.str_eqb v [77%N]); [|reflexivity];
                destruct rest as [|f rest'];
                [ rewrite rt_index_1_short; reflexivity
                | rewrite rt_index_1; cbn [rt_bind]; unfold rt_float; destruct (pfloat f); reflexivity ] ])
              | intros; reflexivity | intros; reflexivity ] ] end. }
  rewrite H1. clear H1.
  (* second pass, for whatever total the first pass left *)
  assert (H2 : exists K3 : list (rt_base P) -> R0,
            (forall total, K2 (rt_fopen lines, total) =
                           match read_run skip total lines [] with inl v => v | inr bs => K3 bs end) /\
            forall l : list (P * list str),
              (forall p toks, In (p, toks) l -> Forall (fun t => t <> []) toks /\ (2 * length toks < fuel)%nat) ->
              K3 (map base_of l) = Done (map base_of (map (fun b => (fst b, insert_caps (snd b))) l), true)).
  { subst K2. cbv beta iota. unfold rt_for_file, rt_fopen. cbn [f_all f_rest].
    match goal with |- exists K3, (forall total, rt_for_lines _ _ _ _ _ ?k = _) /\ _ =>
      exists (k {| f_all := lines; f_rest := [] |}) end.
    split.
    - intros total.
      match goal with |- rt_for_lines _ _ ?b _ _ ?k = _ => rewrite (read_loop lines skip total b k) end; [reflexivity|].
      intros ln bs. unfold read_step, gparse_line. change TAB with 9%N.
      destruct (split_on 9 (rstrip ws ln)) as [|v [|f r]].
      + rewrite rt_index_nil. reflexivity.
      + rewrite rt_index_0. cbn [rt_bind]. rewrite rt_index_1_short. reflexivity.
      + rewrite rt_index_0. cbn [rt_bind]. rewrite rt_index_1. cbn [rt_bind]. unfold rt_float.
        destruct (pfloat f) as [p|]; cbn [rt_opt rt_bind]; [|reflexivity].
        unfold rt_fdiv. destruct (f_iszero fo total); [reflexivity|]. cbn [rt_bind].
        unfold tokenize.
        (* the character loop: the replacements live in the new_base record or in a local list *)
        match goal with |- rt_for _ ?cb _ _ ?ck = _ =>
          first [ pose proof (chars_loop (fun l : list pstr => {| bs_prob := f_div fo p total; bs_repl := l |}) cb (FRet (Done (bs, false))) ck) as Hcl
                | pose proof (chars_loop (fun l : list pstr => l) cb (FRet (Done (bs, false))) ck) as Hcl ] end.
        match type of Hcl with ?A -> _ => assert (Hcb : A) end.
        { intros c l. cbv beta. unfold rt_isalpha. cbn [forallb]. rewrite andb_true_r.
          destruct (isalpha c); cbn [negb].
          - unfold upd_repl. cbn. reflexivity.
          - destruct (list_last_cases l) as [E0|(G & x & E0)]; rewrite E0; unfold upd_repl; cbn [bs_repl bs_prob].
            + repeat (first [rewrite rt_index_nil | rewrite upd_index_nil]; cbn [rt_bind]). reflexivity.
            + repeat (first [rewrite rt_index_last | rewrite upd_index_last]; cbn [rt_bind]).
              rewrite rev_app_distr. cbn. rewrite ?rev_involutive. reflexivity. }
        specialize (Hcl Hcb v []). cbv beta in Hcl. cbn [rev] in Hcl. rewrite Hcl.
        match goal with |- match ?a with _ => _ end = match ?b with _ => _ end => change b with a; destruct a as [toks|] end; [|reflexivity].
        cbv beta zeta. cbn [bs_repl]. rewrite has_M_rt. destruct skip; destruct (rt_in [77%N] toks); reflexivity.
    - (* case mangling: a while loop that inserts into the list, or a for loop that builds a new one *)
      intros l Hl. cbv beta.
      rewrite mut_loop with (l := map base_of l).
      + cbn [app]. rewrite !map_map. reflexivity.
      + intros b Hin. apply in_map_iff in Hin. destruct Hin as ([p toks] & <- & Hin).
        destruct (Hl p toks Hin) as [Hne Hlen].
        unfold base_of, caps_of. cbn [fst snd bs_prob bs_repl].
        first
        [ match goal with |- rt_while _ ?c ?wb _ _ ?wk ?nf = _ =>
            rewrite (caps_loop c wb wk nf p) with (pre := @nil (list N)) (rest := toks) end; try assumption;
          [ reflexivity
          | intros b i; reflexivity
          | intros pre c len r; cbn [bs_repl bs_prob]; unfold pstr, Expand.str, TextFile.str in *;
            rewrite (rt_index_mid pre (c :: len) r); cbn [rt_bind];
            rewrite (rt_str_index_0 c len); cbn [rt_bind]; unfold rt_join; cbn [TextFile.str_eqb]; rewrite andb_true_r;
            change chA with 65%N; destruct (N.eqb c 65); [|reflexivity];
            cbn [rt_bind]; rewrite ?(rt_index_mid pre (c :: len) r); cbn [rt_bind];
            rewrite (rt_slice_tail c len); unfold upd_repl; cbn [bs_repl bs_prob rt_bind app];
            rewrite (rt_insert_after pre (c :: len) (67%N :: len) r); reflexivity ]
        | unfold pstr, Expand.str, TextFile.str in *;
          match goal with |- rt_for _ ?cb _ _ ?ck = _ =>
            rewrite (caps_for cb ck) end;
          [ unfold upd_repl; cbn; reflexivity
          | intros c len m; cbn [rt_bind]; rewrite (rt_str_index_0 c len); cbn [rt_bind TextFile.str_eqb]; rewrite andb_true_r;
            change chA with 65%N; destruct (N.eqb c 65); [|reflexivity];
            rewrite (rt_slice_tail c len); unfold rt_append; cbn [rt_bind app]; rewrite <- app_assoc; reflexivity
          | exact Hne ] ]. }
  destruct H2 as (K3 & HK & Hcaps). exists K3. split; [|exact Hcaps].
  destruct (if skip then scan_run [] lines (f_one fo) else inr (f_one fo)) as [v|total]; [reflexivity|apply HK].
Qed.

(* THE TIE, base structures: for every grammar.txt all of whose lines parse (structure TAB
   probability), both values of skip_brute and any fuel above twice the longest structure
   string, the translated _load_base_structures called on an empty list returns what the
   model loader (with the rewind) returns on the parsed lines *)
Theorem load_base_structures_eq fuel dir folder skip lines ls :
  bopen (pjoin [dir; folder; grammar_txt]) = Some lines ->
  parse_all lines = Some ls ->
  Forall (fun l => (2 * length (fst l) < fuel)%nat) ls ->
  bases_done (py_bases fuel [] dir skip folder) (m_load_bases true skip ls).
Proof.
  intros Ho Hp Hf. destruct (load_base_structures_run fuel dir folder skip lines Ho) as (K3 & -> & Hcaps).
  rewrite load_bases_rewinding.
  assert (Ht : (if skip then scan_run [] lines (f_one fo) else inr (f_one fo)) = inr (total_of skip ls)).
  { unfold total_of. destruct skip; [|reflexivity]. now rewrite (scan_run_parsed [] lines ls _ Hp). }
  rewrite Ht. set (total := total_of skip ls).
  pose proof (read_run_parsed skip total lines ls [] Hp) as H2.
  destruct (m_read_bases skip total ls) as [l|] eqn:Er.
  - rewrite H2. cbn [app option_map bases_done]. apply Hcaps.
    intros p toks Hin. split.
    + pose proof (read_bases_nonempty skip total ls l Er) as Hall. rewrite Forall_forall in Hall. exact (Hall _ Hin).
    + destruct (read_bases_tokens skip total ls l Er _ Hin) as (v & p0 & Hi & Htk).
      rewrite Forall_forall in Hf. specialize (Hf _ Hi). cbn [fst snd] in *.
      apply tokenize_aux_length in Htk. cbn [length] in Htk. lia.
  - destruct H2 as [bs' H2]. rewrite H2. cbn. eauto.
Qed.

(* ... and a grammar.txt with a line that does not parse (fewer than two fields, or a second field
   float() rejects) makes it return False, whatever skip_brute and the fuel are *)
Theorem load_base_structures_unparsable fuel dir folder skip lines :
  bopen (pjoin [dir; folder; grammar_txt]) = Some lines ->
  parse_all lines = None ->
  exists bs, py_bases fuel [] dir skip folder = Done (bs, false).
Proof.
  intros Ho Hp. destruct (load_base_structures_run fuel dir folder skip lines Ho) as (K3 & -> & _).
  assert (Ht : (if skip then scan_run [] lines (f_one fo) else inr (f_one fo)) = inl (Done ([], false)) \/
               exists t, (if skip then scan_run [] lines (f_one fo) else inr (f_one fo)) = inr t).
  { destruct skip; [apply scan_run_cases|right; eauto]. }
  destruct Ht as [->|[t ->]]; [eauto|].
  destruct (read_run_unparsable skip t lines [] Hp) as [bs' ->]. eauto.
Qed.

(* the fuel of the generated `while` (no counterpart in Python) is never the reason of the result *)
Theorem load_base_structures_never_out_of_fuel fuel dir folder skip lines ls :
  bopen (pjoin [dir; folder; grammar_txt]) = Some lines ->
  parse_all lines = Some ls ->
  Forall (fun l => (2 * length (fst l) < fuel)%nat) ls ->
  py_bases fuel [] dir skip folder <> Fail EOutOfFuel.
Proof.
  intros Ho Hp Hf H. pose proof (load_base_structures_eq fuel dir folder skip lines ls Ho Hp Hf) as He.
  rewrite H in He. unfold bases_done in He. destruct (m_load_bases true skip ls); [discriminate|].
  destruct He; discriminate.
Qed.

(* a grammar.txt that cannot be opened: False, the list untouched *)
Theorem load_base_structures_no_file fuel bs dir folder skip :
  bopen (pjoin [dir; folder; grammar_txt]) = None -> py_bases fuel bs dir skip folder = Done (bs, false).
Proof.
  intros Ho. cbv beta zeta delta [py_load_base_structures].
  match goal with |- context [rt_open (bopen ?x)] => replace (bopen x) with (@None (list pstr)) by (symmetry; exact Ho) end.
  reflexivity.
Qed.

End BaseStructures.

(* ---------------------------------------------------------------- scorer: _load_from_file *)

Lemma rt_dset_dict_set {V} : forall (d : list (TextFile.str * V)) k v, rt_dset TextFile.str_eqb k v d = dict_set k v d.
Proof. induction d as [|[k' v'] r IH]; intros k v; cbn; [reflexivity|]. now rewrite IH. Qed.

Section ScorerFile.
Context (ws : N -> bool) (pfloat : pstr -> option float) (encb : N -> bool) (reason : pstr).
Context (copen : pstr -> pstr -> option pstr -> option (list pstr)).

Notation onfail := (onfail_of_reason reason).
Notation py_sload := (py_scorer_load_from_file F64ops ws pfloat (enc_of encb reason) copen).

(* what one line does to the counter *)
Definition sstep (ln : pstr) (d : list (TextFile.str * float))
  : fctl (outcome (list (TextFile.str * float) * bool)) (list (TextFile.str * float)) :=
  if negb (forallb encb ln) then
    match onfail with
    | EncAbort => FRet (Done (d, false))
    | EncSkip => FCont d
    end
  else match parse_line ws pfloat ln with
       | Some (v, p) => FCont (dict_set v p d)
       | None => FRet (Done (d, false))
       end.

(* THE TIE, scorer reader: for every file, the translated _load_from_file of the scorer returns
   exactly what the model reader returns: the counter as filled so far and True / False *)
Theorem scorer_load_from_file_eq d filename encoding lines :
  copen filename encoding (Some surrogateescape) = Some lines ->
  py_sload d filename encoding =
  Done (snd (scorer_items ws pfloat encb onfail lines d), fst (scorer_items ws pfloat encb onfail lines d)).
Proof.
  intros Ho. cbv beta zeta delta [py_scorer_load_from_file].
  match goal with |- context [rt_open (copen ?a ?b ?c)] => replace (copen a b c) with (copen filename encoding (Some surrogateescape)) by reflexivity end.
  rewrite Ho.
  cbn [rt_open rt_bind]. unfold rt_for_file, rt_fopen. cbn [f_all f_rest].
  match goal with |- rt_for_lines _ _ ?b _ _ _ = _ => set (body := b) end.
  assert (Hbody : forall ln d0, body ln d0 = sstep ln d0).
  { intros ln d0. unfold body, sstep, rt_encode, enc_of. destruct (forallb encb ln); cbn [negb rt_bind].
    2:{ unfold rt_join, onfail_of_reason, rt_reason, surrogates_not_allowed. destruct (TextFile.str_eqb reason _); reflexivity. }
    unfold parse_line. change TAB with 9%N.
    destruct (split_on 9 (rstrip ws ln)) as [|v [|f r]].
    - rewrite rt_index_nil. reflexivity.
    - rewrite rt_index_1_short. reflexivity.
    - rewrite rt_index_1. cbn [rt_bind]. unfold rt_float. destruct (pfloat f) as [p|]; cbn [rt_opt rt_bind]; [|reflexivity].
      rewrite rt_index_0. cbn [rt_bind]. now rewrite rt_dset_dict_set. }
  clearbody body.
  match goal with |- rt_for_lines _ _ _ _ _ ?k0 = _ => set (K := k0) end.
  assert (Hrun : forall rest all d0, rt_for_lines all rest body d0 rt_no_else_file K =
            Done (snd (scorer_items ws pfloat encb onfail rest d0), fst (scorer_items ws pfloat encb onfail rest d0))).
  { induction rest as [|ln r IH]; intros all d0; cbn [rt_for_lines scorer_items]; [reflexivity|].
    rewrite Hbody. unfold sstep. destruct (forallb encb ln); cbn [negb].
    - destruct (parse_line ws pfloat ln) as [[v p]|]; [apply IH|reflexivity].
    - destruct onfail; [apply IH|reflexivity]. }
  apply Hrun.
Qed.

Corollary scorer_load_from_file_is_load_scorer (lb : N -> bool) filename encoding text :
  copen filename encoding (Some surrogateescape) = Some (lines_keep lb text) ->
  py_sload [] filename encoding =
  Done (snd (load_scorer lb ws pfloat encb onfail text), fst (load_scorer lb ws pfloat encb onfail text)).
Proof. intros Ho. unfold load_scorer. now apply scorer_load_from_file_eq. Qed.

Theorem scorer_load_from_file_no_file d filename encoding :
  copen filename encoding (Some surrogateescape) = None -> py_sload d filename encoding = Done (d, false).
Proof. intros Ho. cbv beta zeta delta [py_scorer_load_from_file].
  match goal with |- context [rt_open (copen ?a ?b ?c)] => replace (copen a b c) with (copen filename encoding (Some surrogateescape)) by reflexivity end.
  rewrite Ho. reflexivity. Qed.
End ScorerFile.

(* ---------------------------------------------------------------- guesser: load_omen_keyspace *)

Section OmenKeyspaceFile.
Context (ws : N -> bool) (pint : pstr -> option Z).
Context (sopen : pstr -> pstr -> option pstr -> option (list pstr)) (pjoin : list pstr -> pstr).

(* the reader spelled out: rstrip, split on TAB, int() of the first two fields, the dict filled in
   file order; nothing is caught (IndexError of a missing field, ValueError of int()) *)
Fixpoint keyspace_items (lines : list pstr) (d : list (Z * Z)) : outcome (list (Z * Z)) :=
  match lines with
  | [] => Done d
  | ln :: r =>
      match split_on TAB (rstrip ws ln) with
      | a :: rest =>
          match pint a with
          | None => Fail EValue
          | Some lvl =>
              match rest with
              | b :: _ => match pint b with
                          | None => Fail EValue
                          | Some ks => keyspace_items r (rt_dset Z.eqb lvl ks d)
                          end
              | [] => Fail EIndex
              end
          end
      | [] => Fail EIndex
      end
  end.

Definition omen_dir : pstr := [79; 109; 101; 110]%N.
Definition omen_keyspace_txt : pstr := [111; 109; 101; 110; 95; 107; 101; 121; 115; 112; 97; 99; 101; 46; 116; 120; 116]%N.

Theorem load_omen_keyspace_eq dir encoding :
  py_load_omen_keyspace ws pint sopen pjoin dir encoding =
  match sopen (pjoin [dir; omen_dir; omen_keyspace_txt]) encoding None with
  | Some lines => keyspace_items lines []
  | None => Fail EIO
  end.
Proof.
  cbv beta zeta delta [py_load_omen_keyspace].
  match goal with |- context [rt_open (sopen ?x encoding None)] => change x with (pjoin [dir; omen_dir; omen_keyspace_txt]) end.
  destruct (sopen (pjoin [dir; omen_dir; omen_keyspace_txt]) encoding None) as [lines|]; [|reflexivity].
  cbn [rt_open rt_bind]. unfold rt_for_file, rt_fopen. cbn [f_all f_rest].
  match goal with |- rt_for_lines _ _ ?b _ _ ?k0 = _ => set (body := b); set (K := k0) end.
  generalize (@nil (Z * Z)) as d. generalize lines at 1 as all.
  induction lines as [|ln r IH]; intros all d; cbn [rt_for_lines keyspace_items]; [reflexivity|].
  unfold body at 1. change TAB with 9%N.
  destruct (split_on 9 (rstrip ws ln)) as [|a [|b rest]].
  - rewrite rt_index_nil. reflexivity.
  - rewrite rt_index_0. cbn [rt_bind]. unfold rt_int. destruct (pint a); cbn [rt_opt rt_bind]; [|reflexivity].
    rewrite rt_index_1_short. reflexivity.
  - rewrite rt_index_0. cbn [rt_bind]. unfold rt_int. destruct (pint a) as [lvl|]; cbn [rt_opt rt_bind]; [|reflexivity].
    rewrite rt_index_1. cbn [rt_bind]. destruct (pint b) as [ks|]; cbn [rt_opt rt_bind]; [|reflexivity].
    apply IH.
Qed.
End OmenKeyspaceFile.

(* ---------------------------------------------------------------- C07 / C04 over the translated guesser reader *)

(* C07_roundtrip_guesser for the translated _load_from_file: what it builds from a file the
   trainer wrote is the written list grouped by consecutive equal probability, and True *)
Theorem roundtrip_guesser_translated :
  forall (repr : float -> str) (pfloat : str -> option float) (encb : N -> bool) (reason : pstr)
         (copen : pstr -> pstr -> option pstr -> option (list pstr)) (filename encoding : pstr) (l : list (str * float)),
    Forall (fun it => safe (fst it) = true /\ float_ok repr pfloat (snd it)) l ->
    Forall (fun it => forallb encb (write_line repr it) = true) l ->
    Forall (fun it => okbF (snd it) = true) l ->
    copen filename encoding (Some surrogateescape) = Some (lines_keep LB (write_file repr l)) ->
    py_load_from_file F64ops WS pfloat (enc_of encb reason) copen [] filename encoding
      = Done (map item_of (group_by_prob l), true)
    /\ flat_map (@it_values float) (map item_of (group_by_prob l)) = map fst l.
Proof.
  intros repr pfloat encb reason copen filename encoding l H He Hok Ho.
  destruct (roundtrip_guesser_inst repr pfloat encb (onfail_of_reason reason) l H He Hok) as [H1 H2].
  pose proof (load_from_file_is_load_guesser WS pfloat encb reason copen LB filename encoding _ Ho) as Ha.
  rewrite H1 in Ha. split; [exact Ha|].
  etransitivity; [|exact H2]. clear. induction (group_by_prob l) as [|g r IH]; [reflexivity|]. cbn. now rewrite IH.
Qed.

(* C07_roundtrip_scorer for the translated reader of the scorer *)
Theorem roundtrip_scorer_translated :
  forall (repr : float -> str) (pfloat : str -> option float) (encb : N -> bool) (reason : pstr)
         (copen : pstr -> pstr -> option pstr -> option (list pstr)) (filename encoding : pstr) (l : list (str * float)),
    Forall (fun it => safe (fst it) = true /\ float_ok repr pfloat (snd it)) l ->
    Forall (fun it => forallb encb (write_line repr it) = true) l ->
    NoDup (map fst l) ->
    copen filename encoding (Some surrogateescape) = Some (lines_keep LB (write_file repr l)) ->
    py_scorer_load_from_file F64ops WS pfloat (enc_of encb reason) copen [] filename encoding = Done (l, true).
Proof.
  intros repr pfloat encb reason copen filename encoding l H He Hnd Ho.
  rewrite (scorer_load_from_file_is_load_scorer WS pfloat encb reason copen LB filename encoding _ Ho).
  now rewrite (roundtrip_scorer_inst repr pfloat encb (onfail_of_reason reason) l H He Hnd).
Qed.

(* ---------------------------------------------------------------- C04: values of a group share the probability *)

(* the model's grouping: every value of a group stood in the file with a probability that is
   the group's (the first value of the group) or == to it (the values that joined) ... *)
Lemma groups_same_prob : forall (l : list (str * float)) p vs g v,
  In g (groups p vs l) -> In v (gvals g) ->
  (In v vs /\ gprob g = p) \/ exists q, In (v, q) l /\ (q = gprob g \/ PrimFloat.eqb q (gprob g) = true).
Proof.
  induction l as [|[v0 q] r IH]; intros p vs g v Hg Hv; cbn [groups] in Hg.
  - destruct Hg as [<-|[]]. cbn in Hv. left. split; [now apply in_rev|reflexivity].
  - destruct (PrimFloat.eqb q p) eqn:E.
    + destruct (IH _ _ _ _ Hg Hv) as [[Hin Hp]|(q' & Hin & Hq)].
      * destruct Hin as [<-|Hin]; [|left; now split].
        right. exists q. split; [now left|]. right. now rewrite Hp.
      * right. exists q'. split; [now right|exact Hq].
    + destruct Hg as [<-|Hg].
      * cbn in Hv. left. split; [now apply in_rev|reflexivity].
      * destruct (IH _ _ _ _ Hg Hv) as [[Hin Hp]|(q' & Hin & Hq)].
        -- destruct Hin as [<-|[]]. right. exists q. split; [now left|]. left. now rewrite Hp.
        -- right. exists q'. split; [now right|exact Hq].
Qed.

(* ... and every line of the file is in a group with such a probability *)
Lemma groups_cover : forall (l : list (str * float)) p vs,
  (forall v, In v vs -> exists g, In g (groups p vs l) /\ In v (gvals g) /\ gprob g = p) /\
  (forall v q, In (v, q) l -> exists g, In g (groups p vs l) /\ In v (gvals g) /\
                                       (q = gprob g \/ PrimFloat.eqb q (gprob g) = true)).
Proof.
  induction l as [|[v0 q0] r IH]; intros p vs; cbn [groups].
  - split; [|intros v q []]. intros v Hv. eexists. split; [now left|]. cbn. split; [now apply -> in_rev|reflexivity].
  - destruct (PrimFloat.eqb q0 p) eqn:E.
    + destruct (IH p (v0 :: vs)) as [H1 H2]. split.
      * intros v Hv. apply H1. now right.
      * intros v q [Heq|Hin]; [|now apply H2]. inversion Heq; subst.
        destruct (H1 v (or_introl eq_refl)) as (g & Hg & Hv & Hp). exists g. repeat split; try assumption.
        right. now rewrite Hp.
    + destruct (IH q0 [v0]) as [H1 H2]. split.
      * intros v Hv. eexists. split; [now left|]. cbn. split; [now apply -> in_rev|reflexivity].
      * intros v q [Heq|Hin].
        -- inversion Heq; subst. destruct (H1 v (or_introl eq_refl)) as (g & Hg & Hv & Hp).
           exists g. split; [now right|]. split; [exact Hv|]. left. now rewrite Hp.
        -- destruct (H2 v q Hin) as (g & Hg & Hv & Hq). exists g. split; [now right|]. now split.
Qed.

Definition same_prob (q p : float) : Prop := q = p \/ PrimFloat.eqb q p = true.

Theorem group_by_prob_same_prob (l : list (str * float)) :
  (forall g v, In g (group_by_prob l) -> In v (gvals g) -> exists q, In (v, q) l /\ same_prob q (gprob g)) /\
  (forall v q, In (v, q) l -> exists g, In g (group_by_prob l) /\ In v (gvals g) /\ same_prob q (gprob g)).
Proof.
  destruct l as [|[v0 p0] r]; [split; [intros g v []|intros v q []]|]. cbn [group_by_prob]. split.
  - intros g v Hg Hv. destruct (groups_same_prob r p0 [v0] g v Hg Hv) as [[Hin Hp]|(q & Hin & Hq)].
    + destruct Hin as [<-|[]]. exists p0. split; [now left|]. left. now rewrite Hp.
    + exists q. split; [now right|exact Hq].
  - destruct (groups_cover r p0 [v0]) as [H1 H2]. intros v q [Heq|Hin].
    + inversion Heq; subst. destruct (H1 v (or_introl eq_refl)) as (g & Hg & Hv & Hp).
      exists g. repeat split; try assumption. left. now rewrite Hp.
    + apply H2. exact Hin.
Qed.

(* C04's group-probability clause over the translated loader: when the translated _load_from_file
   returns True, the lines it accepted ([its]: the model's items, error recovery included) and the
   groups it built are related as above: all values that share a group stood in the file with the
   probability reported for the group (== as floats), and no accepted line is lost *)
Theorem source_groups_same_prob :
  forall (ws : N -> bool) (pfloat : pstr -> option float) (encb : N -> bool) (reason : pstr)
         (copen : pstr -> pstr -> option pstr -> option (list pstr)) (filename encoding : pstr) (lines : list pstr) gs,
  copen filename encoding (Some surrogateescape) = Some lines ->
  py_load_from_file F64ops ws pfloat (enc_of encb reason) copen [] filename encoding = Done (gs, true) ->
  exists its, guesser_items ws pfloat encb (onfail_of_reason reason) lines false = Some its /\
    (forall it v, In it gs -> In v (it_values it) -> exists q, In (v, q) its /\ same_prob q (it_prob it)) /\
    (forall v q, In (v, q) its -> exists it, In it gs /\ In v (it_values it) /\ same_prob q (it_prob it)).
Proof.
  intros ws pfloat encb reason copen filename encoding lines gs Ho Hr.
  pose proof (load_from_file_eq ws pfloat encb reason copen filename encoding lines Ho) as Ha.
  rewrite Hr in Ha. unfold agrees in Ha.
  destruct (guesser_items ws pfloat encb (onfail_of_reason reason) lines false) as [its|]; [|destruct Ha; discriminate].
  exists its. split; [reflexivity|].
  assert (Hg : group_items its = Some (group_by_prob its) /\ gs = map item_of (group_by_prob its)).
  { destruct its as [|[v p] r]; cbn [group_items group_by_prob] in *.
    - inversion Ha. now split.
    - destruct (PrimFloat.eqb p (-1)); [destruct Ha; discriminate|]. inversion Ha. now split. }
  destruct Hg as [_ ->]. destruct (group_by_prob_same_prob its) as [H1 H2]. split.
  - intros it v Hin Hv. apply in_map_iff in Hin. destruct Hin as (g & <- & Hg). exact (H1 g v Hg Hv).
  - intros v q Hin. destruct (H2 v q Hin) as (g & Hg & Hv & Hq). exists (item_of g).
    split; [now apply in_map|]. now split.
Qed.

(* ---------------------------------------------------------------- C14 over the translated base-structure loader *)

Section BasesTransport.
Context (fo : fops) (ws isalpha : N -> bool) (pfloat : pstr -> option (F fo)).
Context (bopen : pstr -> option (list pstr)) (pjoin : list pstr -> pstr).
Notation P := (F fo).
Notation py_bases := (py_load_base_structures fo ws isalpha pfloat bopen pjoin).
Notation m_load_bases := (load_bases (f_one fo) (f_sub fo) (f_div fo) (f_iszero fo) isalpha).

Lemma bases_done_true r m bs : bases_done fo r m -> r = Done (bs, true) -> exists l, m = Some l /\ bs = map (base_of fo) l.
Proof.
  unfold bases_done. destruct m as [l|]; intros H Hr; rewrite Hr in H.
  - inversion H. eauto.
  - destruct H; discriminate.
Qed.

Lemma base_of_injective : forall l l' : list (P * list str), map (base_of fo) l = map (base_of fo) l' -> l = l'.
Proof.
  induction l as [|[p t] l IH]; destruct l' as [|[p' t'] l']; cbn; intros H; try discriminate; [reflexivity|].
  inversion H; subst. f_equal. now apply IH.
Qed.

(* C14_bases_with_markov for the translated _load_base_structures: with a Markov structure at any
   position, the skip_brute call returns the plain call's list without the Markov structures, each
   probability divided by 1 - P(M) *)
Theorem bases_with_markov_translated fuel dir folder lines ls pm bs0 :
  bopen (pjoin [dir; folder; grammar_txt]) = Some lines ->
  parse_all fo ws pfloat lines = Some ls ->
  Forall (fun l => (2 * length (fst l) < fuel)%nat) ls ->
  Forall (fun l => f_div fo (snd l) (f_one fo) = snd l) ls ->
  scan_M ls = Some pm -> f_iszero fo (f_sub fo (f_one fo) pm) = false ->
  py_bases fuel [] dir false folder = Done (bs0, true) ->
  py_bases fuel [] dir true folder =
    Done (map (fun b => {| bs_prob := f_div fo (bs_prob b) (f_sub fo (f_one fo) pm); bs_repl := bs_repl b |})
              (filter (fun b => negb (rt_in [77%N] (bs_repl b))) bs0), true).
Proof.
  intros Ho Hp Hf Hone HM Hz Hplain.
  pose proof (load_base_structures_eq fo ws isalpha pfloat bopen pjoin fuel dir folder false lines ls Ho Hp Hf) as E0.
  destruct (bases_done_true _ _ _ E0 Hplain) as (l0 & Hl0 & ->).
  pose proof (load_base_structures_eq fo ws isalpha pfloat bopen pjoin fuel dir folder true lines ls Ho Hp Hf) as E1.
  rewrite (load_bases_skip_with_M (f_one fo) (f_sub fo) (f_div fo) (f_iszero fo) isalpha true ls pm l0 Hone HM Hz Hl0) in E1.
  cbn [bases_done] in E1. rewrite E1. f_equal. f_equal.
  clear. induction l0 as [|[p t] l IH]; [reflexivity|]. cbn [filter map snd fst base_of bs_repl].
  rewrite <- has_M_rt. destruct (has_M t); cbn [negb map]; [exact IH|]. now rewrite IH.
Qed.

(* C14_bases_without_markov: no Markov structure, skip_brute changes nothing *)
Theorem bases_without_markov_translated fuel dir folder lines ls l0 :
  bopen (pjoin [dir; folder; grammar_txt]) = Some lines ->
  parse_all fo ws pfloat lines = Some ls ->
  Forall (fun l => (2 * length (fst l) < fuel)%nat) ls ->
  scan_M ls = None -> no_M_token isalpha ls ->
  m_load_bases true false ls = Some l0 ->
  py_bases fuel [] dir true folder = Done (map (base_of fo) l0, true) /\
  py_bases fuel [] dir false folder = Done (map (base_of fo) l0, true).
Proof.
  intros Ho Hp Hf HM Hno Hl0.
  pose proof (load_base_structures_eq fo ws isalpha pfloat bopen pjoin fuel dir folder false lines ls Ho Hp Hf) as E0.
  pose proof (load_base_structures_eq fo ws isalpha pfloat bopen pjoin fuel dir folder true lines ls Ho Hp Hf) as E1.
  rewrite (load_bases_skip_without_M (f_one fo) (f_sub fo) (f_div fo) (f_iszero fo) isalpha ls HM Hno) in E1.
  rewrite Hl0 in E0, E1. cbn [bases_done] in E0, E1. now split.
Qed.
End BasesTransport.

(* ---------------------------------------------------------------- a concrete grammar.txt (non-vacuity, Props/C14.v) *)

Definition ex_ws (c : N) : bool := N.eqb c 10.
Definition ex_alpha (c : N) : bool := (65 <=? c)%N && (c <=? 90)%N.
Definition ex_pfloat (s : pstr) : option float :=
  if TextFile.str_eqb s [48; 46; 53]%N then Some 0.5%float
  else if TextFile.str_eqb s [48; 46; 50; 53]%N then Some 0.25%float else None.
(* "A2D1\t0.5\n"  "M\t0.25\n"  "D3\t0.25\n" *)
Definition ex_grammar : list pstr :=
  [[65; 50; 68; 49; 9; 48; 46; 53; 10]; [77; 9; 48; 46; 50; 53; 10]; [68; 51; 9; 48; 46; 50; 53; 10]]%N.
Definition ex_open (_ : pstr) : option (list pstr) := Some ex_grammar.
Definition ex_join (l : list pstr) : pstr := concat l.

Example ex_grammar_parses :
  parse_all F64ops ex_ws ex_pfloat ex_grammar =
  Some [([65; 50; 68; 49]%N, 0.5%float); ([77]%N, 0.25%float); ([68; 51]%N, 0.25%float)].
Proof. vm_compute. reflexivity. Qed.

Example ex_skip_brute_load :
  py_load_base_structures F64ops ex_ws ex_alpha ex_pfloat ex_open ex_join 20 [] [] true [] =
  Done ([{| bs_prob := (0.5 / (1 - 0.25))%float; bs_repl := [[65; 50]; [67; 50]; [68; 49]]%N |};
         {| bs_prob := (0.25 / (1 - 0.25))%float; bs_repl := [[68; 51]]%N |}], true).
Proof. vm_compute. reflexivity. Qed.

Example ex_plain_load :
  py_load_base_structures F64ops ex_ws ex_alpha ex_pfloat ex_open ex_join 20 [] [] false [] =
  Done ([{| bs_prob := (0.5 / 1)%float; bs_repl := [[65; 50]; [67; 50]; [68; 49]]%N |};
         {| bs_prob := (0.25 / 1)%float; bs_repl := [[77]]%N |};
         {| bs_prob := (0.25 / 1)%float; bs_repl := [[68; 51]]%N |}], true).
Proof. vm_compute. reflexivity. Qed.
