(* The generated rule-file loaders (gen/Loader_gen.v: the translation of the Python
   text of lib_guesser/grammar_io.py _load_from_file, _load_base_structures,
   load_omen_keyspace and lib_scorer/grammar_io.py _load_from_file, redone on every
   run by harness/translate_loader.py) equal the hand-written models of TextFile.v
   (load_guesser, load_scorer, the readers C07 and C04 are about) and Loader.v
   (load_bases, C14).

   The proofs compare the translated loop bodies with the model's per-line
   functions test by test (body lemmas, by case analysis and computation) and then
   go by induction over the lines; they do not depend on the names of the Python
   locals or on the exact generated text, so a rewrite that leaves the meaning
   alone keeps checking and a change of meaning breaks a body lemma. *)
From Coq Require Import List Arith ZArith NArith Bool Floats Lia.
From Pcfg Require Import TextFile LoaderRt.
From Pcfg Require Import F64 TextFileProofs IoCorr IoFacts.
From PcfgGen Require Import Loader_gen.
Import ListNotations.

(* ---------------------------------------------------------------- runtime facts *)

Lemma rt_index_0 {X} (x : X) l : rt_index (x :: l) 0 = Done x.
Proof.
  unfold rt_index, rt_pos. cbn [Z.ltb Z.compare length].
  replace (Z.of_nat (S (length l)) <=? 0)%Z with false by (symmetry; apply Z.leb_gt; lia). reflexivity.
Qed.

Lemma rt_index_1 {X} (x y : X) l : rt_index (x :: y :: l) 1 = Done y.
Proof.
  unfold rt_index, rt_pos. cbn [Z.ltb Z.compare length].
  replace (Z.of_nat (S (S (length l))) <=? 1)%Z with false by (symmetry; apply Z.leb_gt; lia). reflexivity.
Qed.

Lemma rt_index_1_short {X} (x : X) : rt_index [x] 1 = Fail EIndex.
Proof. reflexivity. Qed.

Lemma rt_index_nil {X} i : rt_index (@nil X) i = Fail EIndex.
Proof.
  assert (H : rt_pos 0 i = None).
  { unfold rt_pos. cbn [Z.of_nat]. rewrite Z.add_0_r. destruct (i <? 0)%Z eqn:E; rewrite E; [reflexivity|].
    replace (0 <=? i)%Z with true by (symmetry; apply Z.leb_le; apply Z.ltb_ge in E; lia). reflexivity. }
  unfold rt_index. cbn [length]. now rewrite H.
Qed.

Lemma rt_pos_last n : rt_pos (S n) (-1) = Some n.
Proof.
  unfold rt_pos. cbn [Z.ltb Z.compare].
  replace (-1 + Z.of_nat (S n))%Z with (Z.of_nat n) by lia.
  replace (Z.of_nat n <? 0)%Z with false by (symmetry; apply Z.ltb_ge; lia).
  replace (Z.of_nat (S n) <=? Z.of_nat n)%Z with false by (symmetry; apply Z.leb_gt; lia).
  now rewrite Nat2Z.id.
Qed.

Lemma rt_set_nth_last {X} (G : list X) x x' : rt_set_nth (G ++ [x]) (length G) x' = G ++ [x'].
Proof. induction G as [|g G IH]; cbn; [reflexivity|now rewrite IH]. Qed.

Lemma upd_index_last {X} (G : list X) x f :
  upd_index (G ++ [x]) (-1) f = rt_bind (f x) (fun e => Fail e) (fun x' => Done (G ++ [x'])).
Proof.
  unfold upd_index. rewrite app_length, Nat.add_1_r, rt_pos_last.
  rewrite nth_error_app2 by lia. rewrite Nat.sub_diag. cbn [nth_error].
  destruct (f x); cbn; [now rewrite rt_set_nth_last|reflexivity].
Qed.

Lemma upd_index_nil {X} i (f : X -> outcome X) : upd_index [] i f = Fail EIndex.
Proof.
  assert (H : rt_pos 0 i = None).
  { unfold rt_pos. cbn [Z.of_nat]. rewrite Z.add_0_r. destruct (i <? 0)%Z eqn:E; rewrite E; [reflexivity|].
    replace (0 <=? i)%Z with true by (symmetry; apply Z.leb_le; apply Z.ltb_ge in E; lia). reflexivity. }
  unfold upd_index. cbn [length]. now rewrite H.
Qed.

Lemma list_last_cases {X} (l : list X) : l = [] \/ exists G x, l = G ++ [x].
Proof. destruct l as [|a l] using rev_ind; [now left|right; eauto]. Qed.

(* ---------------------------------------------------------------- binary64 *)

Definition F64ops : fops :=
  {| F := float; f_one := 1%float; f_mone := (-1)%float; f_zero := 0%float; f_eqb := PrimFloat.eqb;
     f_sub := PrimFloat.sub; f_div := PrimFloat.div; f_iszero := fun x => PrimFloat.eqb x 0 |}.

(* line.encode(encoding) as the model has it: the codec encodes the characters
   [encb] holds for and reports [reason] otherwise *)
Definition enc_of (encb : N -> bool) (reason : pstr) (_ line : pstr) : option pstr :=
  if forallb encb line then None else Some reason.

Definition surrogates_not_allowed : pstr :=
  [115; 117; 114; 114; 111; 103; 97; 116; 101; 115; 32; 110; 111; 116; 32; 97; 108; 108; 111; 119; 101; 100]%N.

(* what the readers do with a line the codec cannot encode: the reason
   'surrogates not allowed' takes the branch that reads a local no statement ever
   binds (UnboundLocalError, caught by `except Exception`: the load fails), any
   other reason skips the line *)
Definition onfail_of_reason (reason : pstr) : enc_fail :=
  if str_eqb reason surrogates_not_allowed then EncAbort else EncSkip.

Definition item_of (g : group) : rt_item float := {| it_values := gvals g; it_prob := gprob g |}.
Definition group_of (i : rt_item float) : group := {| gvals := it_values i; gprob := it_prob i |}.

Lemma group_of_item_of g : group_of (item_of g) = g.
Proof. destruct g; reflexivity. Qed.

(* ---------------------------------------------------------------- guesser: _load_from_file *)

Section GuesserFile.
Context (ws : N -> bool) (pfloat : pstr -> option float) (encb : N -> bool) (reason : pstr).
Context (copen : pstr -> pstr -> option (list pstr)).

Notation onfail := (onfail_of_reason reason).
Notation py_load := (py_load_from_file F64ops ws pfloat (enc_of encb reason) copen).

(* grammar_section[-1]['values'].append(v) *)
Definition app_last (gs : list (rt_item float)) (v : pstr) : option (list (rt_item float)) :=
  match rev gs with
  | [] => None
  | x :: g => Some (rev g ++ [{| it_values := it_values x ++ [v]; it_prob := it_prob x |}])
  end.

Lemma upd_append_last (gs : list (rt_item float)) v :
  upd_index gs (-1) (fun t => upd_values t (fun t0 => Done (rt_append t0 v))) = rt_opt EIndex (app_last gs v).
Proof.
  unfold app_last. destruct (list_last_cases gs) as [->|(G & x & ->)].
  - now rewrite upd_index_nil.
  - rewrite upd_index_last, rev_app_distr. cbn. now rewrite rev_involutive.
Qed.

(* what one line does to (error_flag, debug_count, prev_prob, grammar_section) *)
Definition gstep (ln : pstr) (st : bool * Z * float * list (rt_item float))
  : fctl (outcome (list (rt_item float) * bool)) (bool * Z * float * list (rt_item float)) :=
  let '(flag, dc, prev, gs) := st in
  if flag then FCont (false, dc, prev, gs)
  else if negb (forallb encb ln) then
    match onfail with
    | EncAbort => FRet (Done (gs, false))
    | EncSkip => FCont (false, (dc + 1)%Z, prev, gs)
    end
  else match parse_line ws pfloat ln with
       | None => FCont (true, (dc + 1)%Z, prev, gs)
       | Some (v, p) =>
           if PrimFloat.eqb p prev then
             match app_last gs v with
             | Some gs' => FCont (false, (dc + 1)%Z, prev, gs')
             | None => FRet (Done (gs, false))
             end
           else FCont (false, (dc + 1)%Z, p, gs ++ [{| it_values := [v]; it_prob := p |}])
       end.

(* the run of the loop as the translation has it, with the body replaced by gstep *)
Fixpoint grun (lines : list pstr) (st : bool * Z * float * list (rt_item float)) : outcome (list (rt_item float) * bool) :=
  match lines with
  | [] => Done (snd st, true)
  | ln :: r => match gstep ln st with
               | FCont st' => grun r st'
               | FBrk _ st' => Done (snd st', true)
               | FRet v => v
               end
  end.

Lemma load_from_file_run filename encoding lines :
  copen filename encoding = Some lines ->
  py_load [] filename encoding = grun lines (false, 0%Z, (-1)%float, []).
Proof.
  intros Ho. cbv beta zeta delta [py_load_from_file]. rewrite Ho.
  cbn [rt_open rt_bind]. unfold rt_for_file, rt_fopen. cbn [f_all f_rest].
  match goal with |- rt_for_lines _ _ ?b _ _ _ = _ => set (body := b) end.
  assert (Hbody : forall ln st, body ln st = gstep ln st).
  { intros ln [[[flag dc] prev] gs]. unfold body, gstep. destruct flag; [reflexivity|].
    unfold rt_encode, enc_of. destruct (forallb encb ln); cbn [negb rt_bind].
    2:{ unfold rt_join, onfail_of_reason, rt_reason, surrogates_not_allowed.
        destruct (str_eqb reason _); reflexivity. }
    unfold parse_line. change TAB with 9%N.
    destruct (split_on 9 (rstrip ws ln)) as [|v [|f r]].
    - rewrite rt_index_nil. reflexivity.
    - rewrite rt_index_0. cbn [rt_bind]. rewrite rt_index_1_short. reflexivity.
    - rewrite rt_index_0. cbn [rt_bind]. rewrite rt_index_1. cbn [rt_bind]. unfold rt_float.
      destruct (pfloat f) as [p|]; cbn [rt_opt rt_bind]; [|reflexivity].
      cbn [F64ops f_eqb]. destruct (PrimFloat.eqb p prev); [|reflexivity].
      rewrite upd_append_last. destruct (app_last gs v); reflexivity. }
  clearbody body.
  match goal with |- rt_for_lines _ _ _ _ _ ?k0 = _ => set (K := k0) end.
  assert (Hrun : forall rest all st, rt_for_lines all rest body st rt_no_else_file K = grun rest st).
  { induction rest as [|ln r IH]; intros all st; cbn [rt_for_lines grun].
    - destruct st as [[[a b] c] d]. reflexivity.
    - rewrite Hbody. destruct (gstep ln st) as [st'|sk st'|v]; [apply IH| |reflexivity].
      destruct st' as [[[a b] c] d]. reflexivity. }
  apply Hrun.
Qed.

(* the result of a loader call against the model's result: the same groups and
   True, or False (with whatever was read so far) where the model's load fails *)
Definition agrees (r : outcome (list (rt_item float) * bool)) (m : option (list group)) : Prop :=
  match m with
  | Some gs => r = Done (map item_of gs, true)
  | None => exists gs, r = Done (gs, false)
  end.

Lemma app_last_snoc (G : list (rt_item float)) x v :
  app_last (G ++ [x]) v = Some (G ++ [{| it_values := it_values x ++ [v]; it_prob := it_prob x |}]).
Proof. unfold app_last. rewrite rev_app_distr. cbn. now rewrite rev_involutive. Qed.

(* a group is open: grammar_section ends with it and prev_prob is its probability *)
Lemma grun_open : forall lines flag dc (Gm : list group) vals p,
  agrees (grun lines (flag, dc, p, map item_of Gm ++ [{| it_values := vals; it_prob := p |}]))
         (option_map (fun its => Gm ++ groups p (rev vals) its) (guesser_items ws pfloat encb onfail lines flag)).
Proof.
  induction lines as [|ln r IH]; intros flag dc Gm vals p.
  - cbn. rewrite map_app. cbn. unfold item_of at 2. cbn. now rewrite rev_involutive.
  - cbn [grun guesser_items gstep]. destruct flag; [apply IH|].
    destruct (forallb encb ln); cbn [negb].
    2:{ destruct onfail; [apply IH|]. cbn. eauto. }
    destruct (parse_line ws pfloat ln) as [[v q]|]; [|apply IH].
    destruct (PrimFloat.eqb q p) eqn:E.
    + rewrite app_last_snoc. cbn [it_values it_prob].
      specialize (IH false (dc + 1)%Z Gm (vals ++ [v]) p).
      destruct (guesser_items ws pfloat encb onfail r false) as [its|]; cbn [option_map] in *; [|exact IH].
      cbn [groups]. rewrite E. now rewrite rev_unit in IH.
    + specialize (IH false (dc + 1)%Z (Gm ++ [{| gvals := vals; gprob := p |}]) [v] q).
      rewrite map_app in IH. cbn [map] in IH. unfold item_of at 2 in IH. cbn [gvals gprob] in IH.
      destruct (guesser_items ws pfloat encb onfail r false) as [its|]; cbn [option_map] in *; [|exact IH].
      cbn [groups]. rewrite E. rewrite rev_involutive.
      replace (Gm ++ {| gvals := vals; gprob := p |} :: groups q [v] its)
        with ((Gm ++ [{| gvals := vals; gprob := p |}]) ++ groups q (rev [v]) its)
        by (rewrite <- app_assoc; reflexivity).
      exact IH.
Qed.

(* nothing read yet: grammar_section is empty and prev_prob is -1.0 *)
Lemma grun_start : forall lines flag dc,
  agrees (grun lines (flag, dc, (-1)%float, []))
         (match guesser_items ws pfloat encb onfail lines flag with Some its => group_items its | None => None end).
Proof.
  induction lines as [|ln r IH]; intros flag dc.
  - cbn. reflexivity.
  - cbn [grun guesser_items gstep]. destruct flag; [apply IH|].
    destruct (forallb encb ln); cbn [negb].
    2:{ destruct onfail; [apply IH|]. cbn. eauto. }
    destruct (parse_line ws pfloat ln) as [[v q]|]; [|apply IH].
    destruct (PrimFloat.eqb q (-1)) eqn:E.
    + cbn [app_last rev]. destruct (guesser_items ws pfloat encb onfail r false) as [its|]; cbn [option_map group_items].
      * rewrite E. cbn. eauto.
      * cbn. eauto.
    + pose proof (grun_open r false (dc + 1)%Z [] [v] q) as H. cbn [map app] in H.
      change ([] ++ [{| it_values := [v]; it_prob := q |}]) with [{| it_values := [v]; it_prob := q |}].
      destruct (guesser_items ws pfloat encb onfail r false) as [its|]; cbn [option_map group_items] in *; [|exact H].
      rewrite E. exact H.
Qed.

(* THE TIE, guesser reader: for every file (list of lines the iteration yields), every
   whitespace class, float() and codec, the translated _load_from_file called on an
   empty list returns what the model reader returns *)
Theorem load_from_file_eq filename encoding lines :
  copen filename encoding = Some lines ->
  agrees (py_load [] filename encoding)
         (match guesser_items ws pfloat encb onfail lines false with Some its => group_items its | None => None end).
Proof. intros Ho. rewrite (load_from_file_run _ _ _ Ho). apply grun_start. Qed.

Corollary load_from_file_is_load_guesser (lb : N -> bool) filename encoding text :
  copen filename encoding = Some (lines_keep lb text) ->
  agrees (py_load [] filename encoding) (load_guesser lb ws pfloat encb onfail text).
Proof. intros Ho. unfold load_guesser. apply load_from_file_eq. exact Ho. Qed.

(* a file that cannot be opened: False, the list untouched *)
Theorem load_from_file_no_file gs filename encoding :
  copen filename encoding = None -> py_load gs filename encoding = Done (gs, false).
Proof. intros Ho. cbv beta zeta delta [py_load_from_file]. rewrite Ho. reflexivity. Qed.

(* the translated function never lets an exception escape *)
Theorem load_from_file_total filename encoding :
  exists gs b, py_load [] filename encoding = Done (gs, b).
Proof.
  destruct (copen filename encoding) as [lines|] eqn:Ho.
  - pose proof (load_from_file_eq _ _ _ Ho) as H. unfold agrees in H.
    destruct (match guesser_items ws pfloat encb onfail lines false with Some its => group_items its | None => None end);
      [eauto|destruct H; eauto].
  - rewrite (load_from_file_no_file _ _ _ Ho). eauto.
Qed.
End GuesserFile.

(* ---------------------------------------------------------------- C07 / C04 over the translated guesser reader *)

(* C07_roundtrip_guesser for the translated _load_from_file: what it builds from a file the
   trainer wrote is the written list grouped by consecutive equal probability, and True *)
Theorem roundtrip_guesser_translated :
  forall (repr : float -> str) (pfloat : str -> option float) (encb : N -> bool) (reason : pstr)
         (copen : pstr -> pstr -> option (list pstr)) (filename encoding : pstr) (l : list (str * float)),
    Forall (fun it => safe (fst it) = true /\ float_ok repr pfloat (snd it)) l ->
    Forall (fun it => forallb encb (write_line repr it) = true) l ->
    Forall (fun it => okbF (snd it) = true) l ->
    copen filename encoding = Some (lines_keep LB (write_file repr l)) ->
    py_load_from_file F64ops WS pfloat (enc_of encb reason) copen [] filename encoding
      = Done (map item_of (group_by_prob l), true)
    /\ flat_map (@it_values float) (map item_of (group_by_prob l)) = map fst l.
Proof.
  intros repr pfloat encb reason copen filename encoding l H He Hok Ho.
  destruct (roundtrip_guesser_inst repr pfloat encb (onfail_of_reason reason) l H He Hok) as [H1 H2].
  pose proof (load_from_file_is_load_guesser WS pfloat encb reason copen LB filename encoding _ Ho) as Ha.
  rewrite H1 in Ha. split; [exact Ha|].
  rewrite <- H2. clear. induction (group_by_prob l) as [|g r IH]; [reflexivity|]. cbn. now rewrite IH.
Qed.
