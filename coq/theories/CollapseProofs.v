(* CollapseProofs.v - collapsing a training list to (password, count) pairs in
   first-occurrence order and expanding it back keeps, for every function from
   passwords to item lists, the first-occurrence key order and every
   multiplicity of the item sequence. *)
From Coq Require Import String Ascii.
From Coq Require Import List NArith ZArith Bool Lia Permutation.
From Pcfg Require Import TextFile Counters.
Import ListNotations.
Local Open Scope nat_scope.

(* ---------------------------------------------------------------- str_eqb *)

Lemma str_eqb_eq' : forall a b : str, str_eqb a b = true <-> a = b.
Proof.
  induction a as [|x a IH]; destruct b as [|y b]; simpl; split; intro H;
    try reflexivity; try discriminate.
  - apply andb_true_iff in H. destruct H as [H1 H2].
    apply N.eqb_eq in H1. apply IH in H2. subst. reflexivity.
  - inversion H; subst. apply andb_true_iff. split.
    + apply N.eqb_refl.
    + apply IH. reflexivity.
Qed.

Lemma str_eqb_refl' : forall a, str_eqb a a = true.
Proof. intro a. apply str_eqb_eq'. reflexivity. Qed.

Lemma str_eqb_sym' : forall a b, str_eqb a b = str_eqb b a.
Proof.
  intros a b. destruct (str_eqb a b) eqn:E.
  - apply str_eqb_eq' in E. subst. symmetry. apply str_eqb_refl'.
  - destruct (str_eqb b a) eqn:E'; [|reflexivity].
    apply str_eqb_eq' in E'. subst. rewrite str_eqb_refl' in E. discriminate.
Qed.

Definition str_eq_dec' : forall a b : str, {a = b} + {a <> b}.
Proof.
  intros a b. destruct (str_eqb a b) eqn:E.
  - left. apply str_eqb_eq'. exact E.
  - right. intro H. apply str_eqb_eq' in H. rewrite H in E. discriminate.
Defined.

(* ---------------------------------------------------------------- filter facts *)

Lemma filter_filter_and : forall {T} (P Q : T -> bool) l,
  filter P (filter Q l) = filter (fun x => Q x && P x) l.
Proof.
  intros T P Q l. induction l as [|x l IH]; simpl; [reflexivity|].
  destruct (Q x); simpl; [destruct (P x)|]; rewrite IH; reflexivity.
Qed.

Lemma filter_comm : forall {T} (P Q : T -> bool) l,
  filter P (filter Q l) = filter Q (filter P l).
Proof.
  intros. rewrite !filter_filter_and. apply filter_ext. intro a. apply andb_comm.
Qed.

Lemma filter_absorb : forall {T} (P Q : T -> bool) l,
  (forall y, P y = true -> Q y = true) -> filter P (filter Q l) = filter P l.
Proof.
  intros T P Q l H. rewrite filter_filter_and. apply filter_ext. intro a.
  destruct (P a) eqn:E.
  - rewrite (H _ E). reflexivity.
  - apply andb_false_r.
Qed.

Lemma filter_idem : forall {T} (P : T -> bool) l, filter P (filter P l) = filter P l.
Proof. intros. apply filter_absorb. auto. Qed.

Lemma filter_true : forall {T} (l : list T), filter (fun _ => true) l = l.
Proof. induction l; simpl; congruence. Qed.

Lemma filter_flat_map : forall {S T} (P : T -> bool) (f : S -> list T) l,
  filter P (flat_map f l) = flat_map (fun p => filter P (f p)) l.
Proof.
  intros S T P f l. induction l as [|a l IH]; simpl; [reflexivity|].
  rewrite filter_app, IH. reflexivity.
Qed.

Lemma flat_map_filter_nil : forall {S T} (Q : S -> bool) (g : S -> list T) l,
  (forall y, Q y = false -> g y = []) -> flat_map g (filter Q l) = flat_map g l.
Proof.
  intros S T Q g l H. induction l as [|a l IH]; simpl; [reflexivity|].
  destruct (Q a) eqn:E; simpl.
  - rewrite IH. reflexivity.
  - rewrite (H _ E). simpl. exact IH.
Qed.

Lemma flat_map_map' : forall {S T U} (g : S -> T) (f : T -> list U) l,
  flat_map f (map g l) = flat_map (fun x => f (g x)) l.
Proof.
  intros. induction l as [|a l IH]; simpl; [reflexivity|]. rewrite IH. reflexivity.
Qed.

Lemma filter_notin_self : forall X : list str,
  filter (fun y => negb (existsb (str_eqb y) X)) X = [].
Proof.
  intro X.
  assert (H : forall Z, (forall z, In z Z -> In z X) ->
            filter (fun y => negb (existsb (str_eqb y) X)) Z = []).
  { induction Z as [|z Z IH]; intro Hin; simpl; [reflexivity|].
    assert (E : existsb (str_eqb z) X = true).
    { apply existsb_exists. exists z. split.
      - apply Hin. left. reflexivity.
      - apply str_eqb_refl'. }
    rewrite E. simpl. apply IH. intros. apply Hin. right. assumption. }
  apply H. auto.
Qed.

(* ---------------------------------------------------------------- nodup_first *)

Lemma nodup_first_filter : forall (P : str -> bool) l,
  filter P (nodup_first l) = nodup_first (filter P l).
Proof.
  intros P l. induction l as [|a l IH]; simpl; [reflexivity|].
  destruct (P a) eqn:E; simpl.
  - rewrite filter_comm, IH. reflexivity.
  - rewrite filter_absorb; [exact IH|].
    intros y Hy. destruct (str_eqb a y) eqn:E'; [|reflexivity].
    apply str_eqb_eq' in E'. subst. congruence.
Qed.

Lemma nodup_first_app : forall X Y,
  nodup_first (X ++ Y) =
  nodup_first X ++ filter (fun y => negb (existsb (str_eqb y) X)) (nodup_first Y).
Proof.
  induction X as [|a X IH]; intro Y; simpl.
  - rewrite filter_true. reflexivity.
  - rewrite IH, filter_app, filter_filter_and. f_equal. f_equal.
    apply filter_ext. intro y. rewrite (str_eqb_sym' y a).
    rewrite negb_orb. apply andb_comm.
Qed.

Lemma nodup_first_flat_map : forall (f : str -> list str) l,
  nodup_first (flat_map f l) = nodup_first (flat_map f (nodup_first l)).
Proof.
  intros f l. revert f. induction l as [|a l IH]; intro f; simpl; [reflexivity|].
  rewrite !nodup_first_app. f_equal.
  set (P := fun y : str => negb (existsb (str_eqb y) (f a))).
  rewrite (nodup_first_filter P (flat_map f l)).
  rewrite (nodup_first_filter P (flat_map f (filter _ (nodup_first l)))).
  rewrite !filter_flat_map.
  rewrite flat_map_filter_nil.
  - apply IH.
  - intros y Hy. apply negb_false_iff in Hy. apply str_eqb_eq' in Hy. subst y.
    apply filter_notin_self.
Qed.

Lemma In_nodup_first : forall x l, In x (nodup_first l) <-> In x l.
Proof.
  intros x l. induction l as [|a l IH]; simpl; [tauto|].
  rewrite filter_In, IH. split.
  - intros [H|[H _]]; auto.
  - intros [H|H]; auto.
    destruct (str_eqb a x) eqn:E.
    + left. apply str_eqb_eq'. exact E.
    + right. split; auto.
Qed.

Lemma nodup_first_idem : forall l, nodup_first (nodup_first l) = nodup_first l.
Proof.
  induction l as [|a l IH]; simpl; [reflexivity|].
  rewrite <- nodup_first_filter, IH, filter_idem. reflexivity.
Qed.

Lemma filter_neq_repeat : forall a n,
  filter (fun y => negb (str_eqb a y)) (repeat a n) = [].
Proof.
  intros a n. induction n as [|n IH]; simpl; [reflexivity|].
  rewrite str_eqb_refl'. simpl. exact IH.
Qed.

Lemma nodup_first_repeat_app : forall a n R,
  nodup_first (repeat a (S n) ++ R) =
  a :: filter (fun y => negb (str_eqb a y)) (nodup_first R).
Proof.
  intros a n R. simpl. f_equal.
  rewrite !nodup_first_filter, filter_app, filter_neq_repeat. reflexivity.
Qed.

Lemma nodup_first_flat_map_repeat : forall (c : str -> nat) X,
  (forall p, In p X -> 1 <= c p) ->
  nodup_first (flat_map (fun p => repeat p (c p)) X) = nodup_first X.
Proof.
  intros c X. induction X as [|a X IH]; intro H; simpl; [reflexivity|].
  assert (Ha : 1 <= c a) by (apply H; left; reflexivity).
  destruct (c a) as [|n] eqn:E; [lia|].
  rewrite nodup_first_repeat_app, IH; [reflexivity|].
  intros p Hp. apply H. right. exact Hp.
Qed.

Lemma expand_collapse_eq : forall A,
  expand (collapse A) = flat_map (fun p => repeat p (count_str p A)) (nodup_first A).
Proof. intro A. unfold expand, collapse. rewrite flat_map_map'. reflexivity. Qed.

Lemma count_str_In : forall x l, In x l -> 1 <= count_str x l.
Proof.
  intros x l H. unfold count_str.
  assert (Hin : In x (filter (str_eqb x) l)).
  { apply filter_In. split; [exact H|apply str_eqb_refl']. }
  destruct (filter (str_eqb x) l); simpl in *; [contradiction|lia].
Qed.

Lemma nodup_first_expand_collapse : forall A,
  nodup_first (expand (collapse A)) = nodup_first A.
Proof.
  intro A. rewrite expand_collapse_eq.
  rewrite nodup_first_flat_map_repeat.
  - apply nodup_first_idem.
  - intros p Hp. apply count_str_In. apply In_nodup_first. exact Hp.
Qed.

Theorem collapse_key_order : forall (f : str -> list str) A,
  nodup_first (flat_map f (expand (collapse A))) = nodup_first (flat_map f A).
Proof.
  intros f A. rewrite nodup_first_flat_map, nodup_first_expand_collapse.
  symmetry. apply nodup_first_flat_map.
Qed.

(* ---------------------------------------------------------------- multiplicities *)

Lemma count_str_app : forall k X Y,
  count_str k (X ++ Y) = count_str k X + count_str k Y.
Proof. intros. unfold count_str. rewrite filter_app, app_length. reflexivity. Qed.

Lemma count_str_flat_map : forall (f : str -> list str) k l,
  count_str k (flat_map f l) = list_sum (map (fun p => count_str k (f p)) l).
Proof.
  intros f k l. induction l as [|a l IH]; simpl; [reflexivity|].
  rewrite count_str_app, IH. reflexivity.
Qed.

Lemma list_sum_split : forall {T} (h : T -> nat) (P : T -> bool) l,
  list_sum (map h l) =
  list_sum (map h (filter P l)) + list_sum (map h (filter (fun x => negb (P x)) l)).
Proof.
  intros T h P l. induction l as [|a l IH]; simpl; [reflexivity|].
  destruct (P a); simpl; lia.
Qed.

Lemma filter_eq_repeat : forall a l, filter (str_eqb a) l = repeat a (count_str a l).
Proof.
  intros a l. unfold count_str. induction l as [|x l IH]; simpl; [reflexivity|].
  destruct (str_eqb a x) eqn:E; simpl; [|exact IH].
  apply str_eqb_eq' in E. subst x. f_equal. exact IH.
Qed.

Lemma nodup_first_repeat : forall a n,
  nodup_first (repeat a n) = match n with 0 => [] | S _ => [a] end.
Proof.
  intros a [|n]; [reflexivity|].
  replace (repeat a (S n)) with (repeat a (S n) ++ []) by apply app_nil_r.
  rewrite nodup_first_repeat_app. reflexivity.
Qed.

Lemma count_str_cons_eq : forall a l, count_str a (a :: l) = S (count_str a l).
Proof. intros. unfold count_str. simpl. rewrite str_eqb_refl'. reflexivity. Qed.

Lemma count_str_cons_neq : forall q a l,
  str_eqb a q = false -> count_str q (a :: l) = count_str q l.
Proof.
  intros q a l H. unfold count_str. simpl. rewrite str_eqb_sym', H. reflexivity.
Qed.

Lemma sum_by_first_occurrence : forall (w : str -> nat) A,
  list_sum (map w A) = list_sum (map (fun q => count_str q A * w q) (nodup_first A)).
Proof.
  intros w A. induction A as [|a A IH]; simpl; [reflexivity|].
  rewrite count_str_cons_eq.
  rewrite IH.
  rewrite (list_sum_split (fun q => count_str q A * w q) (str_eqb a) (nodup_first A)).
  assert (E1 : list_sum (map (fun q => count_str q A * w q)
                 (filter (str_eqb a) (nodup_first A))) = count_str a A * w a).
  { rewrite nodup_first_filter, filter_eq_repeat, nodup_first_repeat.
    destruct (count_str a A) eqn:E; simpl; [reflexivity|]. rewrite E. lia. }
  rewrite E1.
  assert (E2 : map (fun q => count_str q (a :: A) * w q)
                 (filter (fun y => negb (str_eqb a y)) (nodup_first A)) =
               map (fun q => count_str q A * w q)
                 (filter (fun y => negb (str_eqb a y)) (nodup_first A))).
  { apply map_ext_in. intros q Hq. apply filter_In in Hq. destruct Hq as [_ Hq].
    apply negb_true_iff in Hq. rewrite (count_str_cons_neq _ _ _ Hq). reflexivity. }
  rewrite E2. simpl. lia.
Qed.

Lemma count_str_repeat : forall q p n,
  count_str q (repeat p n) = n * (if str_eqb q p then 1 else 0).
Proof.
  intros q p n. unfold count_str. induction n as [|n IH]; simpl; [reflexivity|].
  destruct (str_eqb q p); simpl; rewrite IH; lia.
Qed.

Lemma count_str_as_sum : forall q l,
  count_str q l = list_sum (map (fun p => if str_eqb q p then 1 else 0) l).
Proof.
  intros q l. unfold count_str. induction l as [|a l IH]; simpl; [reflexivity|].
  destruct (str_eqb q a); simpl; rewrite IH; reflexivity.
Qed.

Lemma count_str_expand_collapse : forall q A,
  count_str q (expand (collapse A)) = count_str q A.
Proof.
  intros q A. rewrite expand_collapse_eq, count_str_flat_map.
  rewrite (count_str_as_sum q A).
  rewrite (sum_by_first_occurrence (fun p => if str_eqb q p then 1 else 0) A).
  f_equal. apply map_ext. intro p. apply count_str_repeat.
Qed.

Theorem collapse_counts : forall (f : str -> list str) A k,
  count_str k (flat_map f (expand (collapse A))) = count_str k (flat_map f A).
Proof.
  intros f A k. rewrite !count_str_flat_map.
  rewrite (sum_by_first_occurrence _ (expand (collapse A))).
  rewrite (sum_by_first_occurrence _ A).
  rewrite nodup_first_expand_collapse. f_equal. apply map_ext.
  intro q. rewrite count_str_expand_collapse. reflexivity.
Qed.

(* ---------------------------------------------------------------- permutations *)

Lemma count_str_count_occ : forall x l, count_str x l = count_occ str_eq_dec' l x.
Proof.
  intros x l. unfold count_str. induction l as [|a l IH]; simpl; [reflexivity|].
  destruct (str_eq_dec' a x) as [e|n].
  - subst. rewrite str_eqb_refl'. simpl. rewrite IH. reflexivity.
  - destruct (str_eqb x a) eqn:E; [|exact IH].
    apply str_eqb_eq' in E. subst. contradiction.
Qed.

Theorem expand_collapse_perm : forall A, Permutation (expand (collapse A)) A.
Proof.
  intro A. apply (Permutation_count_occ str_eq_dec'). intro x.
  rewrite <- !count_str_count_occ. apply count_str_expand_collapse.
Qed.

Lemma count_str_perm : forall k X Y, Permutation X Y -> count_str k X = count_str k Y.
Proof.
  intros k X Y H. rewrite !count_str_count_occ.
  apply (Permutation_count_occ str_eq_dec'). exact H.
Qed.

Theorem permutation_counts : forall (f : str -> list str) A B k,
  Permutation A B -> count_str k (flat_map f A) = count_str k (flat_map f B).
Proof.
  intros f A B k H. apply count_str_perm. apply Permutation_flat_map. exact H.
Qed.

(* ---------------------------------------------------------------- demo *)

Example collapse_demo :
  let A : list str := [[1];[2];[1];[3];[2];[1]]%N in
  expand (collapse A) = ([[1];[1];[1];[2];[2];[3]]%N : list str).
Proof. vm_compute. reflexivity. Qed.

(* the key order can change under an arbitrary permutation (not under collapse) *)
Example permutation_key_order_changes :
  let A : list str := [[1];[2]]%N in
  let B : list str := [[2];[1]]%N in
  Permutation A B /\ nodup_first (flat_map (fun p => [p]) A) <> nodup_first (flat_map (fun p => [p]) B).
Proof. split; [apply perm_swap | vm_compute; discriminate]. Qed.
