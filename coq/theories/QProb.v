(* The exact-rational instance of the probability algebra (ProbAlg.palg).

   Carrier Q (stdlib QArith, unreduced fractions; equality is the setoid Qeq),
   ple = Qle_bool, pmul = Qmult, okb q = (0 <= q), unitb q = (0 <= q <= 1).
   All palg laws are statements about booleans, so Q's setoid equality is no
   obstacle.  Everything proved for an arbitrary palg (NextProofs.v:
   C01_sorted_okb, C02_exactly_once_okb ...) therefore holds over exact
   arithmetic; QStream.v and QSum.v use that.

   Also here: helper lemmas about find_prob over QProb -
     fp_Q_factor / find_prob_Q_factor : the left-to-right fold is
        acc * (product of the group probabilities)   (Qeq)
     find_prob_Q_base_compat : find_prob respects Qeq in the base (for
        in-range trees; out-of-range positions use the base as default)
     find_prob_Q_nonneg, find_prob_Q_le_base. *)
From Coq Require Import List Arith Bool Lia QArith Qround Setoid.
From Pcfg Require Import ProbAlg Next NextSpec NextProofs.
Import ListNotations.

Local Open Scope Q_scope.

Definition Qokb (q : Q) : bool := Qle_bool 0 q.
Definition Qunitb (q : Q) : bool := Qle_bool 0 q && Qle_bool q 1.

Lemma Qokb_iff q : Qokb q = true <-> 0 <= q.
Proof. unfold Qokb. apply Qle_bool_iff. Qed.

Lemma Qunitb_iff q : Qunitb q = true <-> 0 <= q /\ q <= 1.
Proof.
  unfold Qunitb. rewrite andb_true_iff, !Qle_bool_iff. tauto.
Qed.

Lemma Qmult_le_mono_nonneg a a' b b' :
  0 <= a -> 0 <= b -> a <= a' -> b <= b' -> a * b <= a' * b'.
Proof.
  intros Ha Hb Haa Hbb.
  apply Qle_trans with (a' * b).
  - apply Qmult_le_compat_r; auto.
  - rewrite (Qmult_comm a' b), (Qmult_comm a' b').
    apply Qmult_le_compat_r; auto. apply Qle_trans with a; auto.
Qed.

Definition QProb : palg.
Proof.
  refine {| P := Q; ple := Qle_bool; pmul := Qmult; okb := Qokb; unitb := Qunitb |}.
  - (* unit_ok *) intros a H. apply Qunitb_iff in H. apply Qokb_iff. tauto.
  - (* ple_refl *) intros a _. apply Qle_bool_iff. apply Qle_refl.
  - (* ple_trans *) intros a b c _ _ _ H1 H2. rewrite Qle_bool_iff in *.
    eapply Qle_trans; eauto.
  - (* ple_total *) intros a b _ _. rewrite !Qle_bool_iff.
    destruct (Qlt_le_dec a b) as [H|H]; [left; apply Qlt_le_weak; auto | right; auto].
  - (* pmul_ok *) intros a b Ha Hb. apply Qunitb_iff in Hb. rewrite Qokb_iff in *.
    apply Qmult_le_0_compat; tauto.
  - (* pmul_mono *) intros a a' b b' Ha Ha' Hb Hb' H1 H2.
    apply Qunitb_iff in Hb, Hb'. rewrite Qokb_iff in *. rewrite Qle_bool_iff in *.
    apply Qmult_le_mono_nonneg; tauto.
Defined.

(* the projections compute *)
Lemma QProb_P : P QProb = Q. Proof. reflexivity. Qed.
Lemma QProb_ple (a b : Q) : @ple QProb a b = Qle_bool a b. Proof. reflexivity. Qed.
Lemma QProb_pmul (a b : Q) : @pmul QProb a b = a * b. Proof. reflexivity. Qed.
Lemma QProb_okb (a : Q) : @okb QProb a = Qle_bool 0 a. Proof. reflexivity. Qed.
Lemma QProb_unitb (a : Q) : @unitb QProb a = Qle_bool 0 a && Qle_bool a 1. Proof. reflexivity. Qed.

Lemma QProb_ple_iff (a b : Q) : @ple QProb a b = true <-> a <= b.
Proof. apply Qle_bool_iff. Qed.
Lemma QProb_okb_iff (a : Q) : @okb QProb a = true <-> 0 <= a.
Proof. apply Qokb_iff. Qed.
Lemma QProb_unitb_iff (a : Q) : @unitb QProb a = true <-> 0 <= a /\ a <= 1.
Proof. apply Qunitb_iff. Qed.

(* Qle_bool respects Qeq *)
Lemma Qle_bool_compat a a' b b' : a == a' -> b == b' -> Qle_bool a b = Qle_bool a' b'.
Proof.
  intros Ha Hb. apply eq_true_iff_eq. rewrite !Qle_bool_iff. rewrite Ha, Hb. tauto.
Qed.

#[global] Instance Qle_bool_Proper : Proper (Qeq ==> Qeq ==> eq) Qle_bool.
Proof. intros a a' Ha b b' Hb. apply Qle_bool_compat; auto. Qed.

(* scaling by a positive factor does not change comparisons *)
Lemma Qle_bool_scale c a b : 0 < c -> Qle_bool (c * a) (c * b) = Qle_bool a b.
Proof.
  intros Hc. apply eq_true_iff_eq. rewrite !Qle_bool_iff.
  rewrite (Qmult_comm c a), (Qmult_comm c b). split; intros H.
  - apply Qmult_le_r in H; auto.
  - apply Qmult_le_r; auto.
Qed.

(* ------------------------------------------------------------------ *)
(* find_prob over Q                                                    *)
(* ------------------------------------------------------------------ *)

Notation Qruleset := (ruleset QProb).
Notation Qbstruct := (bstruct QProb).
Notation Qitem := (item QProb).

(* product of the group probabilities along a tree (default d outside) *)
Definition gprod (rs : Qruleset) (d : Q) (t : pt) : Q :=
  fold_right (fun vi acc => @gp QProb rs d vi * acc) 1 t.

Lemma fp_Q_factor (rs : Qruleset) d t a :
  fold_left (fun (x : Q) vi => x * @gp QProb rs d vi) t a == a * gprod rs d t.
Proof.
  revert a. induction t as [|vi t IH]; intros a; simpl.
  - ring.
  - rewrite IH. ring.
Qed.

Lemma find_prob_Q_factor (rs : Qruleset) t (b : Q) :
  @find_prob QProb rs t b == b * gprod rs b t.
Proof. unfold find_prob. apply (fp_Q_factor rs b t b). Qed.

(* in range, the default is irrelevant *)
Lemma gp_Q_bound (rs : Qruleset) d d' vi :
  @bound QProb rs vi -> @gp QProb rs d vi = @gp QProb rs d' vi.
Proof. unfold bound, gp. intros H. apply nth_indep. auto. Qed.

Lemma gprod_bound (rs : Qruleset) d d' t :
  Forall (@bound QProb rs) t -> gprod rs d t = gprod rs d' t.
Proof.
  induction 1 as [|vi t Hvi Ht IH]; simpl; auto.
  rewrite IH, (gp_Q_bound rs d d' vi Hvi). reflexivity.
Qed.

Lemma find_prob_Q_base_compat (rs : Qruleset) t (b b' : Q) :
  Forall (@bound QProb rs) t -> b == b' ->
  @find_prob QProb rs t b == @find_prob QProb rs t b'.
Proof.
  intros Ht Hb. rewrite !find_prob_Q_factor.
  rewrite (gprod_bound rs b b' t Ht). rewrite Hb. reflexivity.
Qed.

(* find_prob is linear in the base on in-range trees *)
Lemma find_prob_Q_scale (rs : Qruleset) t (c b : Q) :
  Forall (@bound QProb rs) t ->
  @find_prob QProb rs t (c * b) == c * @find_prob QProb rs t b.
Proof.
  intros Ht. rewrite !find_prob_Q_factor.
  rewrite (gprod_bound rs (c * b) b t Ht). ring.
Qed.

Lemma gprod_unit (rs : Qruleset) d t :
  @okpt QProb rs t -> 0 <= gprod rs d t /\ gprod rs d t <= 1.
Proof.
  induction 1 as [|vi t Hvi Ht IH]; simpl.
  - split; [apply Qle_bool_iff | apply Qle_bool_iff]; reflexivity.
  - pose proof (@gp_unit QProb rs d vi Hvi) as Hu. apply QProb_unitb_iff in Hu.
    destruct Hu as [H0 H1]. destruct IH as [I0 I1]. split.
    + apply Qmult_le_0_compat; auto.
    + setoid_replace 1 with (1 * 1) by ring.
      apply Qmult_le_mono_nonneg; auto.
Qed.

Lemma find_prob_Q_nonneg (rs : Qruleset) t (b : Q) :
  @okpt QProb rs t -> 0 <= b -> 0 <= @find_prob QProb rs t b.
Proof.
  intros Ht Hb. rewrite find_prob_Q_factor.
  apply Qmult_le_0_compat; auto. apply gprod_unit; auto.
Qed.

Lemma find_prob_Q_le_base (rs : Qruleset) t (b : Q) :
  @okpt QProb rs t -> 0 <= b -> @find_prob QProb rs t b <= b.
Proof.
  intros Ht Hb. rewrite find_prob_Q_factor.
  destruct (gprod_unit rs b t Ht) as [H0 H1].
  apply Qle_trans with (b * 1).
  - apply Qmult_le_mono_nonneg; auto. apply Qle_refl.
  - rewrite Qmult_1_r. apply Qle_refl.
Qed.

Print Assumptions QProb.
Print Assumptions find_prob_Q_factor.
Print Assumptions find_prob_Q_base_compat.
Print Assumptions find_prob_Q_scale.
