(* The generated calculate_and_save_counter, save_indexed_counters and save_pcfg_data
   (gen/Writer_gen.v: the translation of the Python text of lib_trainer/save_pcfg_data.py,
   redone on every run) equal the hand-written models the theorems of C06 / C07 are about:
   the text of a file is TextFile.write_file of calc_probs of its counter, a folder is
   emptied and then holds exactly the files of Counters.save_indexed, the ruleset is
   Counters.save_pcfg_data installed folder by folder - over the file system of WriterRt.v,
   for every number structure, every counter, every previous content of the disk.

   The proofs state what the loop bodies of the generated text do as pointwise equations
   (decided by computation) and then use the loop lemmas of WriterRtProofs.v: they do not
   depend on variable names, f-strings vs concatenation, tuple unpacking or a named
   intermediate result. *)
From Coq Require Import String Ascii.
From Coq Require Import List NArith ZArith QArith Bool Lia Permutation Sorted Floats.
From Pcfg Require Import TextFile Counters CountersProofs LtallyProofs IoFacts WriterRt WriterSpec WriterRtProofs.
From PcfgGen Require Import Writer_gen.
Import ListNotations.
Open Scope N_scope.

Section SaveEq.
Context {O : numops} (repr : num O -> str) (encb : str -> N -> bool) (calc : counter O -> counter O).

(* ---------------------------------------------------------------- calculate_and_save_counter *)

(* the file is created (or truncated) and holds the lines of calculate_probabilities(counter),
   all of them and True when the codec can encode every line, else the lines before the first
   one it cannot and False *)
Theorem save_counter_eq : forall (p : path) (c : counter O) (enc : str) (fs : fsys),
  py_calculate_and_save_counter repr encb calc p c enc fs =
  if encodable repr encb enc (calc c) then (Ok true, fs_set p (write_text repr (calc c)) fs)
  else (Ok false, fs_set p (write_text repr (encodable_prefix repr encb enc (calc c))) fs).
Proof.
  intros p c enc fs. unfold py_calculate_and_save_counter. cbv zeta.
  unfold run_fnS, bindS at 1, try_exceptS, bindS at 1, with_open_w, bindS at 1.
  match goal with |- context [for_eachS (calc c) ?b tt] => set (body := b) end.
  rewrite (write_loop repr encb enc p body).
  - destruct (encodable repr encb enc (calc c)); reflexivity.
  - intros it u fs'. subst body. cbv beta zeta. unfold bindS, fwrite. cbn [h_enc h_path].
    unfold write_item. destruct it as [v n]. cbn [fst snd].
    repeat rewrite <- app_assoc. cbn [app]. unfold TAB, LF, NormS.
    destruct (forallb (encb enc) (v ++ 9 :: repr n ++ [10])); reflexivity.
Qed.

(* ---------------------------------------------------------------- save_indexed_counters *)

Hypothesis Hcalc : forall c, calc c = calc_probs c.

Local Notation all_encodable := (WriterSpec.all_encodable repr encb).

(* what one iteration of the saving loop does, in terms of the translated calculate_and_save_counter *)
Definition save_one (folder : path) (enc : str) (kc : pykey * counter O) : SM bool unit :=
  fun fs => match py_calculate_and_save_counter repr encb calc (path_join folder (file_name (py_str (fst kc)))) (snd kc) enc fs with
            | (Ok true, fs') => (Norm tt, fs')
            | (Ok false, fs') => (Retn false, fs')
            | (Raise e, fs') => (Exc e, fs')
            end.

Lemma save_loop (folder : path) (enc : str) (body : pykey * counter O -> unit -> SM bool unit) :
  (forall kc u fs, body kc u fs = save_one folder enc kc fs) ->
  forall (cl : list (pykey * counter O)) (fs : fsys), all_encodable enc cl = true ->
    for_eachS cl body tt fs =
    (Norm tt, fs_write_all folder (folder_texts repr (save_indexed [] (str_keys cl))) fs).
Proof.
  intros Hb. induction cl as [|[k c] r IH]; intros fs He; [reflexivity|].
  unfold WriterSpec.all_encodable in He; cbn [forallb snd] in He. apply andb_true_iff in He. destruct He as [He1 He2].
  cbn [for_eachS]. unfold bindS. rewrite Hb. unfold save_one. cbn [fst snd].
  rewrite save_counter_eq, Hcalc, He1. rewrite (IH _ He2). reflexivity.
Qed.

Lemma save_loop_fails (folder : path) (enc : str) (body : pykey * counter O -> unit -> SM bool unit) :
  (forall kc u fs, body kc u fs = save_one folder enc kc fs) ->
  forall (cl : list (pykey * counter O)) (fs : fsys), all_encodable enc cl = false ->
    exists fs', for_eachS cl body tt fs = (Retn false, fs').
Proof.
  intros Hb. induction cl as [|[k c] r IH]; intros fs He; [discriminate|].
  unfold WriterSpec.all_encodable in He; cbn [forallb snd] in He.
  cbn [for_eachS]. unfold bindS. rewrite Hb. unfold save_one. cbn [fst snd].
  rewrite save_counter_eq, Hcalc. destruct (encodable repr encb enc (calc_probs c)) eqn:E.
  - cbn [andb] in He. apply IH. exact He.
  - eexists. reflexivity.
Qed.

Ltac walk_body_spec :=
  intros root dirs files u fs'; reflexivity.

Ltac save_body_spec folder0 :=
  let kc := fresh "kc" in let u := fresh "u" in let fs' := fresh "fs" in
  intros kc u fs'; destruct kc as [k c]; cbv beta iota zeta; unfold bindS, callS, save_one; cbn [fst snd];
  match goal with |- context [py_calculate_and_save_counter ?a ?b ?cc ?pp ?c0 ?e ?f] =>
    change pp with (path_join folder0 (file_name (py_str k)));
    destruct (py_calculate_and_save_counter a b cc (path_join folder0 (file_name (py_str k))) c0 e f) as [[[|]|ex] fs'']
  end; reflexivity.

(* the folder is emptied (at every depth), then holds one file per key, named str(key).txt, with
   the lines of calculate_probabilities of its counter; what was on disk elsewhere stays *)
Theorem save_indexed_eq : forall (folder : path) (cl : list (pykey * counter O)) (enc : str) (fs : fsys),
  fs_wf fs -> all_encodable enc cl = true ->
  py_save_indexed_counters repr encb calc folder cl enc fs =
  (Ok true, fs_install folder (folder_texts repr (save_indexed [] (str_keys cl))) fs).
Proof.
  intros folder cl enc fs Hwf He. unfold py_save_indexed_counters. cbv zeta.
  unfold run_fnS, bindS at 1, try_exceptS, bindS at 1, os_walk, bindS at 1.
  match goal with |- context [for_eachS (walk fs folder) ?b tt] => set (wbody := b) end.
  rewrite (unlink_walk folder fs Hwf wbody) by (subst wbody; walk_body_spec).
  unfold NormS at 1. unfold bindS at 1.
  match goal with |- context [for_eachS cl ?b tt] => set (sbody := b) end.
  rewrite (save_loop folder enc sbody).
  - reflexivity.
  - subst sbody. save_body_spec folder.
  - exact He.
Qed.

(* a line the codec cannot encode: the function returns False (files written before it stay) *)
Theorem save_indexed_fails : forall (folder : path) (cl : list (pykey * counter O)) (enc : str) (fs : fsys),
  fs_wf fs -> all_encodable enc cl = false ->
  exists fs', py_save_indexed_counters repr encb calc folder cl enc fs = (Ok false, fs').
Proof.
  intros folder cl enc fs Hwf He. unfold py_save_indexed_counters. cbv zeta.
  unfold run_fnS, bindS at 1, try_exceptS, bindS at 1, os_walk, bindS at 1.
  match goal with |- context [for_eachS (walk fs folder) ?b tt] => set (wbody := b) end.
  rewrite (unlink_walk folder fs Hwf wbody) by (subst wbody; walk_body_spec).
  unfold NormS at 1. unfold bindS at 1.
  match goal with |- context [for_eachS cl ?b tt] => set (sbody := b) end.
  destruct (save_loop_fails folder enc sbody) with (cl := cl) (fs := fs_clean folder fs) as [fs' E].
  - subst sbody. save_body_spec folder.
  - exact He.
  - rewrite E. eexists. reflexivity.
Qed.

(* ---------------------------------------------------------------- save_pcfg_data *)

Local Notation ruleset_encodable := (WriterSpec.ruleset_encodable repr encb).

Lemma all_encodable_files (enc : str) (cl : list (pykey * counter O)) :
  all_encodable enc cl = forallb (fun nf => encodable repr encb enc (snd nf)) (save_indexed [] (str_keys cl)).
Proof.
  unfold WriterSpec.all_encodable, save_indexed, str_keys. rewrite map_map. induction cl as [|kc r IH]; [reflexivity|].
  cbn [forallb map snd]. rewrite IH. reflexivity.
Qed.

Lemma save_step (folder : path) (cl : list (pykey * counter O)) (enc : str) (fs : fsys) (k : bool -> SM bool bool) :
  fs_wf fs -> forallb (fun nf => encodable repr encb enc (snd nf)) (save_indexed [] (str_keys cl)) = true ->
  bindS (callS (py_save_indexed_counters repr encb calc folder cl enc)) k fs =
  k true (fs_install folder (folder_texts repr (save_indexed [] (str_keys cl))) fs).
Proof.
  intros Hwf He. unfold bindS, callS. rewrite save_indexed_eq; [reflexivity|exact Hwf|].
  rewrite all_encodable_files. exact He.
Qed.

Lemma bindS_NormS {R A B : Type} (a : A) (k : A -> SM R B) : bindS (NormS a) k = k a.
Proof. reflexivity. Qed.

(* a loop over a literal table of folders unfolds into nested sequences: (s1; s2); s3 is s1; (s2; s3) *)
Lemma bindS_assoc {R A B C : Type} (m : SM R A) (k1 : A -> SM R B) (k2 : B -> SM R C) (fs : fsys) :
  bindS (bindS m k1) k2 fs = bindS m (fun a => bindS (k1 a) k2) fs.
Proof. unfold bindS. destruct (m fs) as [[a|r|e] fs']; reflexivity. Qed.

(* the whole ruleset: every folder of the model emptied and rewritten, in the model's order, with the
   training encoding (Grammar and Prince: ASCII); [base] = count_base_structures after the Markov block *)
Theorem save_pcfg_data_eq : forall (base : path) (P : pcounters) (sens : bool) (cov : num O) (n : N) (enc : str) (fs : fsys),
  fs_wf fs -> ruleset_encodable enc (save_pcfg_data O P sens cov n) = true ->
  py_save_pcfg_data repr encb calc base (parser_of O P (with_markov cov n (of_counts (sc_base (pc_structs P))))) enc sens fs =
  (Ok true, install_all repr base (save_pcfg_data O P sens cov n) fs).
Proof.
  intros base P sens cov n enc fs Hwf He.
  unfold py_save_pcfg_data. cbv zeta. unfold run_fnS.
  unfold parser_of. cbn [po_count_keyboard po_count_emails po_count_email_providers po_count_website_urls
    po_count_website_hosts po_count_website_prefixes po_count_years po_count_context_sensitive po_count_alpha
    po_count_alpha_masks po_count_digits po_count_other po_count_base_structures po_count_raw_base_structures po_count_prince].
  unfold WriterSpec.ruleset_encodable, save_pcfg_data in He. cbn [forallb fst snd] in He.
  repeat (apply andb_true_iff in He; let H := fresh "E" in destruct He as [H He]).
  unfold enc_of in *.
  repeat match goal with
         | H : context [str_eqb (str_of_string ?a) (str_of_string ?b)] |- _ =>
             let v := eval vm_compute in (str_eqb (str_of_string a) (str_of_string b)) in
             change (str_eqb (str_of_string a) (str_of_string b)) with v in H
         end.
  cbn [orb] in *. cbv iota in *.
  destruct sens; cbv iota in *;
  repeat (first [ rewrite (bindS_NormS)
                | rewrite bindS_assoc
                | rewrite save_step by
                    first [ repeat apply fs_install_wf; exact Hwf
                          | rewrite ?str_keys_klkeys;
                            first [exact E|exact E0|exact E1|exact E2|exact E3|exact E4|exact E5|exact E6|exact E7|exact E8|exact E9] ] ];
          cbn [negb for_eachS]);
  rewrite ?str_keys_klkeys; reflexivity.
Qed.

Lemma save_step_cases (folder : path) (cl : list (pykey * counter O)) (enc : str) (fs : fsys) (k : bool -> SM bool bool) :
  fs_wf fs ->
  (forallb (fun nf => encodable repr encb enc (snd nf)) (save_indexed [] (str_keys cl)) = true /\
   bindS (callS (py_save_indexed_counters repr encb calc folder cl enc)) k fs =
   k true (fs_install folder (folder_texts repr (save_indexed [] (str_keys cl))) fs)) \/
  (exists fs', bindS (callS (py_save_indexed_counters repr encb calc folder cl enc)) k fs = k false fs').
Proof.
  intro Hwf. destruct (all_encodable enc cl) eqn:E.
  - left. rewrite <- all_encodable_files. split; [exact E|]. apply save_step; [exact Hwf|].
    rewrite <- all_encodable_files. exact E.
  - right. destruct (save_indexed_fails folder cl enc fs Hwf E) as [fs' Hf]. exists fs'.
    unfold bindS, callS. rewrite Hf. reflexivity.
Qed.

(* a line some codec cannot encode: save_pcfg_data returns False (it never raises) *)
Theorem save_pcfg_data_fails : forall (base : path) (P : pcounters) (sens : bool) (cov : num O) (n : N) (enc : str) (fs : fsys),
  fs_wf fs -> ruleset_encodable enc (save_pcfg_data O P sens cov n) = false ->
  exists fs', py_save_pcfg_data repr encb calc base (parser_of O P (with_markov cov n (of_counts (sc_base (pc_structs P))))) enc sens fs =
              (Ok false, fs').
Proof.
  intros base P sens cov n enc fs Hwf He.
  unfold py_save_pcfg_data. cbv zeta. unfold run_fnS.
  unfold parser_of. cbn [po_count_keyboard po_count_emails po_count_email_providers po_count_website_urls
    po_count_website_hosts po_count_website_prefixes po_count_years po_count_context_sensitive po_count_alpha
    po_count_alpha_masks po_count_digits po_count_other po_count_base_structures po_count_raw_base_structures po_count_prince].
  unfold WriterSpec.ruleset_encodable, save_pcfg_data in He. cbn [forallb fst snd] in He.
  unfold enc_of in He.
  repeat match goal with
         | H : context [str_eqb (str_of_string ?a) (str_of_string ?b)] |- _ =>
             let v := eval vm_compute in (str_eqb (str_of_string a) (str_of_string b)) in
             change (str_eqb (str_of_string a) (str_of_string b)) with v in H
         end.
  cbn [orb] in He. cbv iota in He.
  destruct sens; cbv iota in He;
  repeat (first
    [ rewrite (bindS_NormS)
    | rewrite bindS_assoc
    | match goal with
      | |- context [bindS (callS (py_save_indexed_counters repr encb calc ?f ?cl ?e)) ?k ?fs0] =>
          let Ht := fresh "Ht" in let Hs := fresh "Hs" in let fs' := fresh "fs" in
          destruct (save_step_cases f cl e fs0 k ltac:(repeat apply fs_install_wf; exact Hwf)) as [[Ht Hs]|[fs' Hs]];
          rewrite Hs; cbn [negb for_eachS]; [rewrite ?str_keys_klkeys in Ht | eexists; reflexivity]
      end ]);
  exfalso;
  (match type of He with ?x = false => assert (Hall : x = true) end;
  [ repeat match goal with
           | |- (forallb _ _ && _) = true =>
               apply andb_true_iff; split; [match goal with Ht : forallb _ _ = true |- _ => exact Ht end|]
           end; reflexivity
  | rewrite Hall in He; discriminate ]).
Qed.

End SaveEq.

(* ---------------------------------------------------------------- with the translated calculate_probabilities *)
From Pcfg Require Import SmallGenProofsProbs PipelineStr.
From PcfgGen Require Import Small_probs_gen.

Section Source.
Context {O : numops} (repr : num O -> str) (encb : str -> N -> bool)
        (nmul : num O -> num O -> num O) (ud : str * num O).
Notation src_calc := (py_calculate_probabilities nmul ud).

Lemma src_calc_eq : forall c : counter O, src_calc c = calc_probs c.
Proof. exact (small_calc_probs_eq nmul ud). Qed.

Theorem source_save_counter_eq : forall (p : path) (c : counter O) (enc : str) (fs : fsys),
  py_calculate_and_save_counter repr encb src_calc p c enc fs =
  if encodable repr encb enc (calc_probs c) then (Ok true, fs_set p (write_text repr (calc_probs c)) fs)
  else (Ok false, fs_set p (write_text repr (encodable_prefix repr encb enc (calc_probs c))) fs).
Proof. intros. rewrite save_counter_eq, src_calc_eq. reflexivity. Qed.

Theorem source_save_indexed_eq : forall (folder : path) (cl : list (pykey * counter O)) (enc : str) (fs : fsys),
  fs_wf fs ->
  (all_encodable repr encb enc cl = true ->
   py_save_indexed_counters repr encb src_calc folder cl enc fs =
   (Ok true, fs_install folder (folder_texts repr (save_indexed [] (str_keys cl))) fs)) /\
  (all_encodable repr encb enc cl = false ->
   exists fs', py_save_indexed_counters repr encb src_calc folder cl enc fs = (Ok false, fs')).
Proof.
  intros folder cl enc fs Hwf. split; intro He.
  - apply (save_indexed_eq repr encb src_calc src_calc_eq); assumption.
  - apply (save_indexed_fails repr encb src_calc src_calc_eq); assumption.
Qed.

Theorem source_save_pcfg_data_eq : forall (base : path) (P : pcounters) (sens : bool) (cov : num O) (n : N) (enc : str) (fs : fsys),
  fs_wf fs -> ruleset_encodable repr encb enc (save_pcfg_data O P sens cov n) = true ->
  py_save_pcfg_data repr encb src_calc base (parser_of O P (with_markov cov n (of_counts (sc_base (pc_structs P))))) enc sens fs =
  (Ok true, install_all repr base (save_pcfg_data O P sens cov n) fs).
Proof. intros. apply (save_pcfg_data_eq repr encb src_calc src_calc_eq); assumption. Qed.

(* both cases: every line encodable -> True and the model's ruleset on disk; else False, never an exception *)
Theorem source_save_pcfg_data_cases : forall (base : path) (P : pcounters) (sens : bool) (cov : num O) (n : N) (enc : str) (fs : fsys),
  fs_wf fs ->
  let pp := parser_of O P (with_markov cov n (of_counts (sc_base (pc_structs P)))) in
  (ruleset_encodable repr encb enc (save_pcfg_data O P sens cov n) = true ->
   py_save_pcfg_data repr encb src_calc base pp enc sens fs = (Ok true, install_all repr base (save_pcfg_data O P sens cov n) fs)) /\
  (ruleset_encodable repr encb enc (save_pcfg_data O P sens cov n) = false ->
   exists fs', py_save_pcfg_data repr encb src_calc base pp enc sens fs = (Ok false, fs')).
Proof.
  intros base P sens cov n enc fs Hwf. cbv zeta. split; intro He.
  - apply source_save_pcfg_data_eq; assumption.
  - apply (save_pcfg_data_fails repr encb src_calc src_calc_eq); assumption.
Qed.

(* file names: one file per key, named str(key).txt, distinct for distinct keys; the folder holds
   nothing else afterwards, whatever it held before *)
Theorem source_file_names_distinct : forall (folder : path) (cl : list (pykey * counter O)) (enc : str) (fs : fsys),
  fs_wf fs -> all_encodable repr encb enc cl = true -> NoDup (map (fun kc => py_str (fst kc)) cl) ->
  let fs' := snd (py_save_indexed_counters repr encb src_calc folder cl enc fs) in
  fs_list folder fs' = folder_texts repr (save_indexed [] (str_keys cl)) /\
  map fst (fs_list folder fs') = map (fun kc => file_name (py_str (fst kc))) cl /\
  NoDup (map fst (fs_list folder fs')) /\ fs_wf fs'.
Proof.
  intros folder cl enc fs Hwf He Hn. cbv zeta.
  rewrite (proj1 (source_save_indexed_eq folder cl enc fs Hwf) He). cbn [snd].
  assert (Hnames : map fst (folder_texts repr (save_indexed [] (str_keys cl))) = map (fun kc => file_name (py_str (fst kc))) cl).
  { unfold folder_texts, save_indexed, str_keys. rewrite !map_map. reflexivity. }
  assert (Hnd : NoDup (map (fun kc : pykey * counter O => file_name (py_str (fst kc))) cl)).
  { rewrite <- (map_map (fun kc : pykey * counter O => py_str (fst kc)) file_name).
    apply NoDup_map_inj; [apply file_name_inj|exact Hn]. }
  rewrite fs_list_install by (rewrite Hnames; exact Hnd).
  repeat split.
  - exact Hnames.
  - rewrite Hnames. exact Hnd.
  - apply fs_install_wf. exact Hwf.
Qed.

(* the length-indexed folders: one file per length, in first-seen order, each the list of the items
   of that length *)
Theorem source_length_indexed : forall (folder : path) (enc : str) (fs : fsys) (l : list str),
  fs_wf fs -> all_encodable repr encb enc (klkeys (ltally l)) = true ->
  exists fs', py_save_indexed_counters repr encb src_calc folder (klkeys (ltally l)) enc fs = (Ok true, fs') /\
    fs_list folder fs' =
    map (fun n => (file_name (dec_of_N n), write_text repr (calc_probs (of_counts (tally (filter (len_is n) l))))))
        (nodup_first_N (map slen l)).
Proof.
  intros folder enc fs l Hwf He.
  eexists. split; [apply (proj1 (source_save_indexed_eq folder _ enc fs Hwf) He)|].
  rewrite str_keys_klkeys. rewrite fs_list_install.
  - rewrite ltally_spec. unfold folder_texts, save_indexed, lkeys. rewrite !map_map. reflexivity.
  - unfold folder_texts, save_indexed, lkeys. rewrite !map_map. cbn [fst].
    rewrite <- (map_map (fun lc : N * list (str * N) => dec_of_N (fst lc)) file_name).
    apply NoDup_map_inj; [apply file_name_inj|].
    rewrite <- (map_map fst dec_of_N). apply NoDup_map_inj; [apply dec_of_N_inj|apply ltally_keys_nodup].
Qed.

End Source.

(* each_once_sorted for the file the translated writer leaves on disk *)
Theorem source_file_each_once_sorted : forall (repr : num QNum -> str) (encb : str -> N -> bool)
    (nmul : num QNum -> num QNum -> num QNum) (ud : str * num QNum)
    (p : path) (enc : str) (fs : fsys) (items : list str), items <> [] ->
  let c := @of_counts QNum (tally items) in
  @encodable QNum repr encb enc (calc_probs c) = true ->
  exists file : counter QNum,
    @py_calculate_and_save_counter QNum repr encb (@py_calculate_probabilities QNum nmul ud) p c enc fs =
      (Ok true, fs_set p (@write_text QNum repr file) fs) /\
    file = map (fun kv => (fst kv, (snd kv / total c)%Q)) (most_common c) /\
    Permutation (most_common c) c /\
    NoDup (map fst file) /\
    (forall v, In v (map fst file) <-> In v items) /\
    (forall v q, In (v, q) file ->
       (q == inject_Z (Z.of_nat (count_str v items)) / inject_Z (Z.of_nat (length items)))%Q) /\
    StronglySorted (fun a b => (snd b <= snd a)%Q) file /\
    (forall q : Q, filter (fun kv => Qeq_bool (snd kv) q) (most_common c) = filter (fun kv => Qeq_bool (snd kv) q) c) /\
    map fst c = nodup_first items.
Proof.
  intros repr encb nmul ud p enc fs items Hi. cbv zeta. intro He.
  exists (calc_probs (@of_counts QNum (tally items))). split.
  - rewrite (@source_save_counter_eq QNum), He. reflexivity.
  - exact (each_once_sorted items Hi).
Qed.

(* binary64: the text is TextFile.write_file, what the readers of C07 invert *)
Lemma write_text_F64 : forall (repr : float -> str) (l : list (str * float)), @write_text FNum repr l = write_file repr l.
Proof. reflexivity. Qed.

(* the generated functions run: a folder with a stale file (also one level down) is emptied and gets
   the two lists; a name the codec cannot encode makes the writer return False *)
Example source_save_example :
  let repr : num QNum -> str := fun q => if Qeq_bool q (1 # 2) then [48;46;53] else [49;46;48] in
  let encb (enc : str) (c : N) : bool := N.ltb c 128 in
  let calc := @py_calculate_probabilities QNum Qmult ([], 0%Q) in
  let folder : path := [[82]; [65]] in
  let fs0 : fsys := [([[82]; [65]; [57;46;116;120;116]], [120]); ([[82]; [65]; [115]; [111]], [121]); ([[82]; [68]; [49]], [122])] in
  let cl : list (pykey * counter QNum) := [(KInt 1, [([97], 1%Q); ([98], 1%Q)]); (KInt 2, [([99;100], 3%Q)])] in
  fs_wf fs0 /\ all_encodable repr encb [] cl = true /\
  py_save_indexed_counters repr encb calc folder cl [] fs0 =
    (Ok true, [([[82]; [68]; [49]], [122]);
               ([[82]; [65]; [49;46;116;120;116]], [97;9;48;46;53;10;98;9;48;46;53;10]);
               ([[82]; [65]; [50;46;116;120;116]], [99;100;9;49;46;48;10])]) /\
  fst (py_save_indexed_counters repr encb calc folder [(KInt 1, [([233], 1%Q)])] [] fs0) = Ok false.
Proof.
  cbv zeta. split; [|split; [|split]].
  - unfold fs_wf. cbn. repeat constructor; cbn; intuition discriminate.
  - vm_compute. reflexivity.
  - vm_compute. reflexivity.
  - vm_compute. reflexivity.
Qed.
