(* TrainerRunInst.v - the collaborators of run_trainer instantiated with the component models the property
   theorems are about, and the translated run_trainer (gen/TrainerRun_gen.v) shown to BE the trainer half of
   the pipeline model (Pipeline.train) followed by the translated writers:

     TrainerFileInput / read_password   Reader.read_text over the text of the file in the file system of
                                        WriterRt.v (translate_reader.py proves the translated reader equal
                                        to it: C19_source_reader_is_model)
     MultiWordDetector.train            Segment.train    (pass 1, Pipeline.mw_pass)
     PCFGPasswordParser / parse         Segment.parse, the parser object = the results so far, its counters
                                        Pipeline.counters_of (translate_detect.py / translate_writer.py tie
                                        parse and its counting tail to these)
     print_statistics                   the translated py_print_statistics
     the Markov block                   translate_writer's py_run_trainer_markov_block
     save_pcfg_data                     the translated py_save_pcfg_data of gen/Writer_gen.v
     AlphabetGenerator, AlphabetLookup, calc_omen_keyspace, find_omen_level, save_config_file,
     save_omen_rules_to_disk            any functions that do not raise (the OMEN side is C11 / C18's; it
                                        does not reach the PCFG counters: that is what this file proves)

   Definitions of the instance first, then the theorems. *)
From Coq Require Import String Ascii.
From Coq Require Import List NArith ZArith Bool Lia.
From Pcfg Require Import ProbAlg Str Multiword Detect Segment TextFile Counters Reader ReaderProofs Pipeline.
From Pcfg Require Import WriterRt WriterSpec WriterRtProofs WriterGenProofs.
From Pcfg Require Import TrainerRunRt TrainerRunModel TrainerRunProofs TrainerRunGenProofs.
From PcfgGen Require Import Writer_gen TrainerRun_gen.
Import ListNotations.

(* the text of a file of the file system *)
Definition fs_get (p : path) (fs : fsys) : option str :=
  match List.find (fun e => path_eqb p (fst e)) fs with
  | Some e => Some (snd e)
  | None => None
  end.

(* the reader object: the text it was opened on, how it reads, num_passwords *)
Record fi_obj := { fi_text : str; fi_cfg : rcfg; fi_n : N }.

(* the detector: its three parameters and its lookup table *)
Record mw_obj := { mw_threshold : Z; mw_min_len : Z; mw_max_len : Z; mw_map : mwmap }.

Section Inst.
Context {A : palg} (R : parith A) (E : env).
Notation OPS := (ops_of R).

(* the parser object: the detector it was made from, what parse returned so far, and
   count_base_structures once something was assigned to it *)
Record pp_obj := { pp_mw : mw_obj; pp_results : list parsed; pp_base : option (counter OPS) }.

Definition pp_counters (pp : pp_obj) : pcounters := counters_of (pp_results pp).
Definition pp_view (pp : pp_obj) : parser_obj OPS :=
  parser_of OPS (pp_counters pp)
            (match pp_base pp with
             | Some c => c
             | None => of_counts (sc_base (pc_structs (pp_counters pp)))
             end).
Definition pp_update (pp : pp_obj) (po : parser_obj OPS) : pp_obj :=
  {| pp_mw := pp_mw pp; pp_results := pp_results pp; pp_base := Some (po_count_base_structures po) |}.

Definition mw_train_obj (m : mw_obj) (pw : str) (set_threshold : bool) : mw_obj :=
  {| mw_threshold := mw_threshold m; mw_min_len := mw_min_len m; mw_max_len := mw_max_len m;
     mw_map := Segment.train (e_isalpha E) (e_lower E) (mw_threshold m) (mw_min_len m) (mw_max_len m) (mw_map m) set_threshold pw |}.

Definition pp_parse_obj (pp : pp_obj) (pw : str) : res pp_obj :=
  let m := pp_mw pp in
  match Segment.parse (e_isalpha E) (e_isdigit E) (e_isupper E) (e_lower E) (e_aligned E) (e_kbs E) (e_fp_words E)
                      (e_min_run E) (e_tlds E) (e_year_prefixes E) (e_context E)
                      (mw_threshold m) (mw_min_len m) (mw_max_len m) (mw_map m) pw with
  | POk x => Ok {| pp_mw := m; pp_results := pp_results pp ++ [x]; pp_base := pp_base pp |}
  | PErr => Raise ValueError
  end.

(* what the instance is generic in *)
Variable path_of : str -> path.                      (* a file name as a path of the file system *)
Variable rc : option str -> bool -> rcfg.            (* the reader for an encoding and the prefix option *)
Variables AGt OTt KSt : Type.
Variable ag_new : Z -> Z -> AGt.
Variable ag_step : AGt -> str -> AGt.
Variable ag_alpha : AGt -> str.
Variable ot_new : str -> Z -> Z -> Z -> OTt.
Variable ot_step : OTt -> str -> OTt.
Variable ot_smooth : OTt -> OTt.
Variable ks_of : OTt -> Z -> Z -> KSt.
Variable level_of : OTt -> str -> Z.
Variable ks_counter : KSt -> counter OPS.
Variable repr : num OPS -> str.
Variable encb : str -> N -> bool.
Variable calc : counter OPS -> counter OPS.
Variable save_config : path -> pinfo OPS -> fi_obj -> parser_obj OPS -> fsys -> bool * fsys.
Variable save_omen : OTt -> KSt -> list (Z * N) -> N -> path -> pinfo OPS -> fsys -> bool * fsys.

Definition pipe_collab : collab OPS :=
  {| c_W := fsys; c_FI := fi_obj; c_AG := AGt; c_MW := mw_obj; c_OT := OTt; c_PP := pp_obj; c_KS := KSt;
     c_TrainerFileInput := fun name enc prefix fs =>
       match name with
       | None => Raise TypeError
       | Some nm => match fs_get (path_of nm) fs with
                    | Some text => Ok {| fi_text := text; fi_cfg := rc enc prefix; fi_n := 0 |}
                    | None => Raise OSError
                    end
       end;
     c_AlphabetGenerator := fun a n => Ok (ag_new a n);
     c_MultiWordDetector := fun t a b => Ok {| mw_threshold := t; mw_min_len := a; mw_max_len := b; mw_map := [] |};
     c_AlphabetLookup := fun al n a b => Ok (ot_new al n a b);
     c_PCFGPasswordParser := fun m => Ok {| pp_mw := m; pp_results := []; pp_base := None |};
     c_read_password := fun fi _ =>
       let r := read_text (fi_cfg fi) (fi_text fi) in
       (Reader.out r, None, {| fi_text := fi_text fi; fi_cfg := fi_cfg fi; fi_n := Z.to_N (npw r) |});
     c_num_passwords := fi_n;
     c_process_password := fun ag pw => Ok (ag_step ag pw);
     c_get_alphabet := fun ag => Ok (ag_alpha ag);
     c_mw_train := fun m pw st => Ok (mw_train_obj m pw st);
     c_ot_parse := fun ot pw => Ok (ot_step ot pw);
     c_pp_parse := pp_parse_obj;
     c_apply_smoothing := fun ot => Ok (ot_smooth ot);
     c_calc_omen_keyspace := fun ot a b => Ok (ks_of ot a b);
     c_find_omen_level := fun ot pw => Ok (level_of ot pw);
     c_print_statistics := fun pp => match py_print_statistics (pp_view pp) with
                                     | Ok po => Ok (pp_update pp po)
                                     | Raise e => Raise e
                                     end;
     c_pp_view := pp_view;
     c_pp_update := pp_update;
     c_ks_counter := ks_counter;
     c_save_config_file := fun base pi fi pp fs => let '(b, fs') := save_config base pi fi (pp_view pp) fs in (Ok b, fs');
     c_save_omen_rules_to_disk := fun ot ks lc n base pi fs => let '(b, fs') := save_omen ot ks lc n base pi fs in (Ok b, fs');
     c_save_pcfg_data := fun base pp enc sens fs =>
       match enc with
       | Some e => py_save_pcfg_data repr encb calc base (pp_view pp) e sens fs
       | None => (Raise TypeError, fs)
       end |}.

(* the options of the pipeline model for a run: coverage, save_sensitive, the words of the --multiword file *)
Definition pipe_options (pi : pinfo OPS) (fs : fsys) : options A :=
  {| o_cov := pi_coverage pi; o_sensitive := pi_save_sensitive pi;
     o_multiword := if ostr_truthy (pi_multiword pi) then
                      match pi_multiword pi with
                      | Some nm => match fs_get (path_of nm) fs with
                                   | Some text => Reader.out (read_text (rc (pi_encoding pi) false) text)
                                   | None => []
                                   end
                      | None => []
                      end
                    else [] |}.

Notation PC := pipe_collab.

(* ---------------------------------------------------------------- the reader yields accepted passwords only *)

Lemma read_lines_out_valid : forall (Cr : rcfg) (ls : list str) (p : str),
  In p (Reader.out (read_lines Cr ls)) -> check_valid (r_rej Cr) (r_rej_empty Cr) p = true.
Proof.
  intros Cr ls p. rewrite (proj1 (read_lines_spec Cr ls)). rewrite in_flat_map. intros (l & _ & Hp).
  unfold line_out in Hp. destruct (read_line Cr l) as [q n| |] eqn:El; try contradiction.
  apply repeat_spec in Hp. subst q. exact (proj1 (yielded_is_valid Cr l p n El)).
Qed.

Lemma filter_all_true : forall {X : Type} (f : X -> bool) (l : list X), (forall x, In x l -> f x = true) -> filter f l = l.
Proof.
  intros X f l. induction l as [|x r IH]; intro H; cbn [filter]; [reflexivity|].
  rewrite (H x (or_introl eq_refl)). f_equal. apply IH. intros y Hy. apply H. right. exact Hy.
Qed.

(* check_valid of the reader = the input filter of the pipeline model *)
Definition reader_agrees : Prop :=
  forall enc prefix, r_rej (rc enc prefix) = e_rejected E /\ r_rej_empty (rc enc prefix) = e_rej_empty E.

Lemma filter_accepted_out : reader_agrees -> forall enc prefix text,
  filter (accepted_pw E) (Reader.out (read_text (rc enc prefix) text)) = Reader.out (read_text (rc enc prefix) text).
Proof.
  intros Hr enc prefix text. apply filter_all_true. intros p Hp. unfold accepted_pw.
  destruct (Hr enc prefix) as [H1 H2]. rewrite <- H1, <- H2. exact (read_lines_out_valid _ _ p Hp).
Qed.

(* ---------------------------------------------------------------- the loops of the instance *)

(* the detector keeps its parameters; its table is the model's fold *)
Definition mw_params_ok (m : mw_obj) : Prop :=
  mw_threshold m = e_mw_threshold E /\ mw_min_len m = e_mw_min_len E /\ mw_max_len m = e_mw_max_len E.

Lemma mw_fold : forall (st : bool) (ws : list str) (m : mw_obj), mw_params_ok m ->
  let m' := fold_left (fun m w => mw_train_obj m w st) ws m in
  mw_params_ok m' /\ mw_map m' = fold_left (fun mm w => train_mw E mm st w) ws (mw_map m).
Proof.
  intros st ws. induction ws as [|w r IH]; intros m Hm; cbn [fold_left]; [split; [exact Hm | reflexivity]|].
  assert (Hm' : mw_params_ok (mw_train_obj m w st)) by exact Hm.
  destruct (IH _ Hm') as [H1 H2]. split; [exact H1|]. rewrite H2. f_equal.
  unfold mw_train_obj, train_mw. cbn [mw_map]. destruct Hm as (Ha & Hb & Hc). rewrite Ha, Hb, Hc. reflexivity.
Qed.

(* pass 2 on the parser: Pipeline.parse_all *)
Lemma pp_fold : forall (pws : list str) (m : mw_obj) (acc : list parsed) (b : option (counter OPS)), mw_params_ok m ->
  fold_res pp_parse_obj pws {| pp_mw := m; pp_results := acc; pp_base := b |} =
  match parse_all (parse_pw E (mw_map m)) pws with
  | Some rs => Ok {| pp_mw := m; pp_results := acc ++ rs; pp_base := b |}
  | None => Raise ValueError
  end.
Proof.
  intros pws m. induction pws as [|pw r IH]; intros acc b Hm; cbn [fold_res parse_all].
  - rewrite app_nil_r. reflexivity.
  - unfold pp_parse_obj at 1. cbn [pp_mw pp_results pp_base]. unfold parse_pw at 1.
    destruct Hm as (Ha & Hb & Hc). rewrite Ha, Hb, Hc.
    match goal with |- context [Segment.parse ?a1 ?a2 ?a3 ?a4 ?a5 ?a6 ?a7 ?a8 ?a9 ?a10 ?a11 ?a12 ?a13 ?a14 ?a15 ?a16] =>
      destruct (Segment.parse a1 a2 a3 a4 a5 a6 a7 a8 a9 a10 a11 a12 a13 a14 a15 a16) as [|x] end.
    + reflexivity.
    + rewrite (IH (acc ++ [x]) b (conj Ha (conj Hb Hc))).
      destruct (parse_all (parse_pw E (mw_map m)) r) as [rs|]; [|reflexivity].
      rewrite <- app_assoc. reflexivity.
Qed.

(* ---------------------------------------------------------------- folds of steps that do not raise *)

Lemma fold_left_pair : forall {S1 S2 X : Type} (f : S1 -> X -> S1) (g : S2 -> X -> S2) (l : list X) s1 s2,
  fold_left (fun s x => (f (fst s) x, g (snd s) x)) l (s1, s2) = (fold_left f l s1, fold_left g l s2).
Proof. intros S1 S2 X f g l. induction l as [|x r IH]; intros s1 s2; cbn [fold_left fst snd]; [reflexivity | apply IH]. Qed.

Lemma fold_res_left_total : forall {S1 S2 X : Type} (f : S1 -> X -> S1) (g : S2 -> X -> res S2) (l : list X) s1 s2,
  fold_res (fun s x => rbind (Ok (f (fst s) x)) (fun a => rbind (g (snd s) x) (fun b => Ok (a, b)))) l (s1, s2) =
  match fold_res g l s2 with
  | Ok t2 => Ok (fold_left f l s1, t2)
  | Raise e => Raise e
  end.
Proof.
  intros S1 S2 X f g l. induction l as [|x r IH]; intros s1 s2; cbn [fold_res fold_left fst snd rbind]; [reflexivity|].
  destruct (g s2 x) as [b|e]; cbn [rbind]; [apply IH | reflexivity].
Qed.

Lemma enc_set_alphabet : forall (O : numops) (p : pinfo O) (a : str), pi_encoding (set_pi_alphabet p a) = pi_encoding p.
Proof. intros O p a. destruct p. reflexivity. Qed.
Lemma sens_set_alphabet : forall (O : numops) (p : pinfo O) (a : str), pi_save_sensitive (set_pi_alphabet p a) = pi_save_sensitive p.
Proof. intros O p a. destruct p. reflexivity. Qed.

Lemma length_eqb_0 : forall {X : Type} (l : list X), (N.of_nat (length l) =? 0)%N = is_nil l.
Proof. intros X l. destruct l; reflexivity. Qed.

Lemma match_is_nil : forall {X Y : Type} (l : list X) (a b : Y),
  match l with [] => a | _ :: _ => b end = if is_nil l then a else b.
Proof. intros X Y l a b. destruct l; reflexivity. Qed.

(* ---------------------------------------------------------------- the three passes of the instance *)

Section Run.
Variables (pi : pinfo OPS) (fs : fsys) (nm text : str).
Hypothesis Hfile : pi_training_file pi = Some nm.
Hypothesis Htext : fs_get (path_of nm) fs = Some text.
(* a --multiword file that is named exists *)
Hypothesis Hmw_file : ostr_truthy (pi_multiword pi) = true ->
  exists mnm mtext, pi_multiword pi = Some mnm /\ fs_get (path_of mnm) fs = Some mtext.
(* the detector's parameters in the source are those of the model's environment *)
Hypothesis Hparams : e_mw_threshold E = 5%Z /\ e_mw_min_len E = 4%Z /\ e_mw_max_len E = 21%Z.
Hypothesis Hagree : reader_agrees.

Let rd := read_text (rc (pi_encoding pi) (pi_prefixcount pi)) text.
Let seq := Reader.out rd.
(* no negative count prefix: num_passwords is the number of passwords yielded (C19_three_passes) *)
Hypothesis Hn : npw rd = Z.of_nat (length seq).

Let o := pipe_options pi fs.
Let mwf : mwmap := mw_pass E (o_multiword o) seq.
Let ag1 := fold_left ag_step seq (ag_new (pi_alphabet_size pi) (pi_ngram pi)).
Let ot2 := ot_smooth (fold_left ot_step seq (ot_new (ag_alpha ag1) (pi_ngram pi) 1 (pi_max_len pi))).

(* what the passes hand to the writers when pass 2 parsed the passwords to rs *)
Definition pipe_objs (rs : list parsed) : trained_objs PC :=
  @Build_trained_objs OPS PC
    (set_pi_alphabet pi (ag_alpha ag1))
    {| fi_text := text; fi_cfg := rc (pi_encoding pi) (pi_prefixcount pi); fi_n := N.of_nat (length seq) |}
    ot2
    (ks_of ot2 18 10000000000)
    (fold_left (fun lc pw => zcnt_add (level_of ot2 pw) 1 lc) seq [])
    (N.of_nat (length seq))
    {| pp_mw := {| mw_threshold := 5; mw_min_len := 4; mw_max_len := 21; mw_map := mwf |};
       pp_results := rs;
       pp_base := Some (of_counts (sc_base (pc_structs (counters_of rs)))) |}.

Lemma pretrain_inst : forall m0 : mw_obj, mw_params_ok m0 -> mw_map m0 = [] ->
  exists m1, pretrain PC pi m0 fs = Ok m1 /\ mw_params_ok m1 /\
             mw_map m1 = fold_left (fun mm w => train_mw E mm true w) (o_multiword o) [].
Proof.
  intros m0 Hm0 He. unfold pretrain, o, pipe_options. cbn [o_multiword].
  destruct (ostr_truthy (pi_multiword pi)) eqn:Et.
  - destruct (Hmw_file eq_refl) as (mnm & mtext & Hm & Hg). rewrite Hm.
    unfold reading, pass. cbn [c_TrainerFileInput c_read_password pipe_collab rbind fst snd fi_cfg fi_text]. rewrite Hg.
    cbn [rbind fst snd fi_cfg fi_text].
    change (step_pre PC) with (fun (m : mw_obj) (w : str) => @Ok mw_obj (mw_train_obj m w true)).
    rewrite fold_res_total. cbn [rbind fst snd].
    destruct (mw_fold true (Reader.out (read_text (rc (pi_encoding pi) false) mtext)) m0 Hm0) as [H1 H2].
    eexists. split; [reflexivity|]. split; [exact H1|]. etransitivity; [exact H2|]. rewrite He. reflexivity.
  - exists m0. split; [reflexivity|]. split; [exact Hm0 | exact He].
Qed.

Theorem passes_inst :
  passes PC pi fs =
  if is_nil seq then Ok (inl (Some false))
  else match parse_all (parse_pw E mwf) seq with
       | Some rs => Ok (inr (pipe_objs rs))
       | None => Ok (inl None)
       end.
Proof.
  unfold passes, reading.
  cbn [c_TrainerFileInput c_read_password c_AlphabetGenerator c_MultiWordDetector pipe_collab rbind].
  rewrite Hfile, Htext. cbn [rbind fi_cfg fi_text]. fold rd. fold seq.
  set (m0 := {| mw_threshold := 5%Z; mw_min_len := 4%Z; mw_max_len := 21%Z; mw_map := [] |}).
  assert (Hm0 : mw_params_ok m0) by (destruct Hparams as (Ha & Hb & Hc); repeat split; symmetry; assumption).
  destruct (pretrain_inst m0 Hm0 eq_refl) as (m1 & Hp & Hm1 & Hmap1). rewrite Hp. cbn [rbind].
  unfold pass. cbn [fst snd].
  (* pass 1 *)
  change (step1 PC) with
    (fun (s : AGt * mw_obj) (pw : str) => @Ok (AGt * mw_obj) (ag_step (fst s) pw, mw_train_obj (snd s) pw false)).
  rewrite (fold_res_total (fun (s : AGt * mw_obj) (pw : str) => (ag_step (fst s) pw, mw_train_obj (snd s) pw false))).
  rewrite (fold_left_pair ag_step (fun m pw => mw_train_obj m pw false)). cbn [rbind].
  destruct (mw_fold false seq m1 Hm1) as [Hm2 Hmap2]. set (m2 := fold_left (fun m pw => mw_train_obj m pw false) seq m1) in *.
  cbn [c_get_alphabet c_num_passwords c_AlphabetLookup c_PCFGPasswordParser pipe_collab rbind fi_n]. fold ag1.
  rewrite Hn, <- nat_N_Z, N2Z.id.
  rewrite length_eqb_0. destruct (is_nil seq); [reflexivity|].
  (* pass 2 *)
  change (step2 PC) with
    (fun (s : OTt * pp_obj) (pw : str) =>
       rbind (@Ok OTt (ot_step (fst s) pw)) (fun a => rbind (pp_parse_obj (snd s) pw) (fun b => Ok (a, b)))).
  rewrite (fold_res_left_total ot_step pp_parse_obj). rewrite (pp_fold seq m2 [] None Hm2).
  assert (Emap : mw_map m2 = mwf).
  { etransitivity; [exact Hmap2|]. rewrite Hmap1. reflexivity. }
  rewrite Emap.
  destruct (parse_all (parse_pw E mwf) seq) as [rs|]; cbn [rbind app]; [|reflexivity].
  cbn [c_apply_smoothing c_calc_omen_keyspace c_print_statistics pipe_collab rbind]. fold ot2.
  (* pass 3 *)
  change (step3 PC ot2) with (fun (lc : list (Z * N)) (pw : str) => @Ok (list (Z * N)) (zcnt_add (level_of ot2 pw) 1 lc)).
  rewrite (fold_res_total (fun (lc : list (Z * N)) (pw : str) => zcnt_add (level_of ot2 pw) 1 lc)). cbn [rbind].
  rewrite py_print_statistics_reads_only. cbn [rbind].
  unfold pipe_objs. do 3 f_equal.
  unfold pp_update, pp_view, pp_counters. cbn [pp_mw pp_results pp_base parser_of po_count_base_structures].
  clearbody m2. destruct m2 as [a b c d]. unfold mw_params_ok in Hm2. cbn [mw_threshold mw_min_len mw_max_len mw_map] in Hm2, Emap.
  destruct Hm2 as (Ha & Hb & Hc). destruct Hparams as (Pa & Pb & Pc). congruence.
Qed.

(* the trainer half of the pipeline model on the same sequence *)
Theorem train_inst :
  Pipeline.train E o seq =
  if is_nil seq then None
  else match parse_all (parse_pw E mwf) seq with
       | Some rs => Some {| t_counters := counters_of rs; t_n := N.of_nat (length seq);
                            t_cov := pi_coverage pi; t_sens := pi_save_sensitive pi |}
       | None => None
       end.
Proof.
  unfold Pipeline.train.
  assert (Hseq : filter (accepted_pw E) seq = seq) by (apply (filter_accepted_out Hagree)).
  assert (Hpre : filter (accepted_pw E) (o_multiword o) = o_multiword o).
  { unfold o, pipe_options. cbn [o_multiword]. destruct (ostr_truthy (pi_multiword pi)); [|reflexivity].
    destruct (pi_multiword pi) as [mnm|]; [|reflexivity]. destruct (fs_get (path_of mnm) fs) as [mtext|]; [|reflexivity].
    apply (filter_accepted_out Hagree). }
  rewrite Hseq, Hpre. rewrite (match_is_nil (X:=str)). fold mwf. destruct (@is_nil str seq); [reflexivity|].
  destruct (parse_all (parse_pw E mwf) seq); reflexivity.
Qed.

(* the Markov block goes on only with the model's pseudo-count *)
Lemma m_markov_norm : forall (cov : num OPS) (n : N) (omen c cbs : counter OPS),
  m_markov cov n omen c = Norm cbs -> cbs = with_markov cov n c.
Proof.
  intros cov n omen c cbs. unfold m_markov, with_markov. destruct omen.
  - destruct (neqb OPS cov (none OPS)); [|discriminate]. intro H. inversion H. reflexivity.
  - intro H. inversion H. reflexivity.
Qed.

(* THE tie: the translated run_trainer on the instance is the trainer of the pipeline model, then the Markov
   block on count_base_structures of the counters that model computes, then the three writers *)
Theorem run_trainer_is_pipeline : forall base : path,
  py_run_trainer PC pi base fs =
  match Pipeline.train E o seq with
  | None => (Ok (if is_nil seq then Some false else None), fs)
  | Some t =>
      match parse_all (parse_pw E mwf) seq with
      | None => (Ok None, fs)
      | Some rs =>
          match @m_markov OPS (t_cov t) (t_n t) (ks_counter (to_keyspace (pipe_objs rs)))
                         (of_counts (sc_base (pc_structs (t_counters t)))) with
          | Exc e => (Raise e, fs)
          | Retn b => (Ok (Some b), fs)
          | Norm cbs =>
              save_all PC (to_pinfo (pipe_objs rs)) base (to_reader (pipe_objs rs)) (to_omen (pipe_objs rs))
                       (to_keyspace (pipe_objs rs)) (to_levels (pipe_objs rs)) (t_n t)
                       {| pp_mw := pp_mw (to_parser (pipe_objs rs)); pp_results := rs; pp_base := Some cbs |} fs
          end
      end
  end.
Proof.
  intro base. rewrite py_run_trainer_is_model. unfold m_run_trainer. rewrite passes_inst, train_inst.
  destruct (is_nil seq); [reflexivity|].
  destruct (parse_all (parse_pw E mwf) seq) as [rs|]; [|reflexivity].
  unfold finish. cbn [t_cov t_n t_counters].
  reflexivity.
Qed.

(* where the trainer of the pipeline model stops without a ruleset (no valid password, or parse raises), the
   translated run_trainer returns False / None and leaves the disk as it was *)
Theorem run_trainer_none : forall base : path,
  Pipeline.train E o seq = None ->
  py_run_trainer PC pi base fs = (Ok (if @is_nil str seq then Some false else None), fs).
Proof. intros base Hnone. rewrite run_trainer_is_pipeline, Hnone. reflexivity. Qed.

(* ---------------------------------------------------------------- every accepted password is parsed exactly once *)

Lemma parse_all_Forall2 : forall (f : str -> presult) (pws : list str) (rs : list parsed),
  parse_all f pws = Some rs -> Forall2 (fun pw x => f pw = POk x) pws rs.
Proof.
  intros f pws. induction pws as [|pw r IH]; intros rs H; cbn [parse_all] in H.
  - inversion H. constructor.
  - destruct (f pw) as [|x] eqn:Ef; [discriminate H|]. destruct (parse_all f r) as [xs|]; [|discriminate H].
    inversion H. constructor; [exact Ef | apply IH; reflexivity].
Qed.

(* in a run that returns True the parser handed to the writers holds exactly one parse result per password of
   the sequence, in order, each the model's segmentation with the detector as pass 1 left it; its counters are
   the tallies of these results (Pipeline.counters_of) *)
Theorem run_true_parsed_once : forall (base : path) (fs' : fsys),
  py_run_trainer PC pi base fs = (Ok (Some true), fs') ->
  exists rs : list parsed,
    Forall2 (fun pw x => parse_pw E mwf pw = POk x) seq rs /\
    passes PC pi fs = Ok (inr (pipe_objs rs)) /\
    pp_results (to_parser (pipe_objs rs)) = rs /\
    pp_counters (to_parser (pipe_objs rs)) = counters_of rs.
Proof.
  intros base fs' H. rewrite py_run_trainer_is_model in H. unfold m_run_trainer in H. rewrite passes_inst in H |- *.
  destruct (@is_nil str seq); [discriminate H|].
  destruct (parse_all (parse_pw E mwf) seq) as [rs|] eqn:Ep; [|discriminate H].
  exists rs. split; [exact (parse_all_Forall2 _ _ _ Ep)|]. repeat split; reflexivity.
Qed.

(* ---------------------------------------------------------------- what is on disk after a successful run *)

Lemma some_case : forall {X Y : Type} (ox : option X) (f : X -> Y) (d y : Y), d <> y ->
  match ox with Some x => f x | None => d end = y -> exists x, ox = Some x /\ f x = y.
Proof. intros X Y ox f d y Hd H. destruct ox as [x|]; [exists x; split; [reflexivity | exact H] | contradiction]. Qed.

Hypothesis calc_eq : forall c : counter OPS, calc c = calc_probs c.      (* C06_source_calculate_probabilities_is_model *)
Hypothesis Hwf : fs_wf fs.
Hypothesis Hcfg_wf : forall b p f po w, fs_wf w -> fs_wf (snd (save_config b p f po w)).
Hypothesis Homen_wf : forall ot ks lc n b p w, fs_wf w -> fs_wf (snd (save_omen ot ks lc n b p w)).

(* when the translated run_trainer returns True, the pipeline's trainer succeeded on the reader's sequence and
   the ruleset folders on disk are exactly the files of Pipeline.save of what it trained, installed by the
   translated save_pcfg_data over the disk the config / OMEN writers left *)
Theorem run_trainer_writes_pipeline_ruleset : forall (base : path) (fs' : fsys),
  py_run_trainer PC pi base fs = (Ok (Some true), fs') ->
  exists (t : trained A) (fs2 : fsys) (enc : str),
    Pipeline.train E o seq = Some t /\
    t_n t = N.of_nat (length seq) /\ t_cov t = pi_coverage pi /\ t_sens t = pi_save_sensitive pi /\
    pi_encoding pi = Some enc /\
    ruleset_encodable repr encb enc (s_files (Pipeline.save R t)) = true /\
    fs_wf fs2 /\
    fs' = install_all repr base (s_files (Pipeline.save R t)) fs2.
Proof.
  intros base fs' H. rewrite run_trainer_is_pipeline in H. rewrite train_inst in H.
  destruct (@is_nil str seq) eqn:Enil; [discriminate H|].
  destruct (parse_all (parse_pw E mwf) seq) as [rs|] eqn:Eparse; [|discriminate H].
  cbn [t_cov t_n t_counters] in H.
  match type of H with context [m_markov ?c ?n ?om ?cs] => destruct (m_markov c n om cs) as [cbs|b|e] eqn:Em end;
    [| | discriminate H].
  2: { unfold m_markov in Em. destruct (ks_counter _); [|discriminate Em]. destruct (neqb OPS _ _); [discriminate Em|].
       inversion Em; subst b. discriminate H. }
  apply m_markov_norm in Em.
  apply save_all_true in H. destruct H as (w1 & w2 & S1 & S2 & S3).
  cbn [c_save_config_file c_save_omen_rules_to_disk c_save_pcfg_data pipe_collab] in S1, S2, S3.
  destruct (save_config base _ _ _ fs) as [b1 w1'] eqn:E1. inversion S1; subst b1 w1'. clear S1.
  match type of S2 with context [save_omen ?a ?b ?c ?d ?e ?f ?g] => destruct (save_omen a b c d e f g) as [b2 w2'] eqn:E2 end.
  inversion S2; subst b2 w2'. clear S2.
  assert (W1 : fs_wf w1). { match type of E1 with save_config ?b ?p ?f ?po ?w = _ => generalize (Hcfg_wf b p f po w Hwf) end. rewrite E1. exact (fun x => x). }
  assert (W2 : fs_wf w2). { match type of E2 with save_omen ?a ?b ?c ?d ?e ?f ?g = _ => generalize (Homen_wf a b c d e f g W1) end. rewrite E2. exact (fun x => x). }
  unfold pipe_objs in S3. cbn [to_pinfo pi_encoding pi_save_sensitive] in S3.
  rewrite enc_set_alphabet, sens_set_alphabet in S3.
  apply some_case in S3; [|discriminate]. destruct S3 as (enc & Ee & S3).
  set (t := {| t_counters := counters_of rs; t_n := N.of_nat (length seq); t_cov := pi_coverage pi; t_sens := pi_save_sensitive pi |}).
  exists t, w2, enc. split; [rewrite train_inst, Enil, Eparse; reflexivity|]. do 3 (split; [reflexivity|]). split; [exact Ee|].
  unfold Pipeline.save. cbn [s_files t_counters t_sens t_cov t_n t].
  unfold pp_view, pp_counters in S3. cbn [pp_results pp_base] in S3. rewrite Em in S3.
  destruct (ruleset_encodable repr encb enc (save_pcfg_data OPS (counters_of rs) (pi_save_sensitive pi) (pi_coverage pi) (N.of_nat (length seq)))) eqn:Er.
  - split; [reflexivity|]. split; [exact W2|].
    rewrite (save_pcfg_data_eq repr encb calc calc_eq base (counters_of rs) (pi_save_sensitive pi) (pi_coverage pi) (N.of_nat (length seq)) enc w2 W2 Er) in S3.
    inversion S3. reflexivity.
  - destruct (save_pcfg_data_fails repr encb calc calc_eq base (counters_of rs) (pi_save_sensitive pi) (pi_coverage pi) (N.of_nat (length seq)) enc w2 W2 Er) as (fx & Hx).
    rewrite Hx in S3. discriminate S3.
Qed.

End Run.

End Inst.
