(* The generated GuessStructure code (gen/OmenGen_gs_gen.v: the translation of
   the Python text of GuessStructure._find_cp, _fill_out_parse_tree,
   _format_guess and next_guess, redone on every run) computes what the
   hand-written model of Omen.v computes (find_cp, fill, format_guess, gs_next),
   which is what the theorems of C10 / C15 are about.

   The model works on the table function cpf = grammar['cp'][p][l] ([] for an
   absent key); the Python object holds the nested dicts ([cp_index]); the two
   are related by cpf = cpf_of cp for a table without empty levels
   ([cp_nonempty], proved for the table the loader builds).  Levels and indices
   inside parse trees are Python ints: the model's tree t appears as [tree_py t].
   The Optimizer object is related to the model's cache by
   [OmenGenOptProofs.crel].

   The `while` loops and the recursion of the Python code have a fuel
   parameter in the translation; the theorems hold for every fuel above an
   explicit bound computed from the tables ([fill_fuel]): OutOfFuel never shows.

   These proofs are meant to break when one of the Python methods changes its
   meaning: the loop lemmas take the translated loop tests and bodies as they are
   generated and compare them with the steps of the model. *)
From Coq Require Import List Arith Bool NArith ZArith Lia.
From Pcfg Require Import OmenSpec Omen OmenProofs OmenProofs2 OmenGenRt OmenGenRtProofs OmenGenOptProofs.
From PcfgGen Require Import OmenGen_opt_gen OmenGen_gs_gen.
Import ListNotations.

(* ------------------------------------------------------------------ *)
(* generic facts                                                        *)

Lemma first_st_app {X S R} (f : S -> X -> option R * S) (s : S) (a b : list X) :
  first_st f s (a ++ b) =
  match first_st f s a with
  | (Some y, s') => (Some y, s')
  | (None, s') => first_st f s' b
  end.
Proof.
  revert s. induction a as [|x r IH]; intro s; cbn [app first_st]; [reflexivity|].
  destruct (f s x) as [[y|] s']; [reflexivity | apply IH].
Qed.

Lemma first_st_all_none {X S R} (f : S -> X -> option R * S) (s : S) (a : list X) :
  (forall s x, In x a -> f s x = (None, s)) -> first_st f s a = (None, s).
Proof.
  induction a as [|x r IH]; intro H; cbn [first_st]; [reflexivity|].
  rewrite (H s x (or_introl eq_refl)). apply IH. intros s' x' Hx. apply H. now right.
Qed.

Lemma skipn_nth_cons {X} (l : list X) : forall i x, nth_error l i = Some x -> skipn i l = x :: skipn (S i) l.
Proof.
  induction l as [|y r IH]; intros [|i] x H; cbn [nth_error] in H; try discriminate.
  - now injection H as ->.
  - cbn [skipn]. now apply IH.
Qed.

Lemma skipn_indexed_cons {X} (l : list X) i x : nth_error l i = Some x ->
  skipn i (indexed l) = (i, x) :: skipn (S i) (indexed l).
Proof. intro H. apply skipn_nth_cons. now rewrite nth_error_indexed, H. Qed.

Lemma skipn_indexed_all {X} (l : list X) : skipn (length l) (indexed l) = [].
Proof. apply skipn_all2. unfold indexed. rewrite combine_length, seq_length. lia. Qed.

(* the longest list of characters of the table: bounds the `while cur_index < top_index` loops *)
Definition lvls_maxlen (m : list (nat * list N)) : nat := list_max (map (fun e => length (snd e)) m).
Definition cp_maxlen (t : cp_index) : nat := list_max (map (fun e => lvls_maxlen (snd e)) t).

Lemma list_max_In l x : In x l -> x <= list_max l.
Proof.
  intro H. pose proof (proj1 (list_max_le l (list_max l)) (le_n _)) as F.
  rewrite Forall_forall in F. now apply F.
Qed.

Lemma cpf_of_length t p l : length (cpf_of t p l) <= cp_maxlen t.
Proof.
  unfold cpf_of. rewrite dfind_idx_lookup. destruct (dfind ostr_eqb p t) as [m|] eqn:E; [|cbn; lia].
  rewrite dfind_lvl_lookup. destruct (dfind Nat.eqb l m) as [cs|] eqn:E2; [|cbn; lia].
  destruct (dfind_In _ _ _ _ E) as [p' H1]. destruct (dfind_In _ _ _ _ E2) as [l' H2].
  transitivity (lvls_maxlen m).
  - apply list_max_In. apply in_map_iff. exists (l', cs). auto.
  - apply list_max_In. apply in_map_iff. exists (p', m). auto.
Qed.

(* ------------------------------------------------------------------ *)
Section GS.
  Variable cp : cp_index.
  Variable maxl optmax : nat.
  Hypothesis cp_ne : cp_nonempty cp.

  Notation cpf := (cpf_of cp).
  Notation find_cp := (Omen.find_cp cpf maxl).
  Notation fill := (Omen.fill cpf maxl optmax).

  (* a GuessStructure of this grammar *)
  Definition gs_ok (self : pygs) : Prop := gs_cp self = cp /\ gs_max_level self = Z.of_nat maxl.

  (* ---------------------------------------------------------------- *)
  (* _find_cp                                                          *)

  Lemma scan_down_none p n bottom : (forall L, cpf p L = []) -> scan_down cpf p n bottom = None.
  Proof.
    intro H. induction n as [|n IH]; cbn [scan_down]; rewrite H; cbn [is_nil negb];
      destruct (_ <? bottom)%Z; auto.
  Qed.

  (* the value of the loop `while top_level >= bottom_level` started at t *)
  Definition scan_from (p : ostr) (t bottom : Z) : option nat :=
    if (t <? 0)%Z then None else scan_down cpf p (Z.to_nat t) bottom.

  Definition fcp_py (p : ostr) (o : option nat) : option (list N * Z) :=
    option_map (fun L => (cpf p L, Z.of_nat L)) o.

  Lemma find_cp_loop p m bottom
        (cond : Z -> res bool) (body : Z -> res (lctl (option (list N * Z)) Z)) (k : Z -> res (option (list N * Z))) :
    dfind ostr_eqb p cp = Some m ->
    (forall t, cond t = Ok (bottom <=? t)%Z) ->
    (forall t, body t = match lvl_find m t with
                        | Some cs => Ok (Return (Some (cs, t)))
                        | None => Ok (Continue (t - 1)%Z)
                        end) ->
    (forall t, k t = Ok None) ->
    forall fuel t, fuel > Z.to_nat (t - bottom + 1) ->
    mwhile fuel cond body t k = Ok (fcp_py p (scan_from p t bottom)).
  Proof.
    intros Hm Hcond Hbody Hk. induction fuel as [|f IH]; intros t Hf; [lia|].
    cbn [mwhile]. rewrite Hcond. unfold scan_from.
    destruct (bottom <=? t)%Z eqn:Eb.
    - apply Z.leb_le in Eb. rewrite Hbody.
      destruct (t <? 0)%Z eqn:Et.
      + apply Z.ltb_lt in Et. rewrite lvl_find_neg by exact Et.
        rewrite IH by lia. unfold scan_from.
        replace (t - 1 <? 0)%Z with true by (symmetry; apply Z.ltb_lt; lia). reflexivity.
      + apply Z.ltb_ge in Et. rewrite <- (Z2Nat.id t Et) at 1.
        rewrite (cp_level_find cp p m _ cp_ne Hm).
        remember (Z.to_nat t) as n eqn:En.
        assert (scan_down cpf p n bottom =
                if negb (is_nil (cpf p n)) then Some n
                else match n with 0 => None | S n' => scan_down cpf p n' bottom end) as Esc.
        { destruct n; cbn [scan_down];
            (replace (_ <? bottom)%Z with false by (symmetry; apply Z.ltb_ge; lia)); reflexivity. }
        rewrite Esc. destruct (cpf p n) as [|c0 cs] eqn:Ecs; cbn [is_nil negb].
        * rewrite IH by lia. unfold scan_from. destruct n as [|n'].
          -- replace (t - 1 <? 0)%Z with true by (symmetry; apply Z.ltb_lt; lia). reflexivity.
          -- replace (t - 1 <? 0)%Z with false by (symmetry; apply Z.ltb_ge; lia).
             replace (Z.to_nat (t - 1)) with n' by lia. reflexivity.
        * cbn [fcp_py option_map]. rewrite Ecs. do 4 f_equal. lia.
    - apply Z.leb_gt in Eb. rewrite Hk. destruct (t <? 0)%Z eqn:Et; [reflexivity|].
      apply Z.ltb_ge in Et. destruct (Z.to_nat t) eqn:En; cbn [scan_down];
        (replace (_ <? bottom)%Z with true by (symmetry; apply Z.ltb_lt; lia)); reflexivity.
  Qed.

  Theorem gen_find_cp fuel self p top bottom :
    gs_ok self ->
    fuel > Z.to_nat (Z.min top (Z.of_nat maxl) - bottom + 1) ->
    py_gs_find_cp fuel self p top bottom = Ok (fcp_py p (find_cp p top bottom)).
  Proof.
    intros [Hcp Hml] Hf. unfold py_gs_find_cp. rewrite Hcp, Hml.
    rewrite (dmem_dfind ostr_eqb), negb_involutive.
    destruct (dfind ostr_eqb p cp) as [m|] eqn:Em; cbn [is_none].
    - cbn [dict_get bind].
      (* the clamped starting level *)
      set (t0 := if (Z.of_nat maxl <? top)%Z then Z.of_nat maxl else top).
      assert (forall (f : Z -> res (option (list N * Z))),
                 (top_level <- (if (Z.of_nat maxl <? top)%Z then Ok (Z.of_nat maxl) else Ok top) ;; f top_level) = f t0) as Hjoin.
      { intro f. subst t0. destruct (Z.of_nat maxl <? top)%Z; reflexivity. }
      rewrite Hjoin.
      rewrite (find_cp_loop p m bottom) with (t := t0); try exact Em; try reflexivity.
      + f_equal. f_equal. unfold scan_from, Omen.find_cp. subst t0.
        destruct (Z.of_nat maxl <? top)%Z eqn:E1.
        * apply Z.ltb_lt in E1.
          replace (Z.of_nat maxl <? 0)%Z with false by (symmetry; apply Z.ltb_ge; lia).
          replace (top <? 0)%Z with false by (symmetry; apply Z.ltb_ge; lia).
          f_equal. lia.
        * apply Z.ltb_ge in E1. destruct (top <? 0)%Z eqn:E2; [reflexivity|].
          apply Z.ltb_ge in E2. f_equal. lia.
      + intro t. cbn [bind dict_get]. destruct (lvl_find m t); reflexivity.
      + subst t0. destruct (Z.of_nat maxl <? top)%Z eqn:E1; [apply Z.ltb_lt in E1 | apply Z.ltb_ge in E1]; lia.
    - cbn [fcp_py].
      assert (find_cp p top bottom = None) as ->; [|reflexivity].
      unfold Omen.find_cp. destruct (top <? 0)%Z; [reflexivity|]. apply scan_down_none.
      apply cp_absent. rewrite (dmem_dfind ostr_eqb), Em. reflexivity.
  Qed.
  (* ---------------------------------------------------------------- *)
  (* _fill_out_parse_tree                                              *)

  (* the store at the end of a search (only for length <= max_length) *)
  Definition upd (k : nat) (p : ostr) (lvl : Z) (c : cache) (r : option tree) : cache :=
    if Nat.leb k optmax then cupdate c (k, p, lvl) r else c.

  (* iterations left in `while cur_level >= 0` at cur_level = t *)
  Definition mu (t : Z) : nat := if (t <? 0)%Z then 0 else S (Nat.min (Z.to_nat t) maxl).

  Lemma scan_down_none_inv p n : scan_down cpf p n 0 = None -> forall L, L <= n -> cpf p L = [].
  Proof.
    induction n as [|n IH]; cbn [scan_down]; intros H L HL.
    - replace (Z.of_nat 0 <? 0)%Z with false in H by reflexivity.
      destruct (cpf p 0) eqn:E; [|discriminate]. now replace L with 0 by lia.
    - replace (Z.of_nat (S n) <? 0)%Z with false in H by (symmetry; apply Z.ltb_ge; lia).
      destruct (cpf p (S n)) eqn:E; [|discriminate]. cbn [is_nil negb] in H.
      destruct (Nat.eq_dec L (S n)); [now subst | apply IH; [exact H | lia]].
  Qed.

  Lemma find_cp_none_levels p t : find_cp p t 0 = None -> forall L, In L (levels_down maxl t) -> cpf p L = [].
  Proof.
    unfold Omen.find_cp, levels_down. destruct (t <? 0)%Z; intros H L HL; [contradiction|].
    apply in_down_from in HL. exact (scan_down_none_inv _ _ H L HL).
  Qed.

  Lemma down_from_lower L : down_from L = L :: lower L.
  Proof. destruct L; reflexivity. Qed.

  Lemma first_st_down_from_skip {St R} (F : St -> nat -> option R * St) c n L : L <= n ->
    (forall L' c, L < L' <= n -> F c L' = (None, c)) ->
    first_st F c (down_from n) = first_st F c (L :: lower L).
  Proof.
    intros HL Hskip. induction n as [|n IH].
    - replace L with 0 by lia. reflexivity.
    - destruct (Nat.eq_dec L (S n)) as [->|Hne]; [now rewrite down_from_lower|].
      cbn [down_from first_st]. rewrite Hskip by lia. apply IH; [lia|]. intros L' c' HL'. apply Hskip. lia.
  Qed.

  Lemma levels_down_pred L : L <= maxl -> levels_down maxl (Z.of_nat L - 1) = lower L.
  Proof.
    intro H. unfold levels_down. destruct L as [|m].
    - reflexivity.
    - replace (Z.of_nat (S m) - 1 <? 0)%Z with false by (symmetry; apply Z.ltb_ge; lia).
      replace (Nat.min (Z.to_nat (Z.of_nat (S m) - 1)) maxl) with m by lia. reflexivity.
  Qed.

  Lemma fill_inner_loop {R : Type} (found : option pytree * pyopt -> R)
        (G : cache -> nat * N -> option tree * cache) (updf : cache -> option tree -> cache)
        (cs : list N)
        (cond : pyopt * Z -> res bool) (body : pyopt * Z -> res (lctl R (pyopt * Z))) (kont : pyopt * Z -> res R) :
    (forall o i, cond (o, i) = Ok (i <? zlen cs)%Z) ->
    (forall o c i ch, crel optmax o c -> nth_error cs i = Some ch ->
        exists o', crel optmax o' (match fst (G c (i, ch)) with
                                   | Some _ => updf (snd (G c (i, ch))) (fst (G c (i, ch)))
                                   | None => snd (G c (i, ch)) end) /\
                   body (o, Z.of_nat i) = Ok (match fst (G c (i, ch)) with
                                             | Some t => Return (found (Some (tree_py t), o'))
                                             | None => Continue (o', Z.of_nat (S i)) end)) ->
    forall fuel i o c, fuel > length cs - i -> i <= length cs -> crel optmax o c ->
      exists o', crel optmax o' (match fst (first_st G c (skipn i (indexed cs))) with
                                 | Some _ => updf (snd (first_st G c (skipn i (indexed cs)))) (fst (first_st G c (skipn i (indexed cs))))
                                 | None => snd (first_st G c (skipn i (indexed cs))) end) /\
                 mwhile fuel cond body (o, Z.of_nat i) kont =
                 match fst (first_st G c (skipn i (indexed cs))) with
                 | Some t => Ok (found (Some (tree_py t), o'))
                 | None => kont (o', zlen cs)
                 end.
  Proof.
    intros Hcond Hbody. induction fuel as [|f IH]; intros i o c Hf Hi Hrel; [lia|].
    cbn [mwhile]. rewrite Hcond. unfold zlen.
    destruct (Z.of_nat i <? Z.of_nat (length cs))%Z eqn:E.
    - apply Z.ltb_lt in E. assert (i < length cs) as Hlt by lia.
      destruct (nth_error cs i) as [ch|] eqn:En; [|apply nth_error_None in En; lia].
      rewrite (skipn_indexed_cons _ _ _ En). cbn [first_st].
      destruct (Hbody o c i ch Hrel En) as (o1 & Hrel1 & Hb). rewrite Hb.
      destruct (G c (i, ch)) as [[t|] c3]; cbn [fst snd] in *.
      + exists o1. split; [exact Hrel1 | reflexivity].
      + apply IH; [lia | lia | exact Hrel1].
    - apply Z.ltb_ge in E. assert (i = length cs) as -> by lia.
      rewrite skipn_indexed_all. cbn [first_st fst snd]. exists o. split; [exact Hrel | reflexivity].
  Qed.

  Lemma zenumerate_indexed {X} (l : list X) :
    zenumerate l = map (fun ic => (Z.of_nat (fst ic), snd ic)) (indexed l).
  Proof.
    unfold zenumerate, OmenRt.zenumerate, indexed. generalize 0. induction l as [|x r IH]; intro a; cbn [length seq map combine].
    - reflexivity.
    - now rewrite IH.
  Qed.

  Lemma fill_inner_for {R : Type} (found : option pytree * pyopt -> R)
        (G : cache -> nat * N -> option tree * cache) (updf : cache -> option tree -> cache)
        (cs : list N)
        (body : Z * N -> pyopt -> res (lctl R pyopt)) (kont : pyopt -> res R) :
    (forall o c i ch, crel optmax o c -> nth_error cs i = Some ch ->
        exists o', crel optmax o' (match fst (G c (i, ch)) with
                                   | Some _ => updf (snd (G c (i, ch))) (fst (G c (i, ch)))
                                   | None => snd (G c (i, ch)) end) /\
                   body (Z.of_nat i, ch) o = Ok (match fst (G c (i, ch)) with
                                                 | Some t => Return (found (Some (tree_py t), o'))
                                                 | None => Continue o' end)) ->
    forall o c, crel optmax o c ->
      exists o', crel optmax o' (match fst (first_st G c (indexed cs)) with
                                 | Some _ => updf (snd (first_st G c (indexed cs))) (fst (first_st G c (indexed cs)))
                                 | None => snd (first_st G c (indexed cs)) end) /\
                 mfor (zenumerate cs) body o kont =
                 match fst (first_st G c (indexed cs)) with
                 | Some t => Ok (found (Some (tree_py t), o'))
                 | None => kont o'
                 end.
  Proof.
    intros Hbody. rewrite zenumerate_indexed.
    assert (Hin : forall ic, In ic (indexed cs) -> nth_error cs (fst ic) = Some (snd ic)).
    { intros [i ch] H. now apply in_indexed. }
    induction (indexed cs) as [|[i ch] r IH]; intros o c Hrel; cbn [map mfor first_st fst snd].
    - exists o. split; [exact Hrel | reflexivity].
    - destruct (Hbody o c i ch Hrel (Hin (i, ch) (or_introl eq_refl))) as (o1 & Hrel1 & Hb). rewrite Hb.
      destruct (G c (i, ch)) as [[t|] c3]; cbn [fst snd] in *.
      + exists o1. split; [exact Hrel1 | reflexivity].
      + apply IH; [|exact Hrel1]. intros ic H. apply Hin. now right.
  Qed.

  Lemma fill_outer_loop (p : ostr) (F : cache -> nat -> option tree * cache) (updf : cache -> option tree -> cache)
        (cond : pyopt * Z -> res bool) (body : pyopt * Z -> res (lctl (option pytree * pyopt) (pyopt * Z)))
        (kont : pyopt * Z -> res (option pytree * pyopt)) :
    (forall c L, cpf p L = [] -> F c L = (None, c)) ->
    (forall o t, cond (o, t) = Ok (0 <=? t)%Z) ->
    (forall o c t, crel optmax o c ->
        match find_cp p t 0 with
        | None => (exists o', crel optmax o' (updf c None) /\ body (o, t) = Ok (Return (None, o'))) \/
                  (exists t', body (o, t) = Ok (Break (o, t')))
        | Some L => exists o', crel optmax o' (match fst (F c L) with
                                               | Some _ => updf (snd (F c L)) (fst (F c L))
                                               | None => snd (F c L) end) /\
                    body (o, t) = Ok (match fst (F c L) with
                                      | Some tr => Return (Some (tree_py tr), o')
                                      | None => Continue (o', (Z.of_nat L - 1)%Z) end)
        end) ->
    (forall o c t, crel optmax o c -> exists o', crel optmax o' (updf c None) /\ kont (o, t) = Ok (None, o')) ->
    forall fuel t o c, fuel > mu t -> crel optmax o c ->
      exists o', crel optmax o' (updf (snd (first_st F c (levels_down maxl t))) (fst (first_st F c (levels_down maxl t)))) /\
                 mwhile fuel cond body (o, t) kont = Ok (otree_py (fst (first_st F c (levels_down maxl t))), o').
  Proof.
    intros Hempty Hcond Hbody Hkont. induction fuel as [|f IH]; intros t o c Hf Hrel; [lia|].
    cbn [mwhile]. rewrite Hcond. unfold mu in Hf.
    destruct (0 <=? t)%Z eqn:E.
    - apply Z.leb_le in E. replace (t <? 0)%Z with false in Hf by (symmetry; apply Z.ltb_ge; lia).
      specialize (Hbody o c t Hrel). destruct (find_cp p t 0) as [L|] eqn:Efc.
      + destruct Hbody as (o1 & Hrel1 & Hb). rewrite Hb.
        apply find_cp_spec in Efc. destruct Efc as (H1 & H2 & H3 & H4 & H5).
        assert (levels_down maxl t = down_from (Nat.min (Z.to_nat t) maxl)) as Elv.
        { unfold levels_down. now replace (t <? 0)%Z with false by (symmetry; apply Z.ltb_ge; lia). }
        rewrite Elv. rewrite (first_st_down_from_skip F c _ L) by
          (try lia; intros L' c' HL'; apply Hempty; apply H5; lia).
        cbn [first_st]. destruct (F c L) as [[tr|] c1]; cbn [fst snd] in *.
        * exists o1. split; [exact Hrel1 | reflexivity].
        * rewrite <- (levels_down_pred L H2). apply IH; [|exact Hrel1].
          unfold mu. destruct (Z.of_nat L - 1 <? 0)%Z eqn:E2; [lia|]. apply Z.ltb_ge in E2. lia.
      + rewrite first_st_all_none by (intros c' L HL; apply Hempty; exact (find_cp_none_levels _ _ Efc L HL)).
        cbn [fst snd otree_py option_map].
        destruct Hbody as [(o1 & Hrel1 & Hb) | (t' & Hb)]; rewrite Hb.
        * exists o1. split; [exact Hrel1 | reflexivity].
        * exact (Hkont o c t' Hrel).
    - apply Z.leb_gt in E. unfold levels_down. replace (t <? 0)%Z with true by (symmetry; apply Z.ltb_lt; lia).
      cbn [first_st fst snd otree_py option_map]. exact (Hkont o c t Hrel).
  Qed.

  Ltac feed H := match type of H with ?A -> _ => let Hx := fresh in assert A as Hx; [ | specialize (H Hx); clear Hx ] end.

  Definition fill_fuel (k : nat) : nat := k + maxl + cp_maxlen cp + 3.

  (* one candidate of the search: ip[1:] + c, the recursive fill, the row put in front *)
  Definition fill_G (k' : nat) (p : ostr) (lvl : Z) (L : nat) (c2 : cache) (ic : nat * N) : option tree * cache :=
    let '(r2, c3) := fill k' c2 (shift p (snd ic)) (lvl - Z.of_nat L) in
    (option_map (cons (p, L, fst ic)) r2, c3).
  Definition fill_F (k' : nat) (p : ostr) (lvl : Z) (c1 : cache) (L : nat) : option tree * cache :=
    first_st (fill_G k' p lvl L) c1 (indexed (cpf p L)).

  Lemma fill_SS k'' c p lvl :
    fill (S (S k'')) c p lvl =
    match (if Nat.leb (S (S k'')) optmax then clookup c (S (S k''), p, lvl) else None) with
    | Some r => (r, c)
    | None => (fst (first_st (fill_F (S k'') p lvl) c (levels_down maxl lvl)),
               upd (S (S k'')) p lvl (snd (first_st (fill_F (S k'') p lvl) c (levels_down maxl lvl)))
                   (fst (first_st (fill_F (S k'') p lvl) c (levels_down maxl lvl))))
    end.
  Proof.
    cbn [Omen.fill]. destruct (if Nat.leb (S (S k'')) optmax then clookup c (S (S k''), p, lvl) else None); [reflexivity|].
    unfold fill_F, fill_G, upd.
    destruct (first_st _ c (levels_down maxl lvl)) as [r c']. reflexivity.
  Qed.

  (* `if length <= self.optimizer.max_length: self.optimizer.update(ip, length, level, v)` *)
  Lemma maybe_update f o c k p lvl v : crel optmax o c -> v <> Some [] ->
    exists o', crel optmax o' (upd k p lvl c v) /\
      (if (Z.of_nat k <=? o_max_length o)%Z
       then '(_, o2) <- py_opt_update f o p (Z.of_nat k) lvl (otree_py v) ;; Ok o2
       else Ok o) = Ok o'.
  Proof.
    intros Hrel Hv. pose proof Hrel as (Hm & _). rewrite Hm. unfold upd.
    destruct (Nat.leb k optmax) eqn:E.
    - apply Nat.leb_le in E. replace (Z.of_nat k <=? Z.of_nat optmax)%Z with true by (symmetry; apply Z.leb_le; lia).
      destruct (gen_opt_update f optmax o c k p lvl v Hrel E Hv) as (o' & E' & Hrel').
      exists o'. split; [exact Hrel'|]. now rewrite E'.
    - apply Nat.leb_gt in E. replace (Z.of_nat k <=? Z.of_nat optmax)%Z with false by (symmetry; apply Z.leb_gt; lia).
      exists o. split; [exact Hrel | reflexivity].
  Qed.

  Lemma Zleb_nat a b : (Z.of_nat a <=? Z.of_nat b)%Z = Nat.leb a b.
  Proof.
    destruct (Nat.leb a b) eqn:E; [apply Nat.leb_le in E; apply Z.leb_le; lia | apply Nat.leb_gt in E; apply Z.leb_gt; lia].
  Qed.

  (* the same with the test kept as a boolean: `use_optimizer = length <= max_length` may have been
     evaluated earlier, on another state of the (same) Optimizer *)
  Lemma maybe_update_b f o c k p lvl v (b : bool) : crel optmax o c -> v <> Some [] -> b = Nat.leb k optmax ->
    exists o', crel optmax o' (upd k p lvl c v) /\
      (if b then '(_, o2) <- py_opt_update f o p (Z.of_nat k) lvl (otree_py v) ;; Ok o2 else Ok o) = Ok o'.
  Proof.
    intros Hrel Hv ->. destruct (maybe_update f o c k p lvl v Hrel Hv) as (o' & Hrel' & E).
    exists o'. split; [exact Hrel'|]. rewrite <- E. pose proof Hrel as (Hm & _). now rewrite Hm, Zleb_nat.
  Qed.

  (* (length <= o.max_length) for any state o of the Optimizer we know to be related to a cache *)
  Ltac leb_known :=
    match goal with
    | |- (_ <=? o_max_length ?ox)%Z = _ =>
        match goal with H : crel _ ox _ |- _ => rewrite (proj1 H); apply Zleb_nat end
    end.

  (* opt' <- (if <length <= max_length> then update(..) else opt) ;; K opt' *)
  Ltac do_update f ox cx K p lvl v Hrelx :=
    match goal with |- context[bind (if ?b then _ else _) _] =>
      let o4 := fresh "o4" in let Hrel4 := fresh "Hrel4" in let E4 := fresh "E4" in
      destruct (maybe_update_b f ox cx K p lvl v b Hrelx ltac:(discriminate) ltac:(leb_known)) as (o4 & Hrel4 & E4);
      exists o4; split; [exact Hrel4|];
      match goal with |- context[bind ?X _] => replace X with (Ok o4) by (symmetry; exact E4) end
    end.

  Theorem gen_fill self : gs_ok self -> forall k fuel o c p lvl,
    1 <= k -> crel optmax o c -> fuel >= fill_fuel k ->
    exists o', py_gs_fill_out_parse_tree fuel self o p (Z.of_nat k) lvl = Ok (otree_py (fst (fill k c p lvl)), o') /\
               crel optmax o' (snd (fill k c p lvl)).
  Proof.
    intros Hok. induction k as [|k' IH]; intros fuel o c p lvl Hk Hrel Hfuel; [lia|].
    unfold fill_fuel in Hfuel. destruct fuel as [|f]; [lia|].
    cbn [py_gs_fill_out_parse_tree].
    destruct k' as [|k''].
    - (* length == 1 *)
      assert (Hc1 : (Z.of_nat 1 =? 1)%Z = true) by reflexivity.
      assert (Hc2 : (1 =? Z.of_nat 1)%Z = true) by reflexivity.
      rewrite ?Hc1, ?Hc2.
      rewrite (gen_find_cp f self p lvl lvl Hok) by lia. cbn [bind Omen.fill].
      destruct (find_cp p lvl lvl) as [L|]; cbn [fcp_py option_map fst snd otree_py tree_py map row_py row_prefix row_level row_index].
      + exists o. split; [reflexivity | exact Hrel].
      + exists o. split; [reflexivity | exact Hrel].
    - assert (Hc1 : (Z.of_nat (S (S k'')) =? 1)%Z = false) by (apply Z.eqb_neq; lia).
      assert (Hc2 : (1 =? Z.of_nat (S (S k'')))%Z = false) by (apply Z.eqb_neq; lia).
      rewrite ?Hc1, ?Hc2. clear Hc1 Hc2.
      rewrite fill_SS. set (K := S (S k'')) in *.
      set (rc := first_st (fill_F (S k'') p lvl) c (levels_down maxl lvl)).
      match goal with |- context[mblock _ ?k] => set (kfun := k) end.
      (* the search proper *)
      assert (Hloop : exists o', kfun tt = Ok (otree_py (fst rc), o') /\ crel optmax o' (upd K p lvl (snd rc) (fst rc))).
      { subst kfun. cbv beta.
        match goal with |- context[mwhile ?fu ?cond ?body (o, lvl) ?kont] =>
          pose proof (fill_outer_loop p (fill_F (S k'') p lvl) (upd K p lvl) cond body kont) as HL end.
        feed HL.
        { intros c0 L E. unfold fill_F. now rewrite E. }
        feed HL.
        { intros o0 t. reflexivity. }
        feed HL.
        { (* one iteration of `while cur_level >= 0` *)
          intros o1 c1 t Hrel1. cbv beta iota.
          rewrite (gen_find_cp f self p t 0 Hok) by lia.
          destruct (find_cp p t 0) as [L|] eqn:Efc; cbn [fcp_py option_map bind].
          - (* the characters of cp_index *)
            lazymatch goal with
            | |- context[mwhile _ _ _ (o1, 0%Z) _] =>
                (* `cur_index = 0; while cur_index < top_index: ...; cur_index += 1` *)
                match goal with |- context[mwhile ?fu ?cond ?body (o1, 0%Z) ?kont] =>
                  pose proof (fill_inner_loop (@Return (option pytree * pyopt) (pyopt * Z)) (fill_G (S k'') p lvl L) (upd K p lvl)
                                              (cpf p L) cond body kont) as HI end;
                feed HI;
                [ intros o0 i; reflexivity |];
                feed HI;
                [ intros o2 c2 i ch Hrel2 Hnth; cbv beta iota;
                  rewrite (pyindex_nat _ _ _ Hnth); cbn [bind]; rewrite pyslice_tl;
                  replace (Z.of_nat K - 1)%Z with (Z.of_nat (S k'')) by (subst K; lia);
                  destruct (IH f o2 c2 (shift p ch) (lvl - Z.of_nat L)%Z ltac:(lia) Hrel2 ltac:(unfold fill_fuel; subst K; lia))
                    as (o3 & E3 & Hrel3);
                  unfold shift in E3 at 1; rewrite E3; cbn [bind]; unfold fill_G; cbn [snd fst];
                  destruct (fill (S k'') c2 (shift p ch) (lvl - Z.of_nat L)) as [[tr|] c3]; cbn [fst snd otree_py option_map] in *;
                  [ do_update f o3 c3 K p lvl (Some ((p, L, i) :: tr)) Hrel3; reflexivity
                  | exists o3; split; [exact Hrel3|]; do 3 f_equal; lia ]
                |];
                destruct (HI (S f) 0 o1 c1) as (o5 & Hrel5 & E5);
                [ pose proof (cpf_of_length cp p L); lia | lia | exact Hrel1 |];
                cbn [skipn] in *; change (Z.of_nat 0) with 0%Z in E5
            | |- context[mfor (zenumerate _) _ _ _] =>
                (* `for cur_index, next_letter in enumerate(cp_index):` *)
                match goal with |- context[mfor (zenumerate _) ?body ?st ?kont] =>
                  pose proof (fill_inner_for (@Return (option pytree * pyopt) (pyopt * Z)) (fill_G (S k'') p lvl L) (upd K p lvl)
                                             (cpf p L) body kont) as HI end;
                feed HI;
                [ intros o2 c2 i ch Hrel2 Hnth; cbv beta iota; rewrite pyslice_tl;
                  replace (Z.of_nat K - 1)%Z with (Z.of_nat (S k'')) by (subst K; lia);
                  destruct (IH f o2 c2 (shift p ch) (lvl - Z.of_nat L)%Z ltac:(lia) Hrel2 ltac:(unfold fill_fuel; subst K; lia))
                    as (o3 & E3 & Hrel3);
                  unfold shift in E3 at 1; rewrite E3; cbn [bind]; unfold fill_G; cbn [snd fst];
                  destruct (fill (S k'') c2 (shift p ch) (lvl - Z.of_nat L)) as [[tr|] c3]; cbn [fst snd otree_py option_map] in *;
                  [ do_update f o3 c3 K p lvl (Some ((p, L, i) :: tr)) Hrel3; reflexivity
                  | exists o3; split; [exact Hrel3 | reflexivity] ]
                |];
                destruct (HI o1 c1 Hrel1) as (o5 & Hrel5 & E5)
            end.
            exists o5. split; [exact Hrel5|].
            match goal with |- ?X = _ => replace X with
              (match fst (fill_F (S k'') p lvl c1 L) with
               | Some t0 => Ok (Return (Some (tree_py t0), o5))
               | None => Ok (Continue (o5, (Z.of_nat L - 1)%Z)) end) by (symmetry; exact E5) end.
            destruct (fst (fill_F (S k'') p lvl c1 L)); reflexivity.
          - (* nothing at or below this level: update and return None, or break to the shared exit *)
            first [ left; do_update f o1 c1 K p lvl (@None tree) Hrel1; reflexivity
                  | right; eexists; reflexivity ]. }
        feed HL.
        { intros o1 c1 t Hrel1. cbv beta iota.
          do_update f o1 c1 K p lvl (@None tree) Hrel1. reflexivity. }
        destruct (HL (S f) lvl o c) as (o' & Hrel' & E').
        { unfold mu. destruct (lvl <? 0)%Z; lia. }
        { exact Hrel. }
        exists o'. split; [exact E' | exact Hrel']. }
      destruct Hloop as (o' & Eloop & Hrel').
      pose proof Hrel as (Hm & _). rewrite Hm.
      destruct (Nat.leb K optmax) eqn:Eopt.
      + apply Nat.leb_le in Eopt.
        replace (Z.of_nat K <=? Z.of_nat optmax)%Z with true by (symmetry; apply Z.leb_le; lia).
        rewrite (gen_opt_lookup f optmax o c K p lvl Hrel Eopt). cbn [bind].
        destruct (clookup c (K, p, lvl)) as [v|]; cbn [mblock fst snd].
        * exists o. split; [reflexivity | exact Hrel].
        * exists o'. split; [exact Eloop | exact Hrel'].
      + apply Nat.leb_gt in Eopt.
        replace (Z.of_nat K <=? Z.of_nat optmax)%Z with false by (symmetry; apply Z.leb_gt; lia).
        cbn [mblock fst snd]. exists o'. split; [exact Eloop | exact Hrel'].
  Qed.

End GS.
