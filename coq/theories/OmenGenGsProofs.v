(* The generated GuessStructure code (gen/OmenGen_gs_gen.v: the translation of
   the Python text of GuessStructure._find_cp, _fill_out_parse_tree,
   _format_guess and next_guess, redone on every run) computes what the
   hand-written model of Omen.v computes (find_cp, fill, format_guess, gs_next),
   which is what the theorems of C10 / C15 are about.

   The model works on the table function cpf = grammar['cp'][p][l] ([] for an
   absent key); the Python object holds the nested dicts ([cp_index]); the two
   are related by cpf = cpf_of cp for a table without empty levels
   ([cp_nonempty], proved for the table the loader builds).  Levels and indices
   inside parse trees are Python ints: the model's tree t appears as [tree_py t].
   The Optimizer object is related to the model's cache by
   [OmenGenOptProofs.crel].

   The `while` loops and the recursion of the Python code have a fuel
   parameter in the translation; the theorems hold for every fuel above an
   explicit bound computed from the tables ([fill_fuel]): OutOfFuel never shows.

   These proofs are meant to break when one of the Python methods changes its
   meaning: the loop lemmas take the translated loop tests and bodies as they are
   generated and compare them with the steps of the model. *)
From Coq Require Import List Arith Bool NArith ZArith Lia.
From Pcfg Require Import OmenSpec Omen OmenProofs OmenProofs2 OmenGenRt OmenGenRtProofs OmenGenOptProofs.
From PcfgGen Require Import OmenGen_opt_gen OmenGen_gs_gen.
Import ListNotations.

(* ------------------------------------------------------------------ *)
(* generic facts                                                        *)

Lemma first_st_app {X S R} (f : S -> X -> option R * S) (s : S) (a b : list X) :
  first_st f s (a ++ b) =
  match first_st f s a with
  | (Some y, s') => (Some y, s')
  | (None, s') => first_st f s' b
  end.
Proof.
  revert s. induction a as [|x r IH]; intro s; cbn [app first_st]; [reflexivity|].
  destruct (f s x) as [[y|] s']; [reflexivity | apply IH].
Qed.

Lemma first_st_all_none {X S R} (f : S -> X -> option R * S) (s : S) (a : list X) :
  (forall s x, In x a -> f s x = (None, s)) -> first_st f s a = (None, s).
Proof.
  induction a as [|x r IH]; intro H; cbn [first_st]; [reflexivity|].
  rewrite (H s x (or_introl eq_refl)). apply IH. intros s' x' Hx. apply H. now right.
Qed.

Lemma skipn_nth_cons {X} (l : list X) : forall i x, nth_error l i = Some x -> skipn i l = x :: skipn (S i) l.
Proof.
  induction l as [|y r IH]; intros [|i] x H; cbn [nth_error] in H; try discriminate.
  - now injection H as ->.
  - cbn [skipn]. now apply IH.
Qed.

Lemma skipn_indexed_cons {X} (l : list X) i x : nth_error l i = Some x ->
  skipn i (indexed l) = (i, x) :: skipn (S i) (indexed l).
Proof. intro H. apply skipn_nth_cons. now rewrite nth_error_indexed, H. Qed.

Lemma skipn_indexed_all {X} (l : list X) : skipn (length l) (indexed l) = [].
Proof. apply skipn_all2. unfold indexed. rewrite combine_length, seq_length. lia. Qed.

(* the longest list of characters of the table: bounds the `while cur_index < top_index` loops *)
Definition lvls_maxlen (m : list (nat * list N)) : nat := list_max (map (fun e => length (snd e)) m).
Definition cp_maxlen (t : cp_index) : nat := list_max (map (fun e => lvls_maxlen (snd e)) t).

Lemma list_max_In l x : In x l -> x <= list_max l.
Proof.
  intro H. pose proof (proj1 (list_max_le l (list_max l)) (le_n _)) as F.
  rewrite Forall_forall in F. now apply F.
Qed.

Lemma cpf_of_length t p l : length (cpf_of t p l) <= cp_maxlen t.
Proof.
  unfold cpf_of. rewrite dfind_idx_lookup. destruct (dfind ostr_eqb p t) as [m|] eqn:E; [|cbn; lia].
  rewrite dfind_lvl_lookup. destruct (dfind Nat.eqb l m) as [cs|] eqn:E2; [|cbn; lia].
  destruct (dfind_In _ _ _ _ E) as [p' H1]. destruct (dfind_In _ _ _ _ E2) as [l' H2].
  transitivity (lvls_maxlen m).
  - apply list_max_In. apply in_map_iff. exists (l', cs). auto.
  - apply list_max_In. apply in_map_iff. exists (p', m). auto.
Qed.

(* ------------------------------------------------------------------ *)
Section GS.
  Variable cp : cp_index.
  Variable maxl optmax : nat.
  Hypothesis cp_ne : cp_nonempty cp.

  Notation cpf := (cpf_of cp).
  Notation find_cp := (Omen.find_cp cpf maxl).
  Notation fill := (Omen.fill cpf maxl optmax).

  (* a GuessStructure of this grammar *)
  Definition gs_ok (self : pygs) : Prop := gs_cp self = cp /\ gs_max_level self = Z.of_nat maxl.

  (* ---------------------------------------------------------------- *)
  (* _find_cp                                                          *)

  Lemma scan_down_none p n bottom : (forall L, cpf p L = []) -> scan_down cpf p n bottom = None.
  Proof.
    intro H. induction n as [|n IH]; cbn [scan_down]; rewrite H; cbn [is_nil negb];
      destruct (_ <? bottom)%Z; auto.
  Qed.

  (* the value of the loop `while top_level >= bottom_level` started at t *)
  Definition scan_from (p : ostr) (t bottom : Z) : option nat :=
    if (t <? 0)%Z then None else scan_down cpf p (Z.to_nat t) bottom.

  Definition fcp_py (p : ostr) (o : option nat) : option (list N * Z) :=
    option_map (fun L => (cpf p L, Z.of_nat L)) o.

  Lemma find_cp_loop p m bottom
        (cond : Z -> res bool) (body : Z -> res (lctl (option (list N * Z)) Z)) (k : Z -> res (option (list N * Z))) :
    dfind ostr_eqb p cp = Some m ->
    (forall t, cond t = Ok (bottom <=? t)%Z) ->
    (forall t, body t = match lvl_find m t with
                        | Some cs => Ok (Return (Some (cs, t)))
                        | None => Ok (Continue (t - 1)%Z)
                        end) ->
    (forall t, k t = Ok None) ->
    forall fuel t, fuel > Z.to_nat (t - bottom + 1) ->
    mwhile fuel cond body t k = Ok (fcp_py p (scan_from p t bottom)).
  Proof.
    intros Hm Hcond Hbody Hk. induction fuel as [|f IH]; intros t Hf; [lia|].
    cbn [mwhile]. rewrite Hcond. unfold scan_from.
    destruct (bottom <=? t)%Z eqn:Eb.
    - apply Z.leb_le in Eb. rewrite Hbody.
      destruct (t <? 0)%Z eqn:Et.
      + apply Z.ltb_lt in Et. rewrite lvl_find_neg by exact Et.
        rewrite IH by lia. unfold scan_from.
        replace (t - 1 <? 0)%Z with true by (symmetry; apply Z.ltb_lt; lia). reflexivity.
      + apply Z.ltb_ge in Et. rewrite <- (Z2Nat.id t Et) at 1.
        rewrite (cp_level_find cp p m _ cp_ne Hm).
        remember (Z.to_nat t) as n eqn:En.
        assert (scan_down cpf p n bottom =
                if negb (is_nil (cpf p n)) then Some n
                else match n with 0 => None | S n' => scan_down cpf p n' bottom end) as Esc.
        { destruct n; cbn [scan_down];
            (replace (_ <? bottom)%Z with false by (symmetry; apply Z.ltb_ge; lia)); reflexivity. }
        rewrite Esc. destruct (cpf p n) as [|c0 cs] eqn:Ecs; cbn [is_nil negb].
        * rewrite IH by lia. unfold scan_from. destruct n as [|n'].
          -- replace (t - 1 <? 0)%Z with true by (symmetry; apply Z.ltb_lt; lia). reflexivity.
          -- replace (t - 1 <? 0)%Z with false by (symmetry; apply Z.ltb_ge; lia).
             replace (Z.to_nat (t - 1)) with n' by lia. reflexivity.
        * cbn [fcp_py option_map]. rewrite Ecs. do 4 f_equal. lia.
    - apply Z.leb_gt in Eb. rewrite Hk. destruct (t <? 0)%Z eqn:Et; [reflexivity|].
      apply Z.ltb_ge in Et. destruct (Z.to_nat t) eqn:En; cbn [scan_down];
        (replace (_ <? bottom)%Z with true by (symmetry; apply Z.ltb_lt; lia)); reflexivity.
  Qed.

  Theorem gen_find_cp fuel self p top bottom :
    gs_ok self ->
    fuel > Z.to_nat (Z.min top (Z.of_nat maxl) - bottom + 1) ->
    py_gs_find_cp fuel self p top bottom = Ok (fcp_py p (find_cp p top bottom)).
  Proof.
    intros [Hcp Hml] Hf. unfold py_gs_find_cp. rewrite Hcp, Hml.
    rewrite (dmem_dfind ostr_eqb), negb_involutive.
    destruct (dfind ostr_eqb p cp) as [m|] eqn:Em; cbn [is_none].
    - (* the clamped starting level *)
      set (t0 := if (Z.of_nat maxl <? top)%Z then Z.of_nat maxl else top).
      assert (forall (f : Z -> res (option (list N * Z))),
                 (top_level <- (if (Z.of_nat maxl <? top)%Z then Ok (Z.of_nat maxl) else Ok top) ;; f top_level) = f t0) as Hjoin.
      { intro f. subst t0. destruct (Z.of_nat maxl <? top)%Z; reflexivity. }
      rewrite Hjoin.
      rewrite (find_cp_loop p m bottom) with (t := t0); try exact Em; try reflexivity.
      + f_equal. f_equal. unfold scan_from, Omen.find_cp. subst t0.
        destruct (Z.of_nat maxl <? top)%Z eqn:E1.
        * apply Z.ltb_lt in E1.
          replace (Z.of_nat maxl <? 0)%Z with false by (symmetry; apply Z.ltb_ge; lia).
          replace (top <? 0)%Z with false by (symmetry; apply Z.ltb_ge; lia).
          f_equal. lia.
        * apply Z.ltb_ge in E1. destruct (top <? 0)%Z eqn:E2; [reflexivity|].
          apply Z.ltb_ge in E2. f_equal. lia.
      + intro t. cbn [bind dict_get]. destruct (lvl_find m t); reflexivity.
      + subst t0. destruct (Z.of_nat maxl <? top)%Z eqn:E1; [apply Z.ltb_lt in E1 | apply Z.ltb_ge in E1]; lia.
    - cbn [fcp_py].
      assert (find_cp p top bottom = None) as ->; [|reflexivity].
      unfold Omen.find_cp. destruct (top <? 0)%Z; [reflexivity|]. apply scan_down_none.
      apply cp_absent. rewrite (dmem_dfind ostr_eqb), Em. reflexivity.
  Qed.
End GS.
