(* CountersF64.v - the binary64 instance of calculate_probabilities: a list
   written from non-negative counts that do not exceed their (finite, positive)
   total is sorted non-increasing and every probability lies in [0,1] - in
   binary64, ties and rounding included.  This is the "wf" shape the guesser's
   order theorems (C01) assume of a loaded terminal list. *)
From Coq Require Import String Ascii.
From Coq Require Import List NArith Bool Floats Sorted Permutation.
From Pcfg Require Import ProbAlg F64 TextFile Counters CountersProofs IoFloatFacts.
Import ListNotations.

Section LocalSort.
  Variable O : numops.
  Let R (x y : str * num O) : Prop := nltb O (snd x) (snd y) = false.

  Lemma hdrel_ins (y x : str * num O) r : HdRel R y r -> R y x -> HdRel R y (ins_desc x r).
  Proof.
    intros H Hyx. destruct r as [|z r']; simpl.
    - constructor. exact Hyx.
    - destruct (nltb O (snd x) (snd z)); constructor; [inversion H; assumption | exact Hyx].
  Qed.

  (* insertion keeps the list locally sorted provided < is asymmetric on the counts involved *)
  Lemma ins_desc_sorted (x : str * num O) : forall l,
    (forall y, In y l -> nltb O (snd x) (snd y) = true -> nltb O (snd y) (snd x) = false) ->
    Sorted R l -> Sorted R (ins_desc x l).
  Proof.
    induction l as [|y r IH]; intros Has Hs; simpl.
    - repeat constructor.
    - destruct (nltb O (snd x) (snd y)) eqn:E.
      + inversion Hs; subst. constructor.
        * apply IH; [intros z Hz; apply Has; right; exact Hz | assumption].
        * apply hdrel_ins; [assumption | apply Has; [left; reflexivity | exact E]].
      + constructor; [exact Hs | constructor; exact E].
  Qed.

  Lemma in_ins_desc (x z : str * num O) l : In z (ins_desc x l) -> z = x \/ In z l.
  Proof.
    induction l as [|y r IH]; simpl; intro H.
    - destruct H as [H|[]]; left; symmetry; exact H.
    - destruct (nltb O (snd x) (snd y)).
      + destruct H as [H|H]; [right; left; exact H|]. destruct (IH H) as [E|Hin]; [left; exact E | right; right; exact Hin].
      + destruct H as [H|H]; [left; symmetry; exact H | right; exact H].
  Qed.

  Lemma in_most_common (z : str * num O) c : In z (most_common c) -> In z c.
  Proof.
    induction c as [|x c IH]; simpl; intro H; [exact H|].
    destruct (in_ins_desc x z _ H) as [E|Hin]; [left; symmetry; exact E | right; apply IH; exact Hin].
  Qed.

  Theorem most_common_locally_sorted : forall c : counter O,
    (forall x y, In x c -> In y c -> nltb O (snd x) (snd y) = true -> nltb O (snd y) (snd x) = false) ->
    Sorted R (most_common c).
  Proof.
    induction c as [|x c IH]; intro Has; simpl; [constructor|].
    apply ins_desc_sorted.
    - intros y Hy. apply Has; [left; reflexivity | right; apply in_most_common; exact Hy].
    - apply IH. intros a b Ha Hb. apply Has; right; assumption.
  Qed.
End LocalSort.

Lemma ltb_asym_ok a b : okbF a = true -> okbF b = true -> (a <? b)%float = true -> (b <? a)%float = false.
Proof.
  intros Ha Hb H. pose proof (okbF_okF a Ha) as Oa. pose proof (okbF_okF b Hb) as Ob.
  rewrite (ltb_negb_leb a b Oa Ob) in H. rewrite (ltb_negb_leb b a Ob Oa).
  destruct (ple_total_F a b Oa Ob) as [L|L]; [rewrite L; reflexivity|].
  rewrite L in H. discriminate.
Qed.

Definition prob_desc (x y : str * float) : Prop := (snd y <=? snd x)%float = true.

Theorem calc_probs_F64_wf : forall c : counter FNum,
  Forall (fun kv => okbF (snd kv) = true /\ (snd kv <=? total c)%float = true) c ->
  okbF (total c) = true -> (0 <? total c)%float = true ->
  Sorted prob_desc (calc_probs c) /\ Forall (fun kv => unitbF (snd kv) = true) (calc_probs c).
Proof.
  intros c Hall Ht H0. rewrite Forall_forall in Hall.
  assert (Hmc : forall z, In z (most_common c) -> okbF (snd z) = true /\ (snd z <=? total c)%float = true).
  { intros z Hz. apply Hall. apply (in_most_common FNum). exact Hz. }
  assert (Hs : Sorted (fun x y : str * num FNum => nltb FNum (snd x) (snd y) = false) (most_common c)).
  { apply most_common_locally_sorted. intros x y Hx Hy. simpl.
    apply ltb_asym_ok; [apply (Hall x Hx) | apply (Hall y Hy)]. }
  rewrite calc_probs_eq. set (t := total c) in *. clearbody t.
  pose proof (okbF_okF t Ht) as Ot.
  split.
  - induction Hs as [|x l Hsl IH Hhd]; simpl; [constructor|].
    constructor.
    + apply IH. intros z Hz. apply Hmc. right. exact Hz.
    + destruct l as [|y l']; simpl; constructor.
      inversion Hhd as [|? ? Hxy]; subst. unfold prob_desc. simpl in *.
      destruct (Hmc x (or_introl eq_refl)) as [Ox Lx]. destruct (Hmc y (or_intror (or_introl eq_refl))) as [Oy Ly].
      pose proof (okbF_okF _ Ox) as Oxx. pose proof (okbF_okF _ Oy) as Oyy.
      assert (Lyx : (snd y <=? snd x)%float = true).
      { rewrite (ltb_negb_leb (snd x) (snd y) Oxx Oyy) in Hxy. destruct ((snd y <=? snd x)%float); [reflexivity | discriminate]. }
      apply pdiv_mono_F; assumption.
  - apply Forall_forall. intros kv Hkv. apply in_map_iff in Hkv. destruct Hkv as [z [E Hz]]. subst kv. simpl.
    destruct (Hmc z Hz) as [Oz Lz]. apply unitF_unitbF. apply pdiv_unit_F; try assumption. apply okbF_okF. exact Oz.
Qed.

(* the hypotheses as a computable test (evaluated on every trained counter by the correspondence) *)
Definition f64_wf_hyps (c : counter FNum) : bool :=
  forallb (fun kv => okbF (snd kv) && (snd kv <=? total c)%float) c && okbF (total c) && (0 <? total c)%float.

Lemma f64_wf_hyps_ok c : f64_wf_hyps c = true ->
  Sorted prob_desc (calc_probs c) /\ Forall (fun kv => unitbF (snd kv) = true) (calc_probs c).
Proof.
  unfold f64_wf_hyps. intro H. apply andb_true_iff in H. destruct H as [H H0]. apply andb_true_iff in H. destruct H as [Ha Ht].
  apply calc_probs_F64_wf; try assumption.
  apply Forall_forall. intros kv Hkv. rewrite forallb_forall in Ha. specialize (Ha kv Hkv).
  apply andb_true_iff in Ha. exact Ha.
Qed.

(* non-vacuity: counts 2, 2, 1 *)
Example calc_probs_F64_demo :
  let c : counter FNum := [([97], 2%float); ([98], 2%float); ([99], 1%float)]%N in
  Forall (fun kv => okbF (snd kv) = true /\ (snd kv <=? total c)%float = true) c /\
  okbF (total c) = true /\ (0 <? total c)%float = true /\
  map snd (calc_probs c) = [0x1.999999999999ap-2%float; 0x1.999999999999ap-2%float; 0x1.999999999999ap-3%float].
Proof.
  simpl. split; [repeat constructor|]. split; [reflexivity|]. split; reflexivity.
Qed.
