#!/usr/bin/env python3
"""Copy the confirmed seeded changes from /tmp/mut_out into /verif/seeded/<id>/
(patch.diff, demo.py, meta.json) and regenerate /verif/seeded/README.md."""
import glob
import json
import os
import shutil

ROOT = os.path.dirname(os.path.dirname(os.path.abspath(__file__)))
rows = []
for rf in sorted(glob.glob("/tmp/mut_out/*/result_*.json")):
    r = json.load(open(rf))
    d = os.path.dirname(rf)
    k = r["k"]
    prop = r["property"]
    if not r.get("confirmed"):
        continue
    sid = "%s-%s" % (prop, k)
    out = os.path.join(ROOT, "seeded", sid)
    os.makedirs(out, exist_ok=True)
    shutil.copy(os.path.join(d, "mutation_%s.diff" % k), os.path.join(out, "patch.diff"))
    shutil.copy(os.path.join(d, "demo_%s.py" % k), os.path.join(out, "demo.py"))
    mf = os.path.join(d, "meta_%s.json" % k)
    if not os.path.exists(mf):
        mf = os.path.join(d, "notes_%s.json" % k)
    meta = json.load(open(mf))
    if "needs" not in meta:
        meta["needs"] = meta.get("needs_to_manifest")
    prev = {}
    if os.path.exists(os.path.join(out, "meta.json")):
        prev = json.load(open(os.path.join(out, "meta.json")))
    caught = {c: (v["rc"] != 0) for c, v in r["checks"].items()}
    first = {c: [l for l in v["lines"] if l.startswith("VIOLATION")][:2] for c, v in r["checks"].items()}
    meta_out = {
        "id": sid, "breaks_property": prop, "summary": meta.get("summary"), "needs_to_manifest": meta.get("needs"),
        "files": meta.get("files"),
        "written_by": "independent sub-agent given only the property text and a scratch worktree of /repo",
        "confirmed": {"unchanged_tree": {"tests": r.get("base_tests"), "demo_exit": r.get("base_demo_rc")},
                      "with_change": {"tests": r.get("mut_tests"), "demo_exit": r.get("mut_demo_rc")}},
        "how_run": "tools/eval_mutation.py %s <dir> %s: scratch worktree of /repo HEAD, pytest, demo, git apply, pytest, demo; then "
                   "the checks with PCFG_REPO=<worktree with the change> PCFG_COQ=<private copy of coq/>" % (prop, k),
        "checks_run": {c: {"exit": v["rc"], "lines": v["lines"][:4]} for c, v in r["checks"].items()},
        "caught_by": sorted(c for c, ok in caught.items() if ok),
    }
    # a change that an earlier version of the checks missed keeps saying so
    missed_before = prev.get("missed_at_first") or (sorted(c for c, ok in {x: (y["exit"] != 0) for x, y in prev.get("checks_run", {}).items()}.items() if not ok))
    if missed_before:
        meta_out["missed_at_first"] = missed_before
    json.dump(meta_out, open(os.path.join(out, "meta.json"), "w"), indent=1)
    rows.append((sid, prop, meta.get("summary", ""), meta.get("needs", ""), caught, first))

rows = []
for mf in sorted(glob.glob(os.path.join(ROOT, "seeded", "*", "meta.json"))):
    m = json.load(open(mf))
    caught = {c: (v["exit"] != 0) for c, v in m.get("checks_run", {}).items()}
    rows.append((m["id"], m["breaks_property"], m.get("summary") or "", m.get("needs_to_manifest") or "", caught, m.get("missed_at_first")))

with open(os.path.join(ROOT, "seeded", "README.md"), "w") as f:
    f.write("# Seeded changes\n\nEach directory holds one independently written change to lakiw/pcfg_cracker that breaks a property while the\n"
            "75 pinned tests still pass (`patch.diff`), its demonstration (`demo.py`: exit 0 on the unchanged tree, non-zero with the\n"
            "change) and `meta.json` (what it needs to manifest, what was run, which checks report it). None of them is ever\n"
            "committed to /repo. Ids -1/-2 are the first round, -3/-4 the second, -5/-6 the third, -7/-8 the fourth, -9/-10 the fifth, -11/-12 the sixth (a fresh set of\n"
            "sub-agents each time; DESIGN.md section 11 says what each round asked for).\n\n"
            "| id | property | change | needs | reported by | missed at first by |\n|---|---|---|---|---|---|\n")
    for sid, prop, summ, needs, caught, missed in rows:
        cb = ", ".join("%s%s" % (c, "" if ok else " (missed)") for c, ok in sorted(caught.items()))
        f.write("| %s | %s | %s | %s | %s | %s |\n" % (sid, prop, summ.replace("|", "/")[:220], needs.replace("|", "/")[:220], cb, ", ".join(missed or [])))
print(len(rows), "kept in all")
