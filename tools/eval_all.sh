#!/bin/sh
# evaluate every delivered seeded change that has no result yet
cd /verif
for p in "$@"; do
  for k in 1 2; do
    d=/tmp/mut_out/$p
    [ -f $d/mutation_$k.diff ] || continue
    [ -f $d/result_$k.json ] && continue
    case $p in
      C01|C02) checks="C01,C02";;
      C14) checks="C14,C08";;
      *) checks="$p";;
    esac
    python3 tools/eval_mutation.py $p $d $k --checks=$checks > $d/eval_$k.log 2>&1
  done
done
