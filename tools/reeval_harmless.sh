#!/bin/sh
# tools/reeval_harmless.sh [jobs]: every kept behaviour-preserving refactoring (seeded/harmless/*) against the current checks;
# the checks run are the property's own plus those recorded in meta.json first_result
cd "$(dirname "$0")/.."
jobs=${1:-5}
out=/tmp/mut_out/reharm; rm -rf $out; mkdir -p $out
for d in seeded/harmless/H*-*; do
  id=$(basename $d); mkdir -p $out/$id
  cp $d/patch.diff $out/$id/harmless_1.diff; cp $d/equiv.py $out/$id/equiv_1.py
  python3 -c "import json;m=json.load(open('$d/meta.json'));json.dump({'property':m['property'],'summary':m.get('summary')},open('$out/$id/note_1.json','w'))"
  checks=$(python3 -c "import json;m=json.load(open('$d/meta.json'));print(','.join(sorted(set([m['property']]+list(m.get('first_result',{}).keys())))))")
  echo "$out/$id 1 --checks=$checks"
done | xargs -P $jobs -L 1 python3 tools/eval_harmless.py
# record what the checks say NOW in every meta.json (first_result stays as it was)
python3 - <<'PY'
import json,glob,os
for d in sorted(glob.glob('seeded/harmless/H*-*')):
    rf='/tmp/mut_out/reharm/%s/hresult_1.json'%os.path.basename(d)
    if not os.path.exists(rf): continue
    r=json.load(open(rf)); m=json.load(open(d+'/meta.json'))
    m['current_result']={c:('alarm' if v['rc'] else 'quiet') for c,v in r.get('checks',{}).items()}
    m['still_equivalent']=r.get('equivalent')
    json.dump(m,open(d+'/meta.json','w'),indent=1)
PY
