#!/usr/bin/env python3
"""Evaluate one behaviour-preserving refactoring:  tools/eval_harmless.py <dir> <k> [--checks C01,C02]

<dir> holds harmless_<k>.diff, equiv_<k>.py (prints a last line `DIGEST <hex>`), note_<k>.json ({"property": ...}).
1. scratch worktree of /repo HEAD: test suite and digest on the unchanged tree; apply the diff; test suite and digest again
   (must be identical: that is what "behaviour preserving" means here);
2. run the checks (default: the property named in the note) against the refactored tree (PCFG_REPO, private Coq copy).
A check that reports a violation here raised a FALSE alarm (or the refactoring is not behaviour preserving after all:
the replay says which). Writes <dir>/hresult_<k>.json."""
import json
import os
import shutil
import subprocess
import sys
import tempfile

VERIF = os.path.dirname(os.path.dirname(os.path.abspath(__file__)))     # the tree this script lives in (a builder worktree evaluates itself)

d, k = sys.argv[1], sys.argv[2]
note = json.load(open(os.path.join(d, "note_%s.json" % k)))
checks = [note["property"]]
for a in sys.argv[3:]:
    if a.startswith("--checks="):
        checks = a.split("=", 1)[1].split(",")
diff = os.path.join(d, "harmless_%s.diff" % k)
equiv = os.path.join(d, "equiv_%s.py" % k)
res = {"k": k, "property": note["property"], "summary": note.get("summary")}


def sh(cmd, cwd=None, timeout=1800):
    p = subprocess.run(cmd, shell=True, cwd=cwd, stdout=subprocess.PIPE, stderr=subprocess.STDOUT, text=True, timeout=timeout)
    return p.returncode, p.stdout


def digest(wt):
    rc, out = sh("/venv/bin/python equiv.py", wt, 600)
    lines = [l for l in out.split("\n") if l.startswith("DIGEST ")]
    return lines[-1] if lines else "NO-DIGEST rc=%s %s" % (rc, out[-200:])


wt = tempfile.mkdtemp(prefix="hv_", dir="/tmp")
os.rmdir(wt)
try:
    rc, out = sh("git -C /repo worktree add -q --detach %s HEAD" % wt)
    assert rc == 0, out
    shutil.copy(equiv, os.path.join(wt, "equiv.py"))
    res["base_tests"] = sh("/venv/bin/python -m pytest -q -p no:cacheprovider 2>&1 | tail -1", wt)[1].strip()
    res["base_digest"] = digest(wt)
    rc, out = sh("git apply %s" % diff, wt)
    res["applies"] = rc == 0
    if rc == 0:
        res["ref_tests"] = sh("/venv/bin/python -m pytest -q -p no:cacheprovider 2>&1 | tail -1", wt)[1].strip()
        res["ref_digest"] = digest(wt)
    res["equivalent"] = bool(res.get("applies") and "75 passed" in res.get("base_tests", "") and "75 passed" in res.get("ref_tests", "")
                             and res["base_digest"].startswith("DIGEST ") and res["base_digest"] == res.get("ref_digest"))
    res["checks"] = {}
    if res["equivalent"]:
        os.remove(os.path.join(wt, "equiv.py"))
        coqcopy = wt + "_coq"
        sh("rsync -a --exclude cases %s/coq/ %s/" % (VERIF, coqcopy))
        os.makedirs(wt + "_out", exist_ok=True)
        for c in checks:
            rc, out = sh("PCFG_REPO=%s PCFG_COQ=%s PCFG_OUT=%s ./check %s --tier quick" % (wt, coqcopy, wt + "_out", c), VERIF, 3600)
            lines = [l for l in out.split("\n") if l.startswith("VIOLATION") or l.startswith("  no longer checks") or " obligations" in l]
            why = ""
            rp = os.path.join(wt + "_out", "replays", "%s_broken.json" % c)
            if os.path.exists(rp):
                why = json.dumps(json.load(open(rp)).get("broken"))[:700]
            res["checks"][c] = {"rc": rc, "lines": [l[:300] for l in lines][:6], "why": why}
finally:
    sh("git -C /repo worktree remove --force %s" % wt)
    shutil.rmtree(wt, ignore_errors=True)
    shutil.rmtree(wt + "_coq", ignore_errors=True)
    shutil.rmtree(wt + "_out", ignore_errors=True)
json.dump(res, open(os.path.join(d, "hresult_%s.json" % k), "w"), indent=1)
print(os.path.basename(d), k, res["property"], "equivalent" if res.get("equivalent") else "NOT-EQUIVALENT(%s | %s)" % (res.get("base_digest", "")[:30], res.get("ref_digest", "")[:30]),
      {c: ("ALARM" if v["rc"] else "quiet") for c, v in res["checks"].items()})
for c, v in res["checks"].items():
    if v["rc"]:
        for l in v["lines"][:3]:
            print("    ", l[:220])
        if v["why"]:
            print("     why:", v["why"][:500])
