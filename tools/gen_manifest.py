#!/usr/bin/env python3
"""Regenerate MANIFEST.json from the table below (keeps it schema-valid)."""
import json, os
ROOT = os.path.dirname(os.path.dirname(os.path.abspath(__file__)))
ids = [json.loads(l)["id"] for l in open(os.path.join(ROOT, "properties.jsonl"))]
CLAIMED = json.load(open(os.path.join(ROOT, "tools", "claims.json")))
checks, na = [], []
for i in ids:
    c = CLAIMED.get(i)
    if not c or c.get("not_applicable"):
        na.append({"property_id": i, "reason": (c or {}).get("not_applicable", "check not built yet in this session (planned: see DESIGN.md section 5)")})
        continue
    checks.append({
        "property_id": i,
        "quick_cmd": "./check %s --tier quick" % i,
        "thorough_cmd": "./check %s --tier thorough" % i,
        "evidence_file": "/verif/evidence/%s.json" % i,
        "replay_cmd_template": "./check %s --replay {path}" % i,
        "engine": "coq-model+correspondence",
        "level_claimed": {"category": c.get("category", "proof"), "text": c["text"], "design_ref": c.get("design_ref", "DESIGN.md section 5, " + i)},
        "level_note": c["note"],
        "technique": c.get("technique", "machine-checked proof in Coq 8.16 about a hand-written Gallina model + vm_compute correspondence check against the Python implementation"),
    })
m = {
    "version": 1,
    "setup_cmd": "./setup.sh",
    "hooks": {"guard": "PCFG_VERIF", "enable": "no hooks are needed: every observation point is reached from the harness (module/object attributes)",
              "baseline_off_cmd": "cd /repo && /venv/bin/python -m pytest -ra -q -p no:cacheprovider --timeout=900 --continue-on-collection-errors",
              "source_commits": [], "add_only": True},
    "engines": [{"name": "coq-model+correspondence", "path": "/verif/check",
                 "serves_properties": [c["property_id"] for c in checks],
                 "kind_free_text": "Coq 8.16 theorems over Gallina models (coq/theories, coq/Props) tied to /repo by per-run correspondence: the harness runs the Python implementation on generated inputs, writes inputs+outputs as Gallina literals and coqc evaluates model = implementation with vm_compute; direct oracles search for a failing input"}],
    "checks": checks,
    "not_applicable": na,
    "notes": "See DESIGN.md. known_findings.json lists recorded defects; evidence/ is rewritten by every run.",
}
json.dump(m, open(os.path.join(ROOT, "MANIFEST.json"), "w"), indent=1)
print(len(checks), "claimed;", len(na), "not yet")
