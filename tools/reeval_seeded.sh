#!/bin/sh
# tools/reeval_seeded.sh [jobs] [Cxx]: re-evaluate EVERY kept seeded change (or only those of property Cxx; REEVAL_OUT=dir for a private output dir) (seeded/Cxx-k) on scratch worktrees with the current checks
# and every kept harmless refactoring (seeded/harmless/*); prints one line per change. Results in /tmp/mut_out/reeval/.
cd "$(dirname "$0")/.."
jobs=${1:-6}; only=${2:-C}
out=${REEVAL_OUT:-/tmp/mut_out/reeval}; rm -rf $out; mkdir -p $out
ls -d seeded/$only*-* | while read d; do
  id=$(basename $d); p=${id%-*}; k=${id#*-}
  mkdir -p $out/$id; cp $d/patch.diff $out/$id/mutation_$k.diff; cp $d/demo.py $out/$id/demo_$k.py
  checks=$(python3 -c "import json;m=json.load(open('$d/meta.json'));print(','.join(m.get('caught_by') or ['$p']))")
  echo "$p $out/$id $k --checks=$checks"
done | xargs -P $jobs -L 1 sh -c 'python3 tools/eval_mutation.py $0 $1 $2 $3 > $1/log 2>&1; python3 - $1 $2 <<PY
import json,sys
r=json.load(open(sys.argv[1]+"/result_"+sys.argv[2]+".json"))
print(sys.argv[1].split("/")[-1], "confirmed" if r["confirmed"] else "NOT-CONFIRMED(applies=%s)"%r.get("applies"), {c:("CAUGHT" if v["rc"] else "MISSED") for c,v in r["checks"].items()})
PY'
