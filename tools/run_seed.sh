#!/bin/sh
# all checks under another seed / tier, outputs to a scratch dir (evidence in /verif stays from the standard run)
cd "$(dirname "$0")/.."
seed=$1; tier=${2:-quick}
out=/tmp/seed_${seed}_${tier}; mkdir -p $out
for p in $(python3 -c "import json;print(' '.join(c['property_id'] for c in json.load(open('MANIFEST.json'))['checks']))"); do
  s=$(date +%s)
  VERIF_SEED=$seed PCFG_OUT=$out ./check $p --tier $tier > $out/$p.log 2>&1
  rc=$?
  e=$(date +%s)
  echo "$p rc=$rc $((e-s))s $(grep -c '^VIOLATION' $out/$p.log) violations; $(tail -n 1 $out/$p.log | cut -c1-110)"
done
