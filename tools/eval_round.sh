#!/bin/sh
# tools/eval_round.sh Cxx k [checks]: evaluate seeded change k of property Cxx (from /tmp/mut_out/Cxx) on a scratch worktree
cd "$(dirname "$0")/.."
p=$1; k=$2; checks=${3:-$p}
python3 tools/eval_mutation.py $p /tmp/mut_out/$p $k --checks=$checks > /tmp/mut_out/$p/eval_$k.log 2>&1
python3 - <<PY
import json
r=json.load(open('/tmp/mut_out/$p/result_$k.json'))
print('$p-$k', 'confirmed' if r['confirmed'] else 'NOT-CONFIRMED', r.get('base_tests','')[:10], r.get('mut_tests','')[:10], 'demo', r.get('base_demo_rc'), r.get('mut_demo_rc'),
      {c:('CAUGHT' if v['rc'] else 'missed') for c,v in r['checks'].items()})
for c,v in r['checks'].items():
    for l in v['lines'][:4]: print('    ',c,l[:200])
PY
