#!/usr/bin/env python3
"""Evaluate one seeded change:  tools/eval_mutation.py <prop> <dir> <k> [--checks C01,C02]

1. confirm, in a scratch worktree of /repo HEAD (outside /repo and /verif, removed afterwards), that
   the unchanged tree passes the test suite and the demonstration, and that with the change applied
   the suite still passes and the demonstration fails;
2. apply the change to /repo, run the listed checks (default: the property's own), undo it.
Writes <dir>/result_<k>.json and prints a summary.
"""
import json
import os
import subprocess
import sys
import shutil
import tempfile

VERIF = os.path.dirname(os.path.dirname(os.path.abspath(__file__)))     # the tree this script lives in (a builder worktree evaluates itself)

prop, d, k = sys.argv[1], sys.argv[2], sys.argv[3]
checks = [prop]
tier = "quick"
for a in sys.argv[4:]:
    if a.startswith("--checks="):
        checks = a.split("=", 1)[1].split(",")
    if a.startswith("--tier="):
        tier = a.split("=", 1)[1]
diff = os.path.join(d, "mutation_%s.diff" % k)
demo = os.path.join(d, "demo_%s.py" % k)
res = {"property": prop, "k": k}


def sh(cmd, cwd=None, timeout=1800):
    import signal
    p = subprocess.Popen(cmd, shell=True, cwd=cwd, stdout=subprocess.PIPE, stderr=subprocess.STDOUT, text=True, start_new_session=True)
    try:
        out, _ = p.communicate(timeout=timeout)
    except subprocess.TimeoutExpired:
        try:
            os.killpg(p.pid, signal.SIGKILL)
        except OSError:
            pass
        out, _ = p.communicate()
        return 124, "TIMEOUT after %ss: %s" % (timeout, (out or "")[-300:])
    return p.returncode, out


wt = tempfile.mkdtemp(prefix="mv_", dir="/tmp")
os.rmdir(wt)
try:
    rc, out = sh("git -C /repo worktree add -q --detach %s HEAD" % wt)
    assert rc == 0, out
    shutil.copy(demo, os.path.join(wt, "demo.py"))
    rc, out = sh("/venv/bin/python -m pytest -q -p no:cacheprovider 2>&1 | tail -1", wt)
    res["base_tests"] = out.strip()
    rc, out = sh("/venv/bin/python demo.py", wt, 900)
    res["base_demo_rc"] = rc
    rc, out = sh("git apply %s" % diff, wt)
    res["applies"] = rc == 0
    if rc == 0:
        rc, out = sh("/venv/bin/python -m pytest -q -p no:cacheprovider 2>&1 | tail -1", wt)
        res["mut_tests"] = out.strip()
        rc, out = sh("/venv/bin/python demo.py", wt, 420)
        res["mut_demo_rc"] = rc
        res["mut_demo_tail"] = out[-400:]
except Exception as e:
    res["error"] = repr(e)
res["confirmed"] = bool(res.get("applies") and "75 passed" in res.get("base_tests", "") and "75 passed" in res.get("mut_tests", "")
                        and res.get("base_demo_rc") == 0 and res.get("mut_demo_rc", 0) != 0)
res["checks"] = {}
# While other work runs against /repo, the changed tree is a scratch worktree and the
# checks are pointed at it (PCFG_REPO); --in-repo applies it to /repo itself and undoes it.
in_repo = "--in-repo" in sys.argv
try:
    if res["confirmed"]:
        os.remove(os.path.join(wt, "demo.py"))
        if in_repo:
            rc, out = sh("git -C /repo status --porcelain")
            assert out.strip() == "", "repo not clean: " + out
            rc, out = sh("git -C /repo apply %s" % diff)
        try:
            for c in checks:
                os.makedirs(wt + "_out", exist_ok=True)
                env = "PCFG_OUT=%s " % (wt + "_out")      # never write evidence of a changed tree into /verif/evidence
                if not in_repo:
                    # private copy of the Coq tree: regenerated constants must not disturb checks running against /repo
                    coqcopy = wt + "_coq"
                    if not os.path.isdir(coqcopy):
                        sh("rsync -a --exclude cases %s/coq/ %s/" % (VERIF, coqcopy))
                    os.makedirs(wt + "_out", exist_ok=True)
                    env = "PCFG_REPO=%s PCFG_COQ=%s PCFG_OUT=%s " % (wt, coqcopy, wt + "_out")
                rc, out = sh("%s./check %s --tier %s" % (env, c, tier), VERIF, 3600)
                lines = [l for l in out.split("\n") if l.startswith("VIOLATION") or l.startswith("KNOWN") or " obligations" in l]
                res["checks"][c] = {"rc": rc, "lines": [l[:300] for l in lines][:8]}
        finally:
            if in_repo:
                sh("git -C /repo checkout -- .")
finally:
    sh("git -C /repo worktree remove --force %s" % wt)
    shutil.rmtree(wt, ignore_errors=True)
    shutil.rmtree(wt + "_coq", ignore_errors=True)
    shutil.rmtree(wt + "_out", ignore_errors=True)
json.dump(res, open(os.path.join(d, "result_%s.json" % k), "w"), indent=1)
print(json.dumps(res, indent=1)[:3000])
