#!/bin/sh
# run every claimed check once (tier $1, default quick) and print a summary
cd "$(dirname "$0")/.."
tier=${1:-quick}
for p in $(python3 -c "import json;print(' '.join(c['property_id'] for c in json.load(open('MANIFEST.json'))['checks']))"); do
  s=$(date +%s)
  ./check $p --tier $tier > ${RUNALL_OUT:-/tmp}/runall_$p.log 2>&1
  rc=$?
  e=$(date +%s)
  echo "$p rc=$rc $((e-s))s $(tail -n 1 ${RUNALL_OUT:-/tmp}/runall_$p.log | cut -c1-120)"
done
