#!/bin/sh
# tools/coqchk.sh: re-check every compiled property module (coq/Props/C01..C20.vo) and everything it depends on with the
# independent checker, on a private copy of coq/ (so a running check is not disturbed); writes docs/coqchk_<batch>.txt.
# Takes 5-20 minutes and several GB. Run after ./setup.sh and a full quick pass (Props/*.vo are compiled by the checks).
cd "$(dirname "$0")/.."
cp=/tmp/coqchk_copy_$$; rm -rf $cp; rsync -a --exclude cases coq/ $cp/
cd $cp
a="PcfgProps.C01 PcfgProps.C02 PcfgProps.C04 PcfgProps.C08 PcfgProps.C09 PcfgProps.C12 PcfgProps.C14 PcfgProps.C16 PcfgProps.C17"
b="PcfgProps.C03 PcfgProps.C05 PcfgProps.C06 PcfgProps.C07 PcfgProps.C10 PcfgProps.C11 PcfgProps.C13 PcfgProps.C15 PcfgProps.C18 PcfgProps.C19 PcfgProps.C20"
( ulimit -s unlimited; timeout 7200 coqchk -silent -o -Q theories Pcfg -Q gen PcfgGen -Q Props PcfgProps $a > "$OLDPWD/docs/coqchk_guesser_props.txt" 2>&1; echo "batch a rc=$?" ) &
( ulimit -s unlimited; timeout 7200 coqchk -silent -o -Q theories Pcfg -Q gen PcfgGen -Q Props PcfgProps $b > "$OLDPWD/docs/coqchk_trainer_omen_props.txt" 2>&1; echo "batch b rc=$?" ) &
wait
cd /; rm -rf $cp
