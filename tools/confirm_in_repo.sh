#!/bin/sh
# final confirmation as the brief prescribes: apply each kept change to /repo itself, run the checks, undo
cd /verif
for d in seeded/C*-*; do
  id=$(basename $d); p=${id%-*}; k=${id#*-}
  src=/tmp/mut_out/$p
  [ -f $src/mutation_$k.diff ] || { mkdir -p $src; cp $d/patch.diff $src/mutation_$k.diff; cp $d/demo.py $src/demo_$k.py; }
  checks=$(python3 -c "import json;print(','.join(json.load(open('$d/meta.json'))['caught_by']) or '$p')")
  python3 tools/eval_mutation.py $p $src $k --checks=$checks --in-repo > /tmp/mut_out/confirm_$id.log 2>&1
  python3 - <<PY
import json
r=json.load(open('$src/result_$k.json'))
print('$id', 'confirmed' if r['confirmed'] else 'NOT', {c:v['rc'] for c,v in r['checks'].items()})
PY
  git -C /repo status --porcelain | grep -v '^??' | head -3
done
