"""C11, stage "full": the level the scorer REPORTS.

Rulesets are trained by the real `run_trainer` (harness/trainer_io.train_inprocess: the whole three-pass trainer of the
working tree, PCFG grammar and OMEN tables, with the OMEN trainer object and the pass-3 counts captured), on small lists
that mix ordinary passwords with strings that look like e-mail addresses and web sites.  On the written rule directory
the real `PCFGPasswordScorer` is built exactly as password_scorer.py builds it (PCFGPasswordScorer(limit) ->
load_grammar -> create_multiword_detector -> create_omen_scorer(dir, max_omen_level), defaults limit 0 / max level 9),
and `password_scorer.py` itself is run on a scratch copy of the code tree.  The 4th field of `.parse()` / the 4th column
of the tool's output is the level "the scorer reports" of property C11.

Every random choice comes from the caller's random.Random."""
import os
import subprocess

import common
import omen_level as ol
import trainer_io as tio
import unicode_pool

common.repo_on_path()

WORDS = ["password", "monkey", "dragon", "sunshine", "iloveyou", "letmein", "qwerty", "football", "secret", "summer",
         "Shadow", "Princess", "love", "abc", "pass"]
DIGITS = ["1", "12", "123", "99", "7", "2", "2019", "007", "00"]
SYMBOLS = ["!", ".", "_", "@", "#", "-"]
USERS = ["bob", "anna", "joe12", "x.y", "me", "john_doe", "a", "Bob"]
PROVIDERS = ["gmail", "yahoo", "aol", "example", "mail", "web", "uni"]
HOSTS = ["google", "myspace", "facebook", "abc", "x", "mysite", "test", "my-site"]
PREFIXES = ["", "", "www.", "http://", "http://www.", "https://", "WWW."]
NOT_TLDS = [".xyz", ".c", ".co", "."]          # endings no detector knows: ordinary strings with a dot
NONASCII_WORDS = ["café", "niño", "über", "straße"]     # encodable in latin-1 / cp1252


def tlds(rng):
    """The endings the detectors of the working tree know (generator only; a constant list if it cannot be read)."""
    try:
        from lib_trainer.detection_rules.tld_list import get_tld_list
        l = [t for t in get_tld_list() if isinstance(t, str) and t.startswith(".") and 2 < len(t) < 6]
    except Exception:      # noqa: BLE001
        l = []
    return l or [".com", ".org", ".net", ".de", ".ru", ".edu", ".uk"]


def gen_email(rng, T):
    s = rng.choice(USERS) + "@" + rng.choice(PROVIDERS) + rng.choice(T)
    r = rng.random()
    if r < 0.15:
        s += rng.choice(DIGITS)
    elif r < 0.22:
        s = rng.choice(DIGITS) + s
    elif r < 0.27:
        s = s.upper()
    return s


def gen_site(rng, T):
    s = rng.choice(PREFIXES) + rng.choice(HOSTS) + rng.choice(T)
    r = rng.random()
    if r < 0.2:
        s += rng.choice(DIGITS)
    elif r < 0.27:
        s += "/" + rng.choice(WORDS)
    elif r < 0.33:
        s = rng.choice(WORDS) + s
    elif r < 0.38:
        s = s.upper()
    return s


def gen_plain(rng, nonascii=False):
    w = rng.choice(NONASCII_WORDS if nonascii and rng.random() < 0.5 else WORDS)
    r = rng.random()
    if r < 0.5:
        return w + rng.choice(DIGITS)
    if r < 0.65:
        return w + rng.choice(SYMBOLS) + rng.choice(DIGITS)
    if r < 0.75:
        return w + rng.choice(WORDS)
    if r < 0.85:
        return w + rng.choice(NOT_TLDS)
    return w


def gen_full_training(rng, kind=None, non_nfc=False):
    """A training list for the real trainer.  kinds: full_mixed (ordinary + e-mail + web site looking strings),
    full_mailweb (mostly e-mail / web site looking), full_plain (none), full_small_alphabet (alphabet so small that
    '@' / '.' may fall out of it)."""
    kind = kind or rng.choice(["full_mixed", "full_mixed", "full_mailweb", "full_plain", "full_small_alphabet"])
    T = tlds(rng)
    T = rng.sample(T, min(len(T), rng.randint(2, 4)))      # few endings: repeated n-grams, low levels
    encoding = rng.choice(["utf-8", "utf-8", "utf-8", "latin-1", "cp1252"])
    nonascii = encoding != "utf-8" or rng.random() < 0.3
    share = {"full_mixed": 0.4, "full_mailweb": 0.8, "full_plain": 0.0, "full_small_alphabet": 0.5}[kind]
    distinct = []
    for _ in range(rng.randint(6, 22)):
        r = rng.random()
        if r < share / 2:
            distinct.append(gen_email(rng, T))
        elif r < share:
            distinct.append(gen_site(rng, T))
        else:
            distinct.append(gen_plain(rng, nonascii))
    if non_nfc:
        # passwords that are not in Unicode normal form C beside their NFC twins (harness/unicode_pool.py; utf-8 only)
        encoding = "utf-8"
        for _, s, t in unicode_pool.password_pairs(rng, rng.randint(2, 4)):
            distinct += [s] if s == t else [s, t]
    pws = []
    for p in distinct:
        pws += [p] * rng.choice([1, 1, 1, 2, 2, 3, 5])
    rng.shuffle(pws)
    return {"kind": kind + ("+non_nfc" if non_nfc else ""), "stage": "full", "passwords": pws, "ngram": rng.choice([2, 3, 4, 4, 4, 5]),
            "alphabet_size": rng.choice([10, 12, 16]) if kind == "full_small_alphabet" else rng.choice([100, 100, 40]),
            "max_len": 21, "encoding": encoding, "coverage": rng.choice([0.6, 0.6, 0.0, 1.0]),
            "save_sensitive": rng.random() < 0.5,
            # password_scorer.py --limit / --max_omen (defaults 0 / 9): they decide the category, never the reported level
            "limit": rng.choice([0, 0, 0, 1e-12, 0.01]), "max_omen": rng.choice([9, 9, 9, 0, 2, 4, 12])}


class FullTrained(ol.Trained):
    """Same interface as omen_level.Trained (tables, trainer_level, the written files, the OMEN scorer, the guesser's
    loader), but the ruleset is the work of the real run_trainer."""

    def __init__(self, cfg, base_dir):
        self.cfg = cfg
        self.base_dir = os.path.join(base_dir, "rule")
        self.error = None
        enc = cfg["encoding"]
        os.makedirs(base_dir, exist_ok=True)
        tf = os.path.join(base_dir, "training.txt")
        with open(tf, "wb") as f:
            f.write(ol.training_bytes(cfg["passwords"], None, enc))
        rec = tio.train_inprocess(tf, enc, self.base_dir, coverage=cfg.get("coverage", 0.6), ngram=cfg["ngram"],
                                  alphabet_size=cfg["alphabet_size"], save_sensitive=cfg.get("save_sensitive", False))
        self.rec = rec
        self.usable = bool(rec.ok and rec.omen_trainer is not None and rec.omen_save is not None and rec.seqs)
        if not self.usable:
            self.error = rec.exc or (rec.stdout or "")[-200:]
            return
        self.trainer = rec.omen_trainer
        self.valid = list(rec.seqs[0])
        self.num_valid = rec.omen_save["n"]
        self.alphabet = rec.omen_save["alphabet"]
        self.levels_count = rec.omen_save["levels_count"]
        self.tables = self.snapshot()
        self.omen_dir = os.path.join(self.base_dir, "Omen")
        self.saved = True


def build_pcfg_scorer(rule_dir, limit=0, max_omen_level=9):
    """The object password_scorer.py scores with, built in the same order with the same arguments."""
    from lib_scorer.pcfg_password_scorer import PCFGPasswordScorer
    from lib_scorer.grammar_io import load_grammar

    def go():
        pw_parser = PCFGPasswordScorer(limit=limit)
        if not load_grammar(pw_parser, rule_dir):
            return None
        pw_parser.create_multiword_detector()
        pw_parser.create_omen_scorer(rule_dir, max_omen_level)
        return pw_parser
    try:
        p, out, err = common.quiet_call(go)
    except Exception as e:      # noqa: BLE001 - the property says the ruleset must be usable
        return None, "%s: %s" % (type(e).__name__, e)
    if p is None:
        lines = [l for l in (err + "\n" + out).split("\n") if l.strip()]
        return None, (lines[-1] if lines else "load_grammar returned False")[:200]
    return p, None


def report(P, s):
    """(level, category) PCFGPasswordScorer.parse reports for s, or (exception name, None)."""
    try:
        r, _, _ = common.quiet_call(P.parse, s)
    except Exception as e:      # noqa: BLE001
        return type(e).__name__, None
    if not (isinstance(r, tuple) and len(r) == 4 and isinstance(r[3], int) and not isinstance(r[3], bool)):
        return "malformed result %r" % (r,), None
    return r[3], r[1]


# ---------------------------------------------------------------- candidates

def mailweb_candidates(rng, T, n=40):
    """Strings around the e-mail / web site looking training strings: the pieces recombined (unseen addresses and hosts
    made of trained n-grams), other prefixes, digits attached, case changed, one character replaced by an unknown one,
    too long, too short."""
    out = []
    pws = sorted(set(T.cfg["passwords"]))
    mails = [p for p in pws if "@" in p and "." in p]
    dotted = [p for p in pws if "." in p and "@" not in p]
    plain = [p for p in pws if "." not in p and "@" not in p] or ["password1"]
    ends = tlds(rng)

    def add(s, why):
        out.append((s, why))
    for _ in range(n):
        r = rng.random()
        if mails and r < 0.3:
            a, b = rng.choice(mails), rng.choice(mails)
            s = a.split("@", 1)[0] + "@" + b.split("@", 1)[1]
            add(s, "mail-recombined")
            add(s + rng.choice(DIGITS), "mail-tail")
        elif dotted and r < 0.55:
            a = rng.choice(dotted)
            host = a.split("://")[-1]
            host = host[4:] if host.lower().startswith("www.") else host
            add(rng.choice(PREFIXES) + host, "site-prefix")
            add(host.rsplit(".", 1)[0] + rng.choice(ends), "site-ending")
            add(a + rng.choice(DIGITS), "site-tail")
        elif r < 0.7:
            add(rng.choice(plain) + "@" + rng.choice(PROVIDERS) + rng.choice(ends), "mail-unseen")
            add(rng.choice(["www.", "http://", ""]) + rng.choice(plain) + rng.choice(ends), "site-unseen")
        elif r < 0.8:
            p = rng.choice(mails + dotted or plain)
            add(p.swapcase(), "case")
            i = rng.randrange(len(p))
            add(p[:i] + rng.choice(ol.FOREIGN) + p[i + 1:], "foreign")
        elif r < 0.9:
            p = rng.choice(mails + dotted or plain)
            add(rng.choice(plain) * 2 + p, "too-long")            # > 21 characters (mostly)
            add(p[:rng.randint(1, T.trainer.ngram)], "short")
            add(p[-(T.trainer.ngram + rng.randint(0, 2)):], "short")      # 'l.com', '.com', 'x.org'
        else:
            add("a" + rng.choice(ends), "short")
            add("@" + rng.choice(ends), "short")
            add(rng.choice(USERS) + "@" + rng.choice(PROVIDERS) + rng.choice(NOT_TLDS), "mail-no-tld")
    return out


def dotted_members(rng, T, E, n=30):
    """Strings the MarkovCracker emitted that contain a dot or an '@': generated strings WITH a level that the detectors
    may take for an e-mail address or a web site."""
    m = sorted({s for L in E for s in E[L][0] if "." in s or "@" in s})
    rng.shuffle(m)
    return [(s, "member-dotted") for s in m[:n]]


def candidates(rng, T, E):
    seen = set()
    out = []
    for s, why in ol.candidates(rng, T, E, n_members=30, n_extra=5) + dotted_members(rng, T, E) + mailweb_candidates(rng, T):
        if s not in seen:
            seen.add(s)
            out.append((s, why))
    return out


# ---------------------------------------------------------------- password_scorer.py

_code = []


def code_tree():
    """One scratch copy of the code tree per process (password_scorer.py looks for Rules/ beside itself)."""
    if not _code:
        _code.append(common.copy_code_tree(common.scratch()))
    return _code[0]


def cli_safe(s, enc):
    """Strings that can be one line of an input file in the ruleset's encoding and come back as one output line."""
    if not s or s != s.strip() or "\t" in s or s.splitlines() != [s]:
        return False
    try:
        s.encode(enc)
    except UnicodeError:
        return False
    return True


def start_cli(T, name, strings, to_file):
    """Starts `password_scorer.py -r name -i file [-o file]` on the scratch copy; the ruleset is linked into its Rules/."""
    code = code_tree()
    link = os.path.join(code, "Rules", name)
    if os.path.lexists(link):
        os.remove(link)
    os.symlink(T.base_dir, link)
    work = os.path.dirname(T.base_dir)
    inp = os.path.join(work, "score_in.txt")
    with open(inp, "wb") as f:
        f.write(ol.training_bytes(strings, None, T.cfg["encoding"]))
    outp = os.path.join(work, "score_out.txt") if to_file else None
    env = common.subenv()
    env["PYTHONPATH"] = code
    cmd = [common.PY, "password_scorer.py", "-r", name, "-i", inp] + (["-o", outp] if outp else [])
    if T.cfg.get("limit", 0) != 0:
        cmd += ["-l", repr(T.cfg["limit"])]
    if T.cfg.get("max_omen", 9) != 9:
        cmd += ["-m", str(T.cfg["max_omen"])]
    p = subprocess.Popen(cmd, cwd=code, env=env, stdin=subprocess.DEVNULL, stdout=subprocess.PIPE, stderr=subprocess.PIPE)
    return {"proc": p, "inp": inp, "outp": outp, "strings": list(strings), "cmd": " ".join(cmd[1:4] + cmd[(8 if outp else 6):])}


def finish_cli(T, run, timeout=120):
    """-> (rows, error): rows = [(password, category, level text)] in output order."""
    p = run["proc"]
    try:
        so, se = p.communicate(timeout=timeout)
    except subprocess.TimeoutExpired:
        p.kill()
        p.communicate()
        return None, "timeout"
    so = so.decode("utf-8", "replace")
    if p.returncode != 0 or "Traceback" in so or "Exception:" in so:
        tail = [l for l in (so + "\n" + se.decode("utf-8", "replace")).split("\n") if l.strip()]
        return None, "rc=%s %s" % (p.returncode, " | ".join(tail[-2:])[:200])
    if run["outp"]:
        try:
            text = open(run["outp"], "rb").read().decode(T.cfg["encoding"])
        except (OSError, UnicodeError) as e:
            return None, "output file: %s" % type(e).__name__
        lines = text.split("\n")
        if lines and lines[-1] == "":
            lines.pop()
    else:
        # the result lines are the ones with tab-separated fields (banner and progress messages have none)
        lines = [l for l in so.split("\n") if l.count("\t") >= 3]
    rows = []
    for l in lines:
        f = l.rsplit("\t", 3)
        if len(f) != 4:
            return None, "output line %r has not 4 fields" % l[:60]
        rows.append((f[0], f[1], f[3]))
    return rows, None
