"""OMEN directories WITH A HISTORY (C10): a model is written to a directory and loaded / enumerated by the real
loader and generator, then ANOTHER model is written into the same directory (the files of the model are overwritten,
nothing else in the directory is touched - what re-training onto a ruleset name or editing the level files does) and the
directory is loaded again, in the same process and by a new interpreter.  Whatever sessions the directory has seen
before, every level must be the level of the files that are in it NOW (oracle: omen_gen.brute_levels of the model
just written).

Every random choice comes from the caller's random.Random."""
import copy
import json
import os
import subprocess
from collections import Counter

import common
import omen_gen
import rulesets

VARIANTS = ["same-settings", "same-settings", "levels-edited", "levels-edited", "one-file-edited", "ngram-changed",
            "alphabet-changed"]
NOT_ALL10_IP = ["low", "low", "mid", "wide", "wide", "hi", "zero", "two"]
NOT_ALL10_LN = ["low", "low", "mid", "wide", "zero", "two"]


def first_model(rng, max_strings):
    return omen_gen.gen_model(rng, {"ip_mode": rng.choice(NOT_ALL10_IP), "ln_mode": rng.choice(NOT_ALL10_LN)},
                              max_strings=max_strings)


def next_model(rng, prev, variant, max_strings):
    """The model that replaces `prev` in its directory."""
    force = {"ip_mode": rng.choice(NOT_ALL10_IP), "ln_mode": rng.choice(NOT_ALL10_LN)}
    if variant in ("levels-edited", "one-file-edited"):
        # the same lines in the same order (files of the same size), other levels: the level files were edited
        for _ in range(6):
            om = copy.deepcopy(prev)
            which = ["ip", "cp", "ln"] if variant == "levels-edited" else [rng.choice(["ip", "cp", "ln"])]
            for w in which:
                mode = omen_gen.LEVEL_MODES[rng.choice(["low", "mid", "wide", "two"])]
                if w == "ln":
                    om["ln"] = [mode(rng) for _ in om["ln"]]
                else:
                    om[w] = [(mode(rng), s) for _, s in om[w]]
            if omen_gen.model_key(om) != omen_gen.model_key(prev):
                break
        om["modes"] = dict(prev.get("modes", {}), edited=variant)
        return om
    if variant == "ngram-changed":
        force["ngram"] = rng.choice([n for n in (2, 3, 4, 5) if n != prev["ngram"]])
        force["alphabet"] = prev["alphabet"]
    elif variant == "alphabet-changed":
        force["ngram"] = prev["ngram"]
        if rng.random() < 0.5 and len(prev["alphabet"]) >= 2:
            a = list(prev["alphabet"])              # the same symbols in another order
            while a == prev["alphabet"]:
                rng.shuffle(a)
            force["alphabet"] = a
        else:
            force["nalpha"] = rng.randint(2, 6)
    else:                                           # same n-gram size, same alphabet (same order), same encoding
        force["ngram"] = prev["ngram"]
        force["alphabet"] = prev["alphabet"]
    return omen_gen.gen_model(rng, force, max_strings=max_strings)


def gen_history(rng, max_strings):
    """{"steps": [om, ...], "variants": [...], "plan": [[loader, ...] per step]}; loader: "same-process" | "child"."""
    a = first_model(rng, max_strings)
    steps, variants = [a], ["first"]
    n = 3 if rng.random() < 0.3 else 2
    while len(steps) < n:
        v = rng.choice(VARIANTS)
        if len(steps) == 2 and rng.random() < 0.3:
            steps.append(copy.deepcopy(steps[0]))   # back to the first model
            variants.append("back-to-first")
        else:
            steps.append(next_model(rng, steps[-1], v, max_strings))
            variants.append(v)
    plan = []
    for i in range(len(steps)):
        if i < len(steps) - 1:
            plan.append([rng.choice(["same-process", "same-process", "child"])])
        else:
            plan.append(rng.choice([["same-process", "child"], ["child", "same-process"], ["same-process", "child"]]))
    return {"steps": steps, "variants": variants, "plan": plan}


def is_r17(om):
    """every initial n-gram or every usable length at level 10: MarkovCracker() raises (known finding R17)"""
    n = om["ngram"]
    lens = [l for i, l in enumerate(om["ln"]) if i + 1 >= n]
    return (not om["ip"]) or all(l >= 10 for l, _ in om["ip"]) or (not lens) or all(l >= 10 for l in lens)


def pick_levels(rng, buckets, nmax):
    mx = max(buckets) if buckets else 0
    Ts = list(range(0, min(mx, 8) + 1))
    above = [t for t in sorted(buckets) if t > 8]
    rng.shuffle(above)
    Ts += above[:2]
    Ts.append(mx + 1)                               # an empty level
    if len(Ts) > nmax:
        keep = rng.sample(Ts, nmax)
        Ts = [t for t in Ts if t in keep]
    return Ts


def run_child(jobs, max_length, timeout=600):
    """jobs: [{"dir", "levels", "cap"}] -> list of {"loaded", "err", "levels": {T: (out, status)}} from a NEW interpreter."""
    if not jobs:
        return []
    sc = common.scratch()
    spec = os.path.join(sc, "spec.json")
    with open(spec, "w", encoding="utf-8") as f:
        json.dump({"max_length": max_length, "jobs": jobs}, f)
    p = subprocess.run([common.PY, os.path.join(common.ROOT, "harness", "omen_child.py"), spec], env=common.subenv(),
                       stdin=subprocess.DEVNULL, stdout=subprocess.PIPE, stderr=subprocess.PIPE, timeout=timeout)
    for line in p.stdout.decode("utf-8", "replace").split("\n"):
        if line.startswith("@@RESULT@@"):
            res = json.loads(line[len("@@RESULT@@"):])
            return [{"loaded": r["loaded"], "err": r["err"], "levels": {T: (out, st) for T, out, st in r["levels"]}} for r in res]
    raise RuntimeError("omen_child produced no result (rc %s): %s" % (p.returncode, p.stderr.decode("utf-8", "replace")[-600:]))


def load_inprocess(d, levels, cap, max_length):
    from lib_guesser.omen.input_file_io import load_rules
    g = {}
    try:
        ok, so, se = common.quiet_call(load_rules, d, g)
        err = "" if ok else (se + so)[-300:]
    except Exception as e:
        ok, err = False, "%s: %s" % (type(e).__name__, e)
    r = {"loaded": bool(ok), "err": err, "levels": {}, "grammar": g if ok else None, "calls": {}}
    if ok:
        for T in levels:
            f0 = omen_gen.FILL_CALLS[0]
            r["levels"][T] = omen_gen.run_level(g, T, omen_gen.new_optimizer(max_length), cap=cap)
            r["calls"][T] = omen_gen.FILL_CALLS[0] - f0
    return r


def judge(h, i, r_idx, res, want, Ts, dist):
    """Oracle for one session (step i, r_idx-th loader of that step) on the directory."""
    om = h["steps"][i]
    loader = h["plan"][i][r_idx]
    where = "model %d of %d written into one directory (%s), session %d of that step, loader in %s" % (
        i + 1, len(h["steps"]), " -> ".join(h["variants"][:i + 1]), r_idx + 1,
        "the same process" if loader == "same-process" else "a new interpreter")

    def rep(T):
        return {"dir_history": h["steps"][:i + 1], "plan": [list(p) for p in h["plan"][:i]] + [list(h["plan"][i][:r_idx + 1])],
                "variants": h["variants"][:i + 1], "T": T}
    vio = []
    dist["dir_history_sessions"] += 1
    tag = "first" if i == 0 else "rewritten"
    if not res["loaded"]:
        vio.append({"sig": "C10:dir-history:%s:load-failed" % tag, "what": "%s: load_rules fails on a directory that holds a complete "
                    "model: %s" % (where, res["err"][-200:]), "replay": rep(None)})
        return vio
    for T in Ts:
        if T not in res["levels"]:
            continue
        out, st = res["levels"][T]
        w = want.get(T, Counter())
        got = Counter(out)
        dist["dir_history_levels"] += 1
        if i > 0:
            dist["dir_history_levels_after_rewrite"] += 1
        if st == "raised":
            if not is_r17(om):
                vio.append({"sig": "C10:dir-history:%s:constructor-raises" % tag, "what": "%s: MarkovCracker(grammar, %d) raises although "
                            "the files hold initial n-grams and lengths below level 10" % (where, T), "replay": rep(T)})
            else:
                dist["dir_history_r17"] += 1
            continue
        if st.startswith("error"):
            vio.append({"sig": "C10:dir-history:%s:next-guess-raises" % tag, "what": "%s: level %d: next_guess raised %s after %d guesses"
                        % (where, T, st[6:], len(out)), "replay": rep(T)})
            continue
        bad = None
        if st == "done":
            if got != w:
                bad = "missing" if (w - got) else "extra"
        elif (got - w) or any(c > 1 for c in got.values()):
            bad = "extra"
        if bad:
            miss, extra = w - got, got - w
            vio.append({"sig": "C10:dir-history:%s:level-set:%s" % (tag, bad),
                        "what": "%s: level %d: the generator emitted %d strings (%s), the files now in the directory give %d of that "
                                "level; missing e.g. %r, extra/repeated e.g. %r"
                                % (where, T, len(out), st, sum(w.values()), sorted(miss)[:3], sorted(extra)[:3]),
                        "replay": rep(T)})
    return vio


def run_histories(hists, sc, max_length, rng, nlev, cap, dist, levels=None):
    """Lock-step over the histories: write step i everywhere, then the sessions of that step (the in-process ones one by
    one, the ones in a new interpreter batched into one child per round).  Returns (violations, final in-process loads)."""
    omen_gen.count_fill_calls()
    vio = []
    finals = []
    for k, h in enumerate(hists):
        h["dir"] = os.path.join(sc, "hist%d" % k)
    for i in range(max(len(h["steps"]) for h in hists) if hists else 0):
        active = [h for h in hists if i < len(h["steps"])]
        for h in active:
            om = h["steps"][i]
            before = set(os.listdir(h["dir"])) if os.path.isdir(h["dir"]) else set()
            rulesets.write_omen(h["dir"], om)         # overwrites the model's files, deletes nothing
            h["kept"] = sorted(before - {"config.txt", "alphabet.txt", "IP.level", "EP.level", "CP.level", "LN.level"})
            prev_want = h.get("want")
            h["want"] = omen_gen.brute_levels(om)
            h["Ts"] = list(levels) if levels is not None else pick_levels(rng, h["want"], nlev)
            if prev_want is not None:
                # levels on which an answer from the previous model would be visible
                dist["dir_history_levels_discriminating"] += sum(
                    1 for T in h["Ts"] if h["want"].get(T, Counter()) != prev_want.get(T, Counter()))
            dist["dir_history_step_" + h["variants"][i]] += 1
        for r_idx in range(max(len(h["plan"][i]) for h in active)):
            batch = []
            for h in active:
                if r_idx >= len(h["plan"][i]):
                    continue
                if h["plan"][i][r_idx] == "child":
                    batch.append(h)
                    continue
                res = load_inprocess(h["dir"], h["Ts"], cap, max_length)
                vio += judge(h, i, r_idx, res, h["want"], h["Ts"], dist)
                if i == len(h["steps"]) - 1 and res["loaded"]:
                    finals.append((h, res))
            if batch:
                out = run_child([{"dir": h["dir"], "levels": h["Ts"], "cap": cap} for h in batch], max_length)
                dist["dir_history_child_processes"] += 1
                for h, res in zip(batch, out):
                    vio += judge(h, i, r_idx, res, h["want"], h["Ts"], dist)
    for h in hists:
        if h.get("kept"):
            dist["dir_history_dirs_with_files_left_by_a_session"] += 1
    return vio, finals


def coq_case_of(h, res, max_levels=3, max_out=120):
    """The final in-process load of a history as a case of the C10 correspondence: the files of the LAST model against the
    tables the loader built and the lists the generator emitted."""
    lv = []
    for T in sorted(res["levels"]):
        out, st = res["levels"][T]
        if st == "done" and 0 < len(out) <= max_out and len(lv) < max_levels:
            lv.append((T, out, True, res["calls"].get(T, 0)))
    return {"om": h["steps"][-1], "grammar": res["grammar"], "raised": False, "levels": lv, "entries": None}
