#!/venv/bin/python
"""Fail-closed translator of the guesser's "next" kernel from Python to Gallina.

    /venv/bin/python harness/translate_kernel.py            print the generated text
    /venv/bin/python harness/translate_kernel.py --write    write coq/gen/Kernel_gen.v

Source: lib_guesser/pcfg_grammar.py, class PcfgGrammar, the functions of SPECS
(_find_prob, _are_you_my_child, find_children, is_parent_around,
_recursive_restore_prob_order, initalize_base_structures) and, inlined on demand, the
other methods of the class they call.
The source is only parsed (`ast`), never imported or executed.  The output
(coq/gen/Kernel_gen.v) targets the small runtime coq/theories/KernelRt.v, and
coq/theories/KernelGenProofs.v proves each generated definition equal to the
hand-written model of coq/theories/Next.v the property theorems are about.  A
change of one of these functions therefore changes the generated text and the
equality proofs are re-checked against it on every run.

Accepted subset (anything else raises TranslateError with file:line):

  types      P (probability), nat (Python int >= 0), bool, node (a (variable, index)
             tuple), pt (list of nodes), item (the dict with keys 'pt', 'base_prob',
             'prob'), items (list of items); base / bases / vars (an entry of self.base,
             self.base, its 'replacements'); row / group (self.grammar[t], an entry
             self.grammar[t][i] of it - represented by its 'prob', the only key the model's
             table has).  Parameter and return types are given by SPECS (checked against the
             `def` line: names, order, defaults); the types of locals are inferred.
  statements x = e;  a, b = node;  x *= e (probabilities);  x += e (ints);  x = copy.copy(y) /
             list(y) / y.copy() / y[:] / x = [] / x = [comprehension] / x = self.helper(...)
             returning such a list (fresh local lists);  x[i] = e and x.append(e) on such a
             fresh list only, as long as it has not been stored anywhere;  if / elif / else
             (a conditional that is followed by more statements either leaves on one side
             or contains no control flow);  for p, x in enumerate(l) / for x in l /
             for p in range(a, b) / range(b), where x may be a pair target `(a, b)` (no
             else; the iterated list is not touched in the body);  continue;
             return [e];  save_function(e) and the call of the function itself as
             statements in the function SPECS marks as recursive;  a docstring;  pass.
             An item dict built key by key: d = {some of the item keys: ...} ('pt': []
             allowed), d['pt'].append(e), d[key] = e, kept as one variable per key until
             the dict is used as a value (then it must be complete, and no store into it
             is accepted afterwards).
  expressions names;  int >= 0, True, False;  e[0], e[1] on a node;  l[i] on a pt;
             d['pt'], d['base_prob'], d['prob'] on an item;  b['prob'],
             b['replacements'] on an entry of self.base;  self.base (as iterated list);
             self.grammar[t] (a row), row[i] (a group), group['prob'];  len(l) of a row, pt,
             items, vars;  a + b on ints;  a - 1 on ints only where a dominating test shows
             a > 0: the false side of `a == 0`, `a <= 0`, `a < 1`, the true side of
             `a != 0`, `a > 0`, `a >= 1`, `a > b`, `b < a`, truthiness `if a:`, also through
             `not`, as a conjunct of an `and` that holds / a disjunct of an `or` that fails
             (`if x == y or a == 0: continue`), for the later operands of the same
             `and` / `or` and in the branches of `e1 if c else e2` (tracked through copies,
             enumerate and the parameters of inlined helpers);  a + (-1), (-1) + a as a - 1;
             a < b, a <= b, a > b, a >= b, a == b, a != b between two probabilities or
             two ints, where `a - 1 OP b` with a not known > 0 is translated as
             `a OP b + 1` (the same over the integers: len(l) - 1 == i, i < len(l) - 1);  p * q on two probabilities;  not e;  e1 and e2, e1 or e2;  the
             truthiness of an int (!= 0) or list (non-empty) as a condition;
             e1 if c else e2;  (a, b);  the dict literal with exactly the three item keys;
             [e for x in l] / [e for x in l if c] over a pt or a 'replacements' list (map /
             filter);  calls self.f(...) of an already translated function of SPECS;
  helpers    a call self.h(...) of any other plain method of the class (no decorator, no
             */** parameters, defaults int literals) is INLINED at the call: the body of h
             is translated in place with the parameters let-bound to the arguments (an int
             literal argument, also a negative one such as the `-1` of `_step_pt(pt, pos,
             -1)`, is substituted, so that `x + step` becomes `x - 1` under the same
             `> 0` discipline).  The parameter types are those of the arguments.  No
             recursion among helpers; nesting depth <= MAX_INLINE_DEPTH; h must return a
             value on every path and may not call the callback.  The sha256 of every
             inlined helper is listed in the header comment of the generated function.

The generated functions take the "undefined values" (see below) as explicit first
parameters; which ones is fixed per function in SPECS (the equality theorems and the
Props files apply the functions to them), not derived from the body: a body that needs
one its function does not have is refused.

What the translation does NOT model: exceptions (a subscript out of range is the
total `sub undef l i`, with `undef` a parameter of the generated section - the
equality proofs need "indices in range" exactly there), object identity (mutation
is accepted on fresh local objects only, where it cannot be observed through
another name), and termination (the recursive function gets a fuel argument, as
in the model).  The ghost tag of the model's item record (no counterpart in the
Python dict) is copied from the item parameter of the enclosing function, or is
the position in self.base for items built in a loop over self.base.  Rebinding of
the translated methods from another module is out of the translator's sight.
"""
import ast
import hashlib
import os
import re
import sys

HERE = os.path.dirname(os.path.abspath(__file__))
if HERE not in sys.path:
    sys.path.insert(0, HERE)
import common  # noqa: E402

SOURCE = "lib_guesser/pcfg_grammar.py"
CLASS = "PcfgGrammar"
OUT = os.path.join("gen", "Kernel_gen.v")

# ------------------------------------------------------------------ types
P, NAT, BOOL, NODE, PT, ITEM, ITEMS, SAVE, UNIT = "P", "nat", "bool", "node", "pt", "item", "items", "save", "unit"
BASE, BASES, VARS = "base", "bases", "vars"      # an entry of self.base, self.base, its 'replacements'
GROUP, ROW = "group", "row"                      # self.grammar[t][i] (represented by its 'prob': the model's table has
#                                                  nothing else), self.grammar[t] (the list of these)
COQ_TYPE = {
    P: "ProbAlg.P A", NAT: "nat", BOOL: "bool", NODE: "(Next.var * nat)", PT: "Next.pt",
    ITEM: "Next.item A", ITEMS: "list (Next.item A)", GROUP: "ProbAlg.P A", ROW: "list (ProbAlg.P A)",
}
LOCAL_TYPES = (P, NAT, BOOL, NODE, PT, ITEM, ITEMS, GROUP, ROW, BASE, VARS)      # what a local variable may hold
MAX_INLINE_DEPTH = 4
ITEM_KEYS = {"pt": ("ipt", PT), "base_prob": ("ibase", P), "prob": ("iprob", P)}

# undef: the "undefined values" (the value of a subscript that raises in Python, see KernelRt.v) the generated function
# takes as its first arguments.  The list is fixed here and not derived from the body, because the statements of the
# equality theorems (KernelGenProofs.v, Props/C02.v C08.v C17.v) apply the functions to them.
UNDEF_TYPE = {"undef_prob": "ProbAlg.P A", "undef_node": "Next.var * nat"}
SPECS = [
    dict(py="_find_prob", coq="py_find_prob", undef=["undef_prob"],
         params=[("pt", PT), ("base_prob", P)], ret=P),
    dict(py="_are_you_my_child", coq="py_are_you_my_child", undef=["undef_prob", "undef_node"],
         params=[("child", PT), ("base_prob", P), ("parent_pos", NAT), ("parent_prob", P)], ret=BOOL),
    dict(py="find_children", coq="py_find_children", undef=["undef_prob", "undef_node"],
         params=[("pt_item", ITEM)], ret=ITEMS),
    dict(py="is_parent_around", coq="py_is_parent_around", undef=["undef_prob", "undef_node"],
         params=[("pt_item", ITEM), ("max_prob", P)], ret=BOOL),
    # returns None; its observable effect is the sequence of save_function calls,
    # which is what the generated function returns
    dict(py="_recursive_restore_prob_order", coq="py_restore", undef=["undef_prob", "undef_node"],
         params=[("pt_item", ITEM), ("max_prob", P), ("min_prob", P), ("save_function", SAVE), ("left_index", NAT)],
         ret=UNIT, recursive=True, defaults={"left_index": 0}),
    dict(py="initalize_base_structures", coq="py_initalize_base_structures", undef=["undef_prob"], params=[], ret=ITEMS),
]

# identifiers the generated text uses itself: a Python variable of that name is refused
RESERVED = set("""A P rs fuel fuel' saved undef_prob undef_node tt true false fst snd length groups sub set_nth
append extend for_enum for_each for_range for_from Continue Return ctl plt ple peq pmul negb andb orb
itag ipt ibase iprob bprob brepl tbl bases nth seq nil cons list nat bool unit O S pred fun let in if then else match with end
forall exists Type Prop Set as at return fix cofix struct where Definition Fixpoint Section End Next ProbAlg
KernelRt Nat map filter""".split()) | {s["coq"] for s in SPECS}


class TranslateError(Exception):
    pass


class Env:
    """what is known at a program point: type, freshness and symbolic value of the locals"""

    def __init__(self):
        self.types = {}        # name -> type
        self.fresh = set()     # names bound to a local list nothing else refers to
        self.sym = {}          # name -> canonical text of the value (alias tracking for `- 1`)
        self.nonzero = set()   # canonical texts of ints known to be > 0
        self.partial = {}      # name -> {"fields": {key: variable}, "escaped": bool}: an item dict
        #                        under construction, kept as one variable per key
        self.tag = None        # text of the ghost tag an item built here gets
        self.consts = {}       # name -> Python int: a parameter of an inlined helper bound to an int literal
        #                        (may be negative: `x + step` with step = -1 is `x - 1`)

    def copy(self):
        e = Env()
        e.consts = dict(self.consts)
        e.partial = {n: {"fields": dict(d["fields"]), "escaped": d["escaped"]} for n, d in self.partial.items()}
        e.tag = self.tag
        e.types = dict(self.types)
        e.fresh = set(self.fresh)
        e.sym = dict(self.sym)
        e.nonzero = set(self.nonzero)
        return e


class K:
    """the context of a block: what falling off its end, `continue` and `return e` become"""

    def __init__(self, fall, cont, ret):
        self.fall, self.cont, self.ret = fall, cont, ret


def _paren(t):
    t = t.strip()
    if t.startswith("(") and _balanced_outer(t):
        return t
    if t.startswith("{|") and t.endswith("|}"):
        return t
    if all(c.isalnum() or c in "_'." for c in t):
        return t
    return "(" + t + ")"


def _balanced_outer(t):
    depth = 0
    for i, c in enumerate(t):
        if c == "(":
            depth += 1
        elif c == ")":
            depth -= 1
            if depth == 0 and i != len(t) - 1:
                return False
    return depth == 0 and t.endswith(")")


def _close(text, suffix):
    """append suffix to the code of the last line of text (before its trailing comment)"""
    text = text.rstrip("\n")
    head, _, last = text.rpartition("\n")
    m = re.search(r"\s+\(\* \d+: .* \*\)$", last)
    if m:
        last = last[:m.start()] + suffix + last[m.start():]
    else:
        last = last + suffix
    return (head + "\n" if head else "") + last + "\n"


def _comment(s):
    return s.replace("(*", "( *").replace("*)", "* )").replace('"', "'")


class FunctionTranslator:
    def __init__(self, path, rel, fn, spec, done, helpers=None, parent=None):
        self.path, self.rel, self.fn, self.spec = path, rel, fn, spec
        self.done = done       # py name -> spec of the functions translated before
        self.helpers = helpers or {}      # py name -> FunctionDef of the other methods of the class (inlined on demand)
        self.parent = parent              # the translator of the function this helper is inlined into
        self.counter = parent.counter if parent else [0]          # shared: the unknowns `?n` are unique per function
        self.inlined = parent.inlined if parent else {}           # py name -> sha of the helpers inlined so far
        self.depth = parent.depth + 1 if parent else 0
        self.trace = spec["ret"] == UNIT          # result = record of save_function calls
        self.uses_fuel = bool(spec.get("recursive"))
        self.last_ret_fresh = False       # the `return x` translated last returned a fresh local list
        self.fresh_calls = set()          # id() of the helper calls whose inlined body returns a fresh list

    # -------------------------------------------------------------- errors
    def fail(self, node, msg):
        chain, t = "", self.parent
        while t is not None:
            chain += " (inlined into %s)" % t.fn.name
            t = t.parent
        raise TranslateError("%s:%d: %s.%s%s: %s  [%s]" % (
            self.path, getattr(node, "lineno", self.fn.lineno), CLASS, self.fn.name, chain, msg,
            _comment(ast.unparse(node)).split("\n")[0][:100]))

    def undef(self, node, name):
        """the undefined value `name`, which the function being generated must have as a parameter"""
        top = self
        while top.parent is not None:
            top = top.parent
        if name not in top.spec["undef"]:
            self.fail(node, "a subscript with the default %s in %s, whose generated signature has only %r "
                            "(fixed by the equality theorems)" % (name, top.spec["py"], top.spec["undef"]))
        return name

    def call_spec(self, node, spec):
        """text of the head of a call of a generated function: name, its undefined values, rs"""
        return " ".join([spec["coq"]] + [self.undef(node, u) for u in spec["undef"]] + ["rs"])

    def opaque(self):
        self.counter[0] += 1
        return "?%d" % self.counter[0]

    # -------------------------------------------------------------- header
    def check_signature(self):
        fn, spec = self.fn, self.spec
        a = fn.args
        if fn.decorator_list or a.vararg or a.kwarg or a.kwonlyargs or a.posonlyargs or a.kw_defaults:
            self.fail(fn, "unsupported signature")
        names = [x.arg for x in a.args]
        want = ["self"] + [n for n, _ in spec["params"]]
        if names != want:
            self.fail(fn, "parameters are %r, the translator knows %r" % (names, want))
        if any(x.annotation is not None for x in a.args) or fn.returns is not None:
            self.fail(fn, "annotations are not supported")
        defaults = {}
        for x, d in zip(a.args[len(a.args) - len(a.defaults):], a.defaults):
            if not (isinstance(d, ast.Constant) and type(d.value) is int and d.value >= 0):
                self.fail(fn, "unsupported default value")
            defaults[x.arg] = d.value
        if defaults != spec.get("defaults", {}):
            self.fail(fn, "defaults are %r, the translator knows %r" % (defaults, spec.get("defaults", {})))
        for n, _ in spec["params"]:
            self.check_name(fn, n)

    def check_name(self, node, name):
        if name in RESERVED or name.startswith("py_") or not name.isidentifier() or not name.isascii():
            self.fail(node, "the variable name %r collides with the generated code" % name)

    # -------------------------------------------------------------- expressions
    def sym(self, e, env):
        """canonical text of an int / node / pt valued expression, or a fresh unknown"""
        if isinstance(e, ast.Name):
            return env.sym.get(e.id) or self.opaque()
        if isinstance(e, ast.Constant) and type(e.value) in (int, str):
            return repr(e.value)
        if self.is_copy(e):
            return self.sym(self.copied(e), env)
        if isinstance(e, ast.Subscript):
            return "%s[%s]" % (self.sym(e.value, env), self.sym(e.slice, env))
        return self.opaque()

    @staticmethod
    def copied(e):
        """the list a shallow copy is taken of: copy.copy(x), list(x), x.copy(), x[:]  ->  x;  else None"""
        if isinstance(e, ast.Call) and not e.keywords:
            f = e.func
            if isinstance(f, ast.Attribute) and f.attr == "copy" and isinstance(f.value, ast.Name) \
                    and f.value.id == "copy" and len(e.args) == 1:
                return e.args[0]
            if isinstance(f, ast.Name) and f.id == "list" and len(e.args) == 1 and not isinstance(e.args[0], ast.Starred):
                return e.args[0]
            if isinstance(f, ast.Attribute) and f.attr == "copy" and not e.args \
                    and not (isinstance(f.value, ast.Name) and f.value.id in ("copy", "self")):
                return f.value
        if isinstance(e, ast.Subscript) and isinstance(e.slice, ast.Slice) \
                and e.slice.lower is None and e.slice.upper is None and e.slice.step is None:
            return e.value
        return None

    @classmethod
    def is_copy(cls, e):
        return cls.copied(e) is not None

    @staticmethod
    def is_self_attr(e, attr=None):
        return (isinstance(e, ast.Attribute) and isinstance(e.value, ast.Name) and e.value.id == "self"
                and (attr is None or e.attr == attr))

    def const_int(self, e, env):
        """Python value of an int literal, a signed int literal, or a helper parameter bound to one; else None"""
        if isinstance(e, ast.Constant) and type(e.value) is int:
            return e.value
        if isinstance(e, ast.UnaryOp) and isinstance(e.op, (ast.USub, ast.UAdd)):
            v = self.const_int(e.operand, env)
            if v is None:
                return None
            return -v if isinstance(e.op, ast.USub) else v
        if isinstance(e, ast.Name) and e.id in env.consts:
            return env.consts[e.id]
        return None

    def cond(self, e, env):
        """Gallina bool for a Python expression in a boolean context (if / not / and / or): a bool as it is, the
        truthiness of an int (!= 0) and of a list (non-empty)"""
        if isinstance(e, ast.BoolOp):
            return self.boolop(e, env, self.cond)
        if isinstance(e, ast.UnaryOp) and isinstance(e.op, ast.Not):
            return "negb %s" % _paren(self.cond(e.operand, env))
        t, ty = self.expr(e, env)
        if ty == BOOL:
            return t
        if ty == NAT:
            return "negb (Nat.eqb %s 0)" % _paren(t)
        if ty in (PT, ITEMS, VARS, ROW):
            return "negb (Nat.eqb (length %s) 0)" % _paren(t)
        self.fail(e, "truthiness of a value of type %s is not supported" % ty)

    def expr_bool(self, e, env):
        t, ty = self.expr(e, env)
        if ty != BOOL:
            self.fail(e, "`and` / `or` of a non-boolean where the value (not only its truth) is used")
        return t

    def boolop(self, e, env, operand):
        """`a and b` / `a or b`: the operands are pure, so short-circuit evaluation gives the value of andb / orb (an
        operand that would raise in Python is the total value of its translation, as everywhere).  A later operand is
        translated knowing what the earlier ones established (`i != 0 and f(i - 1)`)."""
        conj = isinstance(e.op, ast.And)
        env = env.copy()
        parts = []
        for v in e.values:
            parts.append(_paren(operand(v, env)))
            env.nonzero |= self.facts(v, conj, env)
        op = "andb" if conj else "orb"
        acc = parts[-1]
        for t in reversed(parts[:-1]):
            acc = "%s %s %s" % (op, t, _paren(acc))
        return acc

    def facts(self, t, truth, env):
        """canonical texts of the ints known to be > 0 where the test t has the truth value `truth` (Python ints are
        naturals in the translation, so `a > b` also shows a > 0)"""
        if isinstance(t, ast.UnaryOp) and isinstance(t.op, ast.Not):
            return self.facts(t.operand, not truth, env)
        if isinstance(t, ast.BoolOp):
            if isinstance(t.op, ast.And) == truth:        # `and` true: all true;  `or` false: all false
                out = set()
                for v in t.values:
                    out |= self.facts(v, truth, env)
                return out
            return set()
        if isinstance(t, ast.Compare) and len(t.ops) == 1:
            op = type(t.ops[0]).__name__
            l, r = t.left, t.comparators[0]
            if not truth:
                op = {"Eq": "NotEq", "NotEq": "Eq", "Lt": "GtE", "LtE": "Gt", "Gt": "LtE", "GtE": "Lt"}.get(op)
            if op is None:
                return set()
            cl, cr = self.const_int(l, env), self.const_int(r, env)
            if cl is not None and cr is None:             # c OP e  ->  e OP' c
                l, r, cl, cr = r, l, cr, cl
                op = {"Lt": "Gt", "LtE": "GtE", "Gt": "Lt", "GtE": "LtE"}.get(op, op)
            if cl is not None:
                return set()
            if cr is not None:
                if (op == "NotEq" and cr == 0) or (op == "Gt" and cr >= 0) or (op == "GtE" and cr >= 1) \
                        or (op == "Eq" and cr >= 1):
                    return {self.sym(l, env)}
                return set()
            if op == "Gt":                                # l > r >= 0
                return {self.sym(l, env)}
            if op == "Lt":                                # r > l >= 0
                return {self.sym(r, env)}
            return set()
        if isinstance(t, (ast.Name, ast.Subscript)) and truth:
            # truthiness of an int: recorded under its canonical text (harmless when t is no int: the set is only
            # consulted for the left operand of an int subtraction)
            return {self.sym(t, env)}
        return set()

    def arith(self, e, env):
        """a + b, a - 1 on naturals.  A negative int literal (or a helper parameter bound to one) is accepted as the
        second summand only: a + (-k) is a - k, a - (-k) is a + k, (-k) + a is a - k."""
        add = isinstance(e.op, ast.Add)
        left, right = e.left, e.right
        cl, cr = self.const_int(left, env), self.const_int(right, env)
        if cr is not None and cr < 0:
            add, cr = not add, -cr
        elif add and cl is not None and cl < 0 and cr is None:
            add, left, right, cl, cr = False, right, left, None, -cl
        if cl is not None and cl < 0:
            self.fail(e, "negative int (ints are naturals)")
        a, ta = ("%d" % cl, NAT) if cl is not None else self.expr(left, env)
        b, tb = ("%d" % cr, NAT) if cr is not None else self.expr(right, env)
        if (ta, tb) != (NAT, NAT):
            self.fail(e, "arithmetic is supported on ints (+, - 1) and as p * q on probabilities only")
        if add:
            return "%s + %s" % (_paren(a), _paren(b)), NAT
        if cr != 1:
            self.fail(e, "only `e - 1` is supported (ints are naturals)")
        if cl is not None or self.sym(left, env) not in env.nonzero:
            self.fail(e, "`e - 1` where no dominating test (`if e == 0: continue/return`, `if e != 0:`, `if e > 0:`, "
                         "...) shows e > 0 (ints are naturals)")
        return "%s - 1" % _paren(a), NAT

    def expr(self, e, env):
        """-> (Gallina text, type)"""
        if isinstance(e, ast.Name) and e.id in env.partial:
            return self.built_item(e, env), ITEM
        if isinstance(e, ast.Name) and e.id in env.consts:
            if env.consts[e.id] < 0:
                self.fail(e, "a negative int may only be added to an int (ints are naturals)")
            return "%d" % env.consts[e.id], NAT
        if self.is_self_attr(e, "base"):
            return "bases rs", BASES
        if isinstance(e, ast.Name):
            if e.id not in env.types:
                self.fail(e, "unknown variable %r (not assigned on every path to here?)" % e.id)
            if env.types[e.id] == SAVE:
                self.fail(e, "the callback may only be called or passed on to the recursive call")
            return e.id, env.types[e.id]
        if isinstance(e, ast.Constant):
            if e.value is True:
                return "true", BOOL
            if e.value is False:
                return "false", BOOL
            if type(e.value) is int and e.value >= 0:
                return "%d" % e.value, NAT
            self.fail(e, "unsupported constant")
        if isinstance(e, ast.Tuple):
            if len(e.elts) != 2:
                self.fail(e, "only pairs (variable, index) are supported")
            a, ta = self.expr(e.elts[0], env)
            b, tb = self.expr(e.elts[1], env)
            if (ta, tb) != (NAT, NAT):
                self.fail(e, "a node is a pair of ints")
            return "(%s, %s)" % (a, b), NODE
        if isinstance(e, ast.UnaryOp):
            if isinstance(e.op, ast.Not):
                return "negb %s" % _paren(self.cond(e.operand, env)), BOOL
            v = self.const_int(e, env)
            if v is not None and v >= 0:
                return "%d" % v, NAT
            self.fail(e, "unsupported unary operator (a negative int may only be added to an int)")
        if isinstance(e, ast.BoolOp):
            return self.boolop(e, env, self.expr_bool), BOOL
        if isinstance(e, ast.IfExp):
            c = self.cond(e.test, env)
            env_t, env_f = env.copy(), env.copy()
            env_t.nonzero |= self.facts(e.test, True, env)
            env_f.nonzero |= self.facts(e.test, False, env)
            a, ta = self.expr(e.body, env_t)
            b, tb = self.expr(e.orelse, env_f)
            if ta != tb or ta not in (P, NAT, BOOL, NODE, GROUP):
                self.fail(e, "conditional expression of types %s / %s" % (ta, tb))
            return "if %s then %s else %s" % (c, a, b), ta
        if isinstance(e, ast.BinOp):
            if isinstance(e.op, (ast.Add, ast.Sub)):
                return self.arith(e, env)
            a, ta = self.expr(e.left, env)
            b, tb = self.expr(e.right, env)
            if (ta, tb) == (P, P) and isinstance(e.op, ast.Mult):
                # p * q on probabilities, operands in the order written (x = x * e is x *= e)
                return "pmul %s %s" % (_paren(a), _paren(b)), P
            self.fail(e, "arithmetic is supported on ints (+, - 1) and as p * q on probabilities only")
        if isinstance(e, ast.Compare):
            if len(e.ops) != 1 or len(e.comparators) != 1:
                self.fail(e, "chained comparison")
            (a, ta), (b, tb) = self.compare_operands(e.left, e.comparators[0], env)
            if ta != tb or ta not in (P, NAT):
                self.fail(e, "comparison of %s with %s" % (ta, tb))
            a, b = _paren(a), _paren(b)
            op = type(e.ops[0])
            if ta == P:
                table = {ast.Lt: "plt %s %s" % (a, b), ast.LtE: "ple %s %s" % (a, b),
                         ast.Gt: "plt %s %s" % (b, a), ast.GtE: "ple %s %s" % (b, a),
                         ast.Eq: "peq %s %s" % (a, b), ast.NotEq: "negb (peq %s %s)" % (a, b)}
            else:
                table = {ast.Lt: "Nat.ltb %s %s" % (a, b), ast.LtE: "Nat.leb %s %s" % (a, b),
                         ast.Gt: "Nat.ltb %s %s" % (b, a), ast.GtE: "Nat.leb %s %s" % (b, a),
                         ast.Eq: "Nat.eqb %s %s" % (a, b), ast.NotEq: "negb (Nat.eqb %s %s)" % (a, b)}
            if op not in table:
                self.fail(e, "unsupported comparison operator")
            return table[op], BOOL
        if isinstance(e, ast.Subscript):
            return self.subscript(e, env)
        if isinstance(e, ast.Dict):
            return self.dict_literal(e, env)
        if isinstance(e, ast.Call):
            return self.call(e, env)
        if isinstance(e, ast.ListComp):
            return self.listcomp(e, env)
        self.fail(e, "unsupported expression (%s)" % type(e).__name__)

    def minus_one(self, e, env):
        """x for an expression `x - 1` / `x + (-1)` whose x is NOT known to be > 0, else None"""
        if isinstance(e, ast.BinOp) and isinstance(e.op, (ast.Add, ast.Sub)):
            c = self.const_int(e.right, env)
            if c is not None and self.const_int(e.left, env) is None \
                    and c == (1 if isinstance(e.op, ast.Sub) else -1) and self.sym(e.left, env) not in env.nonzero:
                return e.left
        return None

    def compare_operands(self, l, r, env):
        """the operands of a comparison.  `x - 1 OP y` is translated as `x OP y + 1` (the same over the integers, and it
        needs no `x > 0`):  len(l) - 1 == i,  i < len(l) - 1,  ..."""
        xl, xr = self.minus_one(l, env), self.minus_one(r, env)
        if xl is not None and xr is not None:
            return self.expr(xl, env), self.expr(xr, env)
        if xl is not None or xr is not None:
            (a, ta), (b, tb) = self.expr(xl if xl is not None else l, env), self.expr(xr if xr is not None else r, env)
            if (ta, tb) != (NAT, NAT):
                self.fail(l, "comparison of %s with %s" % (ta, tb))
            if xl is not None:
                return (a, NAT), ("%s + 1" % _paren(b), NAT)
            return ("%s + 1" % _paren(a), NAT), (b, NAT)
        return self.expr(l, env), self.expr(r, env)

    def listcomp(self, e, env):
        """[elt for x in l]  ->  map (fun x => elt) l;   [elt for x in l if c]  ->  map (fun x => elt) (filter (fun x => c) l)
        (the comprehension has its own scope in Python 3, like the fun)"""
        if len(e.generators) != 1:
            self.fail(e, "a comprehension with more than one `for`")
        g = e.generators[0]
        if g.is_async or not isinstance(g.target, ast.Name):
            self.fail(e, "unsupported comprehension")
        l, tl = self.expr(g.iter, env)
        elt_ty = {VARS: NAT, PT: NODE}.get(tl)
        if elt_ty is None:
            self.fail(e, "comprehension over a value of type %s" % tl)
        x = g.target.id
        self.check_name(e, x)
        if x in env.partial or x in env.consts or env.types.get(x) == SAVE:
            self.fail(e, "the comprehension variable %r hides a name the translation needs" % x)
        inner = env.copy()
        inner.types[x] = elt_ty
        inner.sym[x] = self.opaque()
        inner.fresh.discard(x)
        src = _paren(l)
        for c in g.ifs:
            src = "(filter (fun %s => %s) %s)" % (x, self.cond(c, inner), src)
            inner.nonzero |= self.facts(c, True, inner)
        t, ty = self.expr(e.elt, inner)
        out_ty = {NODE: PT, ITEM: ITEMS}.get(ty)
        if out_ty is None:
            self.fail(e, "a comprehension building a list of %s" % ty)
        return "map (fun %s => %s) %s" % (x, t, src), out_ty

    def subscript(self, e, env):
        if not isinstance(e.ctx, ast.Load):
            self.fail(e, "unsupported use of a subscript")
        if self.is_copy(e):
            return self.copy_of(e, env)
        # self.grammar[t]  ->  groups rs t   (the list of the variable's groups)
        if self.is_self_attr(e.value, "grammar"):
            t, ty = self.expr(e.slice, env)
            if ty != NAT:
                self.fail(e, "self.grammar[...] must be indexed by a variable id")
            return "groups rs %s" % _paren(t), ROW
        if isinstance(e.value, ast.Name) and e.value.id in env.partial:
            d = env.partial[e.value.id]
            if not (isinstance(e.slice, ast.Constant) and e.slice.value in d["fields"]):
                self.fail(e, "key not set in the dict under construction")
            var = d["fields"][e.slice.value]
            return var, env.types[var]
        v, tv = self.expr(e.value, env)
        if isinstance(e.slice, ast.Constant) and type(e.slice.value) is str:
            if tv == BASE:
                field = {"prob": ("bprob", P), "replacements": ("brepl", VARS)}.get(e.slice.value)
            elif tv == ITEM:
                field = ITEM_KEYS.get(e.slice.value)
            elif tv == GROUP and e.slice.value == "prob":
                return v, P          # a group is represented by its probability
            else:
                field = None
            if field is None:
                self.fail(e, "unsupported string subscript (of a value of type %s)" % tv)
            return "%s %s" % (field[0], _paren(v)), field[1]
        if tv == NODE:
            if isinstance(e.slice, ast.Constant) and e.slice.value in (0, 1) and type(e.slice.value) is int:
                return "%s %s" % ("fst" if e.slice.value == 0 else "snd", _paren(v)), NAT
            self.fail(e, "a node may only be subscripted by the constants 0 and 1")
        if tv in (PT, ROW):
            i, ti = self.expr(e.slice, env)
            if ti != NAT:
                self.fail(e, "list index must be an int")
            if tv == ROW:
                return "sub %s %s %s" % (self.undef(e, "undef_prob"), _paren(v), _paren(i)), GROUP
            return "sub %s %s %s" % (self.undef(e, "undef_node"), _paren(v), _paren(i)), NODE
        self.fail(e, "subscript of a value of type %s" % tv)

    def dict_literal(self, e, env):
        keys = []
        for k in e.keys:
            if not (isinstance(k, ast.Constant) and type(k.value) is str):
                self.fail(e, "unsupported dict literal")
            keys.append(k.value)
        if sorted(keys) != ["base_prob", "prob", "pt"]:
            self.fail(e, "a dict literal must have exactly the keys 'pt', 'base_prob', 'prob'")
        if env.tag is None:
            self.fail(e, "an item is built where the translator has no ghost tag for it")
        want = {k: t for k, (_, t) in ITEM_KEYS.items()}
        vals = {}
        # evaluation order of the values is irrelevant: expressions have no effects
        for k, v in zip(keys, e.values):
            t, ty = self.expr(v, env)
            if ty != want[k]:
                self.fail(v, "value of key %r has type %s" % (k, ty))
            vals[k] = t
            self.escape(v, env)
        return ("{| itag := %s; ipt := %s; ibase := %s; iprob := %s |}"
                % (env.tag, vals["pt"], vals["base_prob"], vals["prob"])), ITEM

    def built_item(self, e, env):
        """a dict built key by key, used as a value: the item record (from here on the dict is
        known to the rest of the program, no further store into it is accepted)"""
        d = env.partial[e.id]
        if sorted(d["fields"]) != sorted(ITEM_KEYS):
            self.fail(e, "the dict is used before all of 'pt', 'base_prob', 'prob' are set")
        if env.tag is None:
            self.fail(e, "an item is built where the translator has no ghost tag for it")
        d["escaped"] = True
        for var in d["fields"].values():
            env.fresh.discard(var)
        f = d["fields"]
        return "{| itag := %s; ipt := %s; ibase := %s; iprob := %s |}" % (env.tag, f["pt"], f["base_prob"], f["prob"])

    def call(self, e, env):
        f = e.func
        if self.is_copy(e):
            return self.copy_of(e, env)
        if isinstance(f, ast.Name) and f.id == "len" and len(e.args) == 1 and not e.keywords:
            v, tv = self.expr(e.args[0], env)
            if tv not in (PT, ITEMS, ROW, VARS):
                self.fail(e, "len of a value of type %s" % tv)
            return "length %s" % _paren(v), NAT
        if self.is_self_attr(f):
            if f.attr == self.spec["py"]:
                self.fail(e, "the recursive call is supported as a statement only")
            spec = self.done.get(f.attr)
            if spec is None and f.attr in self.helpers:
                return self.inline(e, env)
            if spec is None or spec["ret"] == UNIT:
                self.fail(e, "call of a method that is neither translated before nor a plain method of the class")
            args = self.bind_args(e, spec, env)
            return "%s %s" % (self.call_spec(e, spec), " ".join(_paren(a) for a in args)), spec["ret"]
        self.fail(e, "unsupported call")

    def copy_of(self, e, env):
        """copy.copy(x) / list(x) / x.copy() / x[:] of a parse tree: the same Coq list (a new Python list, which is
        what makes item assignment on it acceptable)"""
        if isinstance(e, ast.Call) and isinstance(e.func, ast.Name) and (e.func.id in env.types or e.func.id in env.consts):
            self.fail(e, "%r is a local variable here" % e.func.id)
        v, tv = self.expr(self.copied(e), env)
        if tv != PT:
            self.fail(e, "a shallow copy of a value of type %s" % tv)
        return v, PT

    def inline(self, e, env):
        """self.h(args) for another method h of the class: the body of h, translated at this call with the
        parameters bound to the arguments (lets; an int literal argument - also a negative one - is substituted).
        The types of the parameters are those of the arguments; what is known about the arguments (`> 0`, the alias
        of a list) is known about the parameters.  -> (parenthesised Gallina expression, type)"""
        name = e.func.attr
        fn = self.helpers[name]
        chain, t = [], self
        while t is not None:
            chain.append(t.fn.name)
            t = t.parent
        if name in chain:
            self.fail(e, "recursive helper %s" % name)
        if self.depth >= MAX_INLINE_DEPTH:
            self.fail(e, "helpers nested too deeply")
        a = fn.args
        if fn.decorator_list or a.vararg or a.kwarg or a.kwonlyargs or a.posonlyargs or a.kw_defaults \
                or not a.args or a.args[0].arg != "self" or fn.returns is not None \
                or any(x.annotation is not None for x in a.args):
            self.fail(e, "the signature of the helper %s (line %d) is not supported" % (name, fn.lineno))
        params = [x.arg for x in a.args[1:]]
        defaults = dict(zip(params[len(params) - len(a.defaults):], a.defaults))
        given = {}
        if len(e.args) > len(params):
            self.fail(e, "too many arguments")
        for n, arg in zip(params, e.args):
            if isinstance(arg, ast.Starred):
                self.fail(e, "unsupported argument")
            given[n] = (arg, env)
        for kw in e.keywords:
            if kw.arg is None or kw.arg in given or kw.arg not in params:
                self.fail(e, "unsupported keyword argument")
            given[kw.arg] = (kw.value, env)
        spec = dict(py=name, coq=None, params=[], ret=None)
        sub = FunctionTranslator(self.path, self.rel, fn, spec, self.done, self.helpers, parent=self)
        inner = Env()
        inner.tag = env.tag
        inner.nonzero = set(env.nonzero)
        dump = ast.dump(fn, include_attributes=False)
        self.inlined[name] = hashlib.sha256(dump.encode("utf-8")).hexdigest()
        head = "(* inlined: def %s, lines %d-%d%%s *)" % (name, fn.lineno, fn.end_lineno)
        lets, bound = [], []
        for n in params:
            sub.check_name(fn, n)
            if n not in given:
                if n not in defaults:
                    self.fail(e, "missing argument %r" % n)
                c = sub.const_int(defaults[n], Env())
                if c is None:
                    self.fail(e, "the default of %r is not an int literal" % n)
                inner.consts[n] = c
                continue
            arg, aenv = given[n]
            c = self.const_int(arg, aenv)
            if c is not None:
                inner.consts[n] = c
                continue
            t, ty = self.expr(arg, aenv)
            if ty not in LOCAL_TYPES:
                self.fail(arg, "argument of type %s" % ty)
            # sequential lets: an argument must not mention a parameter bound before it (unless it is that very name)
            for m in ast.walk(arg):
                if isinstance(m, ast.Name) and m.id in bound and not (isinstance(arg, ast.Name) and arg.id == n):
                    self.fail(e, "the argument for %r mentions the name of an earlier parameter of %s" % (n, name))
            bound.append(n)
            inner.types[n] = ty
            inner.sym[n] = self.sym(arg, aenv) if ty in (NAT, NODE, PT) else self.opaque()
            lets.append("let %s := %s in" % (n, t))
        head = head % "".join(", %s = %d" % kv for kv in sorted(inner.consts.items()))
        rets = []

        def ret(node, text, ty):
            rets.append((ty, sub.last_ret_fresh))
            return text

        k = K(lambda _n: sub.fail(fn, "the helper can end without a return statement"),
              lambda n: sub.fail(n, "continue outside a loop"), ret)
        body = sub.block(list(fn.body), inner, k, 0)
        if not rets or len({ty for ty, _ in rets}) != 1 or rets[0][0] not in LOCAL_TYPES:
            self.fail(e, "the helper %s returns values of types %r" % (name, sorted({str(ty) for ty, _ in rets})))
        if all(fr for _, fr in rets):
            self.fresh_calls.add(id(e))
        lines = lets + body.rstrip("\n").split("\n")
        lines[0] += "   " + head
        text = "(" + "\n ".join(lines) + "\n"
        return _close(text, ")").rstrip("\n"), rets[0][0]

    def bind_args(self, e, spec, env):
        """positional / keyword arguments of a call of a SPECS function -> texts in parameter
        order (the callback parameter is dropped after checking it is passed on unchanged)"""
        params = spec["params"]
        given = {}
        if len(e.args) > len(params):
            self.fail(e, "too many arguments")
        for (n, _), a in zip(params, e.args):
            if isinstance(a, ast.Starred):
                self.fail(e, "unsupported argument")
            given[n] = a
        for kw in e.keywords:
            if kw.arg is None or kw.arg in given or kw.arg not in dict(params):
                self.fail(e, "unsupported keyword argument")
            given[kw.arg] = kw.value
        out = []
        for n, ty in params:
            if n not in given:
                if n in spec.get("defaults", {}):
                    out.append("%d" % spec["defaults"][n])
                    continue
                self.fail(e, "missing argument %r" % n)
            a = given[n]
            if ty == SAVE:
                if not (isinstance(a, ast.Name) and a.id == n and env.types.get(n) == SAVE):
                    self.fail(e, "the callback must be passed on unchanged")
                continue
            t, ta = self.expr(a, env)
            if ta != ty:
                self.fail(a, "argument %r has type %s, expected %s" % (n, ta, ty))
            out.append(t)
        return out

    def escape(self, e, env):
        """a fresh list stored somewhere else is no longer known to be unaliased"""
        if isinstance(e, ast.Name):
            env.fresh.discard(e.id)

    # -------------------------------------------------------------- statements
    @staticmethod
    def terminates(stmts):
        if not stmts:
            return False
        s = stmts[-1]
        if isinstance(s, (ast.Return, ast.Continue)):
            return True
        if isinstance(s, ast.If):
            return FunctionTranslator.terminates(s.body) and FunctionTranslator.terminates(s.orelse)
        return False

    def assigned(self, stmts):
        """names (re)bound or mutated somewhere in stmts, in order of first occurrence"""
        out = []

        def add(n):
            if n not in out:
                out.append(n)

        def target(t):
            if isinstance(t, ast.Name):
                add(t.id)
            elif isinstance(t, ast.Subscript) and isinstance(t.value, ast.Name):
                add(t.value.id)
                if isinstance(t.slice, ast.Constant) and type(t.slice.value) is str:
                    add("%s_%s" % (t.value.id, t.slice.value))
            elif isinstance(t, ast.Tuple):
                for x in t.elts:
                    target(x)
            else:
                self.fail(t, "unsupported assignment target")

        for s in stmts:
            for n in ast.walk(s):
                if isinstance(n, ast.Assign):
                    for t in n.targets:
                        target(t)
                elif isinstance(n, (ast.AugAssign, ast.AnnAssign)):
                    target(n.target)
                elif isinstance(n, ast.For):
                    target(n.target)
                elif isinstance(n, (ast.NamedExpr, ast.Delete, ast.Global, ast.Nonlocal, ast.With, ast.Import,
                                    ast.ImportFrom, ast.FunctionDef, ast.ClassDef, ast.Lambda,
                                    ast.SetComp, ast.DictComp, ast.GeneratorExp, ast.Try, ast.While)):
                    self.fail(n, "unsupported construct")
                elif isinstance(n, ast.Call):
                    f = n.func
                    if isinstance(f, ast.Attribute) and isinstance(f.value, ast.Name) and f.value.id != "self" \
                            and not self.is_copy(n):
                        add(f.value.id)       # a method call on a local (append): counts as mutation
                    if isinstance(f, ast.Attribute) and isinstance(f.value, ast.Subscript) \
                            and isinstance(f.value.value, ast.Name) and isinstance(f.value.slice, ast.Constant):
                        add("%s_%s" % (f.value.value.id, f.value.slice.value))
                    if self.trace and ((isinstance(f, ast.Name) and f.id == "save_function")
                                       or self.is_self_attr(f, self.spec["py"])):
                        add("saved")
        return out

    def state_text(self, names):
        if not names:
            return "tt", "(_ : unit)"
        if len(names) == 1:
            return names[0], names[0]
        t = "(" + ", ".join(names) + ")"
        return t, "'" + t

    def note(self, s, header=False):
        src = ast.unparse(s).split("\n")[0] if not header else ast.unparse(s).split("\n")[0]
        return "(* %d: %s *)" % (s.lineno, _comment(src))

    def line(self, ind, text, s=None, header=False):
        pad = "  " * ind
        text = text.replace("\n", "\n" + pad + "  ")      # an inlined helper spans several lines
        if s is None:
            return pad + text + "\n"
        first = pad + text
        return first + " " * max(2, 66 - len(first.rsplit("\n", 1)[-1])) + self.note(s, header) + "\n"

    def block(self, stmts, env, k, ind):
        if not stmts:
            return self.line(ind, k.fall(None))
        s, rest = stmts[0], list(stmts[1:])
        if isinstance(s, ast.Expr) and isinstance(s.value, ast.Constant) and type(s.value.value) is str:
            return self.block(rest, env, k, ind)          # docstring
        if isinstance(s, ast.Pass):
            return self.block(rest, env, k, ind)
        if isinstance(s, ast.Return):
            if rest:
                self.fail(rest[0], "statement after return")
            if s.value is None or (isinstance(s.value, ast.Constant) and s.value.value is None):
                return self.line(ind, k.ret(s, None, UNIT), s)
            t, ty = self.expr(s.value, env)
            self.last_ret_fresh = (isinstance(s.value, ast.Name) and s.value.id in env.fresh) \
                or isinstance(s.value, ast.ListComp) or self.is_copy(s.value) or id(s.value) in self.fresh_calls
            return self.line(ind, k.ret(s, t, ty), s)
        if isinstance(s, ast.Continue):
            if rest:
                self.fail(rest[0], "statement after continue")
            return self.line(ind, k.cont(s), s)
        if isinstance(s, ast.Assign):
            return self.assign(s, env, ind) + self.block(rest, env, k, ind)
        if isinstance(s, ast.AugAssign):
            if not (isinstance(s.target, ast.Name) and isinstance(s.op, (ast.Mult, ast.Add))) or s.target.id in env.consts:
                self.fail(s, "only `x *= e` on probabilities and `x += e` on ints are supported")
            x = s.target.id
            t, ty = self.expr(s.value, env)
            if isinstance(s.op, ast.Add):
                if env.types.get(x) != NAT or ty != NAT:
                    self.fail(s, "`+=` is supported on ints only")
                env.sym[x] = self.opaque()
                return self.line(ind, "let %s := %s + %s in" % (x, x, _paren(t)), s) + self.block(rest, env, k, ind)
            if env.types.get(x) != P:
                self.fail(s, "`*=` on a value that is not a probability")
            if ty != P:
                self.fail(s, "`*=` by a value of type %s" % ty)
            return self.line(ind, "let %s := pmul %s %s in" % (x, x, _paren(t)), s) + self.block(rest, env, k, ind)
        if isinstance(s, ast.Expr):
            return self.effect(s, env, ind) + self.block(rest, env, k, ind)
        if isinstance(s, ast.If):
            return self.if_(s, rest, env, k, ind)
        if isinstance(s, ast.For):
            return self.for_(s, rest, env, k, ind)
        self.fail(s, "unsupported statement (%s)" % type(s).__name__)

    def bind(self, node, name, ty, env):
        self.check_name(node, name)
        old = env.types.get(name)
        if old is not None and old != ty:
            self.fail(node, "%r changes its type from %s to %s" % (name, old, ty))
        if old == SAVE:
            self.fail(node, "the callback is rebound")
        if name in env.consts:
            self.fail(node, "a parameter bound to an int literal is rebound")
        env.types[name] = ty
        env.fresh.discard(name)

    def assign(self, s, env, ind):
        if len(s.targets) != 1:
            self.fail(s, "multiple assignment targets")
        t = s.targets[0]
        if isinstance(t, ast.Name) and isinstance(s.value, ast.Dict) and self.partial_keys(s.value) is not None:
            return self.new_partial(s, t.id, env, ind)
        if isinstance(t, ast.Subscript) and isinstance(t.value, ast.Name) and t.value.id in env.partial:
            return self.store_key(s, t, env, ind)
        if isinstance(t, ast.Name):
            if t.id in env.partial:
                self.fail(s, "a dict under construction is rebound")
            v = s.value
            if isinstance(v, ast.List) and not v.elts:
                self.bind(s, t.id, ITEMS, env)
                env.fresh.add(t.id)
                env.sym[t.id] = self.opaque()
                return self.line(ind, "let %s := @nil (Next.item A) in" % t.id, s)
            text, ty = self.expr(v, env)
            if ty not in LOCAL_TYPES:
                self.fail(s, "unsupported value")
            sym = self.sym(v, env) if ty in (NAT, NODE, PT) else self.opaque()
            self.escape(v, env)
            self.bind(s, t.id, ty, env)
            env.sym[t.id] = sym
            if self.is_copy(v) or isinstance(v, ast.ListComp) or id(v) in self.fresh_calls:
                env.fresh.add(t.id)          # a new list nothing else refers to
            return self.line(ind, "let %s := %s in" % (t.id, text), s)
        if isinstance(t, ast.Tuple):
            # a, b = node
            if not (len(t.elts) == 2 and all(isinstance(x, ast.Name) for x in t.elts)) or t.elts[0].id == t.elts[1].id:
                self.fail(s, "only `a, b = node` is supported as a tuple assignment")
            names = [x.id for x in t.elts]
            for m in ast.walk(s.value):
                if isinstance(m, ast.Name) and m.id in names:
                    self.fail(s, "a name assigned by the tuple assignment occurs on its right-hand side")
            text, ty = self.expr(s.value, env)
            if ty != NODE:
                self.fail(s, "tuple assignment from a value of type %s" % ty)
            base = self.sym(s.value, env)
            out = ""
            for n, (x, proj) in enumerate(zip(names, ("fst", "snd"))):
                if x in env.partial:
                    self.fail(s, "a dict under construction is rebound")
                self.bind(s, x, NAT, env)
                env.sym[x] = "%s[%d]" % (base, n)
                out += self.line(ind, "let %s := %s %s in" % (x, proj, _paren(text)), s if n == 0 else None)
            return out
        if isinstance(t, ast.Subscript) and isinstance(t.value, ast.Name):
            x = t.value.id
            if env.types.get(x) != PT or x not in env.fresh:
                self.fail(s, "item assignment is supported on a fresh copy.copy(...) of a parse tree only, "
                             "before it is stored anywhere")
            i, ti = self.expr(t.slice, env)
            v, tv = self.expr(s.value, env)
            if ti != NAT or tv != NODE:
                self.fail(s, "unsupported item assignment")
            env.sym[x] = self.opaque()
            return self.line(ind, "let %s := set_nth %s %s %s in" % (x, x, _paren(i), _paren(v)), s)
        self.fail(s, "unsupported assignment target")

    @staticmethod
    def partial_keys(d):
        """keys of a dict literal that starts an item dict built key by key (a strict, non-empty
        subset of the item keys), else None"""
        keys = [k.value if isinstance(k, ast.Constant) else None for k in d.keys]
        if keys and all(type(k) is str and k in ITEM_KEYS for k in keys) and len(set(keys)) == len(keys) \
                and len(keys) < len(ITEM_KEYS):
            return keys
        return None

    def field_var(self, node, x, key, ty, env, new):
        var = "%s_%s" % (x, key)
        if new:
            self.check_name(node, var)
            if var in env.types or var in env.partial:
                self.fail(node, "the variable name %r collides with the generated code" % var)
        env.types[var] = ty
        env.sym[var] = self.opaque()
        env.fresh.discard(var)
        return var

    def key_value(self, node, key, v, env):
        """value stored under an item key -> text; an empty list literal is a fresh parse tree"""
        want = ITEM_KEYS[key][1]
        if key == "pt" and isinstance(v, ast.List) and not v.elts:
            return "@nil (Next.var * nat)", True
        t, ty = self.expr(v, env)
        if ty != want:
            self.fail(node, "value of key %r has type %s" % (key, ty))
        self.escape(v, env)
        return t, False

    def new_partial(self, s, x, env, ind):
        self.check_name(s, x)
        if x in env.types or x in env.partial:
            self.fail(s, "%r is rebound to a dict under construction" % x)
        out, fields, fresh = "", {}, []
        for n, (key, v) in enumerate(zip(self.partial_keys(s.value), s.value.values)):
            t, is_fresh = self.key_value(s, key, v, env)
            var = "%s_%s" % (x, key)
            fields[key] = (var, t, is_fresh)
        for n, (key, (var, t, is_fresh)) in enumerate(fields.items()):
            self.field_var(s, x, key, ITEM_KEYS[key][1], env, True)
            if is_fresh:
                env.fresh.add(var)
            out += self.line(ind, "let %s := %s in" % (var, t), s if n == 0 else None)
        env.partial[x] = {"fields": {k: v[0] for k, v in fields.items()}, "escaped": False}
        return out

    def store_key(self, s, t, env, ind):
        x = t.value.id
        d = env.partial[x]
        if d["escaped"]:
            self.fail(s, "store into a dict that has been stored elsewhere")
        if not (isinstance(t.slice, ast.Constant) and t.slice.value in ITEM_KEYS):
            self.fail(s, "unsupported key")
        key = t.slice.value
        text, is_fresh = self.key_value(s, key, s.value, env)
        var = self.field_var(s, x, key, ITEM_KEYS[key][1], env, key not in d["fields"])
        d["fields"][key] = var
        if is_fresh:
            env.fresh.add(var)
        return self.line(ind, "let %s := %s in" % (var, text), s)

    def merge_partial(self, node, env, inner):
        """after a loop body / a conditional: what it did to the dicts under construction"""
        for x, d in env.partial.items():
            di = inner.partial.get(x)
            if di is None or sorted(di["fields"]) != sorted(d["fields"]):
                self.fail(node, "a key is added to a dict under construction inside a loop or conditional")
            d["escaped"] = d["escaped"] or di["escaped"]

    def effect(self, s, env, ind):
        c = s.value
        if not isinstance(c, ast.Call):
            self.fail(s, "unsupported expression statement")
        f = c.func
        # d['pt'].append(e) on a dict under construction
        if isinstance(f, ast.Attribute) and f.attr == "append" and isinstance(f.value, ast.Subscript) \
                and isinstance(f.value.value, ast.Name) and f.value.value.id in env.partial \
                and len(c.args) == 1 and not c.keywords:
            d = env.partial[f.value.value.id]
            key = f.value.slice.value if isinstance(f.value.slice, ast.Constant) else None
            var = d["fields"].get(key)
            if key != "pt" or var is None or var not in env.fresh or d["escaped"]:
                self.fail(s, "append is supported on the fresh 'pt' list of a dict under construction only")
            t, ty = self.expr(c.args[0], env)
            if ty != NODE:
                self.fail(s, "append of a value of type %s" % ty)
            env.sym[var] = self.opaque()
            return self.line(ind, "let %s := append %s %s in" % (var, var, _paren(t)), s)
        # x.append(e)
        if isinstance(f, ast.Attribute) and f.attr == "append" and isinstance(f.value, ast.Name) \
                and len(c.args) == 1 and not c.keywords:
            x = f.value.id
            if env.types.get(x) != ITEMS or x not in env.fresh:
                self.fail(s, "append is supported on a fresh local list (x = []) only")
            t, ty = self.expr(c.args[0], env)
            if ty != ITEM:
                self.fail(s, "append of a value of type %s" % ty)
            self.escape(c.args[0], env)
            return self.line(ind, "let %s := append %s %s in" % (x, x, _paren(t)), s)
        # save_function(e)
        if self.trace and isinstance(f, ast.Name) and f.id == "save_function" and env.types.get(f.id) == SAVE:
            if len(c.args) != 1 or c.keywords:
                self.fail(s, "the callback takes one argument")
            t, ty = self.expr(c.args[0], env)
            if ty != ITEM:
                self.fail(s, "the callback is applied to a value of type %s" % ty)
            self.escape(c.args[0], env)
            return self.line(ind, "let saved := append saved %s in" % _paren(t), s)
        # the recursive call
        if self.trace and self.uses_fuel and self.is_self_attr(f, self.spec["py"]):
            args = self.bind_args(c, self.spec, env)
            for a in list(c.args) + [kw.value for kw in c.keywords]:
                self.escape(a, env)
            head = " ".join([self.spec["coq"]] + self.spec["undef"] + ["fuel'", "rs"])
            return self.line(ind, "let saved := extend saved (%s %s) in"
                             % (head, " ".join(_paren(a) for a in args)), s)
        self.fail(s, "unsupported call statement")

    def if_(self, s, rest, env, k, ind):
        c = self.cond(s.test, env)
        body, orelse = list(s.body), list(s.orelse)
        bt, et = self.terminates(body), self.terminates(orelse)
        env_t, env_f = env.copy(), env.copy()
        # what the test shows about ints being > 0, on either side (`if e == 0: continue`, `if e != 0:`, `if e > 0:`,
        # `if a == b or e == 0: continue`, ...)
        env_t.nonzero |= self.facts(s.test, True, env)
        env_f.nonzero |= self.facts(s.test, False, env)
        head = self.line(ind, "if %s then" % c, s, header=True)
        if not rest or bt or et:
            if rest and bt and et:
                self.fail(rest[0], "unreachable statement")
            then_stmts = body if (not rest or bt) else body + rest
            else_stmts = orelse if (not rest or et) else orelse + rest
            return (head + self.block(then_stmts, env_t, k, ind + 1)
                    + self.line(ind, "else") + self.block(else_stmts, env_f, k, ind + (0 if bt else 1)))
        # both branches fall through to `rest`: they may only (re)bind variables
        for n in body + orelse:
            for m in ast.walk(n):
                if isinstance(m, (ast.Return, ast.Continue, ast.Break, ast.For, ast.While)):
                    self.fail(m, "control flow inside a conditional that is followed by more statements")
        names = [n for n in self.assigned(body + orelse) if n in env.types or n == "saved"]
        tup, pat = self.state_text(names)
        if not names:
            self.fail(s, "conditional without effect")
        join = K(lambda _n: tup, lambda n: self.fail(n, "continue"), lambda n, t, ty: self.fail(n, "return"))
        out = self.line(ind, "let %s :=" % pat)
        out += self.line(ind + 1, "(if %s then" % c, s, header=True)
        out += self.block(body, env_t, join, ind + 2)
        out += self.line(ind + 1, "else")
        out += _close(self.block(orelse, env_f, join, ind + 2), ") in")
        self.merge_partial(s, env, env_t)
        self.merge_partial(s, env, env_f)
        for n in names:
            env.sym[n] = self.opaque()
            # freshness: a list stays fresh only if it is fresh on both paths
            if n in env.fresh and not (n in env_t.fresh and n in env_f.fresh):
                env.fresh.discard(n)
        for n in list(env.fresh):
            if not (n in env_t.fresh and n in env_f.fresh):
                env.fresh.discard(n)
        return out + self.block(rest, env, k, ind)

    def node_target(self, s, t):
        """loop target standing for a node: `item` -> (item, None);  `(a, b)` -> (a fresh name for the node, (a, b))"""
        if isinstance(t, ast.Name):
            return t.id, None
        if isinstance(t, ast.Tuple) and len(t.elts) == 2 and all(isinstance(x, ast.Name) for x in t.elts):
            a, b = t.elts[0].id, t.elts[1].id
            return "%s_%s_node" % (a, b), (a, b)
        self.fail(s, "unsupported loop target")

    def for_(self, s, rest, env, k, ind):
        if s.orelse:
            self.fail(s, "for ... else")
        it = s.iter
        inner = env.copy()
        names = [n for n in self.assigned(s.body) if n in env.types or n == "saved"]
        binders, unpack = [], None
        if isinstance(it, ast.Call) and isinstance(it.func, ast.Name) and it.func.id == "enumerate" \
                and len(it.args) == 1 and not it.keywords:
            if not (isinstance(s.target, ast.Tuple) and len(s.target.elts) == 2
                    and isinstance(s.target.elts[0], ast.Name)):
                self.fail(s, "enumerate needs the target `pos, item` or `pos, (a, b)`")
            lst = it.args[0]
            l, tl = self.expr(lst, env)
            if tl != PT:
                self.fail(s, "enumerate of something that is not a parse tree")
            pos = s.target.elts[0].id
            x, unpack = self.node_target(s, s.target.elts[1])
            binders = [(pos, NAT), (x, NODE)]
            psym = self.opaque()
            inner.sym[pos] = psym
            inner.sym[x] = "%s[%s]" % (self.sym(lst, env), psym)
            head = "for_enum %s (fun %s %s %%s =>" % (_paren(l), pos, x)
            if not isinstance(lst, ast.Name):
                lst = None         # not a local list: nothing in the subset can change it
        elif isinstance(it, ast.Call) and isinstance(it.func, ast.Name) and it.func.id == "range" \
                and len(it.args) in (1, 2) and not it.keywords:
            if not isinstance(s.target, ast.Name):
                self.fail(s, "range needs a single target")
            a, ta = self.expr(it.args[0], env) if len(it.args) == 2 else ("0", NAT)
            b, tb = self.expr(it.args[-1], env)
            if (ta, tb) != (NAT, NAT):
                self.fail(s, "range of non-ints")
            for arg in it.args:
                for m in ast.walk(arg):
                    if isinstance(m, ast.Name) and m.id in names:
                        self.fail(s, "a bound of the range is assigned in the loop")
            binders = [(s.target.id, NAT)]
            inner.sym[s.target.id] = self.opaque()
            head = "for_range %s %s (fun %s %%s =>" % (_paren(a), _paren(b), s.target.id)
            lst = None
        elif isinstance(it, (ast.Name, ast.Attribute, ast.Subscript)):
            l, tl = self.expr(it, env)
            if tl == PT:
                lst = it if isinstance(it, ast.Name) else None
                x, unpack = self.node_target(s, s.target)
                inner.sym[x] = self.opaque()
                binders = [(x, NODE)]
                head = "for_each %s (fun %s %%s =>" % (_paren(l), x)
            elif not isinstance(s.target, ast.Name):
                self.fail(s, "unsupported loop target")
            elif tl == VARS:
                inner.sym[s.target.id] = self.opaque()
                lst = None         # nothing in the subset can change a list of this type
                binders = [(s.target.id, NAT)]
                head = "for_each %s (fun %s %%s =>" % (_paren(l), s.target.id)
            elif tl == BASES:
                # the position in self.base is the ghost tag of the items built in the body
                lst = None
                inner.sym[s.target.id] = self.opaque()
                tag = s.target.id + "_tag"
                binders = [(tag, NAT), (s.target.id, BASE)]
                inner.sym[tag] = self.opaque()
                inner.tag = tag
                head = "for_enum %s (fun %s %s %%s =>" % (_paren(l), tag, s.target.id)
            else:
                self.fail(s, "loop over a value of type %s" % tl)
        else:
            self.fail(s, "unsupported loop")
        if lst is not None and lst.id in names:
            self.fail(s, "the iterated list is assigned or mutated in the loop")
        for n, ty in binders + [(n, NAT) for n in (unpack or ())]:
            if n in env.types or n in env.consts or n in env.partial:
                self.fail(s, "the loop variable %r is already bound" % n)
            self.check_name(s, n)
            inner.types[n] = ty
        if len({n for n, _ in binders} | set(unpack or ())) != len(binders) + len(unpack or ()):
            self.fail(s, "loop variables collide")
        pre = ""
        if unpack:        # for ..., (a, b) in ...:  the node is named, its components are let-bound
            x = binders[-1][0]
            for n, proj, k_ in zip(unpack, ("fst", "snd"), (0, 1)):
                inner.sym[n] = "%s[%d]" % (inner.sym[x], k_)
                pre += self.line(ind + 2, "let %s := %s %s in" % (n, proj, x))
        for n in names:
            inner.sym[n] = self.opaque()
            env.sym[n] = self.opaque()
        tup, pat = self.state_text(names)
        cont = "Continue %s" % tup
        body_k = K(lambda _n: cont, lambda _n: cont,
                   lambda n, t, ty: "Return %s" % _paren(k.ret(n, t, ty)))
        out = self.line(ind, head % pat, s, header=True)
        out += pre + _close(self.block(list(s.body), inner, body_k, ind + 2), ")")
        self.merge_partial(s, env, inner)
        # a list is still fresh after the loop only if the body did not store it
        for n in list(env.fresh):
            if n not in inner.fresh:
                env.fresh.discard(n)
        out += self.line(ind, "%s (fun %s =>" % (tup, pat))
        out += _close(self.block(rest, env, k, ind), ")")
        return out

    # -------------------------------------------------------------- function
    def translate(self):
        self.check_signature()
        fn, spec = self.fn, self.spec
        env = Env()
        items = [n for n, ty in spec["params"] if ty == ITEM]
        env.tag = "itag %s" % items[0] if len(items) == 1 else None
        for n, ty in spec["params"]:
            env.types[n] = ty
            env.sym[n] = n
        ret_ty = spec["ret"]

        def ret(node, text, ty):
            if ty != ret_ty:
                self.fail(node, "returns a value of type %s, the translator expects %s" % (ty, ret_ty))
            return "saved" if self.trace else text

        def fall(_n):
            if not self.trace:
                self.fail(fn, "the function can end without a return statement")
            return "saved"

        k = K(fall, lambda n: self.fail(n, "continue outside a loop"), ret)
        params = " ".join("(%s : %s)" % (n, COQ_TYPE[ty]) for n, ty in spec["params"] if ty != SAVE)
        undef = " ".join("(%s : %s)" % (u, UNDEF_TYPE[u]) for u in spec["undef"])
        result = COQ_TYPE[ITEMS] if self.trace else COQ_TYPE[ret_ty]
        dump = ast.dump(fn, include_attributes=False)
        sha = hashlib.sha256(dump.encode("utf-8")).hexdigest()
        body = ""
        if self.trace:
            body += self.line(1, "let saved := @nil (Next.item A) in")
        body += self.block(list(fn.body), env, k, 1)
        out = "(* %s  class %s  def %s  lines %d-%d\n   sha256 of ast.dump: %s%s%s *)\n" % (
            self.rel, CLASS, fn.name, fn.lineno, fn.end_lineno, sha,
            "".join("\n   inlined helper %s, sha256 of ast.dump: %s" % kv for kv in sorted(self.inlined.items())),
            "\n   returns None; the value below is the sequence of save_function calls.  Defaults: %s."
            "\n   [fuel] bounds the depth of the recursion (no counterpart in Python; 0 = give up)"
            % ", ".join("%s = %d" % kv for kv in sorted(spec.get("defaults", {}).items())) if self.trace else "")
        ind = 1
        if self.uses_fuel:
            out += "Fixpoint %s %s (fuel : nat) (rs : Next.ruleset A) %s {struct fuel} : %s :=\n" % (
                spec["coq"], undef, params, result)
            out += "  match fuel with\n  | O => nil\n  | S fuel' =>\n"
        else:
            out += "Definition %s %s (rs : Next.ruleset A) %s : %s :=\n" % (spec["coq"], undef, params, result)
        out += _close(body, "\n  end." if self.uses_fuel else ".")
        return out, sha


def render(repo=None):
    """-> text of gen/Kernel_gen.v for the sources of the current working tree"""
    repo = repo or common.REPO
    path = os.path.join(repo, SOURCE)
    with open(path, encoding="utf-8", newline="") as f:
        src = f.read()
    tree = ast.parse(src, filename=path)
    classes = [n for n in tree.body if isinstance(n, ast.ClassDef) and n.name == CLASS]
    if len(classes) != 1:
        raise TranslateError("%s: class %s not found exactly once" % (path, CLASS))
    defs = {}
    for n in classes[0].body:
        if isinstance(n, (ast.FunctionDef, ast.AsyncFunctionDef)):
            if n.name in defs:
                raise TranslateError("%s:%d: %s defined twice" % (path, n.lineno, n.name))
            defs[n.name] = n
    # a rebinding of one of the names inside this file (assignment in the class body or at
    # module level, `self._find_prob = ...`, setattr) would make the translated def not the
    # one that runs; patches from other modules are out of the translator's sight
    names = {s["py"] for s in SPECS}
    helpers = {n: d for n, d in defs.items() if n not in names and isinstance(d, ast.FunctionDef)}
    parts, done, inlined = [], {}, {}
    for spec in SPECS:
        fn = defs.get(spec["py"])
        if not isinstance(fn, ast.FunctionDef):
            raise TranslateError("%s: %s.%s not found" % (path, CLASS, spec["py"]))
        tr = FunctionTranslator(path, SOURCE, fn, spec, done, helpers)
        text, sha = tr.translate()
        parts.append(text)
        inlined.update(tr.inlined)
        done[spec["py"]] = spec
    names |= set(inlined)          # the helpers that were inlined must be the methods that run, too
    for n in ast.walk(tree):
        if isinstance(n, (ast.Assign, ast.AugAssign, ast.AnnAssign, ast.Delete)):
            targets = n.targets if isinstance(n, (ast.Assign, ast.Delete)) else [n.target]
            for t in targets:
                for m in ast.walk(t):
                    if (isinstance(m, ast.Name) and m.id in names) or \
                            (isinstance(m, ast.Attribute) and m.attr in names):
                        raise TranslateError("%s:%d: %s is rebound" % (path, n.lineno, ast.unparse(t)))
        if isinstance(n, ast.Name) and n.id in ("setattr", "delattr", "__dict__"):
            raise TranslateError("%s:%d: %s is used in the module" % (path, n.lineno, n.id))
    head = (
        "(* GENERATED by harness/translate_kernel.py from the Python source of the current\n"
        "   working tree (%s, class %s) on every run of a check.  Do not edit.\n"
        "   Each definition is the line-by-line image of one Python function in the subset\n"
        "   documented in the translator; the numbers in the comments are source lines.\n"
        "   theories/KernelGenProofs.v proves these definitions equal to the hand-written\n"
        "   model of theories/Next.v. *)\n"
        "From Coq Require Import List Arith Bool.\n"
        "From Pcfg Require Import ProbAlg Next KernelRt.\n"
        "Import ListNotations.\n\n"
        "Section Kernel.\n"
        "Context {A : palg}.\n"
        "(* undef_prob / undef_node: the value of a subscript that raises in Python (see KernelRt.v); the\n"
        "   parameters are fixed per function by the translator, whether the body uses them or not *)\n\n" % (SOURCE, CLASS))
    return head + "\n".join(parts) + "\nEnd Kernel.\n"


def failure_text(err):
    """text written instead of the definitions when the translation fails: it must not
    compile, so that no stale generated definition survives"""
    return ("(* GENERATED by harness/translate_kernel.py.  The translation of the current sources FAILED:\n"
            "   %s\n   The line below does not type-check on purpose. *)\n"
            "Definition kernel_translation_failed : False := I.\n" % _comment(str(err)))


def write(repo=None):
    import extract_consts as X
    path = os.path.join(common.COQ, OUT)
    try:
        text = render(repo)
    except Exception as e:
        X.write(path, failure_text("%s: %s" % (type(e).__name__, e)))
        raise
    return X.write(path, text)


if __name__ == "__main__":
    if "--write" in sys.argv[1:]:
        print("written" if write() else "unchanged", os.path.join(common.COQ, OUT))
    else:
        sys.stdout.write(render())
