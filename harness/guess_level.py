"""The GUESS level of C02: "the multiset of emitted guesses equals the language of the ruleset with multiplicity one per
derivation".

Left side: every pre-terminal the real PcfgQueue popped, expanded by the real PcfgGrammar.create_guesses (print_guess swapped
for a collector), all lines of the run in one multiset.
Right side: the derivations the ruleset FILES define, computed here without any code of /repo: per line of
<folder>/grammar.txt (the Markov line dropped under skip_brute) every value of every line of the file of every variable; an
A<n> is followed by every mask of Capitalization/<n>.txt (the single all-lower mask under all_lower), applied letter by letter
with str.upper(); an M stands for every level listed in Omen/pcfg_omen_prob.txt times every string of that level
(omen_gen.brute_levels on the lines of the Omen files).  ONE guess PER DERIVATION: two derivations that spell the same string
(a word of letters without case under two masks, a duplicate base-structure line, 'a'+'bc' / 'ab'+'c') count twice.

Every random choice comes from the caller's random.Random."""
import itertools
import re
import uuid as _uuid
from collections import Counter

import impl_next
import rulesets


def apply_mask(word, mask):
    """the property's reading of a capitalisation mask: letter by letter, U = str.upper() of that letter"""
    return "".join(c.upper() if m == "U" else c for c, m in zip(word, mask))


def _omen_buckets(rs, cache):
    if "b" not in cache:
        import omen_gen
        cache["b"] = omen_gen.brute_levels(rs.get("omen") or rulesets.DEFAULT_OMEN)
    return cache["b"]


def _lines_of(rs, folder):
    return rs["grammar"] if folder == "Grammar" else rs["prince"]


def positions(rs, struct, skip_case, cache):
    """per label of one base-structure line the list of (string, derivation text) it can be replaced by; None when the files
    give a label no meaning (no such file): the guess level is then left to the loader's own checks"""
    out = []
    for tok in re.findall(r"[A-Z][0-9]*", struct):
        if tok == "M":
            buckets = _omen_buckets(rs, cache)
            alts = []
            for lvl, _ in rs.get("omen_prob", []):
                for s, k in sorted(buckets.get(int(lvl), {}).items()):
                    alts += [(s, "M=level %s %r" % (lvl, s))] * k
            out.append(alts)
            continue
        lines = rs["files"].get(tok)
        if lines is None:
            return None
        if tok[0] == "A":
            if skip_case:
                masks = ["L" * int(tok[1:])] if ("C" + tok[1:]) in rs["files"] else None
            else:
                ml = rs["files"].get("C" + tok[1:])
                masks = None if ml is None else [m for m, _ in ml]
            if masks is None:
                return None
            out.append([(apply_mask(w, m), "%s=%r x C%s=%s" % (tok, w, tok[1:], m)) for w, _ in lines for m in masks])
        else:
            out.append([(v, "%s=%r" % (tok, v)) for v, _ in lines])
    return out


def language_size(rs, skip_brute, skip_case, folder, cache=None):
    """number of derivations of the files under the flags (cheap: products of line counts), None if undefined"""
    cache = {} if cache is None else cache
    total = 0
    for struct, _ in _lines_of(rs, folder):
        if skip_brute and "M" in struct:
            continue
        pos = positions(rs, struct, skip_case, cache)
        if pos is None:
            return None
        n = 1
        for alts in pos:
            n *= len(alts)
        total += n
    return total


def language(rs, skip_brute, skip_case, folder, cache=None):
    """Counter string -> number of derivations"""
    cache = {} if cache is None else cache
    lang = Counter()
    for struct, _ in _lines_of(rs, folder):
        if skip_brute and "M" in struct:
            continue
        pos = positions(rs, struct, skip_case, cache)
        for combo in itertools.product(*[[s for s, _ in alts] for alts in pos]):
            lang["".join(combo)] += 1
    return lang


def derivations_of(rs, skip_brute, skip_case, folder, string, cache=None, most=4):
    """the derivations of [string] as texts (at most [most]), and their number"""
    cache = {} if cache is None else cache
    out, n = [], 0
    for li, (struct, _) in enumerate(_lines_of(rs, folder)):
        if skip_brute and "M" in struct:
            continue
        pos = positions(rs, struct, skip_case, cache)
        for combo in itertools.product(*pos):
            if "".join(s for s, _ in combo) == string:
                n += 1
                if len(out) < most:
                    out.append("line %d %r of %s/grammar.txt: %s" % (li + 1, struct, folder, ", ".join(d for _, d in combo)))
    return out, n


def expand_all(g, items):
    """every popped pre-terminal through the real create_guesses.  Returns (per pre-terminal list of (pt, lines, count) or
    (pt, None, exception text)), the multiset of all lines)."""
    got, per = Counter(), []
    for it in items:
        pt = [tuple(x) for x in it["pt"]]
        lines = []
        old = g.print_guess
        g.print_guess = lines.append
        try:
            try:
                n = g.create_guesses(pt)
            except Exception as e:
                if type(e).__name__ == "ImplementationHangs":      # the driver's wall-clock budget, not a result
                    raise
                per.append((pt, None, "%s: %s" % (type(e).__name__, e)))
                continue
        finally:
            g.print_guess = old
        per.append((pt, lines, n))
        got.update(lines)
    return per, got


def oracle(g, items, replay, cap, dist=None):
    """The guess-level oracle for one exhausted run.  [replay] names ruleset and flags.  Returns (violations, per pre-terminal
    expansions or None when the level was not judged)."""
    rs = replay.get("ruleset")
    if rs is None:
        return [], None
    sb, scs, folder = bool(replay.get("skip_brute")), bool(replay.get("skip_case")), replay.get("folder", "Grammar")
    cache = {}
    dist = {} if dist is None else dist
    try:
        size = language_size(rs, sb, scs, folder, cache)
    except Exception:
        size = None
    if size is None:
        dist["guess_level_undefined"] = dist.get("guess_level_undefined", 0) + 1
        return [], None
    if size > cap:
        dist["guess_level_too_large"] = dist.get("guess_level_too_large", 0) + 1
        return [], None
    want = language(rs, sb, scs, folder, cache)
    per, got = expand_all(g, items)
    dist["guess_level_rulesets"] = dist.get("guess_level_rulesets", 0) + 1
    dist["guess_level_guesses"] = dist.get("guess_level_guesses", 0) + sum(want.values())
    tr = traits(rs, scs)
    dist["guess_level_rulesets_caseless_letter_under_U"] = dist.get("guess_level_rulesets_caseless_letter_under_U", 0) + tr[0]
    dist["guess_level_rulesets_caseless_and_no_all_lower_mask"] = dist.get("guess_level_rulesets_caseless_and_no_all_lower_mask", 0) + tr[1]
    dist["guess_level_rulesets_with_markov_guesses"] = dist.get("guess_level_rulesets_with_markov_guesses", 0) + any(
        t[0] == "M" and lines for pt, lines, n in per for t, _ in pt)
    spell_twice = sum(1 for c in want.values() if c > 1)
    dist["guess_level_rulesets_with_string_of_several_derivations"] = dist.get("guess_level_rulesets_with_string_of_several_derivations", 0) + bool(spell_twice)
    rp = dict(replay, guess_level=True)
    vio = []
    for pt, lines, n in per:
        if lines is None:
            vio.append({"sig": "C02:guess-raised", "what": "create_guesses raised %s on the emitted pre-terminal %r: its guesses are never emitted"
                        % (n, pt), "replay": dict(rp, pt=pt)})
            return vio, per
    if want == got:
        return vio, per
    missing, extra = want - got, got - want

    def owner(string):
        """the emitted pre-terminals whose expansion SHOULD hold the string (by the groups of the files)"""
        out = []
        for pt, lines, n in per:
            if any(t[0] == "M" for t, _ in pt):
                continue
            choices, i, ok = [], 0, True
            while i < len(pt) and ok:
                t, ix = pt[i]
                fg = impl_next.file_groups(rs, t, scs)
                if fg is None or ix >= len(fg):
                    ok = False
                elif t[0] == "A" and i + 1 < len(pt) and pt[i + 1][0][0] == "C":
                    fm = impl_next.file_groups(rs, pt[i + 1][0], scs)
                    if fm is None or pt[i + 1][1] >= len(fm):
                        ok = False
                    else:
                        choices.append([apply_mask(w, m) for w in fg[ix][1] for m in fm[pt[i + 1][1]][1]])
                    i += 2
                else:
                    choices.append(list(fg[ix][1]))
                    i += 1
            if ok and string in set("".join(x) for x in itertools.product(*choices)):
                out.append((pt, len(lines), lines.count(string)))
        return out
    if missing:
        s = sorted(missing, key=lambda x: (got[x] != 0, len(x), x))[0]
        ders, nd = derivations_of(rs, sb, scs, folder, s, cache)
        own = owner(s)[:3]
        vio.append({"sig": "C02:guess-missing",
                    "what": "run to exhaustion (%d pre-terminals, %d guesses) the guess %r is emitted %d time(s) but the ruleset files give it %d "
                            "derivation(s): %s; pre-terminals it belongs to (pre-terminal, guesses written, copies of the string): %r; in all %d "
                            "derivation(s) of %d string(s) are missing%s"
                            % (len(per), sum(got.values()), s, got[s], nd, " | ".join(ders), own, sum(missing.values()), len(missing),
                               ", %d of them never emitted at all" % sum(1 for x in missing if got[x] == 0)),
                    "replay": dict(rp, guess=s)})
    if extra:
        s = sorted(extra, key=lambda x: (len(x), x))[0]
        ders, nd = derivations_of(rs, sb, scs, folder, s, cache)
        own = [(pt, len(lines), lines.count(s)) for pt, lines, n in per if s in lines][:3]
        vio.append({"sig": "C02:guess-repeated",
                    "what": "run to exhaustion (%d pre-terminals, %d guesses) the guess %r is emitted %d time(s) but the ruleset files give it only %d "
                            "derivation(s): %s; written by (pre-terminal, guesses written, copies of the string): %r; in all %d guess(es) too many"
                            % (len(per), sum(got.values()), s, got[s], nd, " | ".join(ders) or "none", own, sum(extra.values())),
                    "replay": dict(rp, guess=s)})
    return vio, per


# ------------------------------------------------------------------ rulesets built for the guess level

# letters without case (Hebrew, Arabic, CJK, Thai, Devanagari), words that are only partly cased, U+0130
CASELESS = {1: ["日", "א", "ก"], 2: ["אב", "密码", "aב", "בa", "İz", "नम"],
            3: ["日本語", "aבג", "בaג", "كلب", "fİl", "אבa"],
            4: ["שלום", "سلام", "pa日本", "אהבה", "a密b码"], 5: ["שלוםa", "ñañ日本", "สบายด"]}
CASED = {1: ["a", "x", "é"], 2: ["ab", "ok", "да"], 3: ["cat", "abc", "sun"], 4: ["love", "moon", "тест"], 5: ["hello", "admin"]}


def _all_masks(n):
    return ["".join(t) for t in itertools.product("LU", repeat=n)]


def lines_all(rng, values, max_groups):
    """every value once, in 1..max_groups groups of equal probability, probabilities descending"""
    values = list(dict.fromkeys(values))
    rng.shuffle(values)
    k = min(rng.randint(1, max_groups), len(values))
    ps = rulesets.gen_probs(rng, k, rng.random() < 0.5)
    cuts = sorted(rng.sample(range(1, len(values)), k - 1)) if k > 1 else []
    out, gi = [], 0
    for i, v in enumerate(values):
        while gi < len(cuts) and i >= cuts[gi]:
            gi += 1
        out.append((v, ps[gi]))
    return out


def gen_caseless_ruleset(rng, name="T"):
    """A SMALL ruleset (language a few dozen to a few thousand guesses) whose alpha lists hold words of letters WITHOUT case
    or only partly cased beside ordinary ones; whose mask lists hold masks with U on such positions; for about half of the
    lengths the all-lower mask is ABSENT; usually with a duplicate base-structure line, sometimes the Markov line."""
    rs = {"name": name, "encoding": "utf-8", "uuid": str(_uuid.UUID(int=rng.getrandbits(128))),
          "files": {}, "grammar": [], "prince": [], "omen": None}
    alens = rng.sample([1, 2, 3, 4, 5], rng.randint(1, 2))
    kinds = []
    for n in alens:
        words = rng.sample(CASELESS[n], rng.randint(1, min(3, len(CASELESS[n])))) + rng.sample(CASED[n], rng.randint(0, 2))
        rs["files"]["A%d" % n] = lines_all(rng, words, 3)
        pool = [m for m in _all_masks(n) if "U" in m]
        masks = rng.sample(pool, rng.randint(1, min(3, len(pool))))
        if rng.random() < 0.5:
            masks.append("L" * n)
        rs["files"]["C%d" % n] = lines_all(rng, masks, 3)
        kinds.append("A%d" % n)
    for k, pool in (("D1", rulesets.DIGITS[1]), ("D2", rulesets.DIGITS[2]), ("O1", rulesets.OTHER[1])):
        if rng.random() < 0.6 or k == "D1":
            rs["files"][k] = lines_all(rng, rng.sample(pool, rng.randint(1, 3)), 2)
            kinds.append(k)
    structs = []
    for _ in range(rng.randint(1, 3)):
        s = [rng.choice(kinds) for _ in range(rng.randint(1, 3))]
        if not any(x[0] == "A" for x in s):
            s[rng.randrange(len(s))] = "A%d" % rng.choice(alens)
        structs.append("".join(s))
    if rng.random() < 0.6:
        structs.insert(rng.randint(0, len(structs)), rng.choice(structs))      # duplicate base-structure line
    if rng.random() < 0.25:
        structs.insert(rng.randint(0, len(structs)), "M")
    rs["grammar"] = list(zip(structs, rulesets.gen_probs(rng, len(structs), rng.random() < 0.5)))
    pk = list(kinds)
    rng.shuffle(pk)
    rs["prince"] = list(zip(pk, rulesets.gen_probs(rng, len(pk), True)))
    levels = rng.sample(range(0, 6), rng.randint(1, 3))
    rs["omen_prob"] = list(zip([str(l) for l in levels], rulesets.gen_probs(rng, len(levels), False)))
    return rs


def traits(rs, skip_case):
    """what the guess level of this ruleset can show: (a length with a caseless letter under a U of some mask, such a length
    WITHOUT the all-lower mask, a duplicate base-structure line)"""
    under_u, no_lower = False, False
    for k, lines in rs["files"].items():
        if k[0] != "A" or skip_case:
            continue
        masks = [m for m, _ in rs["files"].get("C" + k[1:], [])]
        hit = any(m[i:i + 1] == "U" and w[i].upper() == w[i] for w, _ in lines for m in masks for i in range(min(len(w), len(m))))
        under_u |= hit
        no_lower |= hit and ("L" * int(k[1:])) not in masks
    structs = [s for s, _ in rs["grammar"]]
    return under_u, no_lower, len(structs) != len(set(structs))


# ------------------------------------------------------------------ the same expansions for the Coq model (Expand.v)

def expand_shards(expansions, max_pts, per_shard=150, max_lines=120):
    """expansions: [(grammar, [(pt, lines, count)])] as kept by the oracle.  The lines create_guesses wrote for a pre-terminal
    must be what Expand.expand computes from the LOADED groups of its slots (ExpandCorr.check_pt, as in the C04 shards), in
    order; Markov pre-terminals are left out here (their reference is the brute-force enumeration above).  Pre-terminals
    with a mask that has a U come first.  Returns [(name, coq source, [text of the pre-terminals])]."""
    import common
    CAT = {"M": 0, "C": 1}
    cand = []
    for g, per in expansions:
        for pt, lines, n in per:
            if lines is None or len(lines) > max_lines or any(t[0] == "M" for t, _ in pt):
                continue
            groups = [(t, list(g.grammar[t][ix]["values"])) for t, ix in pt]
            has_u = any(t[0] == "C" and any("U" in m for m in vals) for t, vals in groups)
            cand.append((not has_u, len(cand), groups, lines, n))
    cand.sort(key=lambda c: c[:2])
    cand = cand[:max_pts]
    shards = []
    for s in range(0, len(cand), per_shard):
        chunk = cand[s:s + per_shard]
        chars = set()
        lits, texts = [], []
        for _, _, groups, lines, n in chunk:
            for _, vals in groups:
                for v in vals:
                    chars.update(v)
            slots = common.clist(["(%d%%nat, %s)" % (CAT.get(t[0], 2), common.clist([common.cstr(v) for v in vals]) if vals else "(@nil str)")
                                  for t, vals in groups])
            call = "(None, Some (%s, %d%%nat))" % (common.clist([common.cstr(x) for x in lines]) if lines else "(@nil str)", n)
            lits.append("(%s,\n  [%s])" % (slots, call))
            texts.append(repr(groups)[:300])
        up = [(c, c.upper()) for c in sorted(chars) if c.upper() != c]
        src = ["From Coq Require Import List NArith.", "From Pcfg Require Import Expand ExpandCorr.", "Import ListNotations.",
               "Definition up : list (N * str) := %s." % (common.clist(["(%d%%N, %s)" % (ord(c), common.cstr(u)) for c, u in up]) if up else "[]"),
               "Definition om : list (str * list str) := [].",
               "Definition cases : list (list (nat * list str) * list call) := [", ";\n".join(lits), "].",
               "Eval vm_compute in (failing (check_pt up om) cases)."]
        shards.append(("x%04d" % (s // per_shard), "\n".join(src), texts))
    return shards
